import StepModel.LazyLemmas
import StepModel.LazyLoadTop
import StepModel.LazyScan
import StepModel.LazyScanFile
import StepModel.LazyScanGaps
import StepModel.LazyEager
import StepModel.LazyEagerMixed
import StepModel.Props.C01
/-!
# C10 — the lazy loader sees the same file as the eager reader

Model: `StepModel/Lazy.lean`.  `es` below is the list of instances of the data section in file order
(`Entry` = id, keyword, the ids it mentions in order); by `C10_scan_*` that list is what the byte scanner produces for a
rendered file, and everything else is stated for **all** `es`, all ids and all call histories — no size bound.
-/
namespace StepModel.Lazy
open StepModel.Generated

/-! ## the byte scanner -/

theorem skipWS_ws_append (ws : Bytes) (hws : ws.all isSpace = true) (c : Char) (hc : isSpace c = false) (r : Bytes) :
    skipWS (ws ++ c :: r) = c :: r := by
  induction ws with
  | nil => exact skipWS_nonspace c r hc
  | cons w t ih =>
    simp only [List.all_cons, Bool.and_eq_true] at hws
    simp [skipWS, hws.1, ih hws.2]

/-- **`seekInstanceEnd` finds the end of every rendered parameter list and collects exactly its references.**
    `ts` is any token list (references, strings, comments, parentheses, any other bytes) that is balanced inside one
    outer pair of parentheses; strings follow `GetLiteralStr`'s real rule: any bytes (backslashes and control directives included),
    apostrophes doubled, a single apostrophe after `\\S\\` (`SChar.sect`); the only exclusion is the rule's own ambiguity (an apostrophe pair or
    the closing apostrophe directly after the three bytes `\\S\\`, `strOkAux`); comment bodies (`cmtOk`)
    any bytes without `*/` in the source shape with the raw comment skipper (`commentsRaw`, C10-7; bodies without `*`, `/`, `'` in the
    old shape) — in particular `#`, `#12`, `(`, `)`, `;`, `=`, apostrophes and `/*`.  After the closing `)` any white space, then `;`.
    The scanner stops right after that `;` and reports the `#n` tokens, in order — nothing from inside strings or comments. -/
theorem C10_scan_body (ts : List Tok) (hall : ∀ t ∈ ts, t.ok = true) (hseq : seqOk ts = true)
    (hin : innerOk 1 ts = true) (hd : depthAfter 1 ts = 1)
    (ws : Bytes) (hws : ws.all isSpace = true) (rest : Bytes) (f : Nat)
    (hf : (renderToks ts).length + 4 ≤ f) :
    seekEnd f 0 [] ('(' :: (renderToks ts ++ ')' :: (ws ++ ';' :: rest))) = .ok (refsOfToks ts, rest) := by
  obtain ⟨f0, rfl⟩ : ∃ j, f = j + 1 := ⟨f - 1, by omega⟩
  obtain ⟨f', hk, he⟩ := seekEnd_toks 2 (by omega) ts hall hseq 1 [] (')' :: (ws ++ ';' :: rest)) f0 hin
    (fun c hc => by simp at hc; subst hc; decide) (by simp) (by omega)
  obtain ⟨f1, rfl⟩ : ∃ j, f' = j + 1 := ⟨f' - 1, by omega⟩
  have h1 : seekEnd (f0 + 1) 0 [] ('(' :: (renderToks ts ++ ')' :: (ws ++ ';' :: rest))) =
      seekEnd f0 1 [] (renderToks ts ++ ')' :: (ws ++ ';' :: rest)) := by
    simp [seekEnd]
  rw [h1, he, hd]
  obtain ⟨f2, rfl⟩ : ∃ j, f1 = j + 1 := ⟨f1 - 1, by omega⟩
  have hsk := skipWS_ws_append ws hws ';' (by decide) rest
  have hbt : betweenTokens (f2 + 1) (ws ++ ';' :: rest) = .ok (';' :: rest) := by
    unfold betweenTokens
    split
    · simp [skipWSC, hsk]
    · rw [hsk]
  simp (config := { decide := true }) [seekEnd, hbt]

/-- non-vacuity: `('it''s #5 (( ;',/*#7 ( ;*/ #12,(#3))` followed by ` ;` -/
example :
    let ts : List Tok := [.str [.plain 'i', .plain 't', .quote, .plain 's', .plain ' ', .sect, .plain '#', .plain '5',
        .plain '\\', .plain 'X', .plain '\\', .plain '2', .plain '7', .plain '(', .plain '(', .plain ';', .plain '\\', .plain '\\'], .other ',', .cmt ['#', '7', ' ', '(', ' ', ';'], .ref ['1', '2'],
        .other ',', .popen, .ref ['3'], .pclose]
    (∀ t ∈ ts, t.ok = true) ∧ seqOk ts = true ∧ innerOk 1 ts = true ∧ depthAfter 1 ts = 1 ∧
      refsOfToks ts = [12, 3] := by
  decide

/-! ## whole data sections -/

theorem mem_le_sum {α} (l : List α) (g : α → Nat) (a : α) (h : a ∈ l) : g a ≤ (l.map g).sum := by
  induction l with
  | nil => cases h
  | cons x t ih =>
    simp only [List.map_cons, List.sum_cons]
    rcases List.mem_cons.mp h with h1 | h1
    · subst h1; omega
    · have := ih h1; omega

theorem length_le_sum {α} (l : List α) (g : α → Nat) (h : ∀ a ∈ l, 1 ≤ g a) : l.length ≤ (l.map g).sum := by
  induction l with
  | nil => simp
  | cons x t ih =>
    simp only [List.map_cons, List.sum_cons, List.length_cons]
    have := h x (by simp)
    have := ih (fun a ha => h a (List.mem_cons_of_mem _ ha))
    omega

/-- **The scanner on a whole data section.**  `is` = any list of instances, each written as
    ws `#` ws digits ws `=` ws KEYWORD blanks `(` tokens `)` ws `;` (keyword empty for an externally mapped instance; tokens as in
    `C10_scan_body`: strings and comments may contain `#`, `(`, `)`, `;`, `=`), followed by ws `ENDSEC` ws `;` and anything.
    `scan` (the model of the `lazyP21DataSectionReader` constructor: `readInstanceNumber`, `getDelimitedKeyword` with the regenerated
    delimiters, `seekInstanceEnd`, the ENDSEC test) returns exactly these instances — id, keyword, references in order — in file
    order, and accepts the section.  No bound on the number or size of instances. -/
theorem C10_scan_file (is : List RInst) (hok : ∀ i ∈ is, i.Ok) (ws ws' rest : Bytes)
    (hws : ws.all isSpace = true) (hws' : ws'.all isSpace = true) :
    scan (renderAll is (endsec ws ws' rest)) = .ok (is.map RInst.entry, true) := by
  unfold scan
  have hL := renderAll_length is (endsec ws ws' rest)
  have h1 : ∀ i ∈ is, 1 ≤ (i.render []).length := by
    intro i _; simp [RInst.render]; omega
  have hn := length_le_sum is (fun i => (i.render []).length) h1
  have hfu : ∀ i ∈ is, (i.render []).length + 3 ≤ 4 * (renderAll is (endsec ws ws' rest)).length + 16 := by
    intro i hi
    have := mem_le_sum is (fun i => (i.render []).length) i hi
    omega
  have htail := nextInstance_endsec ws ws' rest hws (4 * (renderAll is (endsec ws ws' rest)).length + 15)
  have hse := sectionEnd_endsec ws ws' rest hws hws' (4 * (renderAll is (endsec ws ws' rest)).length + 15)
  rw [scanLoop_ok _ _ htail is hok hfu _ (by omega) [], hse]
  simp

/-- **The scanner on a whole data section, with comments wherever the repaired scanner accepts them** (regenerated flags
    `tokenComments`, `kwSpaceDelim`): every instance is written
    ws [comment ws] `#` ws digits GAP `=` GAP KEYWORD PRE `(` tokens `)` GAP `;` where GAP = white space and any number of comments
    (bodies `cmtOk`: any bytes without `*/` with the raw comment skipper — `#`, `(`, `)`, `;`, `=`, `'`, `/*` included; without `*`, `/`, `'`
    in the old source shape), PRE = white space (tabs and newlines included) and comments;
    the section ends with GAP `ENDSEC` ws `;`.  `scan` returns exactly the written ids, keywords and references in file order and
    accepts the section.  Before `#`: any number of comments in the repaired shape (`leadGap`, C10-5), one in the old. -/
theorem C10_scan_file_gaps (is : List RInstC) (hok : ∀ i ∈ is, i.Ok) (g : Gap) (hg : gapOk g = true) (ws ws' rest : Bytes)
    (hws : ws.all isSpace = true) (hws' : ws'.all isSpace = true) :
    scan (renderAllC is (endsecG g ws ws' rest)) = .ok (is.map RInstC.entry, true) := by
  unfold scan
  have hfold : ∀ (l : List RInstC) (tail : Bytes),
      (l.map (fun i => ((fun r => i.render r), i.entry))).foldr (fun p r => p.1 r) tail = renderAllC l tail := by
    intro l tail
    induction l with
    | nil => rfl
    | cons i t ih => simp only [List.map_cons, List.foldr_cons, ih]; rfl
  have hL := renderAllC_length is (endsecG g ws ws' rest)
  have h1 : ∀ i ∈ is, 1 ≤ (i.render []).length := by
    intro i _
    unfold RInstC.render
    cases i.lead with
    | none => simp [leadRender]; omega
    | some p => simp [leadRender]; omega
  have hn := length_le_sum is (fun i => (i.render []).length) h1
  have htail := nextInstance_endsecG g hg ws ws' rest hws (4 * (renderAllC is (endsecG g ws ws' rest)).length + 16) (by omega)
  have hse := sectionEnd_endsecG g hg ws ws' rest hws hws' (4 * (renderAllC is (endsecG g ws ws' rest)).length + 16) (by omega)
  have := scanLoop_pieces (4 * (renderAllC is (endsecG g ws ws' rest)).length + 16) (endsecG g ws ws' rest) htail
    (is.map (fun i => ((fun r => i.render r), i.entry)))
    (by
      intro p hp rest' hlen
      rw [List.mem_map] at hp
      obtain ⟨i, hi, rfl⟩ := hp
      exact nextInstance_gap i (hok i hi) rest' _ hlen)
    (by
      intro p hp rest'
      rw [List.mem_map] at hp
      obtain ⟨i, hi, rfl⟩ := hp
      have := renderC_length i rest'
      simp only; omega)
    (by rw [hfold]; omega)
    ((renderAllC is (endsecG g ws ws' rest)).length + 1) (by simp; omega) []
  rw [hfold] at this
  rw [this, hse]
  simp [List.map_map, Function.comp_def]

/-- the tie for keywords of any length: `getDelimitedKeyword` accumulates into an unbounded `std::string` (regenerated), as `kwLoop`
    does — `C10_scan_file` / `C10_scan_file_gaps` quantify over keywords of every length; a fixed buffer (seed C10-d2) flips this -/
theorem C10_keyword_unbounded : kwUnbounded = true := rfl

/-- the tie for the branches of `seekEnd`: the case labels of the `switch` in `seekInstanceEnd` (regenerated) are exactly the characters
    the model dispatches on, in `seekEnd`'s order; a `case` added to or removed from the source changes the constant and this no longer
    elaborates -/
theorem C10_seek_cases : seekCases = ['(', '/', '\'', '=', '#', ')'] := rfl

/-- the tie for when inverse attributes are resolved: only at load depth 0 (regenerated from `lazyInstMgr::loadInstance`; fix C11-4) — the
    shape `loadTop` models (the pending list is drained after the read recursion has returned, never inside it) -/
theorem C10_source_refs_deferred : refsDeferred = true := rfl

/-- non-vacuity: `/*l #9*/ #12 /*c (*/ = /*e ;*/ ND` tab `/*k*/ ('a',#3) /*s )*/ ;` is a well-formed written instance -/
example :
    let i : RInstC := ⟨[' '], some (['l', ' ', '#', '9'], [' ']), [], ['1', '2'], [([' '], ['c', ' ', '('])], [' '],
      [([' '], ['e', ' ', ';'])], [' '], ['N', 'D'], [.other '\t', .cmt ['k']],
      [.str [.plain 'a'], .other ',', .ref ['3']], [([' '], ['s', ' ', ')'])], [' ']⟩
    i.Ok ∧ i.entry = ⟨12, ['N', 'D'], [3]⟩ := by
  refine ⟨?_, by decide⟩
  constructor <;> decide

/-- the reading of `\S\` the scanner shares with the eager reader (`GetLiteralStr`): an apostrophe directly after `\S\` does
    not close the string.  `'a\S\',$)` is therefore an unterminated literal (the directive lacks its character; not a conforming
    string), and `'a\S\''` ends after the second apostrophe - this is why `strOkAux` excludes these two spellings -/
theorem C10_string_sbs_witness :
    strRest ['\'', 'a', '\\', 'S', '\\', '\'', ',', '$', ')'] = [] ∧
    strRest ['\'', 'a', '\\', 'S', '\\', '\'', '\'', ',', '$'] = [',', '$'] := by
  decide

/-- **files with several data sections**: after the first `ENDSEC;` the loader tests for `END-ISO-10303-21;` with `needKW`, which
    consumes the `D` of a following `DATA`, so the test for `DATA` fails as well ("Corrupted file") — no second section is ever
    entered, whatever follows.  The lazy index is therefore always that of the first data section; the eager reader (observed,
    corpus `two-data-sections`) stops after the first `ENDSEC;` too, so the two agree on such files. -/
theorem C10_second_section_never_read (ws rest : Bytes) (hws : ws.all isSpace = true) :
    nextSection (ws ++ 'D' :: 'A' :: 'T' :: 'A' :: rest) = none ∧
    nextSection (ws ++ "END-ISO-10303-21;".toList ++ rest) = none := by
  constructor
  · unfold nextSection
    rw [skipWS_ws ws hws 'D' (by decide) _]
    simp [needKW]
  · unfold nextSection
    have : ws ++ "END-ISO-10303-21;".toList ++ rest = ws ++ 'E' :: ("ND-ISO-10303-21;".toList ++ rest) := by simp
    rw [this, skipWS_ws ws hws 'E' (by decide) _]
    simp [needKW]

/-- **index = what the file denotes**: ids and keywords (and mentions) of the lazy index are those written in the file -/
theorem C10_index (is : List RInst) (hok : ∀ i ∈ is, i.Ok) (ws ws' rest : Bytes)
    (hws : ws.all isSpace = true) (hws' : ws'.all isSpace = true) :
    ∃ es, scan (renderAll is (endsec ws ws' rest)) = .ok (es, true) ∧
      (build es).entries = is.map RInst.entry ∧
      ∀ k, (build es).fwd.find k = fwdSpec (is.map RInst.entry) k :=
  ⟨_, C10_scan_file is hok ws ws' rest hws hws', by simp [build, foldl_addLazy_entries],
    fun k => by simp [build, foldl_addLazy_fwd, MM.find]⟩

/-- non-vacuity: ` #12 = ND ('a''#(;',#3)` newline `;` is a well-formed written instance with entry (12, ND, [3]) -/
example :
    let i : RInst := ⟨[' '], [], ['1', '2'], [' '], [' '], ['N', 'D'], 1,
      [.str [.plain 'a', .quote, .plain '#', .plain '(', .plain ';'], .other ',', .ref ['3']], ['\n']⟩
    i.Ok ∧ i.entry = ⟨12, ['N', 'D'], [3]⟩ := by
  refine ⟨?_, by decide⟩
  constructor <;> decide

/-! ## the index tables -/

/-- the index lists exactly the scanned instances, in file order (ids and keywords) -/
theorem C10_index_entries (es : List Entry) : (build es).entries = es := by
  simp [build, foldl_addLazy_entries]

/-- `getInstances(kw)` = the ids of the instances with that keyword -/
theorem C10_index_by_keyword (es : List Entry) (kw : Bytes) :
    (build es).instancesOf kw = (es.filter (fun e => e.kw == kw)).map (·.id) := by
  simp [Index.instancesOf, C10_index_entries]

/-- forward table: instance `k` ↦ precisely the instances it mentions, in order -/
theorem C10_fwd_exact (es : List Entry) (k : Nat) : (build es).fwd.find k = fwdSpec es k := by
  simp [build, foldl_addLazy_fwd, MM.find]

/-- reverse table: `k` ↦ one entry per mention of `k` -/
theorem C10_rev_exact (es : List Entry) (k : Nat) : (build es).rev.find k = revSpec es k := by
  simp [build, foldl_addLazy_rev, MM.find]

/-- the reverse table is the exact transpose of the forward table (with multiplicities) -/
theorem C10_rev_transpose (es : List Entry) (a b : Nat) :
    ((build es).rev.find a).count b = ((build es).fwd.find b).count a := by
  rw [C10_rev_exact, C10_fwd_exact, count_revSpec]

theorem C10_rev_transpose_mem (es : List Entry) (a b : Nat) :
    b ∈ (build es).rev.find a ↔ a ∈ (build es).fwd.find b := by
  rw [← List.count_pos_iff, ← List.count_pos_iff, C10_rev_transpose]

/-! ## instanceDependencies -/

/-- the worklist terminates (within the fuel the model gives it) and returns exactly the reflexive-free transitive
    closure of the forward table -/
theorem C10_deps_closure (es : List Entry) (id : Nat) :
    ∃ d, deps (build es) id = .ok d ∧
      ∀ j, j ∈ d ↔ Reach (fun a b => b ∈ (build es).fwd.find a) id j := by
  obtain ⟨d, hd⟩ := depsLoop_terminates (build es).fwd (depsFuel (build es).fwd id) ((build es).fwd.find id) []
    (by simp [depsFuel, pot])
  refine ⟨d, hd, ?_⟩
  have := depsLoop_inv (build es).fwd.find id _ _ _ d hd
    (fun x hx => by
      rcases hx with hx | hx
      · exact Reach.single hx
      · cases hx)
    ⟨fun x hx => Or.inl hx, fun c hc => by cases hc⟩
  intro j
  exact ⟨this.1 j, closed_reach _ id d this.2 j⟩

/-- an instance is among its own dependencies exactly when it lies on a reference cycle -/
theorem C10_deps_self_iff_cycle (es : List Entry) (id : Nat) (d : List Nat) (h : deps (build es) id = .ok d) :
    id ∈ d ↔ Reach (fun a b => b ∈ fwdSpec es a) id id := by
  obtain ⟨d', hd', hiff⟩ := C10_deps_closure es id
  rw [h] at hd'
  cases hd'
  rw [hiff]
  have : (fun a b => b ∈ (build es).fwd.find a) = (fun a b => b ∈ fwdSpec es a) := by
    funext a b; rw [C10_fwd_exact]
  rw [this]

/-! ## loadInstance -/

/-- the invariant of the top-level loader states: from the empty cache every history ends in a well-formed cache without
    half-read objects that contains every requested instance of the file -/
theorem loadAll_spec (es : List Entry) (fuel : Nat) (hf : es.length < fuel) :
    ∀ (ids : List Nat) (c0 : Cache), WF es c0 → (∀ x, isPend c0 x = false) →
      ∃ c, loadAll true es fuel c0 ids = .ok (c, ids.map (known es)) ∧ Ext c0 c ∧ WF es c ∧
        (∀ x, isPend c x = false) ∧ (∀ id ∈ ids, known es id = true → c.has id = true) := by
  intro ids
  induction ids with
  | nil => intro c0 hw hp; exact ⟨c0, rfl, Ext.refl _, hw, hp, fun _ h => by cases h⟩
  | cons i t ih =>
    intro c0 hw hp
    have hu : U es c0 < fuel := by
      have : U es c0 ≤ es.length := by unfold U; exact List.length_filter_le _ _
      omega
    obtain ⟨c1, h1, e1, w1, p1, k1⟩ := load_spec es fuel c0 i hu hw
    have hp1 : ∀ x, isPend c1 x = false := by
      intro x
      cases hx : isPend c1 x with
      | false => rfl
      | true => have := p1 x hx; rw [hp x] at this; cases this
    obtain ⟨c2, h2, e2, w2, p2, k2⟩ := ih c1 w1 hp1
    refine ⟨c2, ?_, e1.trans e2, w2, p2, ?_⟩
    · simp only [loadAll, h1, h2, List.map_cons]
    · intro id hid hk
      rcases List.mem_cons.mp hid with h | h
      · subst h; exact e2 _ (k1 hk)
      · exact k2 id h hk

/-- **The read recursion alone** (`loadInstance → getRealInstance → STEPread → FindFileId → loadInstance`, model `load` / `loadAll`;
    the depth-0 inverse-attribute step is added in `C10_load_any_order` below, which is the statement about `loadInstance` itself).
    Any history of such reads (any order, with repetitions, including ids the file does not have), for any
    population — cyclic ones included: every call returns (no unbounded recursion, fuel = number of instances + 1
    suffices), returns non-null exactly for the ids in the file, every requested instance is in the cache, and every
    object in the cache has each of its references resolved exactly as the eager reader resolves it — independent of
    the history.  Rests on `cacheBeforeRead = true`, which is regenerated from `sectionReader::getRealInstance`. -/
theorem C10_read_recursion_any_order (es : List Entry) (ids : List Nat) (fuel : Nat) (hf : es.length < fuel) :
    ∃ c, loadAll cacheBeforeRead es fuel [] ids = .ok (c, ids.map (known es)) ∧
      (∀ o ∈ c, known es o.id = true ∧ o.resolved = expected es o.id) ∧
      (∀ id ∈ ids, known es id = true → c.has id = true) := by
  have hcb : cacheBeforeRead = true := rfl
  rw [hcb]
  obtain ⟨c, h, _, w, p, k⟩ := loadAll_spec es fuel hf ids [] (fun o ho => by cases ho) (fun x => rfl)
  refine ⟨c, h, ?_, k⟩
  intro o ho
  refine ⟨(w o ho).1, ?_⟩
  rcases (w o ho).2.1 with h0 | h0
  · have : isPend c o.id = true := by
      unfold isPend; rw [List.any_eq_true]; exact ⟨o, ho, by simp [h0]⟩
    rw [p o.id] at this; cases this
  · exact h0

/-- **the loaded set contains the dependency closure**: after any history, for every requested instance of the file, every
    instance of the file it reaches through references (at any depth — no bound) is loaded too -/
theorem C10_read_recursion_contains_deps (es : List Entry) (ids : List Nat) (fuel : Nat) (hf : es.length < fuel) :
    ∃ c, loadAll cacheBeforeRead es fuel [] ids = .ok (c, ids.map (known es)) ∧
      ∀ id ∈ ids, known es id = true → ∀ j, Reach (Mentions es) id j → known es j = true → c.has j = true := by
  have hcb : cacheBeforeRead = true := rfl
  rw [hcb]
  obtain ⟨c, h, _, w, p, k⟩ := loadAll_spec es fuel hf ids [] (fun o ho => by cases ho) (fun x => rfl)
  refine ⟨c, h, ?_⟩
  -- one step: a cached instance's known references are cached
  have step : ∀ a b, c.has a = true → Mentions es a b → known es b = true → c.has b = true := by
    intro a b ha hm hkb
    obtain ⟨refs, hr, hb⟩ := hm
    unfold Cache.has at ha
    rw [List.any_eq_true] at ha
    obtain ⟨o, ho, hoid⟩ := ha
    have hoid' : o.id = a := by simpa using hoid
    have hne : o.resolved ≠ none := by
      intro h0
      have : isPend c o.id = true := by
        unfold isPend; rw [List.any_eq_true]; exact ⟨o, ho, by simp [h0]⟩
      rw [p o.id] at this; cases this
    exact (w o ho).2.2 hne refs (by rw [hoid']; exact hr) b hb hkb
  intro id hid hk j hreach
  induction hreach with
  | single hm => exact step id _ (k id hid hk) hm
  | tail hprev hm ihm =>
    intro hkj
    rename_i m j'
    have hkm : known es m = true := by
      obtain ⟨refs, hr, _⟩ := hm
      simp [known, hr]
    exact step m j' (ihm hkm) hm hkj

/-- **the loaded set is exactly the requested instances and their dependency closure**: after any history an instance is in
    the cache iff it is an instance of the file that was requested or is reached from a requested instance of the file -/
theorem C10_read_recursion_set_exact (es : List Entry) (ids : List Nat) (fuel : Nat) (hf : es.length < fuel) :
    ∃ c, loadAll cacheBeforeRead es fuel [] ids = .ok (c, ids.map (known es)) ∧
      ∀ x, c.has x = true ↔ known es x = true ∧ ∃ id ∈ ids, known es id = true ∧ (x = id ∨ Reach (Mentions es) id x) := by
  obtain ⟨c, h, hdeps⟩ := C10_read_recursion_contains_deps es ids fuel hf
  obtain ⟨c2, h2, hobj, hreq⟩ := C10_read_recursion_any_order es ids fuel hf
  have hcb : cacheBeforeRead = true := rfl
  rw [hcb] at h h2
  rw [h] at h2
  have hcc : c = c2 := by injection h2 with h3; injection h3
  subst hcc
  refine ⟨c, by rw [hcb]; exact h, fun x => ⟨fun hx => ?_, fun hx => ?_⟩⟩
  · have hkx : known es x = true := by
      unfold Cache.has at hx
      rw [List.any_eq_true] at hx
      obtain ⟨o, ho, hox⟩ := hx
      have : o.id = x := by simpa using hox
      rw [← this]; exact (hobj o ho).1
    refine ⟨hkx, ?_⟩
    rcases loadAll_new es fuel ids [] c _ h x hx with h0 | ⟨id, hid, hxid⟩
    · simp [Cache.has] at h0
    · refine ⟨id, hid, ?_, hxid⟩
      rcases hxid with e | e
      · rw [← e]; exact hkx
      · -- the first step of the path leaves an instance of the file
        have : ∀ a b, Reach (Mentions es) a b → known es a = true := by
          intro a b hr
          induction hr with
          | single hm => obtain ⟨refs, hr', _⟩ := hm; simp [known, hr']
          | tail _ _ ih => exact ih
        exact this id x e
  · obtain ⟨hkx, id, hid, hkid, hxid⟩ := hx
    rcases hxid with e | e
    · rw [e]; exact hreq id hid hkid
    · exact hdeps id hid hkid x e hkx

/-! ### `loadInstance` itself: the read recursion and, at load depth 0, the inverse-attribute step

`loadHist` / `loadTop` (`Lazy.lean`): after the read recursion every newly loaded instance is pending; for each pending instance
`lazyRefs` loads every candidate referrer (`cands x`: for the code `candsOf es inv x` — the instances that mention `x` and whose keyword
is the inverted entity, or a subtype, of an inverse attribute of `x`'s entity) by further depth-0 calls, and keeps it loaded whether
it refers to `x` through the inverted attribute or not.  The theorems hold for every candidate function whose values are instances of
the file, and for every order in which the pending list is filled. -/

theorem inv_empty (es : List Entry) (cands : Nat → List Nat) : Inv es cands [] (([] : Cache), []) := by
  refine ⟨fun o ho => (by cases ho), fun _ => rfl, fun _ h => (by cases h), fun x hx => ?_⟩
  simp [Cache.has] at hx

theorem candsOf_known (es : List Entry) (inv : Bytes → List Bytes) (x r : Nat) (h : r ∈ candsOf es inv x) : known es r = true := by
  unfold candsOf at h
  cases hf : es.find? (fun e => e.id == x) with
  | none => simp [hf] at h
  | some ex =>
    simp only [hf, List.mem_eraseDups, List.mem_map, List.mem_filter] at h
    obtain ⟨e, ⟨he, _⟩, hid⟩ := h
    unfold known refsOf
    cases hr : es.find? (fun e => e.id == r) with
    | none =>
      rw [List.find?_eq_none] at hr
      exact absurd (by simp [hid]) (hr e he)
    | some _ => rfl

/-- **Any history of `loadInstance` calls** (any order, repetitions, ids the file does not have), any population (cyclic ones
    included), any schema — with or without INVERSE attributes: every call returns (fuel = number of instances + 1 bounds the nesting of
    depth-0 calls), non-null exactly for the ids of the file; afterwards no instance is pending or half-read, every requested instance
    is cached and every cached object has each reference resolved exactly as the eager reader resolves it.  Rests on the regenerated
    `cacheBeforeRead` and `refsDeferred` (inverse attributes are resolved only at load depth 0). -/
theorem C10_load_any_order (es : List Entry) (cands : Nat → List Nat) (ord : List Nat → List Nat)
    (hk : ∀ x r, r ∈ cands x → known es r = true) (hord : ∀ l x, x ∈ ord l ↔ x ∈ l)
    (ids : List Nat) (fuel : Nat) (hf : es.length < fuel) :
    ∃ c, loadHist es cands ord fuel ([], []) ids = .ok ((c, []), ids.map (known es)) ∧
      (∀ o ∈ c, known es o.id = true ∧ o.resolved = expected es o.id) ∧
      (∀ id ∈ ids, known es id = true → c.has id = true) := by
  have hi0 := inv_empty es cands
  obtain ⟨c, h, _, i, k, _⟩ := loadHist_spec es cands ord hk hord fuel hf ids [] hi0
  refine ⟨c, h, ?_, k⟩
  intro o ho
  refine ⟨(i.wf o ho).1, ?_⟩
  rcases (i.wf o ho).2.1 with h0 | h0
  · have : isPend c o.id = true := by
      unfold isPend; rw [List.any_eq_true]; exact ⟨o, ho, by simp [h0]⟩
    rw [i.np o.id] at this; cases this
  · exact h0

/-- **the loaded set, exactly**: after any history of `loadInstance` calls an instance is loaded iff it is an instance of the file that
    was requested or is reached from a requested instance of the file along `Step` — forward reference, or candidate referrer of a
    loaded instance — at any depth.  With INVERSE attributes in the schema this is more than the dependency closure: instances that
    merely refer to a loaded instance through an attribute some inverse attribute inverts — and instances of such an entity that
    mention it through any other attribute — are loaded and stay loaded (`//TODO _lim->unload` in `loadInstIFFreferent`). -/
theorem C10_loaded_set_exact (es : List Entry) (cands : Nat → List Nat) (ord : List Nat → List Nat)
    (hk : ∀ x r, r ∈ cands x → known es r = true) (hks : ∀ x, known es x = false → cands x = [])
    (hord : ∀ l x, x ∈ ord l ↔ x ∈ l) (ids : List Nat) (fuel : Nat) (hf : es.length < fuel) :
    ∃ c, loadHist es cands ord fuel ([], []) ids = .ok ((c, []), ids.map (known es)) ∧
      ∀ x, c.has x = true ↔
        known es x = true ∧ ∃ id ∈ ids, known es id = true ∧ (x = id ∨ Reach (Step es cands) id x) := by
  have hi0 := inv_empty es cands
  obtain ⟨c, h, _, i, k, n⟩ := loadHist_spec es cands ord hk hord fuel hf ids [] hi0
  refine ⟨c, h, fun x => ⟨fun hx => ?_, fun hx => ?_⟩⟩
  · refine ⟨has_known i.wf hx, ?_⟩
    rcases n x hx with h0 | h0
    · simp [Cache.has] at h0
    · exact h0
  · obtain ⟨hkx, id, hid, hkid, hxid⟩ := hx
    -- one step: from a cached instance to an instance of the file
    have step : ∀ a b, c.has a = true → Step es cands a b → known es b = true → c.has b = true := by
      intro a b ha hs hkb
      rcases hs with hm | hc
      · obtain ⟨refs, hr, hb⟩ := hm
        unfold Cache.has at ha
        rw [List.any_eq_true] at ha
        obtain ⟨o, ho, hoid⟩ := ha
        have hoid' : o.id = a := by simpa using hoid
        have hne : o.resolved ≠ none := by
          intro h0
          have : isPend c o.id = true := by
            unfold isPend; rw [List.any_eq_true]; exact ⟨o, ho, by simp [h0]⟩
          rw [i.np o.id] at this; cases this
        exact (i.wf o ho).2.2 hne refs (by rw [hoid']; exact hr) b hb hkb
      · exact i.cl a ha (by simp) (by simp) b hc
    -- a step leaves an instance of the file
    have src : ∀ a b, Step es cands a b → known es a = true := by
      intro a b hs
      rcases hs with ⟨refs, hr, _⟩ | hc
      · simp [known, hr]
      · cases hka : known es a with
        | true => rfl
        | false => rw [hks a hka] at hc; cases hc
    rcases hxid with e | e
    · rw [e]; exact k id hid hkid
    · have : ∀ y, Reach (Step es cands) id y → known es y = true → c.has y = true := by
        intro y hr
        induction hr with
        | single hs => exact fun hky => step _ _ (k id hid hkid) hs hky
        | tail hr' hs ih => exact fun hky => step _ _ (ih (src _ _ hs)) hs hky
      exact this x e hkx

theorem candsOf_unknown (es : List Entry) (inv : Bytes → List Bytes) (x : Nat) (h : known es x = false) : candsOf es inv x = [] := by
  unfold known refsOf at h
  unfold candsOf
  cases hf : es.find? (fun e => e.id == x) with
  | none => rfl
  | some _ => simp [hf] at h

/-- the same for the candidate function of the code (`candsOf`: reverse references filtered by the keywords `inv` hands in for the
    instance's own keyword), with no hypothesis left: `y` is loaded iff it is an instance of the file that was requested or is reached
    from a requested instance along "is mentioned by" and "mentions, and has a keyword among the candidate keywords of" -/
theorem C10_loaded_set_exact_code (es : List Entry) (inv : Bytes → List Bytes) (ids : List Nat) (fuel : Nat) (hf : es.length < fuel) :
    ∃ c, loadHist es (candsOf es inv) (fun l => l) fuel ([], []) ids = .ok ((c, []), ids.map (known es)) ∧
      ∀ x, c.has x = true ↔
        known es x = true ∧ ∃ id ∈ ids, known es id = true ∧ (x = id ∨ Reach (Step es (candsOf es inv)) id x) :=
  C10_loaded_set_exact es (candsOf es inv) (fun l => l) (candsOf_known es inv) (candsOf_unknown es inv) (fun _ _ => Iff.rfl) ids fuel hf

/-- a candidate referrer `lazyRefs` loads is an indexed instance that mentions the instance and whose keyword is one of the candidate
    keywords of the instance's own keyword -/
theorem candsOf_mem (es : List Entry) (inv : Bytes → List Bytes) (x r : Nat) (h : r ∈ candsOf es inv x) :
    ∃ ex ∈ es, ex.id = x ∧ ∃ e ∈ es, e.id = r ∧ x ∈ e.refs ∧ e.kw ∈ inv ex.kw := by
  unfold candsOf at h
  cases hf : es.find? (fun e => e.id == x) with
  | none => simp [hf] at h
  | some ex =>
    simp only [hf, List.mem_eraseDups, List.mem_map, List.mem_filter, Bool.and_eq_true, List.contains_iff_mem] at h
    obtain ⟨e, ⟨he, h1, h2⟩, hid⟩ := h
    exact ⟨ex, List.mem_of_find?_eq_some hf, by simpa using List.find?_some hf, e, he, hid, h1, h2⟩

/-- **an instance indexed under the empty keyword is never a candidate referrer** — and externally mapped instances are indexed under
    the empty keyword (`C10_index_equals_eager_mixed_partial`): whatever inverse attributes the schema declares (no entity has the empty
    name), `lazyRefs` never loads an externally mapped instance as a referrer of another instance.  This is, at the loader's level, the
    root of C11's kept finding `complex-referrer`, and it bounds the loaded set of `C10_loaded_set_exact_code` from above -/
theorem C10_complex_instance_never_candidate (es : List Entry) (inv : Bytes → List Bytes) (hinv : ∀ k, [] ∉ inv k)
    (hid : (es.map (·.id)).Nodup) (x r : Nat) (h : r ∈ candsOf es inv x) :
    ∀ e ∈ es, e.id = r → e.kw ≠ [] := by
  obtain ⟨ex, _, _, e0, he0, hr0, _, hk⟩ := candsOf_mem es inv x r h
  intro e he hr hkw
  have : e = e0 := by
    have hnd : ∀ (l : List Entry), (l.map (·.id)).Nodup → ∀ a ∈ l, ∀ b ∈ l, a.id = b.id → a = b := by
      intro l
      induction l with
      | nil => intro _ a ha; cases ha
      | cons h0 t ih =>
        intro hd a ha b hb hab
        simp only [List.map_cons, List.nodup_cons, List.mem_map, not_exists, not_and] at hd
        rcases List.mem_cons.mp ha with ha1 | ha1 <;> rcases List.mem_cons.mp hb with hb1 | hb1
        · rw [ha1, hb1]
        · rw [ha1] at hab; exact absurd hab.symm (hd.1 b hb1)
        · rw [hb1] at hab; exact absurd hab (hd.1 a ha1)
        · exact ih hd.2 a ha1 b hb1 hab
    exact hnd es hid e he e0 he0 (by rw [hr, hr0])
  rw [this] at hkw
  rw [hkw] at hk
  exact hinv _ hk

/-- … in particular the loaded set **contains** the dependency closure of every requested instance -/
theorem C10_load_contains_deps (es : List Entry) (cands : Nat → List Nat) (ord : List Nat → List Nat)
    (hk : ∀ x r, r ∈ cands x → known es r = true) (hks : ∀ x, known es x = false → cands x = [])
    (hord : ∀ l x, x ∈ ord l ↔ x ∈ l) (ids : List Nat) (fuel : Nat) (hf : es.length < fuel) :
    ∃ c, loadHist es cands ord fuel ([], []) ids = .ok ((c, []), ids.map (known es)) ∧
      ∀ id ∈ ids, known es id = true → ∀ j, Reach (Mentions es) id j → known es j = true → c.has j = true := by
  obtain ⟨c, h, hx⟩ := C10_loaded_set_exact es cands ord hk hks hord ids fuel hf
  exact ⟨c, h, fun id hid hkid j hr hkj =>
    (hx j).mpr ⟨hkj, id, hid, hkid, Or.inr (Reach.mono (fun a b hab => Or.inl hab) hr)⟩⟩

/-- **schemas without INVERSE attributes** (no instance has a candidate referrer): the loaded set is exactly the requested instances
    and their dependency closure -/
theorem C10_loaded_set_no_inverse (es : List Entry) (ord : List Nat → List Nat) (hord : ∀ l x, x ∈ ord l ↔ x ∈ l)
    (ids : List Nat) (fuel : Nat) (hf : es.length < fuel) :
    ∃ c, loadHist es (fun _ => []) ord fuel ([], []) ids = .ok ((c, []), ids.map (known es)) ∧
      ∀ x, c.has x = true ↔
        known es x = true ∧ ∃ id ∈ ids, known es id = true ∧ (x = id ∨ Reach (Mentions es) id x) := by
  obtain ⟨c, h, hx⟩ := C10_loaded_set_exact es (fun _ => []) ord (fun _ _ h => by cases h) (fun _ _ => rfl) hord ids fuel hf
  refine ⟨c, h, fun x => ?_⟩
  rw [hx x]
  have e1 : ∀ a b, Reach (Step es (fun _ => [])) a b → Reach (Mentions es) a b :=
    fun a b hr => Reach.mono (fun p q hs => by rcases hs with hs | hs; exact hs; cases hs) hr
  have e2 : ∀ a b, Reach (Mentions es) a b → Reach (Step es (fun _ => [])) a b :=
    fun a b hr => Reach.mono (fun p q hs => Or.inl hs) hr
  constructor
  · rintro ⟨hkx, id, hid, hkid, h | h⟩
    · exact ⟨hkx, id, hid, hkid, Or.inl h⟩
    · exact ⟨hkx, id, hid, hkid, Or.inr (e1 _ _ h)⟩
  · rintro ⟨hkx, id, hid, hkid, h | h⟩
    · exact ⟨hkx, id, hid, hkid, Or.inl h⟩
    · exact ⟨hkx, id, hid, hkid, Or.inr (e2 _ _ h)⟩

/-- `_witness` for the INVERSE case (executed): `#1=ND('a',$); #2=ND('b',#1); #3=GRP('g',(#1),0); #4=ND('c',$); #5=ND('d',#2);` over a
    schema in which `nd` has `INVERSE prevs : SET OF nd FOR nxt; in_grps : SET OF grp FOR items;`.  `loadInstance(1)` leaves #1, #2, #3 and
    #5 loaded — #2 and #3 refer to #1, #5 to #2; none of them is in the dependency closure of #1 (which is empty) — and #4 unloaded;
    without the inverse attributes only #1.  Replayed on the code: corpus `inverse-referrers-loaded`. -/
theorem C10_loaded_set_inverse_witness :
    let es : List Entry := [⟨1, "ND".toList, []⟩, ⟨2, "ND".toList, [1]⟩, ⟨3, "GRP".toList, [1]⟩, ⟨4, "ND".toList, []⟩, ⟨5, "ND".toList, [2]⟩]
    let inv : Bytes → List Bytes := fun k => if k == "ND".toList then ["ND".toList, "GRP".toList] else []
    (match loadHist es (candsOf es inv) (fun l => l) 6 ([], []) [1] with
     | .ok ((c, p), bs) => some (c.map (·.id), p, bs) | _ => none) = some ([1, 2, 5, 3], [], [true]) ∧
    (match loadHist es (fun _ => []) (fun l => l) 6 ([], []) [1] with
     | .ok ((c, p), bs) => some (c.map (·.id), p, bs) | _ => none) = some ([1], [], [true]) := by
  decide

/-- The code as it was (instance cached only after `getRealInstance` returns): on the two-instance cycle
    `#1=N('a',#2); #2=N('b',#1);` `loadInstance(1)` never returns — for every fuel the model runs out of it
    (the C++ overflows the stack: SIGSEGV, replayed by `checks/c10.py`, corpus `cycle2`). -/
theorem C10_load_cycle_witness (kw : Bytes) : ∀ fuel,
    load false [⟨1, kw, [2]⟩, ⟨2, kw, [1]⟩] fuel [] 1 = .outOfFuel ∧
    load false [⟨1, kw, [2]⟩, ⟨2, kw, [1]⟩] fuel [] 2 = .outOfFuel := by
  intro fuel
  induction fuel with
  | zero => exact ⟨rfl, rfl⟩
  | succ f ih =>
    constructor
    · simp [load, Cache.has, refsOf, loadRefsWith, ih.2]
    · simp [load, Cache.has, refsOf, loadRefsWith, ih.1]

/-- hypotheses are satisfiable: the same cycle loads fine with the cache entered before the attributes are read -/
example : (match loadAll true [⟨1, [], [2]⟩, ⟨2, [], [1]⟩] 3 [] [1, 2, 1] with
    | .ok (c, bs) => bs == [true, true, true] && c.length == 2
    | _ => false) = true := by decide

example : deps (build [⟨1, [], [2]⟩, ⟨2, [], [1, 3]⟩, ⟨3, [], []⟩]) 1 = .ok [3, 1, 2] := by decide


/-! ## the lazy index equals what the eager reader creates — a theorem between the two models -/

section Eager
open StepModel.P21 StepModel.P21.RLemmas StepModel.P21.Lemmas StepModel.P21.Grammar StepModel.P21.C01
variable {F : Type}

theorem toUpper_id (a : Nat) (h : (StepModel.isUpper a || StepModel.isDigit a || a == 95) = true) :
    StepModel.toUpper a = a := by
  have hl : StepModel.isLower a = false := by
    unfold StepModel.isUpper StepModel.isDigit at h
    unfold StepModel.isLower
    simp only [Bool.or_eq_true, Bool.and_eq_true, decide_eq_true_eq, beq_iff_eq] at h
    simp only [Bool.and_eq_false_iff, decide_eq_false_iff_not]
    have h1 : (65 ≤ a ∧ a ≤ 90) ∨ (48 ≤ a ∧ a ≤ 57) ∨ a = 95 := by
      rcases h with (h | h) | h
      · exact Or.inl h
      · exact Or.inr (Or.inl h)
      · exact Or.inr (Or.inr h)
    show ¬ (97 ≤ a) ∨ ¬ (a ≤ 122)
    omega
  simp [StepModel.toUpper, hl]

theorem upperBytes_id : ∀ (l : List Nat), l.all (fun b => StepModel.isUpper b || StepModel.isDigit b || b == 95) = true →
    upperBytes l = l := by
  intro l
  induction l with
  | nil => intro _; rfl
  | cons a t ih =>
    intro h
    simp only [List.all_cons, Bool.and_eq_true] at h
    show StepModel.toUpper a :: upperBytes t = a :: t
    rw [toUpper_id a h.1, ih h.2]

theorem flatMap_congr_mem {α β} (f g : α → List β) : ∀ l : List α, (∀ x ∈ l, f x = g x) → l.flatMap f = l.flatMap g := by
  intro l
  induction l with
  | nil => intro _; rfl
  | cons a t ih =>
    intro h
    simp only [List.flatMap_cons]
    rw [h a (by simp), ih (fun x hx => h x (List.mem_cons_of_mem _ hx))]

/-- the entity references an eagerly read instance holds, in attribute order (`valRefs`: the references in one stored value) -/
def instRefs (i : MInst F) : List Nat := i.parts.flatMap (fun p => p.vals.flatMap valRefs)

/-! #### every covered parameter of the eager reader is a token sequence the lazy scanner passes (`LSeq`), with exactly the references
of the value the eager reader stores -/

theorem ref_ok (ds : List Nat) (h : ((StepModel.digitsVal ds 0 : Nat) : Int) ≤ IStream.intMax) :
    StepModel.digitsVal ds 0 ≤ instanceIdMax := by
  have h' : ((StepModel.digitsVal ds 0 : Nat) : Int) ≤ 2147483647 := h
  show _ ≤ 18446744073709551615
  omega

theorem wrap_lplain (q : Nat) (hq : lplain q = true) (l : List Nat) (hl : l.all lplain = true) : (q :: (l ++ [q])).all lplain = true := by
  simp only [List.all_cons, List.all_append, List.all_nil, Bool.and_true, Bool.and_eq_true]
  exact ⟨hq, hl, hq⟩

theorem spaces_safe (sC : List Nat) (h : sC.all StepModel.isSpace = true) :
    sC.head? ≠ some 39 ∧ ∀ c, sC.head? = some c → StepModel.isDigit c = false := by
  cases sC with
  | nil => simp
  | cons a u =>
    have := seps_then_safe (a :: u) (Seps.blanks _ h) 44 [] (by decide) (by decide)
    simpa using this

/-- a typed SELECT value `KEYWORD blanks ( blanks leaf blanks )` whose leaf is passed without references -/
theorem selText_lseq (n0 : Nat) (ns : List Nat) (hn0 : StepModel.isAlpha n0 = true) (hns : ns.all kwc = true)
    (tok : List Nat) (htok : LSeq tok []) (sA sB sC : List Nat) (hsA : sA.all StepModel.isSpace = true)
    (hsB : sB.all StepModel.isSpace = true) (hsC : sC.all StepModel.isSpace = true) : LSeq (selText n0 ns sA sB tok sC) [] := by
  have e : selText n0 ns sA sB tok sC = (n0 :: ns) ++ (sA ++ (40 :: ((sB ++ (tok ++ sC)) ++ 41 :: []))) := by simp [selText]
  rw [e]
  have hkw : (n0 :: ns).all lplain = true := by
    apply all_lplain_of0 pw pw_lplain0
    simp only [List.all_cons, Bool.and_eq_true]
    refine ⟨?_, hns⟩
    unfold pw StepModel.isAlnum; simp [hn0]
  have hs := spaces_safe sC hsC
  have hin : LSeq (sB ++ (tok ++ sC)) [] := by
    have := LSeq.plains_append sB (spaces_lplain sB hsB) (LSeq.append htok (lseq_plains sC (spaces_lplain sC hsC)) hs.1 hs.2)
    simpa using this
  have hn := LSeq.nest (sB ++ (tok ++ sC)) [] [] [] hin LSeq.nil
  exact LSeq.plains_append _ hkw (LSeq.plains_append sA (spaces_lplain sA hsA) hn)

theorem leaf_lseq (env : Env F) (m : SelMember) (tok : List Nat) (av : Atom F) (h : LeafCovered env m tok av) :
    LSeq tok [] ∧ atomRefs av = [] := by
  cases h with
  | integer hm tok htok hlo hhi => exact ⟨lseq_plains _ (isInteger_lplain0 _ htok), rfl⟩
  | real hm tok dec v htok hden hv hnn hbuf => exact ⟨lseq_plains _ (isReal_lplain0 _ htok), rfl⟩
  | string hm b hsb => exact ⟨LazyTok.string b hsb, rfl⟩
  | enum het name i hne hname hfind hset =>
    exact ⟨lseq_plains _ (wrap_lplain 46 (by decide) name (all_lplain_of0 pw pw_lplain0 name hname)), rfl⟩
  | binary hm hex hne hhex =>
    exact ⟨lseq_plains _ (wrap_lplain 34 (by decide) hex (all_lplain_of0 _ xdigit_lplain0 hex hhex)), rfl⟩

/-- an aggregate element of any covered kind but the raw text of an aggregate of aggregates -/
theorem elem_lseq (env : Env F) (ety : ElemTy) (e : ElemG F) (h : ElemCovered env ety e) (hng : ety ≠ .generic) :
    LSeq e.tok (elemRefs e.v) ∧ Seps e.before ∧ Seps e.after := by
  cases h with
  | integer tok htok hlo hhi before after hb ha => exact ⟨lseq_plains _ (isInteger_lplain0 _ htok), hb, ha⟩
  | real tok dec v htok hden hv hnn hbuf before after hb ha => exact ⟨lseq_plains _ (isReal_lplain0 _ htok), hb, ha⟩
  | string b hsb before after hb ha => exact ⟨LazyTok.string b hsb, hb, ha⟩
  | enum ty het name i hne hname hfind hset before after hb ha =>
    exact ⟨lseq_plains _ (wrap_lplain 46 (by decide) name (all_lplain_of0 pw pw_lplain0 name hname)), hb, ha⟩
  | binary hex hne hhex before after hb ha =>
    exact ⟨lseq_plains _ (wrap_lplain 34 (by decide) hex (all_lplain_of0 _ xdigit_lplain0 hex hhex)), hb, ha⟩
  | ref tg ds hne hds hhi hfound before after hb ha =>
    refine ⟨?_, hb, ha⟩
    show LSeq (35 :: ds) [Int.toNat ((StepModel.digitsVal ds 0 : Nat) : Int)]
    rw [Int.toNat_natCast]
    exact LazyTok.ref ds hne hds (ref_ok ds hhi)
  | generic body hb before hbf => exact absurd rfl hng
  | number hnum tok dec v htok hden hv hnn before after hb ha =>
    refine ⟨lseq_plains _ ?_, hb, ha⟩
    rcases htok with h | h
    · exact isReal_lplain0 _ h
    · exact isInteger_lplain0 _ h
  | selTyped n sd hsd m n0 ns hn0 hns hfind tok av hleaf sA sB sC hsA hsB hsC before after hb ha =>
    obtain ⟨h1, h2⟩ := leaf_lseq env m tok av hleaf
    refine ⟨?_, hb, ha⟩
    show LSeq (selText n0 ns sA sB tok sC) (atomRefs av)
    rw [h2]
    exact selText_lseq n0 ns hn0 hns tok h1 sA sB sC hsA hsB hsC
  | selRef n sd hsd m ds hne hds hhi hasg before after hb ha =>
    refine ⟨?_, hb, ha⟩
    show LSeq (35 :: ds) [Int.toNat ((StepModel.digitsVal ds 0 : Nat) : Int)]
    rw [Int.toNat_natCast]
    exact LazyTok.ref ds hne hds (ref_ok ds hhi)

/-- the element list of an aggregate, up to its closing parenthesis -/
theorem elems_lseq : ∀ (es : List (ElemG F)), es ≠ [] →
    (∀ e ∈ es, LSeq e.tok (elemRefs e.v) ∧ Seps e.before ∧ Seps e.after) →
    ∃ X, renderElemsG es = X ++ [41] ∧ LSeq X (es.flatMap (fun e => elemRefs e.v)) := by
  intro es
  induction es with
  | nil => intro h; exact absurd rfl h
  | cons e t ih =>
    intro _ hall
    obtain ⟨he, hb, ha⟩ := hall e (by simp)
    cases t with
    | nil =>
      refine ⟨e.before ++ (e.tok ++ e.after), by simp [renderElemsG], ?_⟩
      have := LSeq.item_last hb he ha
      simpa using this
    | cons f u =>
      obtain ⟨X, hX, hL⟩ := ih (by simp) (fun x hx => hall x (List.mem_cons_of_mem _ hx))
      refine ⟨e.before ++ (e.tok ++ (e.after ++ 44 :: X)), by simp [renderElemsG, hX], ?_⟩
      have h44 : LSeq (44 :: X) ((f :: u).flatMap (fun e => elemRefs e.v)) := LSeq.plain 44 X _ (by decide) hL
      have := LSeq.item hb he ha 44 X (by decide) (by decide) h44
      simpa using this

theorem aggr_lseq (es : List (ElemG F)) (inner : List Nat) (hin : Seps inner)
    (hall : ∀ e ∈ es, LSeq e.tok (elemRefs e.v) ∧ Seps e.before ∧ Seps e.after) :
    LSeq (aggrTextG es inner) (es.flatMap (fun e => elemRefs e.v)) := by
  cases es with
  | nil =>
    have := LSeq.nest inner [] [] [] (lseq_seps inner hin) LSeq.nil
    simpa [aggrTextG] using this
  | cons e t =>
    obtain ⟨X, hX, hL⟩ := elems_lseq (e :: t) (by simp) hall
    have := LSeq.nest X [] _ [] hL LSeq.nil
    simp only [aggrTextG, hX]
    simpa using this

/-- **every parameter of the eager reader's `Covered`** — `$`, `*`, INTEGER, REAL, NUMBER, STRING, ENUMERATION / BOOLEAN / LOGICAL, BINARY,
    entity references, typed SELECT values `KEYWORD(leaf)`, SELECT references, and aggregates of all of these with any layout inside —
    is a token the lazy scanner passes, recording exactly the entity references in the value the eager reader stores for it
    (`valRefs p.v`).  Excluded: aggregates of aggregates (element type `generic`: the eager reader keeps their raw text and resolves no
    reference in it, the lazy scanner records every `#n` of it).  For a reference the proof asks one thing of the code: an id the eager
    reader accepts (`≤ INT_MAX`) is one the lazy scanner accepts (`≤ instanceIdMax`, regenerated) -/
theorem C10_covered_param_lazy (env : Env F) (p : Param F) (hc : Covered env p)
    (hs : Small (p.before ++ (p.tok ++ p.after))) (hng : p.a.ty ≠ .aggr .generic) : LazyParam p := by
  have key : ∀ {a v tok before after}, LSeq tok (valRefs v) → Seps before → Seps after →
      Small (before ++ (tok ++ after)) → LazyParam ({ a := a, v := v, tok := tok, before := before, after := after } : Param F) :=
    fun ht hb ha hsm => ⟨ht, hb, ha, hsm⟩
  cases hc with
  | dollar a hopt hder hred before after hb ha =>
    refine key ?_ hb ha hs
    have : valRefs (nullOf a : MVal F) = [] := by
      unfold nullOf
      split
      · rfl
      · split <;> rfl
    rw [this]; exact lseq_plains [36] (by decide)
  | star a hder hred before after hb ha => exact key (lseq_plains [42] (by decide)) hb ha hs
  | integer a hty hder hred tok htok hlo hhi before after hb ha =>
    exact key (lseq_plains _ (isInteger_lplain0 _ htok)) hb ha hs
  | ref a tg hty hder hred ds hne hds hhi hfound before after hb ha =>
    refine key ?_ hb ha hs
    show LSeq (35 :: ds) [Int.toNat ((StepModel.digitsVal ds 0 : Nat) : Int)]
    rw [Int.toNat_natCast]
    exact LazyTok.ref ds hne hds (ref_ok ds hhi)
  | aggrInt a hty hder hred es inner hok hin before after hb ha =>
    refine key ?_ hb ha hs
    -- the older constructor for aggregates of INTEGER: the same text as `aggrTextG` over the same elements
    have hall : ∀ e ∈ es.map (fun e : ElemP => ({ tok := e.tok, before := e.before, after := e.after, v := elemVal e } : ElemG F)),
        LSeq e.tok (elemRefs e.v) ∧ Seps e.before ∧ Seps e.after := by
      intro e he
      obtain ⟨e0, he0, rfl⟩ := List.mem_map.mp he
      obtain ⟨h1, _, _, h4, h5⟩ := hok e0 he0
      exact ⟨lseq_plains _ (isInteger_lplain0 _ h1), h4, h5⟩
    have hren : ∀ l : List ElemP, renderElemsG (l.map (fun e : ElemP =>
        ({ tok := e.tok, before := e.before, after := e.after, v := elemVal e } : ElemG F))) = renderElems l := by
      intro l
      induction l with
      | nil => rfl
      | cons x t ih =>
        cases t with
        | nil => rfl
        | cons y u => simp only [List.map_cons, renderElemsG, renderElems] at ih ⊢; rw [ih]
    have htxt : aggrTextG (es.map (fun e : ElemP =>
        ({ tok := e.tok, before := e.before, after := e.after, v := elemVal e } : ElemG F))) inner = aggrText es inner := by
      cases es with
      | nil => rfl
      | cons x t => simp only [aggrTextG, aggrText, List.map_cons]; rw [← hren (x :: t)]; rfl
    have := aggr_lseq _ inner hin hall
    rw [htxt] at this
    have hr : (es.map (fun e : ElemP => ({ tok := e.tok, before := e.before, after := e.after, v := elemVal e } : ElemG F))).flatMap
        (fun e => elemRefs e.v) = valRefs (MVal.aggr (es.map (elemVal (F := F)))) := by
      simp [valRefs, List.flatMap_map]
    rw [hr] at this
    exact this
  | string a hty hder hred b hb before after hbf ha => exact key (LazyTok.string b hb) hbf ha hs
  | enum a ty hty het hder hred name i hne hname hfind hset before after hbf ha =>
    exact key (lseq_plains _ (wrap_lplain 46 (by decide) name (all_lplain_of0 pw pw_lplain0 name hname))) hbf ha hs
  | binary a hty hder hred hex hne hhex before after hbf ha =>
    exact key (lseq_plains _ (wrap_lplain 34 (by decide) hex (all_lplain_of0 _ xdigit_lplain0 hex hhex))) hbf ha hs
  | real a hty hder hred tok dec v htok hden hv hnn hbuf before after hbf ha =>
    exact key (lseq_plains _ (isReal_lplain0 _ htok)) hbf ha hs
  | aggr a ety hty hder hred es inner hok hin before after hb ha =>
    refine key ?_ hb ha hs
    have hne : ety ≠ .generic := fun e => hng (by rw [hty, e])
    have := aggr_lseq es inner hin (fun e he => elem_lseq env ety e (hok e he) hne)
    have hr : es.flatMap (fun e => elemRefs e.v) = valRefs (MVal.aggr (es.map (·.v))) := by
      simp [valRefs, List.flatMap_map]
    rw [hr] at this
    exact this
  | selTyped a n hty hder hred sd hsd m n0 ns hn0 hns hfind tok av hleaf sA sB sC hsA hsB hsC before after hb ha =>
    refine key ?_ hb ha hs
    obtain ⟨h1, h2⟩ := leaf_lseq env m tok av hleaf
    show LSeq (selText n0 ns sA sB tok sC) (atomRefs av)
    rw [h2]
    exact selText_lseq n0 ns hn0 hns tok h1 sA sB sC hsA hsB hsC
  | selRef a n hty hder hred sd hsd m ds hne hds hhi hasg before after hb ha =>
    refine key ?_ hb ha hs
    show LSeq (35 :: ds) [Int.toNat ((StepModel.digitsVal ds 0 : Nat) : Int)]
    rw [Int.toNat_natCast]
    exact LazyTok.ref ds hne hds (ref_ok ds hhi)
  | number a hty hder hred tok dec v htok hden hv hnn before after hbf ha =>
    refine key (lseq_plains _ ?_) hbf ha hs
    rcases htok with h | h
    · exact isReal_lplain0 _ h
    · exact isInteger_lplain0 _ h

/-- the source skips comments as raw text (`sectionReader::skipComment`, regenerated; `fixes/C10-7`): the hypothesis `commentsRaw = true`
    of the theorems of this section holds for the tree the check runs on.  Does not elaborate on a tree where comments are skipped with
    `findNormalString("*/")` -/
theorem C10_source_comments_raw : commentsRaw = true := by decide

/-- the eager reader reads comments of any length (`ReadComment`, regenerated by the C01 owner's extractor; `fixes/C01-9`): the eager
    model's unbounded `readComment`, over which `C01_read_file_partial` and therefore `C10_index_equals_eager_partial` quantify, is the
    code's reader.  Does not elaborate on a tree whose `ReadComment` abandons comments longer than `MAX_COMMENT_LENGTH` -/
theorem C10_source_eager_comments_any_length : StepModel.Generated.rwCfg.commentsOfAnyLength = true := by decide

/-- what the lazy side asks of a record of the eager reader's covered class, all of it about the bytes of the file: the keyword is
    upper case, the instance name is not `#0` and has at most `instanceIdDigits` significant digits, no parameter is an aggregate of
    aggregates, and every byte is below 256 -/
structure LazySide (rg : Rec F × List Nat) : Prop where
  up0 : StepModel.isUpper rg.1.n0 = true
  ups : rg.1.ns.all (fun b => StepModel.isUpper b || StepModel.isDigit b || b == 95) = true
  pos : 0 < StepModel.digitsVal rg.1.ds 0
  dlen : idLen (cs rg.1.ds) ≤ instanceIdDigits
  nogen : ∀ p ∈ rg.1.ps, p.a.ty ≠ .aggr .generic
  smp : ∀ p ∈ rg.1.ps, Small (p.before ++ (p.tok ++ p.after))
  sm : Small (rg.1.ds ++ (rg.1.s1 ++ (rg.1.s2 ++ (rg.1.n0 :: rg.1.ns ++ (rg.1.s3 ++ rg.1.s4)))))
  smg : Small rg.2

theorem lazyRecs_of_covered (env : Env F) (rs : List (Rec F × List Nat)) (hrec : ∀ rg ∈ rs, RecCovered env rg)
    (hlz : ∀ rg ∈ rs, LazySide rg) : LazyRecs rs := by
  intro rg hrg
  obtain ⟨hl, hg, _, _, _, _, hcov⟩ := hrec rg hrg
  have h := hlz rg hrg
  exact ⟨hl, ⟨h.up0, h.ups, h.pos, h.dlen,
    fun p hp => C10_covered_param_lazy env p (hcov p hp) (h.smp p hp) (h.nogen p hp), h.sm⟩, hg, h.smg⟩

/-- **the lazy index lists exactly the ids and keywords the eager reader loads** (`_partial`), between the two models, on the same
    bytes.  For every file of the eager reader's file-level theorem `C01_read_file_partial` (any number of records with different ids,
    any separator layout — blanks and comments — between any two tokens, forward and backward references) that also satisfies the lazy
    side's conditions `LazySide`: the eager model creates one instance per record, and the lazy scanner model (on the same bytes, as
    `Char`s) returns one index entry per record, in the same order, with the same instance id, the same entity keyword, and as forward
    references exactly the entity references in the values the eager reader stores for the instance — inside aggregates and SELECT
    values too —, in attribute order (`instRefs`); the section is accepted and the counts agree.
    Excluded inputs, spelled out: (1) what `C01_read_file_partial` excludes (redeclared attributes, selects whose member is a select or
    an aggregate, external mappings, entities without attributes, user-defined entities, scopes); (2) parameters that are aggregates of
    aggregates (element type `generic`: the eager reader keeps their raw text and resolves no reference in it, the lazy scanner records
    every `#n` in it) — every other parameter kind of `Covered` is covered (`C10_covered_param_lazy`): `$`, `*`, numbers, strings,
    enumerations, binaries, references, typed SELECT values and SELECT references, and aggregates of all of these with any layout
    inside; (3) keywords with lower-case letters (the eager reader folds case, the lazy scanner
    `abort()`s — not conforming Part 21); (4) instance name `#0` and names with more than 20 significant digits; (5) bytes ≥ 256;
    (6) the source shape before `fixes/C10-7` (`commentsRaw`): there a comment containing `'` or `/*` derails the lazy scanner
    (replayed, corpus `layout-apostrophe-in-comment`).  Comments of any length are covered: the eager model's `readComment` has no length
    bound, and that is the code's reader in the source shape with `fixes/C01-9` (`ReadComment` reads a comment of any length; regenerated
    switch `commentsOfAnyLength`, tied here by `C10_source_eager_comments_any_length`) — before it the eager reader abandoned a comment
    of more than 8192 characters and skipped the instance after it (class `layout:comment-above-8192`, still probed on every run).
    Byte ranges are not part of the model's `Entry` and are not compared. -/
theorem C10_index_equals_eager_partial (ops : FloatOps F) (lex : LexCfg) (cfg : RWCfg) (d : Dict) (strict : Bool)
    (hskip : cfg.skipInstanceSkipsComments = true) (hcri : lex.criSkipsComments = true) (hagg : cfg.aggrSkipsComments = true)
    (rs : List (Rec F × List Nat)) (g0 sp gE after : List Nat) (hg0 : Seps g0) (hsp : sp.all StepModel.isSpace = true) (hgE : Seps gE)
    (hnd : (rs.map (·.1.id)).Nodup)
    (hrec : ∀ rg ∈ rs, RecCovered { ops := ops, lex := lex, cfg := cfg, dict := d,
                                    lookup := Mgr.lookup d ({ insts := rs.map (mkInst d) } : Mgr F) } rg)
    (hraw : commentsRaw = true) (hlz : ∀ rg ∈ rs, LazySide rg) (hs0 : Small g0) (hssp : Small sp) :
    ∃ res es,
      readDataSection ops lex cfg d strict false
        (g0 ++ renderRecs rs (RLemmas.endsec sp (gE ++ (endIso ++ 59 :: after)))) = .ok res ∧
      scan (cs (g0 ++ renderRecs rs (RLemmas.endsec sp (gE ++ (endIso ++ 59 :: after))))) = .ok (es, true) ∧
      es.map (fun e => ((e.id : Int), String.ofList e.kw)) =
        res.mgr.insts.map (fun i => (i.id, ((i.parts.map (·.name)).head?).getD "")) ∧
      es.map (·.refs) = rs.map (fun rg => paramsRefs rg.1.ps) ∧
      es.map (·.refs) = res.mgr.insts.map instRefs ∧
      es.length = res.created := by
  obtain ⟨res, hres, hinsts, _, _, _, hcr, _⟩ :=
    C01_read_file_partial ops lex cfg d strict hskip hcri hagg rs g0 sp gE after hg0 hsp hgE hnd hrec
  have hlz' : LazyRecs rs := lazyRecs_of_covered _ rs hrec hlz
  refine ⟨res, rs.map (fun rg => recEntry rg.1), hres, scan_recs hraw rs hlz' g0 sp _ hg0 hs0 hsp hssp, ?_, ?_, ?_, ?_⟩
  · rw [hinsts]
    simp only [List.map_map]
    apply List.map_congr_left
    intro rg hrg
    have hl := hlz rg hrg
    simp only [Function.comp, recEntry, finInst, Rec.id, Rec.name, List.map_cons, List.map_nil, List.head?_cons, Option.getD_some]
    have hup : upperBytes (rg.1.n0 :: rg.1.ns) = rg.1.n0 :: rg.1.ns := by
      apply upperBytes_id
      simp only [List.all_cons, Bool.and_eq_true]
      exact ⟨by simp [hl.up0], hl.ups⟩
    rw [hup]
    rfl
  · simp [List.map_map, Function.comp_def, recEntry]
  · rw [hinsts]
    simp only [List.map_map]
    apply List.map_congr_left
    intro rg hrg
    simp only [Function.comp, recEntry, finInst, instRefs, List.flatMap_cons, List.flatMap_nil, List.append_nil, paramsRefs,
      List.flatMap_map]
  · rw [hcr]; simp

/-- **`loadInstance` hands `STEPread` exactly the record's parameter list** (`_partial`).  For a record of the covered class standing
    anywhere in a file (`lead` = the layout before its `#`, so the record's recorded offset `begin` is the start of `lead`, which is
    where `nextInstance` was called when it indexed the record — `scan_recs`):  `sectionReader::getRealInstance`'s positioning
    (`seekg( begin ); findNormalString( "(" );` one character back — model `stepReadInput`, shape regenerated) leaves the stream at
    `( p₁ , … , pₙ ) s4 ; rest`, passing over leading comments (which may contain parentheses and apostrophes), `#id`, `=`, the keyword
    and every separator between them; and `SDAI_Application_instance::STEPread` (the eager model's `instSTEPread`, the same function
    the eager reader calls) on exactly that text reads every parameter to the value the eager reader stores for the record
    (`C01_read_record_partial`), with severity NULL, and rests after the `)`.
    Excluded: as in `C10_index_equals_eager_partial` (aggregates of aggregates, lower-case keywords, `#0`, ids above INT_MAX,
    bytes ≥ 256, the source before `fixes/C10-7`) and entities without attributes (`hne`: an empty parameter list `()`); the reference look-up `env.lookup` is the same function on both sides — in the code the lazy
    side answers it through `instMgrAdapter::FindFileId` → `loadInstance` (`C10_load_any_order`: resolved exactly as the eager
    reader resolves them). -/
theorem C10_materialise_partial (hraw : commentsRaw = true) (env : Env F) (strict : Bool) (hcri : env.lex.criSkipsComments = true)
    (hagg : env.cfg.aggrSkipsComments = true) (lead : List Nat) (hlead : Seps lead) (hls : Small lead)
    (rg : Rec F × List Nat) (hc : RecCovered env rg) (hlz : LazySide rg) (hne : rg.1.ps ≠ []) (rest : List Nat) (f : Nat)
    (hf : 6 * (lead ++ 35 :: rg.1.text rest).length + 30 ≤ f) (l : List Nat) (sk : Bool) :
    stepReadInput f (cs (lead ++ 35 :: rg.1.text rest)) = .ok (cs (40 :: (renderParams rg.1.ps ++ rg.1.t4 rest))) ∧
    ∃ r, instSTEPread env strict (rg.1.ps.map (·.a)) (G l (40 :: (renderParams rg.1.ps ++ rg.1.t4 rest)) sk) = .ok r ∧
      r.sev = .null ∧ r.vals = rg.1.ps.map (·.v) ∧ r.s.right = rg.1.t4 rest := by
  obtain ⟨hl, hg, _, _, _, _, hcov⟩ := hc
  have hlr : LazyRec rg.1 := ⟨hlz.up0, hlz.ups, hlz.pos, hlz.dlen,
    fun p hp => C10_covered_param_lazy env p (hcov p hp) (hlz.smp p hp) (hlz.nogen p hp), hlz.sm⟩
  constructor
  · rw [lrec_eq]
    have := stepReadInput_lrec hraw lead hlead hls rg.1 hl hlr (cs rest) f (by rw [← lrec_eq, cs_length]; exact hf)
    rw [this]
    simp [cs_cons, cs_append, Rec.t4, ch]
  · obtain ⟨sk', h⟩ := C01_read_record_partial env strict hcri hagg rg.1.ps hne hcov l sk (rg.1.t4 rest)
    exact ⟨_, h, rfl, rfl, rfl⟩

/-- **`loadInstance` at the recorded offsets** (`_partial`): the byte range the index records is the one `STEPread` is given.  For every
    file of `C10_index_equals_eager_partial`: the scanner records one offset per instance (`scanBegins`: `inst.loc.begin = tellg()` before
    `readInstanceNumber`, regenerated tie) — as many as the eager reader creates instances — and from each recorded offset
    `getRealInstance`'s positioning (`stepReadInput` on the file from that offset on) hands `STEPread` exactly the parameter list of
    the record the entry stands for: `( p₁ , … , pₙ ) s4 ;` and the rest of the file.  With `C10_materialise_partial` (what `STEPread`
    makes of that text) this is the materialisation of an indexed instance from its recorded byte range.  Exclusions as there. -/
theorem C10_materialise_at_recorded_offsets_partial (ops : FloatOps F) (lex : LexCfg) (cfg : RWCfg) (d : Dict)
    (rs : List (Rec F × List Nat)) (g0 sp tail : List Nat) (hg0 : Seps g0) (hsp : sp.all StepModel.isSpace = true)
    (hrec : ∀ rg ∈ rs, RecCovered { ops := ops, lex := lex, cfg := cfg, dict := d,
                                    lookup := Mgr.lookup d ({ insts := rs.map (mkInst d) } : Mgr F) } rg)
    (hraw : commentsRaw = true) (hlz : ∀ rg ∈ rs, LazySide rg) (hs0 : Small g0) (hssp : Small sp) (f : Nat)
    (hf : 6 * (g0 ++ renderRecs rs (RLemmas.endsec sp tail)).length + 30 ≤ f) :
    ∃ offs, scanBegins (cs (g0 ++ renderRecs rs (RLemmas.endsec sp tail))) = .ok offs ∧ offs.length = rs.length ∧
      All2 (fun off rg => ∃ rest, stepReadInput f ((cs (g0 ++ renderRecs rs (RLemmas.endsec sp tail))).drop off) =
        .ok ('(' :: (cs (renderParams rg.1.ps) ++ (cs rg.1.s4 ++ (';' :: rest))))) offs rs := by
  have hlz' : LazyRecs rs := lazyRecs_of_covered _ rs hrec hlz
  obtain ⟨offs, h1, h2⟩ := scanBegins_file hraw rs hlz' g0 sp tail hg0 hs0 hsp hssp
  refine ⟨offs, h1, h2.length_eq, h2.imp_mem ?_⟩
  intro off rg hrg hb
  obtain ⟨_, lead, rest, hl1, hl2, hd⟩ := hb
  obtain ⟨hlex, hlr, _, _⟩ := hlz' rg hrg
  refine ⟨rest, ?_⟩
  simp only [Nat.sub_zero] at hd
  rw [hd]
  apply stepReadInput_lrec hraw lead hl1 hl2 rg.1 hlex hlr rest f
  have hlen : (lrec lead rg.1 rest).length ≤ (cs (g0 ++ renderRecs rs (RLemmas.endsec sp tail))).length := by
    rw [← hd, List.length_drop]; omega
  rw [cs_length] at hlen
  omega

/-! ### externally mapped records through the bridge: sections that mix both mappings -/

theorem small_params : ∀ (ps : List (Param F)), Small (renderParams ps) → ∀ p ∈ ps, Small (p.before ++ (p.tok ++ p.after)) := by
  intro ps
  induction ps with
  | nil => intro _ p hp; cases hp
  | cons q t ih =>
    intro hs p hp
    cases t with
    | nil =>
      simp only [List.mem_cons, List.mem_nil_iff, or_false] at hp
      subst hp
      simp only [renderParams] at hs
      intro b hb
      apply hs b
      simp only [List.mem_append] at hb ⊢
      rcases hb with h | h | h
      · exact Or.inl h
      · exact Or.inr (Or.inl h)
      · exact Or.inr (Or.inr (Or.inl h))
    | cons q2 u =>
      simp only [renderParams] at hs
      rcases List.mem_cons.mp hp with h | h
      · subst h
        intro b hb
        apply hs b
        simp only [List.mem_append] at hb ⊢
        rcases hb with h | h | h
        · exact Or.inl h
        · exact Or.inr (Or.inl h)
        · exact Or.inr (Or.inr (Or.inl h))
      · exact ih (hs.app.2.app.2.app.2.cons.2) p h

/-- a part `KEYWORD blanks ( parameters ) blanks` of an externally mapped record is a sequence the lazy scanner passes, with the
    references in the values the eager reader sets for the part -/
theorem cpart_lseq (env : Env F) (c : CPart F) (hc : CPartCovered env c) (hs : Small c.text)
    (hng : ∀ ed, env.dict.entity? c.name = some ed → ∀ a ∈ ed.ownAttrs, a.ty ≠ .aggr .generic) :
    LSeq c.text (c.vals.flatMap valRefs) ∧ StepModel.isAlpha c.n0 = true := by
  cases hc with
  | params n0 ns sA sB hn0 hns hsA hsB ed hent ps hne hattrs hcov =>
    refine ⟨?_, hn0⟩
    have hsb : Small (renderParams ps) := by
      have : Small (n0 :: (ns ++ (sA ++ 40 :: (renderParams ps ++ sB)))) := hs
      exact this.cons.2.app.2.app.2.cons.2.app.1
    have hsp := small_params ps hsb
    have hlp : ∀ p ∈ ps, LazyParam p := by
      intro p hp
      refine C10_covered_param_lazy env p (hcov p hp) (hsp p hp) ?_
      refine hng ed hent p.a ?_
      rw [hattrs]; exact List.mem_map.mpr ⟨p, hp, rfl⟩
    obtain ⟨X, hX, hL⟩ := params_lseq ps hne hlp
    have hkw : (n0 :: ns).all lplain = true := by
      apply all_lplain_of0 pw pw_lplain0
      simp only [List.all_cons, Bool.and_eq_true]
      refine ⟨?_, hns⟩
      unfold pw StepModel.isAlnum; simp [hn0]
    have hn := LSeq.nest X sB _ [] hL (lseq_plains sB (spaces_lplain sB hsB))
    have := LSeq.plains_append _ hkw (LSeq.plains_append sA (spaces_lplain sA hsA) hn)
    have e : CPart.text ({ n0 := n0, ns := ns, sA := sA, body := renderParams ps, sB := sB, vals := ps.map (·.v) } : CPart F) =
        (n0 :: ns) ++ (sA ++ 40 :: (X ++ 41 :: sB)) := by simp [CPart.text, hX]
    rw [e]
    simpa [paramsRefs, List.flatMap_map] using this
  | empty n0 ns sA sB hn0 hns hsA hsB ed hent hattrs inner hin =>
    refine ⟨?_, hn0⟩
    have hkw : (n0 :: ns).all lplain = true := by
      apply all_lplain_of0 pw pw_lplain0
      simp only [List.all_cons, Bool.and_eq_true]
      refine ⟨?_, hns⟩
      unfold pw StepModel.isAlnum; simp [hn0]
    have hn := LSeq.nest inner sB [] [] (lseq_seps inner hin) (lseq_plains sB (spaces_lplain sB hsB))
    have := LSeq.plains_append _ hkw (LSeq.plains_append sA (spaces_lplain sA hsA) hn)
    have e : CPart.text ({ n0 := n0, ns := ns, sA := sA, body := inner ++ [41], sB := sB, vals := [] } : CPart F) =
        (n0 :: ns) ++ (sA ++ 40 :: (inner ++ 41 :: sB)) := by simp [CPart.text]
    rw [e]
    simpa using this

/-- what the lazy side asks of a record of either mapping of the eager reader's mixed file class, all of it about the bytes of the file
    (and, for the parts of an externally mapped record, that no attribute is an aggregate of aggregates) -/
def LazySideAny (env : Env F) : AnyRec F → Prop
  | .simple rg => LazySide rg
  | .complex r g => 0 < StepModel.digitsVal r.ds 0 ∧ idLen (cs r.ds) ≤ instanceIdDigits ∧
      Small (r.ds ++ (r.s1 ++ (r.s2 ++ (renderCParts r.parts ++ r.s4)))) ∧ Small g ∧
      ∀ c ∈ r.parts, ∀ ed, env.dict.entity? c.name = some ed → ∀ a ∈ ed.ownAttrs, a.ty ≠ .aggr .generic

theorem small_cparts : ∀ (cs' : List (CPart F)), Small (renderCParts cs') → ∀ c ∈ cs', Small c.text := by
  intro cs'
  induction cs' with
  | nil => intro _ c hc; cases hc
  | cons x t ih =>
    intro hs c hc
    simp only [renderCParts] at hs
    rcases List.mem_cons.mp hc with h | h
    · rw [h]; exact hs.app.1
    · exact ih hs.app.2 c h

theorem lazyAny_of_covered (env : Env F) (a : AnyRec F) (hc : AnyRecCovered env a) (hl : LazySideAny env a) : LazyAny a := by
  cases a with
  | simple rg =>
    obtain ⟨hlex, hg, _, _, _, _, hcov⟩ := hc
    have h : LazySide rg := hl
    exact ⟨hlex, ⟨h.up0, h.ups, h.pos, h.dlen,
      fun p hp => C10_covered_param_lazy env p (hcov p hp) (h.smp p hp) (h.nogen p hp), h.sm⟩, hg, h.smg⟩
  | complex r g =>
    obtain ⟨hlex, hg, _, _, hcov⟩ := hc
    obtain ⟨hpos, hdl, hsm, hsg, hng⟩ := hl
    have hsp : Small (renderCParts r.parts) := hsm.app.2.app.2.app.2.app.1
    have hparts := cparts_lseq (fun c : CPart F => c.vals.flatMap valRefs) r.parts
      (fun c hcm => cpart_lseq env c (hcov c hcm) (small_cparts r.parts hsp c hcm) (hng c hcm))
    exact ⟨hlex, ⟨hpos, hdl, hparts, hsm⟩, hg, hsg⟩

/-- **the lazy index against the eager reader on sections that mix internally and externally mapped records** (`_partial`), between
    the two models, on the same bytes.  For every file of the eager reader's `C01_read_file_mixed_partial` — records of either mapping in
    any order, pairwise different ids, references forward and backward across both mappings, internally mapped entities with redeclared
    attributes allowed — that satisfies the lazy side's byte conditions (`LazySideAny`): the eager model creates one instance per
    record and the lazy scanner returns one index entry per record, in the same order, with the same instance id; an internally mapped
    record is indexed under its keyword, an **externally mapped record under the empty keyword** (as `lazyInstMgr::addLazyInstance`
    files it — the root of the kept finding `complex-referrer` of C11), and its forward references are the entity references in the
    values the eager reader sets for its parts, part by part in file order (`anyEntry`, `crefs`); the section is accepted and the counts
    agree.  Excluded: what `C01_read_file_mixed_partial` excludes (comments between the parts of an externally mapped record and around
    their parentheses: finding `layout:comment@cx` of C01), aggregates of aggregates, lower-case keywords of internally mapped records,
    `#0`, names with more than 20 significant digits, ids above INT_MAX, bytes ≥ 256, the source before `fixes/C10-7`. -/
theorem C10_index_equals_eager_mixed_partial (ops : FloatOps F) (lex : LexCfg) (cfg : RWCfg) (d : Dict) (strict : Bool)
    (hskip : cfg.skipInstanceSkipsComments = true) (hcri : lex.criSkipsComments = true) (hagg : cfg.aggrSkipsComments = true)
    (hmc : cfg.missingCheckEverySecond = false) (hrep : cfg.complexReportsError = true)
    (rs : List (AnyRec F)) (g0 sp gE after : List Nat) (hg0 : Seps g0) (hsp : sp.all StepModel.isSpace = true) (hgE : Seps gE)
    (hnd : (rs.map (fun r => (r.item d).id)).Nodup)
    (hrec : ∀ r ∈ rs, AnyRecCovered { ops := ops, lex := lex, cfg := cfg, dict := d,
                                       lookup := Mgr.lookup d ({ insts := rs.map (fun r => (r.item d).mkI) } : Mgr F) } r)
    (hraw : commentsRaw = true)
    (hlz : ∀ r ∈ rs, LazySideAny { ops := ops, lex := lex, cfg := cfg, dict := d,
                                    lookup := Mgr.lookup d ({ insts := rs.map (fun r => (r.item d).mkI) } : Mgr F) } r)
    (hs0 : Small g0) (hssp : Small sp) :
    ∃ res es,
      readDataSection ops lex cfg d strict false
        (g0 ++ renderItems (rs.map (AnyRec.item d)) (RLemmas.endsec sp (gE ++ (endIso ++ 59 :: after)))) = .ok res ∧
      scan (cs (g0 ++ renderItems (rs.map (AnyRec.item d)) (RLemmas.endsec sp (gE ++ (endIso ++ 59 :: after))))) = .ok (es, true) ∧
      es = rs.map anyEntry ∧
      es.map (fun e => (e.id : Int)) = res.mgr.insts.map (·.id) ∧
      es.length = res.created := by
  obtain ⟨res, hres, hinsts, _, _, hcr, _⟩ :=
    C01_read_file_mixed_partial ops lex cfg d strict hskip hcri hagg hmc hrep rs g0 sp gE after hg0 hsp hgE hnd hrec
  have hany : ∀ a ∈ rs, LazyAny a := fun a ha => lazyAny_of_covered _ a (hrec a ha) (hlz a ha)
  refine ⟨res, rs.map anyEntry, hres, scan_items hraw d rs hany g0 sp _ hg0 hs0 hsp hssp, rfl, ?_, ?_⟩
  · rw [hinsts]
    simp only [List.map_map]
    apply List.map_congr_left
    intro a _
    cases a with
    | simple rg => simp [Function.comp, anyEntry, recEntry, AnyRec.item, finInst, Rec.id]
    | complex r g => simp [Function.comp, anyEntry, crecEntry, AnyRec.item, finCInst, mkCInst, CRec.id]
  · rw [hcr]; simp

/-- what `STEPread` is handed for a record of either mapping: the parameter list of an internally mapped record, the whole
    `( PART(…) … )` of an externally mapped one, each followed by `s4 ;` and the rest of the file -/
def stepText : AnyRec F → Bytes → Bytes
  | .simple rg, rest => '(' :: (cs (renderParams rg.1.ps) ++ (cs rg.1.s4 ++ (';' :: rest)))
  | .complex r _, rest => '(' :: (cs (renderCParts r.parts) ++ (')' :: (cs r.s4 ++ (';' :: rest))))

/-- **`loadInstance` at the recorded offsets, sections of both mappings** (`_partial`): for every file of
    `C10_index_equals_eager_mixed_partial` the scanner records one offset per record, and from each `getRealInstance`'s positioning
    hands `STEPread` the record's parameter list (internally mapped: `SDAI_Application_instance::STEPread`) or its whole parenthesised
    part list (externally mapped: `STEPcomplex::STEPread`) — `stepText`.  Exclusions as there. -/
theorem C10_materialise_at_recorded_offsets_mixed_partial (ops : FloatOps F) (lex : LexCfg) (cfg : RWCfg) (d : Dict)
    (rs : List (AnyRec F)) (g0 sp tail : List Nat) (hg0 : Seps g0)
    (hrec : ∀ r ∈ rs, AnyRecCovered { ops := ops, lex := lex, cfg := cfg, dict := d,
                                       lookup := Mgr.lookup d ({ insts := rs.map (fun r => (r.item d).mkI) } : Mgr F) } r)
    (hraw : commentsRaw = true)
    (hlz : ∀ r ∈ rs, LazySideAny { ops := ops, lex := lex, cfg := cfg, dict := d,
                                    lookup := Mgr.lookup d ({ insts := rs.map (fun r => (r.item d).mkI) } : Mgr F) } r)
    (hs0 : Small g0) (f : Nat)
    (hf : 6 * (g0 ++ renderItems (rs.map (AnyRec.item d)) (RLemmas.endsec sp tail)).length + 30 ≤ f) :
    ∃ offs, scanBegins (cs (g0 ++ renderItems (rs.map (AnyRec.item d)) (RLemmas.endsec sp tail))) = .ok offs ∧
      offs.length = rs.length ∧
      All2 (fun off a => ∃ rest, stepReadInput f ((cs (g0 ++ renderItems (rs.map (AnyRec.item d)) (RLemmas.endsec sp tail))).drop off) =
        .ok (stepText a rest)) offs rs := by
  have hany : ∀ a ∈ rs, LazyAny a := fun a ha => lazyAny_of_covered _ a (hrec a ha) (hlz a ha)
  obtain ⟨offs, h1, h2⟩ := scanBegins_items hraw d rs hany g0 sp tail hg0 hs0
  refine ⟨offs, h1, h2.length_eq, h2.imp_mem ?_⟩
  intro off a ha hb
  obtain ⟨_, lead, rest, hl1, hl2, hd⟩ := hb
  refine ⟨rest, ?_⟩
  simp only [Nat.sub_zero] at hd
  rw [hd]
  have hlen : (anyText lead a rest).length ≤ (cs (g0 ++ renderItems (rs.map (AnyRec.item d)) (RLemmas.endsec sp tail))).length := by
    rw [← hd, List.length_drop]; omega
  rw [cs_length] at hlen
  cases a with
  | simple rg =>
    obtain ⟨hlex, hlr, _, _⟩ : rg.1.Lex ∧ LazyRec rg.1 ∧ Seps rg.2 ∧ Small rg.2 := hany _ ha
    exact stepReadInput_lrec hraw lead hl1 hl2 rg.1 hlex hlr rest f (by simp only [anyText] at hlen; omega)
  | complex r g =>
    obtain ⟨hlex, hlr, _, _⟩ : r.Lex ∧ LazyCRec r (crefs r) ∧ Seps g ∧ Small g := hany _ ha
    exact stepReadInput_crec hraw lead hl1 hl2 r hlex _ hlr rest f (by simp only [anyText] at hlen; omega)

/-! ### the hypotheses of the bridge theorem are satisfiable: a concrete file, every hypothesis discharged -/

namespace Inst
def aName : AttrD := { name := "name", ty := .one .string, optional := false }
def aNxt : AttrD := { name := "nxt", ty := .one (.entity "ND"), optional := true }
def eND : EntityD := { name := "ND", attrs := [aName, aNxt], ancestors := ["ND"] }
def aLbl : AttrD := { name := "lbl", ty := .one .string, optional := false }
def aItems : AttrD := { name := "items", ty := .aggr (.entity "ND"), optional := false }
def eGRP : EntityD := { name := "GRP", attrs := [aLbl, aItems], ancestors := ["GRP"] }
def d : Dict := { entities := [eND, eGRP], selects := [], complexSets := [] }
def el1 : ElemG Nat := { tok := [35, 49], before := [], after := [], v := .atom (.ref ((StepModel.digitsVal [49] 0 : Nat) : Int)) }
def el2 : ElemG Nat := { tok := [35, 50], before := [32], after := [], v := .atom (.ref ((StepModel.digitsVal [50] 0 : Nat) : Int)) }
def pLbl : Param Nat := { a := aLbl, v := .one (.atom (.str [39, 103, 39])), tok := [39, 103, 39], before := [], after := [] }
def pItems : Param Nat := { a := aItems, v := .aggr ([el1, el2].map (·.v)), tok := aggrTextG [el1, el2] [], before := [], after := [] }
def rec3 : Rec Nat := { ds := [51], s1 := [], s2 := [], n0 := 71, ns := [82, 80], s3 := [], ps := [pLbl, pItems], s4 := [] }
def pStr (c : Nat) : Param Nat := { a := aName, v := .one (.atom (.str [39, c, 39])), tok := [39, c, 39], before := [], after := [] }
def pNull : Param Nat := { a := aNxt, v := nullOf aNxt, tok := [36], before := [32], after := [] }
def pRef : Param Nat := { a := aNxt, v := .one (.atom (.ref ((StepModel.digitsVal [49] 0 : Nat) : Int))), tok := [35, 49], before := [], after := [32] }
def rec1 : Rec Nat := { ds := [49], s1 := [], s2 := [], n0 := 78, ns := [68], s3 := [], ps := [pStr 97, pNull], s4 := [] }
def rec2 : Rec Nat := { ds := [50], s1 := [32], s2 := [], n0 := 78, ns := [68], s3 := [], ps := [pStr 98, pRef], s4 := [] }
/-- `\n/* it's (x */ ` -/
def gap1 : List Nat := [10] ++ 47 :: 42 :: ([32, 105, 116, 39, 115, 32, 40, 120, 32] ++ 42 :: 47 :: [32])
def rs : List (Rec Nat × List Nat) := [(rec1, gap1), (rec2, [10]), (rec3, [10])]

theorem seps_gap1 : Seps gap1 := Seps.comment [10] _ [32] (by decide) (by decide) (Seps.blanks [32] (by decide))
theorem seps_nil : Seps [] := Seps.blanks [] rfl
theorem seps_sp : Seps [32] := Seps.blanks [32] (by decide)

theorem lex1 : rec1.Lex := ⟨by decide, by decide, by decide, seps_nil, seps_nil, seps_nil, seps_nil, by decide, by decide, by decide⟩
theorem lex2 : rec2.Lex := ⟨by decide, by decide, by decide, seps_sp, seps_nil, seps_nil, seps_nil, by decide, by decide, by decide⟩
theorem lex3 : rec3.Lex := ⟨by decide, by decide, by decide, seps_nil, seps_nil, seps_nil, seps_nil, by decide, by decide, by decide⟩

theorem sb (c : Nat) (h : isNonQ c = true) : StringBody [c] := StringBody.nonq h StringBody.nil

theorem cov1 (env : Env Nat) : ∀ q ∈ rec1.ps, Covered env q := by
  intro q hq
  simp only [rec1, List.mem_cons, List.mem_nil_iff, or_false] at hq
  rcases hq with rfl | rfl
  · exact Covered.string aName rfl rfl rfl [97] (sb 97 (by decide)) [] [] seps_nil seps_nil
  · exact Covered.dollar aNxt rfl rfl rfl [32] [] seps_sp seps_nil

theorem cov2 (env : Env Nat) (hf : refLookup env.lookup "ND" 1 = .found) : ∀ q ∈ rec2.ps, Covered env q := by
  intro q hq
  simp only [rec2, List.mem_cons, List.mem_nil_iff, or_false] at hq
  rcases hq with rfl | rfl
  · exact Covered.string aName rfl rfl rfl [98] (sb 98 (by decide)) [] [] seps_nil seps_nil
  · exact Covered.ref aNxt "ND" rfl rfl rfl [49] (by decide) (by decide) (by decide) hf [] [32] seps_nil seps_sp

theorem found : refLookup (Mgr.lookup d ({ insts := rs.map (mkInst d) } : Mgr Nat)) "ND" 1 = .found := by decide
def env0 (ops : FloatOps Nat) (lx : LexCfg) (cf : RWCfg) : Env Nat :=
  { ops := ops, lex := lx, cfg := cf, dict := d, lookup := Mgr.lookup d ({ insts := rs.map (mkInst d) } : Mgr Nat) }

theorem found2 : refLookup (Mgr.lookup d ({ insts := rs.map (mkInst d) } : Mgr Nat)) "ND" 2 = .found := by decide

theorem cov3 (ops : FloatOps Nat) (lx : LexCfg) (cf : RWCfg) : ∀ q ∈ rec3.ps, Covered (env0 ops lx cf) q := by
  intro q hq
  simp only [rec3, List.mem_cons, List.mem_nil_iff, or_false] at hq
  rcases hq with rfl | rfl
  · exact Covered.string aLbl rfl rfl rfl [103] (sb 103 (by decide)) [] [] seps_nil seps_nil
  · refine Covered.aggr aItems (.entity "ND") rfl rfl rfl [el1, el2] [] ?_ seps_nil [] [] seps_nil seps_nil
    intro e he
    simp only [List.mem_cons, List.mem_nil_iff, or_false] at he
    rcases he with rfl | rfl
    · exact ElemCovered.ref "ND" [49] (by decide) (by decide) (by decide) found [] [] seps_nil seps_nil
    · exact ElemCovered.ref "ND" [50] (by decide) (by decide) (by decide) found2 [32] [] seps_sp seps_nil

theorem rc (ops : FloatOps Nat) (lx : LexCfg) (cf : RWCfg) : ∀ rg ∈ rs, RecCovered (env0 ops lx cf) rg := by
  intro rg hrg
  simp only [rs, List.mem_cons, List.mem_nil_iff, or_false] at hrg
  rcases hrg with rfl | rfl | rfl
  · exact ⟨lex1, seps_gap1, eND, (by decide : d.entity? rec1.name = some eND), rfl, rfl, cov1 _⟩
  · exact ⟨lex2, Seps.blanks [10] (by decide), eND, (by decide : d.entity? rec2.name = some eND), rfl, rfl, cov2 _ found⟩
  · exact ⟨lex3, Seps.blanks [10] (by decide), eGRP, (by decide : d.entity? rec3.name = some eGRP), rfl, rfl, cov3 ops lx cf⟩

theorem small_of (l : List Nat) (h : l.all (fun b => decide (b < 256)) = true) : Small l := by
  intro b hb
  have := List.all_eq_true.mp h b hb
  simpa using this

theorem lz : ∀ rg ∈ rs, LazySide rg := by
  intro rg hrg
  simp only [rs, List.mem_cons, List.mem_nil_iff, or_false] at hrg
  rcases hrg with rfl | rfl | rfl
  · refine ⟨by decide, by decide, by decide, by decide, by decide, ?_, small_of _ (by decide), small_of _ (by decide)⟩
    intro p hp
    simp only [rec1, List.mem_cons, List.mem_nil_iff, or_false] at hp
    rcases hp with rfl | rfl <;> exact small_of _ (by decide)
  · refine ⟨by decide, by decide, by decide, by decide, by decide, ?_, small_of _ (by decide), small_of _ (by decide)⟩
    intro p hp
    simp only [rec2, List.mem_cons, List.mem_nil_iff, or_false] at hp
    rcases hp with rfl | rfl <;> exact small_of _ (by decide)
  · refine ⟨by decide, by decide, by decide, by decide, by decide, ?_, small_of _ (by decide), small_of _ (by decide)⟩
    intro p hp
    simp only [rec3, List.mem_cons, List.mem_nil_iff, or_false] at hp
    rcases hp with rfl | rfl <;> exact small_of _ (by decide)

end Inst

open Inst in
/-- the hypotheses of `C10_index_equals_eager_partial` are satisfiable: the file
    `#1=ND('a', $);\n/* it's (x */ #2 =ND('b',#1 );\n#3=GRP('g',(#1, #2));\nENDSEC; END-ISO-10303-21;` over
    `ENTITY nd; name : STRING; nxt : OPTIONAL nd;` and `ENTITY grp; lbl : STRING; items : LIST OF nd;` — a comment with an apostrophe and
    a parenthesis before `#2`, a reference back, an aggregate of references with layout inside — for every floating-point
    interpretation, either strictness and every reader configuration with the comment repairs; the offsets the scanner records are
    those of `C10_materialise_at_recorded_offsets_partial` -/
theorem C10_index_equals_eager_instance_witness (ops : FloatOps Nat) (lex : LexCfg) (cfg : RWCfg) (strict : Bool)
    (hskip : cfg.skipInstanceSkipsComments = true) (hcri : lex.criSkipsComments = true) (hagg : cfg.aggrSkipsComments = true) :
    ∃ res es,
      readDataSection ops lex cfg d strict false ([] ++ renderRecs rs (RLemmas.endsec [] ([32] ++ (endIso ++ 59 :: [])))) = .ok res ∧
      scan (cs ([] ++ renderRecs rs (RLemmas.endsec [] ([32] ++ (endIso ++ 59 :: []))))) = .ok (es, true) ∧
      es.map (fun e => ((e.id : Int), String.ofList e.kw)) = [(1, "ND"), (2, "ND"), (3, "GRP")] ∧
      es.map (·.refs) = [[], [1], [1, 2]] ∧ res.mgr.insts.map instRefs = [[], [1], [1, 2]] := by
  obtain ⟨res, es, h1, h2, h3, h4, h5, _⟩ := C10_index_equals_eager_partial ops lex cfg d strict hskip hcri hagg rs [] [] [32] []
    seps_nil rfl seps_sp (by decide) (rc ops lex cfg) C10_source_comments_raw lz (small_of _ rfl) (small_of _ rfl)
  refine ⟨res, es, h1, h2, ?_, ?_, ?_⟩
  · obtain ⟨res', hr', hi', _⟩ := C01_read_file_partial ops lex cfg d strict hskip hcri hagg rs [] [] [32] []
      seps_nil rfl seps_sp (by decide) (rc ops lex cfg)
    rw [h1] at hr'
    cases hr'
    rw [h3, hi']
    decide
  · rw [h4]; rfl
  · rw [← h5, h4]; rfl

theorem Inst.lzm : ∀ r ∈ mRecs, LazySideAny mEnv r := by
  intro r hr
  simp only [mRecs, List.mem_cons, List.not_mem_nil, or_false] at hr
  rcases hr with rfl | rfl
  · show LazySide wRecA
    refine ⟨by decide, by decide, by decide, by decide, by decide, ?_, Inst.small_of _ (by decide), Inst.small_of _ (by decide)⟩
    intro p hp
    simp only [wRecA, List.mem_cons, List.not_mem_nil, or_false] at hp
    subst hp
    exact Inst.small_of _ (by decide)
  · refine ⟨by decide, by decide, Inst.small_of _ (by decide), Inst.small_of _ (by decide), ?_⟩
    intro c hc ed he a ha
    simp only [mCRec, List.mem_cons, List.not_mem_nil, or_false] at hc
    rcases hc with rfl | rfl
    · have h1 : mEnv.dict.entity? mPartA.name = some { name := "A", attrs := [wAttrI], ancestors := ["A"] } := by decide
      rw [h1] at he; cases he
      have hown : EntityD.ownAttrs { name := "A", attrs := [wAttrI], ancestors := ["A"] } = [wAttrI] := by decide
      rw [hown] at ha
      simp only [List.mem_cons, List.not_mem_nil, or_false] at ha
      subst ha; decide
    · have h1 : mEnv.dict.entity? mPartC.name = some { name := "C", attrs := [wAttrR], ancestors := ["C"] } := by decide
      rw [h1] at he; cases he
      have hown : EntityD.ownAttrs { name := "C", attrs := [wAttrR], ancestors := ["C"] } = [wAttrR] := by decide
      rw [hown] at ha
      simp only [List.mem_cons, List.not_mem_nil, or_false] at ha
      subst ha; decide

/-- the hypotheses of `C10_index_equals_eager_mixed_partial` are satisfiable, every one discharged: the C01 owner's witness file
    `⏎#1=A(5);⏎#2=(A(7)C(#1));⏎ENDSEC;⏎END-ISO-10303-21;⏎` (`C01_mixed_hypotheses_witness`) — the lazy index has `#1` under `A` without
    references and the externally mapped `#2` under the empty keyword with the reference to `#1` that its part `C` holds -/
theorem C10_index_equals_eager_mixed_instance_witness :
    ∃ res es,
      readDataSection dblOps Generated.rwLexCfg Generated.rwCfg mDict false false
        ([10] ++ renderItems (mRecs.map (AnyRec.item mDict)) (RLemmas.endsec [] ([10] ++ (endIso ++ 59 :: [10])))) = .ok res ∧
      scan (cs ([10] ++ renderItems (mRecs.map (AnyRec.item mDict)) (RLemmas.endsec [] ([10] ++ (endIso ++ 59 :: [10]))))) = .ok (es, true) ∧
      es = [⟨1, "A".toList, []⟩, ⟨2, [], [1]⟩] ∧ res.created = 2 := by
  obtain ⟨hnd, hrec⟩ := C01_mixed_hypotheses_witness
  obtain ⟨res, es, h1, h2, h3, _, h5⟩ := C10_index_equals_eager_mixed_partial dblOps Generated.rwLexCfg Generated.rwCfg mDict false
    (by decide) (by decide) (by decide) (by decide) (by decide) mRecs [10] [] [10] [10]
    (Seps.blanks _ (by decide)) (by decide) (Seps.blanks _ (by decide)) hnd hrec C10_source_comments_raw Inst.lzm
    (Inst.small_of _ (by decide)) (Inst.small_of _ (by decide))
  refine ⟨res, es, h1, h2, ?_, ?_⟩
  · rw [h3]; decide
  · rw [← h5, h3]; rfl

/-- the ids the eager model creates from a data section (dictionary `exDict` of the C01 owner: one entity `A(i : INTEGER, l : LIST OF
    INTEGER)`), with the count `ReadData1` reports -/
def eagerIds (data : String) : Option (List Int × Nat) :=
  match readDataSection dblOps Generated.rwLexCfg Generated.rwCfg exDict false false (q data) with
  | .ok r => some (r.mgr.insts.map (·.id), r.created)
  | .error _ => none

/-- the ids the lazy scanner model indexes in the same data section, and whether it accepts the section -/
def lazyIds (data : String) : Option (List Nat × Bool) :=
  match scan data.toList with
  | .ok (es, b) => some (es.map (·.id), b)
  | _ => none

/-- executed on both models, the largest id of the covered class (`INT_MAX`): the same three instances -/
theorem C10_index_equals_eager_witness :
    eagerIds "#1=A(5,(1));#2147483647=A(5,(1));#3=A(5,(1));ENDSEC;END-ISO-10303-21;" = some ([1, 2147483647, 3], 3) ∧
    lazyIds "#1=A(5,(1));#2147483647=A(5,(1));#3=A(5,(1));ENDSEC;END-ISO-10303-21;" = some ([1, 2147483647, 3], true) := by
  constructor <;> decide

/-- `_witness` for the hypothesis `id ≤ INT_MAX` of `C10_index_equals_eager_partial` (it comes from the eager side's `Rec.Lex`): an
    instance name above `INT_MAX` — conforming, Part 21 does not bound instance names — and the two readers see different files.
    The eager reader stops creating instances at it (one instance, as p21read does: "instance #2147483647 '=' expected", then nothing
    more of the section), the lazy index lists all three (its ids are 64 bit).  Replayed on the code (`layout:id-above-int-max`); there
    `loadInstance` of the indexed instance then yields an instance named `#-1294967296` and references to it are dropped -/
theorem C10_id_above_int_max_witness :
    eagerIds "#1=A(5,(1));#3000000000=A(5,(1));#3=A(5,(1));ENDSEC;END-ISO-10303-21;" = some ([1], 1) ∧
    lazyIds "#1=A(5,(1));#3000000000=A(5,(1));#3=A(5,(1));ENDSEC;END-ISO-10303-21;" = some ([1, 3000000000, 3], true) := by
  constructor <;> decide

end Eager

end StepModel.Lazy

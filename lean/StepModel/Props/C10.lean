import StepModel.Lazy
namespace StepModel.Lazy

theorem C10_stub : skipWS [] = [] := rfl

end StepModel.Lazy

import StepModel.ComplexLemmas
import StepModel.ComplexBuild
import StepModel.ComplexSafeTop
import StepModel.ComplexSemHead
import StepModel.ComplexForest3
import StepModel.ComplexForestAgree
import StepModel.ComplexInitLemmas
import StepModel.ComplexAccept
import StepModel.ComplexOrFreeTop
import StepModel.ComplexTerm2
import StepModel.ComplexSatO5
import StepModel.ComplexFuel
import StepModel.ComplexBuildWF
import StepModel.ComplexBuildOK
import StepModel.ComplexMarks10
import StepModel.ComplexComplete9
import StepModel.ComplexBuildDistinct
import StepModel.ComplexReset
import StepModel.ComplexCombo
import StepModel.ComplexSim
import StepModel.ComplexTreeKeep
import StepModel.ComplexExhaust
import StepModel.ComplexCount
import StepModel.ComplexAdvance
/-!
# C08 — complex instances are accepted exactly when the supertype constraints allow them

What is proved here (for all inputs unless the name says otherwise):

* `C08_order_irrelevant` / `C08_order_irrelevant_perm` — the verdict of the matcher model depends only on the *set* of part
  names: order and repetition of the parts in the file do not matter (the `EntNode` constructor builds the strictly
  ascending list of the distinct names).
* `C08_and_flatten_meaning` — the same-operator flattening `MultList::processSubExp` applies to AND keeps the plain
  meaning of the tree (list-for-list), `C08_prodD_append` being the underlying law of the AND meaning.
* ties to regenerated constants: `C08_enum_order`, `C08_listEnd_sentinel`, `C08_or_start_values`,
  `C08_null_step_guarded` (the backwards step of `MultList::tryNext` tests the pointer — false on the tree before
  `fixes/C08-1-…`, where the matcher model answers `crash firstCandidateNull` and the real matcher dies under UBSan /
  segfaults at -O2).
* fixed inputs evaluated by the kernel on the model and replayed on the real code in every run (`checks/c08.py`, FIXED):
  `C08_collectOf_example`, `C08_oneof_violation_refused`, `C08_oneof_legal_accepted`,
  `C08_sound_witness` (a diamond below one root: `{a,b,d}` is accepted although `d`'s supertype `c` is missing),
  `C08_complete_witness` (a single non-abstract root written in external mapping is refused).

* further down (rounds 6–8, see the doc comment of each): **`C08_accepts_iff_legal_partial`** (the composition: on
  single-supertype schemas with distinct leaves the matcher model accepts an instance of ≥ 2 parts iff `Spec.Legal`),
  `C08_sound_partial` (soundness, every OrList nesting), `C08_complete_partial` / `C08_sound_complete_oneof_partial`
  (completeness on distinct leaves), `C08_sound_complete_partial` (OR-free fragment), `C08_accept_contains_derivation`,
  `C08_no_crash`, `C08_odometer` / `C08_retry_terminates` / `C08_matches_terminates` / `C08_supports_answers*`
  (termination), `C08_collectOf_headWF` / `C08_collectOf_succeeds` (the construction), `C08_eval_legal_partial` (tree
  meaning ⟷ `Legal` on forests), `C08_sort_correct`.

Not proved (tested exhaustively instead, see notes/C08.md): completeness of `supports` on trees with repeated leaf names
(non-abstract sub-supertypes), anything beyond no-crash/termination/the subset half for requests with multiply-inheriting
members (soundness and completeness are false there), `evalB ∘ collectOf` ⟷ `Legal` outside forests (false there).
-/
namespace StepModel.Complex
open StepModel.Generated Match

/-- diamond below one root (see `exDiamondTree` further down) -/
def exDiamondTree' : Collect :=
  [.and [.simple 0, .andor [.or [.simple 1, .and [.simple 1, .andor [.simple 3]]],
                            .or [.simple 2, .and [.simple 2, .andor [.simple 3]]]]]]

/-- Order and repetition of the parts do not matter: requests naming the same set of entities get the same outcome. -/
theorem C08_order_irrelevant (c : Collect) (mult parts parts' : List Name)
    (h : ∀ x, x ∈ parts ↔ x ∈ parts') : supports c mult parts = supports c mult parts' := by
  unfold supports mkEnts
  rw [mkNames_ext parts parts' h]

theorem C08_order_irrelevant_perm (c : Collect) (mult parts parts' : List Name)
    (h : parts.Perm parts') : supports c mult parts = supports c mult parts' :=
  C08_order_irrelevant c mult parts parts' (fun _ => h.mem_iff)

/-- the request list is the strictly ascending list of the distinct part names -/
theorem C08_request_sorted (parts : List Name) :
    (mkNames parts).Pairwise (· < ·) ∧ ∀ x, x ∈ mkNames parts ↔ x ∈ parts :=
  ⟨sorted_mkNames parts, mem_mkNames parts⟩

example : supports [] [] [2, 0, 1] = supports [] [] [0, 1, 2, 1] :=
  C08_order_irrelevant _ _ _ _ (by intro x; simp only [List.mem_cons, List.mem_nil_iff, or_false]; grind)

/-- law of the AND meaning: deriving from `ds ++ es` is deriving from `ds`, then from `es` -/
theorem C08_prodD_append (ds es : List (List (List Name))) :
    prodD (ds ++ es) = (prodD ds).flatMap (fun x => (prodD es).map (fun y => x ++ y)) := by
  induction ds with
  | nil => simp [prodD]
  | cons d ds ih =>
    simp [prodD, ih, List.flatMap_assoc, List.map_flatMap, List.flatMap_map, List.append_assoc, Function.comp_def]

theorem denoteL_append (as bs : List Tree) : denoteL (as ++ bs) = denoteL as ++ denoteL bs := by
  induction as with
  | nil => simp [denoteL]
  | cons a as ih => simp [denoteL, ih]

/-- `processSubExp` puts the operands of an AND that sits directly inside an AND on the parent's own level;
the flattened tree derives exactly the same name lists, in the same order. -/
theorem C08_and_flatten_meaning (as bs cs : List Tree) :
    denote (.and (as ++ [.and bs] ++ cs)) = denote (.and (as ++ bs ++ cs)) := by
  simp only [denote, denoteL_append, denoteL, List.append_assoc]
  rw [C08_prodD_append, C08_prodD_append (denoteL as)]
  congr 1
  funext x
  congr 1
  show prodD (prodD (denoteL bs) :: denoteL cs) = prodD (denoteL bs ++ denoteL cs)
  rw [C08_prodD_append]
  rfl

-- ------------------------------------------------------------------ no crash
/-- **No crash, all inputs.**  For every collect whose lists have the shape exp2cxx emits (`headWF`: head =
`AND(SimpleList, sub-list)`, every list below has a child — `checks/c08.py` verifies this on every emitted tree) and
every request whose members with several supertypes occur in some list (true for generated collects: such a member is a
subtype, hence a leaf of its supertypes' lists), `supports` never returns a crash outcome: none of the eight modelled
unchecked dereferences is reachable.  Proved by induction on the fuel over the five mutual blocks of the model
(`ComplexSafe.lean`) with the invariants `WFv`/`Ch`/`ReadyV`; the step "`firstCandidate( child->prev )` with a null
`prev`" is closed by the *regenerated* `tryNextNullSafe` (on the tree before fixes/C08-1 this proof does not check). -/
theorem C08_no_crash (c : Collect) (mult parts : List Name) (hc : ∀ h ∈ c, headWF h = true)
    (hcov : ∀ n ∈ parts, n ∈ mult → ∃ h ∈ c, n ∈ leaves h) (k : Crash) :
    supports c mult parts ≠ .crash k :=
  supports_no_crash c mult parts hc hcov k

/-- the hypotheses are satisfiable: the emitted tree of the diamond example, request `{a, b, d}` with `d` flagged -/
example : ∀ k, supports exDiamondTree' [3] [0, 1, 3] ≠ .crash k :=
  C08_no_crash _ _ _ (by decide) (by decide)

/-- **Soundness, the part that is proved** (every collect, every request without multiply-inheriting members; excluded:
requests with such members, where the combo list is matched instead): if the matcher accepts, some list of the collect has
its supertype — the root of the hierarchy — among the parts and mentions every part.  The finer clauses (each member's
ONEOF/AND/ANDOR rule, ABSTRACT) are the matcher ⟷ `evalB` link, which is tested, not proved. -/
theorem C08_sound_root_partial (c : Collect) (parts : List Name) (h : supports c [] parts = .ok true) :
    ∃ hd ∈ c, ∃ r rest, hd = .and (.simple r :: rest) ∧ r ∈ parts ∧ ∀ n ∈ parts, n ∈ leaves hd :=
  accept_needs c parts h

/-- **Soundness and completeness of the matcher, partial: the OR-free fragment.**  For every collect all of whose
lists are OR-free (SimpleList / AndList / AndOrList only: no ONEOF and no non-abstract sub-supertype, whose `OR(simple,
list)` is an OrList), well formed (`treeWF`, head = `AND(supertype, …)`) with pairwise distinct leaf names, and every
request without multiply-inheriting members (any order, any repetition): whenever `supports` answers (no crash, fuel
left), it answers `true` exactly when the plain meaning `evalB` of the collect holds.  Proved through explicit marks
(`Mk`, `placed`): `matchNonORs` marks exactly the cover of a satisfied list — also through `AndOrList`'s early return —
and `unmarkAll` removes exactly the marks an UNSATISFIED child set.  Excluded: collects with an OrList (backtracking
`matchORs`/`tryNext`: tested only), requests with multiply-inheriting members (false there: `C08_sound_witness`),
repeated leaf names. -/
theorem C08_sound_complete_partial (c : Collect) (hc : ∀ h ∈ c, orFreeHead h) (parts : List Name) (b : Bool)
    (hs : supports c [] parts = .ok b) : b = true ↔ evalB c [] parts = true :=
  orfree_sound_complete c hc parts b hs

/-- the hypotheses are satisfiable: `a ABSTRACT SUPERTYPE OF (b AND (c ANDOR d))` -/
example : ∀ b, supports [.and [.simple 0, .and [.simple 1, .andor [.simple 2, .simple 3]]]] [] [1, 0, 3] = .ok b →
    (b = true ↔ evalB [.and [.simple 0, .and [.simple 1, .andor [.simple 2, .simple 3]]]] [] [1, 0, 3] = true) :=
  fun b => C08_sound_complete_partial _ (by
    intro h hh; simp only [List.mem_singleton] at hh; subst hh
    exact ⟨by decide, by decide, by decide, _, _, rfl⟩) _ b

-- ------------------------------------------------------------------ termination of the retry loop (the odometer of OR choices)
/-- **The odometer.**  `tryNext` never changes a `viable` value nor the shape of the hierarchy, and whenever it reports
NEWCHOICE or MATCHALL the `choice` fields of the OrLists, read as one mixed-radix number `val` (an OrList more significant
than what lies below it, an earlier sibling more significant than a later one), have grown.  Hypothesis `smallOr`: every
OrList has fewer children than `LISTEND` — without it `choice + 1` can *be* LISTEND and `acceptChoice` starts over at
`choice1` (the real matcher then loops forever: fixes/C08-3). -/
theorem C08_odometer (f : Nat) (t : ST) (es : Ents) (r : ST × Ents × MT) (h : tryNext f t es = .ok r)
    (hs : smallOr (skel t)) : skel r.1 = skel t ∧ (Moved r.2.2 → val t < val r.1) :=
  (trynext_val f).1 t es r h hs

/-- **Termination of the retry loop of `ComplexList::matches`** (`while( otherChoices == NEWCHOICE )`): with fuel at
least the number of choice combinations `cap` plus one walk through the hierarchy (`2·sz + 2`), `retry` does not run
out of fuel — the loop ends after at most `cap − val` rounds, for every hierarchy (with any nesting of OrLists, any
marks, any stored `viable` values) whose OrLists are shorter than `LISTEND`. -/
theorem C08_retry_terminates (combo : Bool) (f : Nat) (head : ST) (es : Ents) (hs : smallOr (skel head))
    (hf : cap (skel head) + 2 * sz (skel head) + 2 ≤ f) : retry f combo head es ≠ .outOfFuel :=
  retry_terminates combo (cap (skel head)) f head es hs (Nat.sub_le _ _) hf

/-- **`ComplexList::matches` terminates, all of it**: `matchNonORs`, `matchORs` (with the `unmarkAll`/`acceptChoice`
calls inside) and the retry loop.  For every well-formed list (`treeWF`) whose OrLists are shorter than `LISTEND`
(`smallOrT`; without it the real matcher loops forever: fixes/C08-3) and every ascending request list, fuel
`capT + 2·szT + 2` — the number of choice combinations plus one walk over the hierarchy — is enough, for either kind of
matching (`combo`).  The model's fuel is a clock of the real recursion depth and loop rounds, so this bounds the number
of retry rounds of the real loop by `capT head`. -/
theorem C08_matches_terminates (fuel : Nat) (combo : Bool) (head : Tree) (es : Ents) (hwf : treeWF head = true)
    (hN : (names es).Pairwise (· < ·)) (hsm : smallOrT head) (hf : capT head + 2 * szT head + 2 ≤ fuel) :
    matchesList fuel combo head es ≠ .outOfFuel :=
  matches_fuel fuel combo head es hwf hN hsm hf

/-- **`supports` answers** (excluded: requests with multiply-inheriting members, where the joined list is matched — its
size is not bounded here): on a collect of the emitted shape whose OrLists are shorter than `LISTEND` and whose lists'
choice combinations fit the model's default fuel, `supports` returns `true` or `false` — no crash, no exhausted fuel —
for every request without such members. -/
theorem C08_supports_answers_partial (c : Collect) (parts : List Name) (hc : ∀ h ∈ c, headWF h = true)
    (hsm : ∀ h ∈ c, smallOrT h) (hf : ∀ h ∈ c, capT h + 2 * szT h + 2 ≤ defaultFuel c) :
    ∃ b, supports c [] parts = .ok b := by
  have h1 := supports_fuel c parts hc hsm hf
  have h2 := C08_no_crash c [] parts hc (fun _ _ hm => by cases hm)
  cases h : supports c [] parts with
  | ok b => exact ⟨b, rfl⟩
  | crash k => exact absurd h (h2 k)
  | outOfFuel => exact absurd h h1

/-- the fuel hypothesis of `C08_supports_answers_partial`, discharged: it holds for **every** collect none of whose lists
has more than 4096 choice combinations (`capT` = product over its OrLists of (alternatives + 2); e.g. no OrList at all, or
up to four AND-ed ONEOFs of four alternatives) — the size of the lists does not matter (`szT ≤ 4·size`, and the default
fuel grows with the size).  Beyond that the *model's* default fuel may run out where the real matcher still answers
(after exponentially many rounds, notes defect 5); `C08_matches_terminates` then applies with an explicit fuel. -/
theorem C08_supports_answers_capT_partial (c : Collect) (parts : List Name) (hc : ∀ h ∈ c, headWF h = true)
    (hsm : ∀ h ∈ c, smallOrT h) (hcap : ∀ h ∈ c, capT h ≤ 4096) : ∃ b, supports c [] parts = .ok b :=
  C08_supports_answers_partial c parts hc hsm (fuel_of_capT c hcap)

/-- … and with multiply-inheriting members too, once the fuel also covers the list that `supports` joins for them
(`hfj`; that list is well formed and its OrLists are short because the collect's are — proved inside): `supports`
answers for every request. -/
theorem C08_supports_answers (c : Collect) (mult parts : List Name) (hc : ∀ h ∈ c, headWF h = true)
    (hcov : ∀ n ∈ parts, n ∈ mult → ∃ h ∈ c, n ∈ leaves h)
    (hsm : ∀ h ∈ c, smallOrT h) (hf : ∀ h ∈ c, capT h + 2 * szT h + 2 ≤ defaultFuel c)
    (hfj : ∀ joined, joinLists c (mkEnts mult parts) = .ok joined →
      capT (.and joined) + 2 * szT (.and joined) + 2 ≤ defaultFuel c) :
    ∃ b, supports c mult parts = .ok b := by
  have h1 := supports_fuel_all c mult parts hc hsm hf hfj
  have h2 := C08_no_crash c mult parts hc hcov
  cases h : supports c mult parts with
  | ok b => exact ⟨b, rfl⟩
  | crash k => exact absurd h (h2 k)
  | outOfFuel => exact absurd h h1

/-- **`supports` answers on every request, members with several supertypes included — no hypothesis about the joined
list.**  The list `supports` joins for such members consists of the children of lists of the collect with pairwise
different supertypes (`joinLists_heads`: the `toplevel` test), so its number of choice combinations is at most the product
over the collect and its size at most the sum; hence whenever that product is ≤ 4096 the model answers `true` or `false`
on every request whose multiply-inheriting members occur in some list. -/
theorem C08_supports_answers_all (c : Collect) (mult parts : List Name) (hc : ∀ h ∈ c, headWF h = true)
    (hcov : ∀ n ∈ parts, n ∈ mult → ∃ h ∈ c, n ∈ leaves h)
    (hsm : ∀ h ∈ c, smallOrT h) (hcap : capTL c ≤ 4096) : ∃ b, supports c mult parts = .ok b := by
  have h1 := supports_fuel_total c mult parts hc hsm hcap
  have h2 := C08_no_crash c mult parts hc hcov
  cases h : supports c mult parts with
  | ok b => exact ⟨b, rfl⟩
  | crash k => exact absurd h (h2 k)
  | outOfFuel => exact absurd h h1

/-- satisfiable: the diamond example with its multiply-inheriting member -/
example : ∃ b, supports exDiamondTree' [3] [0, 1, 3] = .ok b :=
  C08_supports_answers_all _ _ _ (by decide) (by decide)
    (by intro h hh; simp only [exDiamondTree', List.mem_singleton] at hh; subst hh
        simp only [smallOrT, smallOrTL, and_true, List.length_cons, List.length_nil]; decide)
    (by decide)

/-- the hypotheses are satisfiable: `a SUPERTYPE OF (ONEOF(b, c) ANDOR d)` -/
example : ∀ parts, ∃ b, supports [.and [.simple 0, .andor [.or [.simple 1, .simple 2], .simple 3]]] [] parts = .ok b :=
  fun parts => C08_supports_answers_partial _ parts (by decide)
    (by intro h hh; simp only [List.mem_singleton] at hh; subst hh
        simp only [smallOrT, smallOrTL, and_true, List.length_cons, List.length_nil]; decide)
    (by decide)

-- ------------------------------------------------------------------ the tree construction is right (induction on the expression)
/-- **Every nesting of ONEOF/AND/ANDOR, every kind of parent list** (supertype head, AND, ANDOR, OR — with and without
the same-operator flattening): the children `processSubExp` builds for `x` contribute exactly `Sem T x` — AND = union
of both operands' derivations, ANDOR = one or both, ONEOF = exactly one — where an entity reference means its own tree. -/
theorem C08_expr_meaning (T : Name → Option Tree) (x : Expr) (p : Parent) (ts : List Tree)
    (h : exprKids T p x = some ts) (Y : List Name) : CtxDer p (denoteL ts) Y ↔ Sem T x Y :=
  expr_meaning T x p ts h Y

/-- … and `Sem T x` is: a set of direct subtypes the expression admits by the rule `Spec.Legal` uses (`Expr.admits`),
with one derivation of each chosen subtype's tree. -/
theorem C08_sem_admits (T : Name → Option Tree) (x : Expr) (Y : List Name) : Sem T x Y ↔ AdmFam T x.admits Y :=
  sem_admits T x Y

/-- **The list built for an entity means the entity's own rule of `Spec.Legal`**: it derives exactly `e` together with
a set of direct subtypes that `Entity.admits` allows (expression ANDOR-ed with the implicit subtypes) and one derivation
of each of those.  `hagree` (`ImplicitAgree`, decidable, checked on every generated schema): `addImplicitSubs` finds the
same implicit subtypes as the declarations show — false only under redundant inheritance. -/
theorem C08_head_meaning (s : Schema) (f : Nat) (e : Entity) (h : Tree) (hh : headOf s (f + 1) e = some h)
    (hsub : e.subs ≠ [])
    (hagree : ∀ b, (match e.expr with | none => some [] | some x => exprKids (fun n => entTree s f n) .superHead x) = some b →
      ImplicitAgree e b) (X : List Name) :
    Der (denote h) X ↔ PAnd (SameSet [e.name]) (AdmFam (fun n => entTree s f n) e.admits) X :=
  head_meaning s f e h hh hsub hagree X

/-- a subtype without subtypes means itself; an ABSTRACT sub-supertype means its list; a non-abstract one means itself
alone or its list (`OR(simple, list)`) -/
theorem C08_entTree_meaning (s : Schema) (f : Nat) (n : Name) (t : Tree) (ht : entTree s (f + 1) n = some t) (X : List Name) :
    ∃ e, s.find n = some e ∧
      (Der (denote t) X ↔
        if e.subs.isEmpty then SameSet [n] X
        else ∃ h, headOf s f e = some h ∧ ((e.abstract = false ∧ SameSet [n] X) ∨ Der (denote h) X)) :=
  entTree_meaning s f n t ht X

-- ------------------------------------------------------------------ forests: tree meaning ⟷ Spec.Legal
/-- On a forest, the tree of an entity derives exactly the sets that are legal *rooted at that entity* (`Flat`: inside its
subtree, closed under supertypes below it, every member's own ONEOF/AND/ANDOR rule satisfied over the subtypes present,
ABSTRACT members have a subtype present); the list of an entity derives those with at least one direct subtype present. -/
theorem C08_tree_meaning_flat {s : Schema} {lvl : Name → Nat} (W : ForestWF s lvl) (f : Nat) :
    (∀ n t X, entTree s f n = some t → (Der (denote t) X ↔ Flat s n X)) ∧
    (∀ e h X, e ∈ s → e.subs ≠ [] → headOf s f e = some h → (Der (denote h) X ↔ Flat s e.name X ∧ present e X ≠ [])) :=
  tree_flat W (agree_of_forest W) f

/-- On a forest, `Spec.Legal` (incl. its breadth-first `connected`) is rooted legality at an entity without supertype. -/
theorem C08_legal_iff_rooted {s : Schema} {lvl : Name → Nat} (W : ForestWF s lvl) (X : List Name) :
    Legal s X = true ↔ ∃ e ∈ s, e.supers = [] ∧ Flat s e.name X :=
  ⟨fun h => flat_of_legal W h, fun ⟨_, he, hr, hf⟩ => legal_of_flat W he hr hf⟩

/-- **`eval ∘ collectOf ⟷ Spec.Legal`, partial: single-supertype schemas (forests), sets with ≥ 2 members.**
Excluded, with the reason: (a) schemas in which some entity has two or more supertypes — there the statement is false
(`C08_eval_legal_witness_multi`); (b) one-member sets — a non-abstract root alone is legal but no list derives it
(`C08_eval_legal_witness_single`, finding single-part-refused); (c) ABSTRACT entities without any subtype
(`ForestWF.abstract_subs`; finding abstract-without-subtypes:accepts-illegal); (d) an expression naming a subtype twice;
(e) a cycle in the subtype graph (`lvl`).  That `addImplicitSubs` finds the same implicit subtypes as the declarations show
is *proved* for forests (`C08_forest_implicit_agree`); `ForestWF` is checked by the Lean driver (`forest`) on every generated
single-supertype schema. -/
theorem C08_eval_legal_partial {s : Schema} {lvl : Name → Nat} (W : ForestWF s lvl)
    (fuel : Nat) (c : Collect) (hc : collectOf s fuel = some c) (X : List Name) (h2 : ∃ a ∈ X, ∃ b ∈ X, a ≠ b) :
    evalB c [] X = true ↔ Legal s X = true :=
  eval_legal_forest W (agree_of_forest W) fuel c hc X h2

/-- on a forest the subtypes `addImplicitSubs` finds missing among the leaves of the list are exactly the subtypes the
expression does not mention (the hypothesis of `C08_head_meaning`), for every entity and every fuel -/
theorem C08_forest_implicit_agree {s : Schema} {lvl : Name → Nat} (W : ForestWF s lvl) : AgreeAll s :=
  agree_of_forest W

-- ------------------------------------------------------------------ regenerated constants the model relies on
theorem C08_enum_order : markTypeNames = assumedMarkNames ∧ matchTypeNames = assumedMatchNames := by decide

/-- `LISTEND` can only work as "beyond the last choice" while an OrList has at most that many children -/
theorem C08_listEnd_sentinel (n : Nat) (h : (n : Int) ≤ listEnd) : inRange listEnd n = none := by
  unfold inRange
  have : ¬ (0 ≤ listEnd ∧ listEnd < (n : Int)) := by omega
  simp [this]

theorem C08_or_start_values : orInitChoice = -1 ∧ orResetChoice = -1 ∧ inRange orInitChoice1 0 = none ∧
    inRange orResetChoice1 0 = none ∧ orInitCount = 0 ∧ orResetCount = 0 := by decide

/-- `MultList::tryNext` does not call a member through the null `prev` of a first child -/
theorem C08_null_step_guarded : tryNextNullSafe = true := by decide

-- ------------------------------------------------------------------ fixed inputs (replayed on the real code every run)
/-- `a SUPERTYPE OF (ONEOF(b, c) ANDOR d)`, `b c d SUBTYPE OF (a)`; names by rank: a=0 b=1 c=2 d=3 -/
def exOneofAndor : Schema :=
  [ { name := 0, abstract := false, supers := [], subs := [1, 2, 3],
      expr := some (.andor (.oneof [.ent 1, .ent 2]) (.ent 3)) },
    { name := 1, abstract := false, supers := [0], subs := [], expr := none },
    { name := 2, abstract := false, supers := [0], subs := [], expr := none },
    { name := 3, abstract := false, supers := [0], subs := [], expr := none } ]

def exOneofAndorTree : Collect := [.and [.simple 0, .andor [.or [.simple 1, .simple 2], .simple 3]]]

theorem C08_collectOf_example : collectOf exOneofAndor 50 = some exOneofAndorTree := by rfl

/-- the ONEOF violation `#n=(A()B()C());` is refused — it does not crash (on the tree before the fix the model
answers `crash firstCandidateNull` here and this theorem does not check) -/
theorem C08_oneof_violation_refused :
    supports exOneofAndorTree [] [0, 1, 2] = .ok false ∧ Legal exOneofAndor [0, 1, 2] = false := by decide +kernel

theorem C08_oneof_legal_accepted :
    supports exOneofAndorTree [] [3, 0, 1] = .ok true ∧ Legal exOneofAndor [3, 0, 1] = true := by decide +kernel

/-- diamond below one root: `a SUPERTYPE OF (b ANDOR c)`, `d SUBTYPE OF (b, c)`; a=0 b=1 c=2 d=3 -/
def exDiamond : Schema :=
  [ { name := 0, abstract := false, supers := [], subs := [1, 2], expr := some (.andor (.ent 1) (.ent 2)) },
    { name := 1, abstract := false, supers := [0], subs := [3], expr := none },
    { name := 2, abstract := false, supers := [0], subs := [3], expr := none },
    { name := 3, abstract := false, supers := [1, 2], subs := [], expr := none } ]

def exDiamondTree : Collect :=
  [.and [.simple 0, .andor [.or [.simple 1, .and [.simple 1, .andor [.simple 3]]],
                            .or [.simple 2, .and [.simple 2, .andor [.simple 3]]]]]]

theorem C08_diamond_collectOf : collectOf exDiamond 50 = some exDiamondTree := by rfl

/-- two non-abstract sub-supertypes in a chain below a ONEOF: `a SUPERTYPE OF (ONEOF(b, e))`, `b SUPERTYPE OF (c)`,
`c SUPERTYPE OF (d ANDOR f)`; a=0 b=1 c=2 d=3 e=4 f=5.  Its list repeats the leaves `b` and `c` (`OR(b, AND(b, …))`) — the
shape excluded from `C08_complete_partial`, on which the first acceptance picks the wrong alternative and the retry loop of
`ComplexList::matches` is needed -/
def exChain : Schema :=
  [ { name := 0, abstract := false, supers := [], subs := [1, 4], expr := some (.oneof [.ent 1, .ent 4]) },
    { name := 1, abstract := false, supers := [0], subs := [2], expr := none },
    { name := 2, abstract := false, supers := [1], subs := [3, 5], expr := some (.andor (.ent 3) (.ent 5)) },
    { name := 3, abstract := false, supers := [2], subs := [], expr := none },
    { name := 4, abstract := false, supers := [0], subs := [], expr := none },
    { name := 5, abstract := false, supers := [2], subs := [], expr := none } ]

def exChainTree : Collect :=
  [.and [.simple 0, .or [.or [.simple 1, .and [.simple 1, .andor [.or [.simple 2, .and [.simple 2,
    .andor [.simple 3, .simple 5]]]]]], .simple 4]]]

theorem C08_repeated_leaf_collectOf : collectOf exChain 50 = some exChainTree := by rfl

/-- all sub-lists of a list of names -/
def subsetsOf : List Name → List (List Name)
  | [] => [[]]
  | a :: as => subsetsOf as ++ (subsetsOf as).map (a :: ·)

/-- on this repeated-leaf schema the composition `C08_accepts_iff_legal_partial` — which excludes it — holds all the same:
for each of the 57 sets of at least two of its six entities the matcher model answers, and answers `true` exactly on the
six legal ones (kernel-evaluated on the model; the real code is compared with the model on such schemas by the subsets
stream of the check) -/
theorem C08_repeated_leaf_example : ∀ parts ∈ subsetsOf [0, 1, 2, 3, 4, 5], 2 ≤ parts.length →
    supports exChainTree [] parts = .ok (Legal exChain parts) := by decide +kernel

/-- **Soundness with OrLists, the requirements half — every hierarchy, every request.**  Whenever `supports` answers
`true` (collect of the shape exp2cxx emits, `headWF`; any nesting of OrLists below; request with or without members
that have several supertypes), some list of the collect derives a set of names that lies inside the request: each AND
has all its operands present, each ANDOR/ONEOF at least one, recursively, starting at the supertype.  Proved through the
`viable` values alone (`SemV`): `matchNonORs` and `matchORs` — AndList, AndOrList and the OrList loop with its
`choice`/`choice1`/maximum bookkeeping — store UNSATISFIED only on lists that cannot be satisfied from the request and
a value ≥ SATISFIED only on lists that can, what `matchORs` returns agrees with what it stores (for an OrList this
needs: once `viable` reaches MATCHSOME, `choice1` indexes a child that can be matched), and an acceptance needs
`viable ≥ MATCHSOME` at the head.  Not covered: that the request contains nothing *beyond* one derivation (the marks
through `acceptChoice`/`tryNext`: tested only; false with multiply-inheriting members, `C08_sound_witness`). -/
theorem C08_accept_contains_derivation (c : Collect) (mult parts : List Name) (hc : ∀ h ∈ c, headWF h = true)
    (hs : supports c mult parts = .ok true) : ∃ h ∈ c, ∃ Y ∈ denote h, ∀ y ∈ Y, y ∈ parts := by
  obtain ⟨h, hh, hsat⟩ := supports_sat c mult parts hc hs
  obtain ⟨Y, hY, hsub⟩ := (satO_iff _ h).mp hsat
  exact ⟨h, hh, Y, hY, fun y hy => (mem_mkNames parts y).mp (hsub y hy)⟩

/-- … and for a request without multiply-inheriting members (excluded: requests with such members, where the joined
list is matched) it is one and the same list that derives a subset of the request and mentions every part. -/
theorem C08_accept_one_list_partial (c : Collect) (parts : List Name) (hc : ∀ h ∈ c, headWF h = true)
    (hs : supports c [] parts = .ok true) :
    ∃ h ∈ c, (∃ Y ∈ denote h, ∀ y ∈ Y, y ∈ parts) ∧ ∀ x ∈ parts, x ∈ leaves h := by
  obtain ⟨h, hh, hsat, hin⟩ := supports_sat_single c parts hc hs
  obtain ⟨Y, hY, hsub⟩ := (satO_iff _ h).mp hsat
  exact ⟨h, hh, ⟨Y, hY, fun y hy => (mem_mkNames parts y).mp (hsub y hy)⟩, hin⟩

/-- the hypotheses are satisfiable, on a list with an OrList: `a SUPERTYPE OF (ONEOF(b, c) ANDOR d)`, `#n=(D()A()B())` -/
example : ∃ h ∈ exOneofAndorTree, ∃ Y ∈ denote h, ∀ y ∈ Y, y ∈ [3, 0, 1] :=
  C08_accept_contains_derivation exOneofAndorTree [] [3, 0, 1] (by decide) C08_oneof_legal_accepted.1

/-- **Soundness of the matcher with OrLists** (partial: requests without multiply-inheriting members — with them
the statement is false, `C08_sound_witness`; OrLists shorter than `LISTEND`, `smallOrT` — without that the real matcher
did not even terminate, fixes/C08-3).  For every collect of the emitted shape, **any nesting of ONEOF/AND/ANDOR lists,
repeated leaf names included** (the `OR(b, AND(b, …))` of a non-abstract sub-supertype), and every such request: if
`supports` accepts, the request is — as a set — one of the name sets some list derives (`evalB`): every AND operand
present, a non-empty selection of every ANDOR, **exactly one alternative of every ONEOF**, and nothing else.
Proved with the marks explicit (`markAt`, `holds`): through `matchNonORs`, `matchORs` (every alternative of an OrList is
tried and unmarked again, then `acceptChoice` re-marks the first choice with ORMARK), `unmarkAll`, `acceptChoice` and the
whole of `tryNext` (backwards scan, forward re-acceptance) the frame invariant "a member is marked iff exactly one
SimpleList holds it, with the same mark value" and the structure invariant "an OrList's marks sit in its `choice` child
only; below a list that counts only lists that count hold marks; UNSATISFIED children of AndOr/OrLists hold nothing" are
kept; MATCHALL is only ever reported when every member is marked; a list that reports NOMORE is left with its OrLists
holding nothing — which is what makes the forward loop's re-acceptance of later candidates sound; at an acceptance the
held names therefore extend to a derivation inside the request (`claim`, using the `viable` semantics of
`C08_accept_contains_derivation`) and, all members being marked, equal it. -/
theorem C08_sound_partial (c : Collect) (parts : List Name) (hc : ∀ h ∈ c, headWF h = true)
    (hsm : ∀ h ∈ c, smallOrT h) (hs : supports c [] parts = .ok true) : evalB c [] parts = true :=
  supports_sound c parts hc hsm hs

/-- the hypotheses are satisfiable, on a list with an OrList: `a SUPERTYPE OF (ONEOF(b, c) ANDOR d)`, `#n=(D()A()B())` -/
example : evalB exOneofAndorTree [] [3, 0, 1] = true :=
  C08_sound_partial exOneofAndorTree [3, 0, 1] (by decide)
    (by intro h hh; simp only [exOneofAndorTree, List.mem_singleton] at hh; subst hh
        simp only [smallOrT, smallOrTL, and_true, List.length_cons, List.length_nil]; decide)
    C08_oneof_legal_accepted.1

/-- … and with `C08_eval_legal_partial`: on a single-supertype schema, **an accepted complex instance is legal**
(sets with at least two members; the collect being the one exp2cxx emits). -/
theorem C08_accept_legal_partial {s : Schema} {lvl : Name → Nat} (W : ForestWF s lvl) (hx : s.exprsOK)
    (fuel : Nat) (c : Collect) (hc : collectOf s fuel = some c) (hsm : ∀ h ∈ c, smallOrT h)
    (parts : List Name) (h2 : ∃ a ∈ parts, ∃ b ∈ parts, a ≠ b) (hs : supports c [] parts = .ok true) :
    Legal s parts = true :=
  (C08_eval_legal_partial W fuel c hc parts h2).mp
    (C08_sound_partial c parts (collectOf_headWF s hx fuel c hc) hsm hs)

/-- **Completeness of the matcher with OrLists** (partial: lists with pairwise distinct leaf names — i.e. every nesting
of explicit ONEOF/AND/ANDOR, sub-supertypes ABSTRACT; excluded: the `OR(b, AND(b, …))` of a non-abstract sub-supertype,
which repeats `b`, and requests with multiply-inheriting members).  If the request is, as a set, one of the name sets
some list derives (`evalB`), `supports` — whenever it answers — accepts.  With distinct leaves every sub-list is alive
(its members of the request are exactly one of its derivations) or dead (no leaf in the request): an OrList on the chosen
path has exactly one alternative that counts, so `matchNonORs` + `matchORs` suffice; proved positively: every SimpleList on
the path ends up holding its name (also after `OrList::matchORs` tried, unmarked and re-accepted the alternative), every list
on the path counts, and MATCHALL reaches the head from the child that placed the last mark. -/
theorem C08_complete_partial (c : Collect) (parts : List Name) (hc : ∀ h ∈ c, headWF h = true)
    (hnd : ∀ h ∈ c, (leaves h).Nodup) (hsm : ∀ h ∈ c, smallOrT h) (b : Bool) (hs : supports c [] parts = .ok b)
    (he : evalB c [] parts = true) : b = true :=
  supports_complete c parts hc hnd hsm b hs he

/-- **Soundness and completeness of the matcher on lists with distinct leaves, any nesting of OrLists**: the verdict of
`supports` is the tree meaning (requests without multiply-inheriting members; the soundness direction holds without the
distinct-leaves hypothesis, `C08_sound_partial`). -/
theorem C08_sound_complete_oneof_partial (c : Collect) (parts : List Name) (hc : ∀ h ∈ c, headWF h = true)
    (hnd : ∀ h ∈ c, (leaves h).Nodup) (hsm : ∀ h ∈ c, smallOrT h) (b : Bool) (hs : supports c [] parts = .ok b) :
    b = true ↔ evalB c [] parts = true :=
  ⟨fun hb => C08_sound_partial c parts hc hsm (hb ▸ hs), fun he => C08_complete_partial c parts hc hnd hsm b hs he⟩

/-- **Every list exp2cxx's construction emits has the shape the matcher theorems assume.**  For every schema whose
ONEOFs have at least one operand (`exprsOK` — the EXPRESS grammar) and every fuel, each list of `collectOf s fuel` is
`headWF`: head = `AND(supertype, one sub-list)`, and no AND/ANDOR/OR list below is empty — through `processSubExp`
(flattening included), `addImplicitSubs` and `addSimpleAndSubs` (copies, `OR(simple, list)` wrappers).  This discharges
the hypothesis `headWF` of `C08_no_crash`, `C08_accept_contains_derivation`, `C08_supports_answers_partial` for emitted
collects (the check still verifies it on every tree the real exp2cxx writes). -/
theorem C08_collectOf_headWF (s : Schema) (hs : s.exprsOK) (fuel : Nat) (c : Collect) (h : collectOf s fuel = some c) :
    ∀ hd ∈ c, headWF hd = true :=
  collectOf_headWF s hs fuel c h

/-- **The construction succeeds**: on every schema whose subtype graph is acyclic (`ht` strictly decreases from an
entity to its subtypes), whose subtypes are all declared and whose supertype expressions mention subtypes only
(`BuildOK`), `collectOf` returns a collect whenever the fuel covers two units per generation — it never runs out of
fuel and never fails a look-up.  With `C08_collectOf_headWF` the hypothesis "`collectOf s fuel = some c`" of the
theorems above is satisfiable for every such schema. -/
theorem C08_collectOf_succeeds (s : Schema) (ht : Name → Nat) (B : BuildOK s ht) (fuel : Nat)
    (hf : ∀ e ∈ s, 2 * ht e.name + 1 ≤ fuel) : ∃ c, collectOf s fuel = some c :=
  collectOf_some s ht B fuel hf

/-- … hence: no crash and "accept ⇒ some list derives a subset of the request" on every emitted collect -/
theorem C08_emitted_safe_and_sound_half (s : Schema) (hs : s.exprsOK) (fuel : Nat) (c : Collect)
    (h : collectOf s fuel = some c) (mult parts : List Name)
    (hcov : ∀ n ∈ parts, n ∈ mult → ∃ h ∈ c, n ∈ leaves h) :
    (∀ k, supports c mult parts ≠ .crash k) ∧
    (supports c mult parts = .ok true → ∃ h ∈ c, ∃ Y ∈ denote h, ∀ y ∈ Y, y ∈ parts) :=
  ⟨C08_no_crash c mult parts (C08_collectOf_headWF s hs fuel c h) hcov,
   C08_accept_contains_derivation c mult parts (C08_collectOf_headWF s hs fuel c h)⟩

/-- Soundness fails on the current code: `{a, b, d}` lacks `d`'s supertype `c`, yet the matcher accepts it
(finding `several-supertypes:accepts-illegal`). -/
theorem C08_sound_witness :
    supports exDiamondTree [3] [0, 1, 3] = .ok true ∧ Legal exDiamond [0, 1, 3] = false := by decide +kernel

/-- Completeness fails on the current code: the non-abstract root alone is a legal set, yet `#n=(A());` is refused
(finding `single-part-refused`; ISO 10303-21 wants such an instance in internal mapping). -/
theorem C08_complete_witness :
    supports exOneofAndorTree [] [0] = .ok false ∧ Legal exOneofAndor [0] = true := by decide +kernel


def exLvl : Name → Nat := fun n => if n = 0 then 0 else 1

/-- the hypotheses of `C08_eval_legal_partial` are satisfiable: the ONEOF/ANDOR example schema -/
theorem exForest : ForestWF exOneofAndor exLvl where
  nodup := by decide
  single := by decide
  subs_iff := by
    intro e he m
    simp only [exOneofAndor, List.mem_cons, List.mem_nil_iff, or_false] at he
    rcases he with rfl | rfl | rfl | rfl <;> simp [exOneofAndor]
    all_goals (constructor <;> intro h <;> (try rcases h with h | h | h) <;> simp_all)
  subs_nodup := by decide
  supers_decl := by decide
  expr_ok := by
    intro e he x hx
    simp only [exOneofAndor, List.mem_cons, List.mem_nil_iff, or_false] at he
    rcases he with rfl | rfl | rfl | rfl <;> simp at hx
    subst hx; decide
  lvl_lt := by decide
  abstract_subs := by decide

/-- `C08_eval_legal_partial` applied: for the example schema, every request with two or more members is derivable from
the emitted tree exactly when it is legal -/
theorem C08_eval_legal_example (X : List Name) (h2 : ∃ a ∈ X, ∃ b ∈ X, a ≠ b) :
    evalB exOneofAndorTree [] X = true ↔ Legal exOneofAndor X = true :=
  C08_eval_legal_partial exForest 50 exOneofAndorTree C08_collectOf_example X h2

/-- **The composition, one statement: the matcher model accepts exactly the legal instances.**  Hypotheses, all named:
a single-supertype schema (`ForestWF`: acyclic, every entity at most one supertype, subtype lists and supertype
declarations agree, expressions mention each subtype at most once, ABSTRACT entities have a subtype) without empty ONEOF
(`exprsOK`); `c` is the collect exp2cxx's construction emits for it (`collectOf`); its OrLists are shorter than LISTEND
(`smallOrT`) and its lists have pairwise distinct leaf names (`hnd`: every nesting of ONEOF/AND/ANDOR, sub-supertypes
ABSTRACT); the instance names at least two different entities (`h2`; one-member sets are refused though legal,
`C08_complete_witness`) and none with several supertypes (forest); `supports` answers (`hs`: no crash is proved, the fuel is
sufficient by `C08_supports_answers_capT_partial`).  Then the answer is `true` **iff** `Spec.Legal s parts` — the property's
own rule, which never looks at the tree: closed under supertypes, each member's ONEOF/AND/ANDOR expression (implicit
subtypes ANDOR-ed on) satisfied over the subtypes present, ABSTRACT members have a subtype present, connected.
The direction "accepted ⇒ legal" does not need `hnd` (`C08_accept_legal_partial`). -/
theorem C08_accepts_iff_legal_partial {s : Schema} {lvl : Name → Nat} (W : ForestWF s lvl) (hx : s.exprsOK)
    (fuel : Nat) (c : Collect) (hc : collectOf s fuel = some c) (hsm : ∀ h ∈ c, smallOrT h)
    (hnd : ∀ h ∈ c, (leaves h).Nodup) (parts : List Name) (h2 : ∃ a ∈ parts, ∃ b ∈ parts, a ≠ b)
    (b : Bool) (hs : supports c [] parts = .ok b) : b = true ↔ Legal s parts = true :=
  (C08_sound_complete_oneof_partial c parts (collectOf_headWF s hx fuel c hc) hnd hsm b hs).trans
    (C08_eval_legal_partial W fuel c hc parts h2)

/-- **… with every hypothesis about the schema only**: the two conditions on the emitted collect are consequences of the
declarations — on a single-supertype schema whose sub-supertypes are all ABSTRACT (`SubSupersAbstract`) the emitted lists
have pairwise distinct leaves (`collectOf_distinct`: the leaves of an entity's tree are the entity and, block by block,
the leaves of its subtypes' trees; different subtypes have disjoint descendant sets), and when every ONEOF has fewer operands
than LISTEND (`oneofsSmall`) so has every emitted OrList (`collectOf_small`).  So: for every such schema and every
instance naming at least two different entities, the matcher model's answer on the emitted collect is `true` iff the
instance is `Spec.Legal`. -/
theorem C08_accepts_iff_legal_schema_partial {s : Schema} {lvl : Name → Nat} (W : ForestWF s lvl) (hx : s.exprsOK)
    (habs : SubSupersAbstract s) (hsmall : s.oneofsSmall) (fuel : Nat) (c : Collect) (hc : collectOf s fuel = some c)
    (parts : List Name) (h2 : ∃ a ∈ parts, ∃ b ∈ parts, a ≠ b) (b : Bool) (hs : supports c [] parts = .ok b) :
    b = true ↔ Legal s parts = true :=
  C08_accepts_iff_legal_partial W hx fuel c hc (collectOf_small s hsmall fuel c hc)
    (collectOf_distinct W habs fuel c hc) parts h2 b hs

/-- the hypotheses are satisfiable on the property's title case, a schema with a ONEOF:
`a SUPERTYPE OF (ONEOF(b, c) ANDOR d)` — for **every** instance with at least two parts the matcher model answers, and it
answers `true` exactly for the legal ones (so `#1=(A()B()C());` is refused *because* it violates ONEOF, and
`#1=(D()A()B());` is accepted because it is legal) -/
theorem C08_accepts_iff_legal_example (parts : List Name) (h2 : ∃ a ∈ parts, ∃ b ∈ parts, a ≠ b) :
    ∃ b, supports exOneofAndorTree [] parts = .ok b ∧ (b = true ↔ Legal exOneofAndor parts = true) := by
  have hsm : ∀ h ∈ exOneofAndorTree, smallOrT h := by
    intro h hh; simp only [exOneofAndorTree, List.mem_singleton] at hh; subst hh
    simp only [smallOrT, smallOrTL, and_true, List.length_cons, List.length_nil]; decide
  obtain ⟨b, hb⟩ := C08_supports_answers_partial exOneofAndorTree parts (by decide) hsm (by decide)
  exact ⟨b, hb, C08_accepts_iff_legal_partial exForest (by
    intro e he x hx
    simp only [exOneofAndor, List.mem_cons, List.mem_nil_iff, or_false] at he
    rcases he with rfl | rfl | rfl | rfl <;> simp at hx
    subst hx; decide) 50 exOneofAndorTree C08_collectOf_example hsm (by decide) parts h2 b hb⟩

/-- the schema-level hypotheses are satisfiable (same example schema): no sub-supertype at all, one ONEOF of two operands -/
example (parts : List Name) (h2 : ∃ a ∈ parts, ∃ b ∈ parts, a ≠ b) (b : Bool)
    (hs : supports exOneofAndorTree [] parts = .ok b) : b = true ↔ Legal exOneofAndor parts = true :=
  C08_accepts_iff_legal_schema_partial exForest
    (by intro e he x hx
        simp only [exOneofAndor, List.mem_cons, List.mem_nil_iff, or_false] at he
        rcases he with rfl | rfl | rfl | rfl <;> simp at hx
        subst hx; decide)
    (by intro e he hsup hsub
        simp only [exOneofAndor, List.mem_cons, List.mem_nil_iff, or_false] at he
        rcases he with rfl | rfl | rfl | rfl <;> simp at hsup hsub)
    (by intro e he x hx
        simp only [exOneofAndor, List.mem_cons, List.mem_nil_iff, or_false] at he
        rcases he with rfl | rfl | rfl | rfl <;> simp at hx
        subst hx
        simp only [Expr.oneofSmall, Expr.oneofSmallL, and_true, List.length_cons, List.length_nil]
        decide)
    50 exOneofAndorTree C08_collectOf_example parts h2 b hs

-- ------------------------------------------------------------------ the retry odometer: runs to its end, skips nothing that counts
/-- **The odometer runs to its end** (no hypothesis on the state).  `tryNext` answers NOMORE — anything but MATCHALL /
NEWCHOICE — only when every OrList it could still step (the OrLists reached through the candidates of
`firstCandidate`/`nextCandidate`, `Exh`) has `choice = LISTEND`, i.e. has itself found no further alternative: the
backwards scan of `MultList::tryNext` gives up only after each candidate, from the last to the first, has given up, and
`OrList::tryNext` only after `acceptChoice` went through all later alternatives (or `choiceCount = 1`). -/
theorem C08_nomore_exhausted (f : Nat) (t : ST) (es : Ents) (r : ST × Ents × MT) (h : tryNext f t es = .ok r)
    (hna : r.2.2 ≠ .all) (hnn : r.2.2 ≠ .newchoice) : Exh r.1 :=
  (nomore_exh f).1 t es r h hna hnn

/-- … hence a refusal by the retry loop of `ComplexList::matches` is preceded by exactly this: the loop, started on
`head`/`es`, passed through states (`RetryReach`: each step a `tryNext` that answered NEWCHOICE, or MATCHALL with
`hitMultNodes` failing) to a state `head'`/`es'` on which `tryNext` answered NOMORE and left every steppable OrList at
LISTEND.  With `C08_odometer` (every NEWCHOICE/MATCHALL strictly increases the mixed-radix number of the choices) the loop
walks upwards through the choice vectors and refuses only at the end of the range.  (Strengthened in place: the first
version of this theorem did not tie the exhausted state to the loop's own run.) -/
theorem C08_refusal_exhausted (combo : Bool) (f : Nat) (head : ST) (es : Ents) (h : retry f combo head es = .ok false) :
    ∃ (head' : ST) (es' : Ents) (g : Nat) (r : ST × Ents × MT), RetryReach combo head es head' es' ∧
      tryNext g head' es' = .ok r ∧ r.2.2 ≠ .all ∧ r.2.2 ≠ .newchoice ∧ Exh r.1 :=
  retry_false_last combo f head es h

/-- **… and no alternative that counts is skipped** (partial: the alternative is a finished alive list with distinct
leaves none of which is held elsewhere, `PA`; nothing is held below the OrList — the situation after `unmarkAll` of the
previous choice; excluded: alternatives whose members are already marked by other lists, which `acceptChoice` passes over
by design).  Scanning from position `i`, `OrList::acceptChoice` stops at some `j ≤ p` whenever the alternative at `p ≥ i`
counts: it neither reports "no choice" nor jumps past `p`.  Together with the two theorems above: the odometer digit of an
OrList takes every value that counts, in order, before it reaches LISTEND.  (The global statement — every choice *vector*
is visited — and with it completeness for repeated leaf names additionally needs the positive `tryNext` specification
and the induction over vectors; not done.  `choiceCount`: `C08_choiceCount_counts`.) -/
theorem C08_acceptChoice_skips_nothing_partial (N : List Name) (hN : N.Pairwise (· < ·)) (f : Nat) (cs : List ST) (i : Nat)
    (es : Ents) (r : List ST × Ents × Option Nat) (o : Name → Nat) (p : Nat) (chp : ST)
    (h : acceptOr f cs i es = .ok r) (hnm : names es = N) (hfr : FrL o cs es) (h0 : holdsL cs = [])
    (hnd : (lvSL cs).Nodup) (hout : ∀ n ∈ lvSL cs, o n = 0) (htidy : TidyL cs) (hip : i ≤ p) (hp : cs[p]? = some chp)
    (hpa : PA N chp) : ∃ j, r.2.2 = some j ∧ i ≤ j ∧ j ≤ p :=
  acceptOr_progress N hN f cs i es r o p chp h hnm hfr h0 hnd hout htidy hip hp hpa

/-- `C08_acceptChoice_skips_nothing_partial` with the leaf hypotheses only on the alternative at `p` (its leaves distinct
and not held outside the OrList): the *other* alternatives may repeat its names, as in the `OR(b, AND(b, …))` of a
non-abstract sub-supertype.  Still excluded: repeated names *inside* the alternative at `p` (a second non-abstract
sub-supertype nested below it). -/
theorem C08_acceptChoice_skips_nothing_repeated_partial (N : List Name) (hN : N.Pairwise (· < ·)) (f : Nat) (cs : List ST)
    (i : Nat) (es : Ents) (r : List ST × Ents × Option Nat) (o : Name → Nat) (p : Nat) (chp : ST)
    (h : acceptOr f cs i es = .ok r) (hnm : names es = N) (hfr : FrL o cs es) (h0 : holdsL cs = [])
    (hnd : (lvS chp).Nodup) (hout : ∀ n ∈ lvS chp, o n = 0) (htidy : TidyL cs) (hip : i ≤ p) (hp : cs[p]? = some chp)
    (hpa : PA N chp) : ∃ j, r.2.2 = some j ∧ i ≤ j ∧ j ≤ p :=
  acceptOr_progress' N hN f cs i es r o p chp h hnm hfr h0 hnd hout htidy hip hp hpa

/-- **The positive step of an odometer digit** (partial: the later alternative has distinct leaves, none held outside the
OrList; the state satisfies the invariants every state reached by the matcher satisfies — frame `Fr`, `Tidy`, `ChK`,
OrLists shorter than LISTEND).  An OrList standing at alternative `c`, `choiceCount ≠ 1`, with a later alternative `p`
that counts (`PA`): `OrList::tryNext` answers MATCHALL or NEWCHOICE — never NOMORE — and the new `choice` lies in
`[c, p]`: `c` when the current alternative itself could step, otherwise the first later alternative that accepts, which is
not beyond `p`.  With `C08_nomore_exhausted` (NOMORE ⇒ at LISTEND) and `C08_choiceCount_counts` (`choiceCount = 1` ⇒ no
other alternative counts) this is the single-digit specification of the odometer; the carry between digits
(`MultList::tryNext` + re-acceptance) and the induction over vectors are what completeness with repeated leaves still
lacks. -/
theorem C08_tryNext_advances_partial (N : List Name) (hN : N.Pairwise (· < ·)) (f : Nat) (v : MT) (c c1 : Int) (k : Nat)
    (cs : List ST) (es : Ents) (r : ST × Ents × MT) (o : Name → Nat) (p : Nat) (chp : ST)
    (h : tryNext f (.mult .or v c c1 k cs) es = .ok r) (hnm : names es = N)
    (hfr : Fr o (.mult .or v c c1 k cs) es) (htidy : Tidy (.mult .or v c c1 k cs)) (hchk : ChK (.mult .or v c c1 k cs))
    (hsm : smallOr (skel (.mult .or v c c1 k cs))) (hk : k ≠ 1)
    (hcp : c < (p : Int)) (hp : cs[p]? = some chp) (hpa : PA N chp) (hnd : (lvS chp).Nodup)
    (hout : ∀ n ∈ lvS chp, o n = 0) :
    (r.2.2 = .all ∨ r.2.2 = .newchoice) ∧ ∃ c' cs', r.1 = .mult .or v c' c1 k cs' ∧ c ≤ c' ∧ c' ≤ (p : Int) :=
  tryNext_or_advances N hN f v c c1 k cs es r o p chp h hnm hfr htidy hchk hsm hk hcp hp hpa hnd hout

-- ------------------------------------------------------------------ the digit step on a reached state with a repeated leaf
/-- `a > b > c`, `b` a non-abstract sub-supertype: the list exp2cxx emits (`collectOf`), with the repeated leaf `b` -/
def exNasHead : Tree := .and [.simple 0, .andor [.or [.simple 1, .and [.simple 1, .andor [.simple 2]]]]]

/-- the alternative `AND(b, ANDOR(c))` after the first pass on the request `{a, b, c}` -/
def exNasAlt : ST := .mult .and .all (-1) (-1) 0 [.simple 1 .some_ .no, .mult .andor .all (-1) (-1) 0 [.simple 2 .all .no]]
/-- the OrList `OR(b, AND(b, ANDOR(c)))` after the first pass: it stands at its first alternative, which holds `b` -/
def exNasOr : ST := .mult .or .all 0 0 2 [.simple 1 .some_ .orm, exNasAlt]
def exNasEnts : Ents := [{ name := 0, mark := .mk, mult := false }, { name := 1, mark := .orm, mult := false },
  { name := 2, mark := .no, mult := false }]

/-- the state the example below starts from is the one the first pass of `ComplexList::matches` (`matchNonORs`, then
`matchORs`) leaves on the request `{a, b, c}`: the OrList stands at `b` alone, `c` is unmarked, the verdict so far MATCHSOME -/
theorem C08_tryNext_advances_reached : (matchNonORs 100 (fresh exNasHead) (mkEnts [] [0, 1, 2]) >>= fun x => matchORs 100 x.1 x.2.1) =
    .ok (.mult .and .some_ (-1) (-1) 0 [.simple 0 .some_ .mk, .mult .andor .some_ (-1) (-1) 0 [exNasOr]], exNasEnts, .some_) := by
  rfl

/-- the hypotheses of `C08_tryNext_advances_partial` hold in that state -/
theorem exNas_hyps : Fr (fun n => if n = 0 then 1 else 0) exNasOr exNasEnts ∧ Tidy exNasOr ∧ ChK exNasOr ∧
    smallOr (skel exNasOr) ∧ PA [0, 1, 2] exNasAlt ∧ (lvS exNasAlt).Nodup := by
  refine ⟨⟨fun n => ?_, ?_⟩, ?_, ?_, ?_, ?_, ?_⟩
  · by_cases h0 : n = 0
    · subst h0; decide
    · by_cases h1 : n = 1
      · subst h1; decide
      · by_cases h2 : n = 2
        · subst h2; decide
        · have e0 : (0 : Name) ≠ n := fun e => h0 e.symm
          have e1 : (1 : Name) ≠ n := fun e => h1 e.symm
          have e2 : (2 : Name) ≠ n := fun e => h2 e.symm
          simp [exNasOr, exNasAlt, exNasEnts, cnt, holds, holdsL, markAt, h0, h1, h2, e0, e1, e2]
  · simp [exNasOr, exNasAlt, exNasEnts, Loc, LocL, markAt, MT.rank]
  · simp [exNasOr, exNasAlt, Tidy, TidyL, KC, UC, Kr, holds, holdsL, MT.rank, inRange, ST.viable]
    intro i ch hi hne
    match i, hi with
    | 0, _ => exact absurd rfl hne
    | 1, hi => simp at hi; subst hi; simp [holds, holdsL]
    | i + 2, hi => simp at hi
  · simp [exNasOr, exNasAlt, ChK, ChKL, Kr, MT.rank, inRange, ST.viable]
    intro _ i ch hi hch
    subst hi
    simp at hch; subst hch; decide
  · simp [exNasOr, exNasAlt, skel, skelL, smallOr, smallOrL]; decide
  · simp [exNasAlt, PA, PAall, PAsome, PAany, MT.rank]
  · decide

/-- … so they are satisfiable in a reached state of the repeated-leaf shape `OR(b, AND(b, …))`: there `OrList::tryNext`
moves on (to `AND(b, ANDOR(c))`, the alternative the request needs), for every fuel that suffices -/
theorem C08_tryNext_advances_example (f : Nat) (r : ST × Ents × MT) (h : tryNext f exNasOr exNasEnts = .ok r) :
    (r.2.2 = .all ∨ r.2.2 = .newchoice) ∧ ∃ c' cs', r.1 = .mult .or .all c' 0 2 cs' ∧ 0 ≤ c' ∧ c' ≤ 1 :=
  C08_tryNext_advances_partial [0, 1, 2] (by decide) f .all 0 0 2 _ exNasEnts r (fun n => if n = 0 then 1 else 0) 1 exNasAlt
    h rfl exNas_hyps.1 exNas_hyps.2.1 exNas_hyps.2.2.1 exNas_hyps.2.2.2.1 (by decide) (by decide) rfl
    exNas_hyps.2.2.2.2.1 exNas_hyps.2.2.2.2.2 (by decide)

/-- **The digit restarts at its first value** (partial: as above, leaf hypotheses on the alternative at `p` only; nothing
held below the OrList — the state NOMORE leaves, `C08_nomore_exhausted`/`Idle`).  The re-acceptance after a NEWCHOICE of
an earlier digit (`MultList::tryNext`'s forward loop → `OrList::acceptChoice` on an exhausted OrList, `choice = LISTEND`)
scans from `choice1` — by `C08_choiceCount_counts` the first alternative that counts: with an alternative `p ≥ choice1`
that counts it accepts, and the new `choice` lies in `[choice1, p]`. -/
theorem C08_reaccept_restarts_partial (N : List Name) (hN : N.Pairwise (· < ·)) (f : Nat) (v : MT) (c1 : Int) (k : Nat)
    (cs : List ST) (es : Ents) (r : ST × Ents × Bool) (o : Name → Nat) (p : Nat) (chp : ST)
    (h : acceptChoice f (.mult .or v listEnd c1 k cs) es = .ok r) (hnm : names es = N)
    (hfr : FrL o cs es) (h0 : holdsL cs = []) (htidy : TidyL cs)
    (hc1 : 0 ≤ c1) (hcp : c1 ≤ (p : Int)) (hp : cs[p]? = some chp) (hpa : PA N chp) (hnd : (lvS chp).Nodup)
    (hout : ∀ n ∈ lvS chp, o n = 0) :
    r.2.2 = true ∧ ∃ (j : Nat) (cs' : List ST), r.1 = .mult .or v (j : Int) c1 k cs' ∧ c1 ≤ (j : Int) ∧ j ≤ p :=
  reaccept_restarts N hN f v c1 k cs es r o p chp h hnm hfr h0 htidy hc1 hcp hp hpa hnd hout

/-- **`choiceCount` counts, `choice1` is the first alternative that counts** — what the `choiceCount == 1` shortcut of
`OrList::tryNext` relies on.  Every well-formed OrList (any nesting below it) in its reset state, every request:
after `OrList::matchORs`, `choiceCount` is the number of alternatives whose `viable` reached MATCHSOME, `viable` reaches
MATCHSOME iff there is one, `choice1` is the first of them, and with `choiceCount = 1` no other alternative counts — so
answering NOMORE without a scan skips nothing.  Proved through the loop of `OrList::matchORs` (returned value ≥ MATCHSOME iff
stored value ≥ MATCHSOME, also for a nested OrList that returns the `viable` of its `choice1` child). -/
theorem C08_choiceCount_counts (f : Nat) (ts : List Tree) (es : Ents) (r : ST × Ents × MT) (hwf : treeWF (.or ts) = true)
    (hs : (names es).Pairwise (· < ·)) (h : matchORs f (fresh (.or ts)) es = .ok r) :
    ∃ v c c1 k cs, r.1 = .mult .or v c c1 k cs ∧ k = cs.countP (·.atLeastSome) ∧ (MT.rank .some_ ≤ v.rank ↔ 0 < k) ∧
      (0 < k → ∃ i : Nat, c1 = (i : Int) ∧ (∃ d, cs[i]? = some d ∧ d.atLeastSome = true) ∧
        ∀ p d, p < i → cs[p]? = some d → d.atLeastSome = false) ∧
      (k = 1 → ∀ (p : Nat) (d : ST), cs[p]? = some d → d.atLeastSome = true → (p : Int) = c1) :=
  orlist_count f ts es r hwf hs h

-- ------------------------------------------------------------------ between two requests
/-- regenerated from multlist.cc / complexlist.cc / complexSupport.h: `ComplexList::matches` ends with `head->reset();
ents->unmarkAll();`, and the `reset()` family resets every list unconditionally (false on the seeded C08-e2, where
`MultList::reset` returns early on `viable == UNKNOWN`) -/
theorem C08_reset_guarded : resetIsFull = true := by decide

/-- **`matches` leaves the collect in its initial mark state.**  Whatever state `t` a matching attempt left the shared
hierarchy in (any `viable` values, any `I_marked`, any `choice`s) and whatever marks the request list carries:
`reset()` (model `resetST`) yields the state every call of the matcher model starts from (`fresh` of the same tree) —
all `viable = UNKNOWN`, no SimpleList holding a mark, every OrList with `choice = −1`, `choiceCount = 0` — up to
`OrList::choice1` (−2 after `reset()`, −1 after construction: never read before it is written — proved,
`C08_request_independent`), and
`EntNode::unmarkAll` (`unmarkEnts`) leaves no mark and the names unchanged.  So the verdict on a request does not depend
on the requests before it; on the real code this is the ordered-pairs stream of the check (every ordered pair of
requests through one collect, verdict of the second = verdict on a fresh collect) and the regenerated `C08_reset_guarded`. -/
theorem C08_matches_restores_marks (t : ST) (es : Ents) :
    StartLike (resetST t) (fresh (trV (skel t))) ∧ holds (resetST t) = [] ∧
    names (unmarkEnts es) = names es ∧ (∀ n, markAt (unmarkEnts es) n = .no) ∧
    (unmarkEnts es).map (·.mult) = es.map (·.mult) :=
  ⟨reset_startLike t, reset_holds t, unmarkEnts_names es, unmarkEnts_markAt es, unmarkEnts_mult es⟩

/-- **The verdict on a request does not depend on the requests before it** (one collect per Registry, every complex
instance of a file goes through it).  `matchesAt` is `ComplexList::matches` started on the shared hierarchy in a given
state (`matchesList` = started on the freshly constructed one).  For *any* state `t` of the hierarchy — whatever earlier
matching attempts, accepted or refused, left behind — the state `reset()` makes of it is taken through exactly the same
steps as the constructed state, with the same outcome (also the same crash or exhausted fuel, if any), for either kind of
matching.  The two start states differ in `OrList::choice1` (−2 after `reset()`, −1 after construction) and nothing
else the matcher reads; that it never reads a `choice1` it has not written is proved as a simulation through all fifteen
functions (`Sim`: states equal up to `choice1` of OrLists with `choice = −1` and `viable < MATCHSOME`, and up to the
counters AND/ANDOR lists do not have).  The request list is built anew for every instance.  Real code: ordered-pairs
stream of the check; the seeded C08-e2 (`reset()` returning early) breaks `C08_reset_guarded`. -/
theorem C08_request_independent (fuel : Nat) (combo : Bool) (head : Tree) (t : ST) (ht : trV (skel t) = head) (es : Ents) :
    matchesAt fuel combo head (resetST t) es = matchesList fuel combo head es :=
  matches_after_reset fuel combo head t ht es

/-- "`t` is a state of that hierarchy" is what every step of the matcher maintains: from **any** state, `matchNonORs` and
`matchORs` return a state with the same tree, and `unmarkAll`, `acceptChoice`, `tryNext` even the same skeleton (tree and
`viable` values) — so the hypothesis `trV (skel t) = head` of `C08_request_independent` holds for whatever the calls before
left. -/
theorem C08_states_keep_the_tree (f : Nat) (t : ST) (es : Ents) :
    (∀ r, matchNonORs f t es = .ok r → trV (skel r.1) = trV (skel t)) ∧
    (∀ r, matchORs f t es = .ok r → trV (skel r.1) = trV (skel t)) ∧
    (∀ r, unmarkAll f t es = .ok r → skel r.1 = skel t) ∧
    (∀ r, acceptChoice f t es = .ok r → skel r.1 = skel t) ∧
    (∀ r, tryNext f t es = .ok r → smallOr (skel t) → skel r.1 = skel t) :=
  ⟨fun r h => (nonors_tree f).1 t es r h, fun r h => (ors_tree f).1 t es r h, fun r h => (unmark_skel f).1 t es r h,
   fun r h => (accept_skel f).1 t es r h, fun r h hs => ((trynext_val f).1 t es r h hs).1⟩

/-- … more generally the matcher cannot tell apart two states that agree up to the fields it never reads before writing -/
theorem C08_matches_ignores_unwritten_choice1 (fuel : Nat) (combo : Bool) (head : Tree) (h0 h0' : ST) (es : Ents)
    (h : Sim h0 h0') : matchesAt fuel combo head h0 es = matchesAt fuel combo head h0' es :=
  matchesAt_sim fuel combo head h0 h0' es h

-- ------------------------------------------------------------------ EntNode::sort (renamed parts)
/-- with strict comparisons in `lastSmaller` (the source before fixes/C08-2) two equal names make `EntNode::sort`
dereference NULL: request list `a a c b` (replayed on the real code by the sort stream once the finding is listed) -/
theorem C08_sort_strict_crash_witness : sortNodesWith false [0, 0, 2, 1] = .crash .sortNullChunk := by decide +kernel

/-- `EntNode::lastSmaller` compares non-strictly (regenerated from entnode.cc; false before fix C08-2, da88f8a1) -/
theorem C08_sort_guarded : sortNonStrict = true := by decide

/-- `EntNode::sort` leaves an already ascending request list unchanged (both comparison variants, every list): aliases
that do not disturb the order are harmless -/
theorem C08_sort_ascending_unchanged (ns : Bool) (L : List Name) (h : L.Pairwise (· ≤ ·)) :
    sortNodesWith ns L = .ok L :=
  sortNodes_ascending ns L h

/-- **`EntNode::sort` is correct for every request list** (non-strict `lastSmaller`, i.e. the source since fix C08-2):
no crash, within the fuel, and the result is an ascending permutation of the list — however many nodes were renamed and
whatever names became equal.  Invariant: the nodes up to `this` are ascending; a moved run lands between the last node
not greater than its head and the first node greater than it. -/
theorem C08_sort_correct (L : List Name) :
    ∃ L', sortNodesWith true L = .ok L' ∧ L'.Perm L ∧ L'.Pairwise (· ≤ ·) :=
  sortNodes_correct L

/-- … hence for the source as it is now (`C08_sort_guarded`) -/
theorem C08_sort_correct_now (L : List Name) : ∃ L', sortNodes L = .ok L' ∧ L'.Perm L ∧ L'.Pairwise (· ≤ ·) := by
  unfold sortNodes; rw [C08_sort_guarded]; exact sortNodes_correct L

/-- with non-strict comparisons the same list is sorted -/
theorem C08_sort_nonstrict_example : sortNodesWith true [0, 0, 2, 1] = .ok [0, 0, 1, 2] ∧
    sortNodesWith true [3, 1, 3, 0, 2] = .ok [0, 1, 2, 3, 3] ∧ sortNodesWith false [3, 1, 4, 0, 2] = .ok [0, 1, 2, 3, 4] := by
  decide +kernel

/-- the full statement `eval ⟷ Legal` is false with several supertypes: the diamond's tree derives `{a, b, d}` -/
theorem C08_eval_legal_witness_multi :
    evalB exDiamondTree [3] [0, 1, 3] = true ∧ Legal exDiamond [0, 1, 3] = false := by decide +kernel

/-- … and for one-member sets: the non-abstract root alone is legal, no list derives it -/
theorem C08_eval_legal_witness_single :
    evalB exOneofAndorTree [] [0] = false ∧ Legal exOneofAndor [0] = true := by decide +kernel

end StepModel.Complex

import StepModel.ComplexMatch
import StepModel.ComplexBuild
namespace StepModel.Complex

theorem C08_stub : Match.mkNames [] = [] := rfl

end StepModel.Complex

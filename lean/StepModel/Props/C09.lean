import StepModel.P21.LexLemmas
import StepModel.Generated.P21LexGen
/-!
# C09 — Part 21 literals are read to their value and written in conforming form

Theorems over the models `IStream`, `P21.Lex` (code side) and `P21.Grammar` (spec side).  `Generated.lexCfg` is
regenerated from the source tree on every run; the `never_silent` theorems need its switches to be `true`, so they
stop elaborating when the repaired code is changed back (see `C09_*_witness` for what then happens).
-/
namespace StepModel.P21.C09
open StepModel StepModel.IStream StepModel.P21 StepModel.P21.Lemmas StepModel.P21.Grammar

/-! tie of the hand-written tables to the regenerated ones -/
theorem tie_tables :
    EnumKind.logical.table = Generated.logicalTable ∧ EnumKind.boolean.table = Generated.booleanTable ∧
    attrDelims = Generated.attrDelims ∧
    Sev.bug.toInt = Generated.sevBug ∧ Sev.inputError.toInt = Generated.sevInputError ∧ Sev.warning.toInt = Generated.sevWarning ∧
    Sev.incomplete.toInt = Generated.sevIncomplete ∧ Sev.usermsg.toInt = Generated.sevUsermsg ∧ Sev.null.toInt = Generated.sevNull := by
  decide

/-! ## INTEGER -/

/-- INTEGER, accept: every token of the grammar whose value fits `long` (and is not the in-band null LONG_MAX) is read
    to exactly the value it denotes, with no error, and the stream stops at the delimiter -/
theorem C09_accept_integer {F} (ops : FloatOps F) (cfg : LexCfg) (lookup : Int → RefLookup) (nullable : Bool)
    (tok sp rest : List Byte) (d : Byte)
    (htok : isInteger tok = true) (hlo : longMin ≤ denoteInteger tok) (hhi : denoteInteger tok < longMax)
    (hsp : sp.all isSpace = true) (hd : d = 44 ∨ d = 41) :
    attrRead ops cfg lookup .integer nullable (IStream.ofBytes (tok ++ sp ++ d :: rest)) =
      .ok ⟨.null, .int (denoteInteger tok), { left := sp.reverse ++ tok.reverse, right := d :: rest }⟩ := by
  obtain ⟨c, u, rfl, hcs, h36, h44, h41⟩ := isInteger_head tok htok
  have hdd : isDelim attrDelims d = true := by rcases hd with rfl | rfl <;> decide
  have hdn : isSpace d = false := by rcases hd with rfl | rfl <;> decide
  have hdg : isDigit d = false := by rcases hd with rfl | rfl <;> decide
  have hr : (sp ++ d :: rest) = [] ∨ ∃ c t, (sp ++ d :: rest) = c :: t ∧ isDigit c = false := by
    right
    match sp, hsp with
    | [], _ => exact ⟨d, rest, rfl, hdg⟩
    | a :: sp', hsp => exact ⟨a, sp' ++ d :: rest, rfl, space_not_digit (by simp at hsp; exact hsp.1)⟩
  have hscan := scanInt_token longMin longMax [] (c :: u) (sp ++ d :: rest) htok hr
  simp only [List.append_assoc] at hscan ⊢
  simp [attrRead, IStream.ofBytes, IStream.ws, IStream.sentry, IStream.good, IStream.peekC, IStream.peek,
    dropSpaces_nonspace _ _ _ hcs, h36, h44, h41, readInteger, IStream.extractLong, IStream.failed]
  simp only [List.cons_append, List.append_nil] at hscan
  rw [hscan]
  have h1 : ¬ denoteInteger (c :: u) < longMin := by omega
  have h2 : ¬ denoteInteger (c :: u) > longMax := by omega
  have h3 : (denoteInteger (c :: u) == longMax) = false := by
    simp; omega
  have hcri := cri_delim ((c :: u).reverse) sp rest d false true Sev.null hsp hdd hdn
  have hne : (sp ++ d :: rest).isEmpty = false := by cases sp <;> rfl
  simp only [List.reverse_cons] at hcri
  simp [h1, h2, intValue, h3, hne, hcri]

end StepModel.P21.C09

import StepModel.P21.LexLemmas
import StepModel.Generated.P21LexGen
/-!
# C09 — Part 21 literals are read to their value and written in conforming form

Theorems over the models `IStream`, `P21.Lex` (code side) and `P21.Grammar` (spec side).  `Generated.lexCfg` is
regenerated from the source tree on every run; the `never_silent` theorems need its switches to be `true`, so they
stop elaborating when the repaired code is changed back (see `C09_*_witness` for what then happens).
-/
namespace StepModel.P21.C09
open StepModel StepModel.IStream StepModel.P21 StepModel.P21.Lemmas StepModel.P21.Grammar

/-! tie of the hand-written tables to the regenerated ones -/
theorem tie_tables :
    EnumKind.logical.table = Generated.logicalTable ∧ EnumKind.boolean.table = Generated.booleanTable ∧
    attrDelims = Generated.attrDelims ∧
    Sev.bug.toInt = Generated.sevBug ∧ Sev.inputError.toInt = Generated.sevInputError ∧ Sev.warning.toInt = Generated.sevWarning ∧
    Sev.incomplete.toInt = Generated.sevIncomplete ∧ Sev.usermsg.toInt = Generated.sevUsermsg ∧ Sev.null.toInt = Generated.sevNull := by
  decide

/-! ## INTEGER -/

/-- INTEGER, accept: every token of the grammar whose value fits `long` (and is not the in-band null LONG_MAX) is read
    to exactly the value it denotes, with no error, and the stream stops at the delimiter -/
theorem C09_accept_integer {F} (ops : FloatOps F) (cfg : LexCfg) (lookup : Int → RefLookup) (nullable : Bool)
    (tok sp rest : List Byte) (d : Byte)
    (htok : isInteger tok = true) (hlo : longMin ≤ denoteInteger tok) (hhi : denoteInteger tok < longMax)
    (hsp : sp.all isSpace = true) (hd : d = 44 ∨ d = 41) :
    attrRead ops cfg lookup .integer nullable (IStream.ofBytes (tok ++ sp ++ d :: rest)) =
      .ok ⟨.null, .int (denoteInteger tok), { left := sp.reverse ++ tok.reverse, right := d :: rest }⟩ := by
  obtain ⟨c, u, rfl, hcs, h36, h44, h41⟩ := isInteger_head tok htok
  have hdd : isDelim attrDelims d = true := by rcases hd with rfl | rfl <;> decide
  have hdn : isSpace d = false := by rcases hd with rfl | rfl <;> decide
  have hdg : isDigit d = false := by rcases hd with rfl | rfl <;> decide
  have hr : (sp ++ d :: rest) = [] ∨ ∃ c t, (sp ++ d :: rest) = c :: t ∧ isDigit c = false := by
    right
    match sp, hsp with
    | [], _ => exact ⟨d, rest, rfl, hdg⟩
    | a :: sp', hsp => exact ⟨a, sp' ++ d :: rest, rfl, space_not_digit (by simp at hsp; exact hsp.1)⟩
  have hscan := scanInt_token longMin longMax [] (c :: u) (sp ++ d :: rest) htok hr
  simp only [List.append_assoc] at hscan ⊢
  simp [attrRead, IStream.ofBytes, IStream.ws, IStream.sentry, IStream.good, IStream.peekC, IStream.peek,
    dropSpaces_nonspace _ _ _ hcs, h36, h44, h41, readInteger, IStream.extractLong, IStream.failed]
  simp only [List.cons_append, List.append_nil] at hscan
  rw [hscan]
  have h1 : ¬ denoteInteger (c :: u) < longMin := by omega
  have h2 : ¬ denoteInteger (c :: u) > longMax := by omega
  have h3 : (denoteInteger (c :: u) == longMax) = false := by
    simp; omega
  have hcri := cri_delim ((c :: u).reverse) sp rest d false true Sev.null hsp hdd hdn
  have hne : (sp ++ d :: rest).isEmpty = false := by cases sp <;> rfl
  simp only [List.reverse_cons] at hcri
  simp [h1, h2, intValue, h3, hne, hcri, Sev.warnIf]

/-- INTEGER, never silent (for any scanner configuration that reports failed extractions and keeps the severity found
    after `$`): whenever `STEPattribute::STEPread` flags no error, for *any* input bytes, then either
    (a) the input is blanks, a token of the integer grammar whose value fits `long`, blanks, and the stream rests at the
        end or in front of a delimiter, and the attribute holds exactly the denoted value (`intValue`: LONG_MAX itself is the
        in-band null and reads as unset — see `C09_integer_sentinel_witness`); or
    (b) the attribute is OPTIONAL and the input is `$` (followed by blanks only) or a missing value; or
    (c) the input is nothing but blanks. -/
theorem never_silent_integer_of_cfg {F} (ops : FloatOps F) (cfg : LexCfg) (hcfg : cfg.intReportsFail = true) (hcfg2 : cfg.dollarKeepsError = true)
    (lookup : Int → RefLookup) (nullable : Bool)
    (input : List Byte) (r : ReadResult F)
    (h : attrRead ops cfg lookup .integer nullable (IStream.ofBytes input) = .ok r) (hne : NoErr r.sev) :
    (∃ sp1 tok sp2, input = sp1 ++ tok ++ sp2 ++ r.s.right ∧ sp1.all isSpace = true ∧ sp2.all isSpace = true ∧
        isInteger tok = true ∧ longMin ≤ denoteInteger tok ∧ denoteInteger tok ≤ longMax ∧
        r.val = intValue (some (denoteInteger tok)) ∧ AtDelimOrEnd r.s.right) ∨
    (nullable = true ∧ r.val = .unset ∧ ∃ sp1 c t, input = sp1 ++ c :: t ∧ sp1.all isSpace = true ∧
        ((c = 36 ∧ ∃ sp2, t = sp2 ++ r.s.right ∧ sp2.all isSpace = true ∧ AtDelimOrEnd r.s.right) ∨
         ((c = 44 ∨ c = 41) ∧ r.s.right = c :: t))) ∨
    (input.all isSpace = true ∧ r.val = .unset) := by
  obtain ⟨sp1, body, h1, h2, h3, h4⟩ := dropSpaces_split [] input
  rcases h4 with rfl | ⟨c, t, rfl, hc⟩
  · -- nothing but blanks
    right; right
    simp at h1; subst h1
    simp [attrRead, IStream.ofBytes, IStream.ws, IStream.sentry, IStream.good, h3, IStream.peekC, IStream.peek,
      readInteger, IStream.extractLong, IStream.failed, checkRemainingInput, intValue] at h
    subst h
    exact ⟨h2, rfl⟩
  · subst h1
    have hpre : (IStream.ofBytes (sp1 ++ c :: t)).ws = { left := sp1.reverse, right := c :: t } := by
      simpa [IStream.ofBytes] using ws_good [] sp1 c t true h2 hc
    by_cases h36 : c = 36
    · -- `$`
      subst h36
      simp only [attrRead, hpre, peekC_good, ignore1_good] at h
      simp at h
      have hch := cri_char { left := 36 :: sp1.reverse, right := t } Sev.null rfl
      subst h
      cases nullable with
      | false => simp [NoErr] at hne
      | true =>
        simp only [hcfg2, if_true] at hne ⊢
        right; left
        have := hch.2 hne
        simp at this
        obtain ⟨sp2, hs2, ht, _, hat⟩ := this
        exact ⟨by simp, by simp, sp1, 36, t, rfl, h2, Or.inl ⟨rfl, sp2, ht, by simpa using hs2, hat⟩⟩
    · by_cases hdl : c = 44 ∨ c = 41
      · -- a missing value
        have hcond : (c == 36 || c == 44 || c == 41) = true := by rcases hdl with rfl | rfl <;> decide
        simp only [attrRead, hpre, peekC_good, hcond, if_true] at h
        have h36' : (c == 36) = false := by simpa using h36
        simp [h36'] at h
        subst h
        cases nullable with
        | false => simp [NoErr] at hne
        | true =>
          right; left
          exact ⟨rfl, rfl, sp1, c, t, rfl, h2, Or.inr ⟨hdl, rfl⟩⟩
      · -- a value
        have hcond : (c == 36 || c == 44 || c == 41) = false := by
          simp at hdl ⊢; exact ⟨⟨h36, hdl.1⟩, hdl.2⟩
        simp only [attrRead, hpre, peekC_good, hcond, readInteger, ws_good0 _ _ _ _ hc, extractLong_good _ _ _ hc] at h
        obtain ⟨tok, rest, hr, hrest, hs2, hval, _⟩ := scanInt_split longMin longMax (by decide) (by decide) sp1.reverse (c :: t)
        generalize hsc : scanInt longMin longMax sp1.reverse (c :: t) = sc at h hs2 hval
        obtain ⟨res, l', r'⟩ := sc
        simp only [Prod.mk.injEq] at hs2
        obtain ⟨rfl, rfl⟩ := hs2
        simp only [Bool.false_eq_true, if_false, IStream.failed, Bool.or_false, Bool.not_false, Bool.and_true, hcfg, Sev.warnIf] at h
        simp only [Outcome.ok.injEq] at h
        subst h
        simp only at hne ⊢
        cases hf : res.fail with
        | true =>
          exfalso
          simp only [hf, Bool.and_self, if_true] at hne
          have hch := (cri_char { left := tok.reverse ++ sp1.reverse, right := r', eof := r'.isEmpty, fail := true }
            (Sev.null.greater Sev.warning) rfl).1
          rcases hch with he | he
          · rw [he] at hne; exact greater_warning_err _ hne
          · exact he hne
        | false =>
          simp only [hf, Bool.false_and, Bool.false_eq_true, if_false, Bool.not_false, if_true] at hne ⊢
          obtain ⟨htok, hv, hlo, hhi⟩ := hval hf
          have hch := (cri_char { left := tok.reverse ++ sp1.reverse, right := r', eof := r'.isEmpty, fail := false }
            Sev.null rfl).2 hne
          generalize checkRemainingInput (some attrDelims)
            { left := tok.reverse ++ sp1.reverse, right := r', eof := r'.isEmpty, fail := false } Sev.null = X at hne hch ⊢
          left
          rcases hch with ⟨heof, hsame⟩ | ⟨heof, sp2, hs2, hrr, _, hat⟩
          · simp only at heof
            have hre : r' = [] := by simpa using heof
            subst hre
            refine ⟨sp1, tok, [], ?_, h2, by simp, htok, hlo, hhi, by rw [hv], ?_⟩
            · rw [hsame]; simp [hr]
            · rw [hsame]; exact Or.inl rfl
          · simp only at hrr
            refine ⟨sp1, tok, sp2, ?_, h2, hs2, htok, hlo, hhi, by rw [hv], hat⟩
            rw [hr, hrr]; simp

/-- INTEGER, never silent, for the scanners as the source has them now (`Generated.lexCfg`). -/
theorem C09_never_silent_integer {F} (ops : FloatOps F) (lookup : Int → RefLookup) (nullable : Bool)
    (input : List Byte) (r : ReadResult F)
    (h : attrRead ops Generated.lexCfg lookup .integer nullable (IStream.ofBytes input) = .ok r) (hne : NoErr r.sev) :
    (∃ sp1 tok sp2, input = sp1 ++ tok ++ sp2 ++ r.s.right ∧ sp1.all isSpace = true ∧ sp2.all isSpace = true ∧
        isInteger tok = true ∧ longMin ≤ denoteInteger tok ∧ denoteInteger tok ≤ longMax ∧
        r.val = intValue (some (denoteInteger tok)) ∧ AtDelimOrEnd r.s.right) ∨
    (nullable = true ∧ r.val = .unset ∧ ∃ sp1 c t, input = sp1 ++ c :: t ∧ sp1.all isSpace = true ∧
        ((c = 36 ∧ ∃ sp2, t = sp2 ++ r.s.right ∧ sp2.all isSpace = true ∧ AtDelimOrEnd r.s.right) ∨
         ((c = 44 ∨ c = 41) ∧ r.s.right = c :: t))) ∨
    (input.all isSpace = true ∧ r.val = .unset) :=
  never_silent_integer_of_cfg ops Generated.lexCfg (by decide) (by decide) lookup nullable input r h hne

/-- INTEGER, the delimiter is never consumed: for *any* input bytes and any scanner configuration, what the reader takes
    from the stream contains no `,` and no `)` -/
theorem C09_delim_kept_integer {F} (ops : FloatOps F) (cfg : LexCfg) (lookup : Int → RefLookup) (nullable : Bool)
    (input : List Byte) (r : ReadResult F)
    (h : attrRead ops cfg lookup .integer nullable (IStream.ofBytes input) = .ok r) :
    ∃ m, input = m ++ r.s.right ∧ r.s.left = m.reverse ∧ ∀ b ∈ m, isDelim attrDelims b = false := by
  obtain ⟨sp1, body, h1, h2, h3, h4⟩ := dropSpaces_split [] input
  have hsp1 : ∀ b ∈ sp1, isDelim attrDelims b = false := fun x hx => space_not_delim (List.all_eq_true.mp h2 x hx)
  rcases h4 with rfl | ⟨c, t, rfl, hc⟩
  · simp at h1; subst h1
    simp [attrRead, IStream.ofBytes, IStream.ws, IStream.sentry, IStream.good, h3, IStream.peekC, IStream.peek,
      readInteger, IStream.extractLong, IStream.failed, checkRemainingInput, intValue] at h
    subst h
    exact ⟨input, by simp, by simp, hsp1⟩
  · subst h1
    have hpre : (IStream.ofBytes (sp1 ++ c :: t)).ws = { left := sp1.reverse, right := c :: t } := by
      simpa [IStream.ofBytes] using ws_good [] sp1 c t true h2 hc
    by_cases h36 : c = 36
    · subst h36
      simp only [attrRead, hpre, peekC_good, ignore1_good] at h
      simp at h
      obtain ⟨m, hm1, hm2, hm3⟩ := cri_left { left := 36 :: sp1.reverse, right := t } Sev.null rfl
      subst h
      refine ⟨sp1 ++ 36 :: m, ?_, ?_, ?_⟩
      · simp only at hm2 ⊢; rw [List.append_assoc, List.cons_append, ← hm2]
      · simp only at hm1 ⊢; rw [hm1]; simp
      · intro b hb
        rcases List.mem_append.mp hb with hb | hb
        · exact hsp1 b hb
        · rcases List.mem_cons.mp hb with rfl | hb
          · decide
          · exact hm3 b hb
    · by_cases hdl : c = 44 ∨ c = 41
      · have hcond : (c == 36 || c == 44 || c == 41) = true := by rcases hdl with rfl | rfl <;> decide
        simp only [attrRead, hpre, peekC_good, hcond, if_true] at h
        have h36' : (c == 36) = false := by simpa using h36
        simp [h36'] at h
        subst h
        exact ⟨sp1, by simp, by simp, hsp1⟩
      · have hcond : (c == 36 || c == 44 || c == 41) = false := by
          simp at hdl ⊢; exact ⟨⟨h36, hdl.1⟩, hdl.2⟩
        simp only [attrRead, hpre, peekC_good, hcond, readInteger, ws_good0 _ _ _ _ hc, extractLong_good _ _ _ hc] at h
        obtain ⟨tok, rest, hr, hrest, hs2, hval, htokd⟩ := scanInt_split longMin longMax (by decide) (by decide) sp1.reverse (c :: t)
        generalize hsc : scanInt longMin longMax sp1.reverse (c :: t) = sc at h hs2 hval
        obtain ⟨res, l', r'⟩ := sc
        simp only [Prod.mk.injEq] at hs2
        obtain ⟨rfl, rfl⟩ := hs2
        simp only [Bool.false_eq_true, if_false, Outcome.ok.injEq] at h
        subst h
        simp only
        generalize Sev.warnIf _ _ = E
        obtain ⟨m, hm1, hm2, hm3⟩ := cri_left { left := tok.reverse ++ sp1.reverse, right := r', eof := r'.isEmpty, fail := res.fail } E rfl
        refine ⟨sp1 ++ tok ++ m, ?_, ?_, ?_⟩
        · simp only at hm2 ⊢; rw [hr, List.append_assoc, List.append_assoc, ← hm2]
        · simp only at hm1 ⊢; rw [hm1]; simp
        · intro b hb
          rcases List.mem_append.mp hb with hb | hb
          · rcases List.mem_append.mp hb with hb | hb
            · exact hsp1 b hb
            · exact htokd b hb
          · exact hm3 b hb

/-! ## witnesses: what the unrepaired scanners did, and the in-band null (any configuration)

Each `…_witness_unrepaired` theorem evaluates the model under the configuration of the tree *before* the C09 repairs on the
minimal failing token: no error is flagged and the attribute is left unset.  They keep the negation of the never-silent
statements visible for that configuration; the same inputs are replayed on the real code by `checks/c09.py` (corpus). -/

/-- the scanners before the C09 repairs -/
def unrepairedCfg : LexCfg :=
  { intReportsFail := false, realReportsFail := false, numberReportsFail := false, logicalRejectsUnset := false,
    binaryRejectsEmpty := false, dollarKeepsError := false, asStrUsesWriteReal := false, realBuf := 64, realPrecision := 15 }

/-- no error flagged, attribute left unset -/
def silentUnset {F} (o : Outcome (ReadResult F)) : Bool :=
  match o with
  | .ok r => (r.sev == .null) && (match r.val with | .unset => true | _ => false)
  | .overflow => false

def noRef : Int → RefLookup := fun _ => .missing

theorem C09_integer_overflow_witness_unrepaired :
    silentUnset (attrRead dblOps unrepairedCfg noRef .integer false (IStream.ofBytes (List.replicate 20 57 ++ [44]))) = true := by
  decide

theorem C09_integer_sign_only_witness_unrepaired :
    silentUnset (attrRead dblOps unrepairedCfg noRef .integer false (IStream.ofBytes [45, 44])) = true := by
  decide

/-- `9223372036854775807` = LONG_MAX is stepcode's in-band "unset" for INTEGER: read without error, reported unset (any configuration) -/
theorem C09_integer_sentinel_witness :
    silentUnset (attrRead dblOps Generated.lexCfg noRef .integer false
      (IStream.ofBytes [57,50,50,51,51,55,50,48,51,54,56,53,52,55,55,53,56,48,55,44])) = true := by
  decide

theorem C09_logical_unset_witness_unrepaired :
    silentUnset (attrRead dblOps unrepairedCfg noRef .logical false (IStream.ofBytes [46,85,78,83,69,84,46,44])) = true := by
  decide

theorem C09_binary_empty_witness_unrepaired :
    silentUnset (attrRead dblOps unrepairedCfg noRef .binary false (IStream.ofBytes [34,34,44])) = true := by
  decide

theorem C09_dollar_garbage_witness_unrepaired :
    silentUnset (attrRead dblOps unrepairedCfg noRef .integer true (IStream.ofBytes [36,120,44])) = true := by
  decide

theorem C09_number_sign_only_witness_unrepaired :
    silentUnset (attrRead dblOps unrepairedCfg noRef .number false (IStream.ofBytes [45, 44])) = true := by
  decide

theorem C09_real_overflow_witness_unrepaired :
    silentUnset (attrRead dblOps unrepairedCfg noRef .real false (IStream.ofBytes [49,46,48,69,57,57,57,44])) = true := by
  decide

end StepModel.P21.C09

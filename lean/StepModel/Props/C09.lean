import StepModel.P21.LexLemmas
import StepModel.P21.LexNumber
import StepModel.P21.LexGap
import StepModel.P21.FloatShape
import StepModel.P21.FloatRead
import StepModel.P21.FloatSeventeen
import StepModel.P21.FloatNearest
import StepModel.P21.FloatFifteen
import StepModel.P21.FloatDigits
import StepModel.P21.AggrLemmas
import StepModel.P21.RtsLemmas
import StepModel.P21.RawAggrLemmas
import StepModel.P21.RawStrLemmas
import StepModel.P21.AggrWriteLemmas
import StepModel.Generated.P21RWGen
import StepModel.Generated.P21LexGen
/-!
# C09 — Part 21 literals are read to their value and written in conforming form

Theorems over the models `IStream`, `P21.Lex` (code side) and `P21.Grammar` (spec side).  `Generated.lexCfg` is
regenerated from the source tree on every run; the `never_silent` theorems need its switches to be `true`, so they
stop elaborating when the repaired code is changed back (see `C09_*_witness` for what then happens).
-/
namespace StepModel.P21.C09
open StepModel StepModel.IStream StepModel.P21 StepModel.P21.Lemmas StepModel.P21.Grammar

/-! tie of the hand-written tables to the regenerated ones -/
theorem tie_tables :
    EnumKind.logical.table = Generated.logicalTable ∧ EnumKind.boolean.table = Generated.booleanTable ∧
    attrDelims = Generated.attrDelims ∧
    Sev.bug.toInt = Generated.sevBug ∧ Sev.inputError.toInt = Generated.sevInputError ∧ Sev.warning.toInt = Generated.sevWarning ∧
    Sev.incomplete.toInt = Generated.sevIncomplete ∧ Sev.usermsg.toInt = Generated.sevUsermsg ∧ Sev.null.toInt = Generated.sevNull := by
  decide

/-- the first non-blank byte of the input is none of `bad` -/
def FirstByteNot (input : List Byte) (bad : List Byte) : Prop :=
  ∀ sp c t, input = sp ++ c :: t → sp.all isSpace = true → isSpace c = false → c ∉ bad

/-! ## INTEGER -/

/-- INTEGER, accept: every token of the grammar whose value fits `long` (and is not the in-band null LONG_MAX) is read
    to exactly the value it denotes, with no error, and the stream stops at the delimiter -/
theorem C09_accept_integer_inband {F} (ops : FloatOps F) (cfg : LexCfg) (lookup : Int → RefLookup) (nullable : Bool)
    (tok sp rest : List Byte) (d : Byte)
    (htok : isInteger tok = true) (hlo : longMin ≤ denoteInteger tok) (hhi : denoteInteger tok ≤ longMax)
    (hsp : Gap cfg sp) (hd : d = 44 ∨ d = 41) :
    attrRead ops cfg lookup .integer nullable (IStream.ofBytes (tok ++ sp ++ d :: rest)) =
      .ok ⟨Sev.null.sentinelIf (intSentinel cfg (some (denoteInteger tok))), intValue (some (denoteInteger tok)),
        { left := sp.reverse ++ tok.reverse, right := d :: rest }⟩ := by
  obtain ⟨c, u, rfl, hcs, h36, h44, h41⟩ := isInteger_head tok htok
  have hdd : isDelim attrDelims d = true := by rcases hd with rfl | rfl <;> decide
  have hdn : isSpace d = false := by rcases hd with rfl | rfl <;> decide
  have hdg : isDigit d = false := by rcases hd with rfl | rfl <;> decide
  have hr : (sp ++ d :: rest) = [] ∨ ∃ c t, (sp ++ d :: rest) = c :: t ∧ isDigit c = false := by
    obtain ⟨c', t', h', hdig, _⟩ := gap_cont cfg sp rest d hsp hd
    exact Or.inr ⟨c', t', h', hdig⟩
  have hscan := scanInt_token longMin longMax [] (c :: u) (sp ++ d :: rest) htok hr
  simp only [List.append_assoc] at hscan ⊢
  simp [attrRead, IStream.ofBytes, IStream.ws, IStream.sentry, IStream.good, IStream.peekC, IStream.peek,
    dropSpaces_nonspace _ _ _ hcs, h36, h44, h41, readInteger, IStream.extractLong, IStream.failed]
  simp only [List.cons_append, List.append_nil] at hscan
  rw [hscan]
  have h1 : ¬ denoteInteger (c :: u) < longMin := by omega
  have h2 : ¬ denoteInteger (c :: u) > longMax := by omega
  have hcri := cri_gap_delim cfg ((c :: u).reverse) sp rest d false true Sev.null hsp hdd hdn
  have hne : (sp ++ d :: rest).isEmpty = false := by cases sp <;> rfl
  simp only [List.reverse_cons] at hcri
  simp [h1, h2, hne, hcri, Sev.warnIf]

theorem C09_accept_integer {F} (ops : FloatOps F) (cfg : LexCfg) (lookup : Int → RefLookup) (nullable : Bool)
    (tok sp rest : List Byte) (d : Byte)
    (htok : isInteger tok = true) (hlo : longMin ≤ denoteInteger tok) (hhi : denoteInteger tok < longMax)
    (hsp : Gap cfg sp) (hd : d = 44 ∨ d = 41) :
    attrRead ops cfg lookup .integer nullable (IStream.ofBytes (tok ++ sp ++ d :: rest)) =
      .ok ⟨.null, .int (denoteInteger tok), { left := sp.reverse ++ tok.reverse, right := d :: rest }⟩ := by
  have := C09_accept_integer_inband ops cfg lookup nullable tok sp rest d htok hlo (by omega) hsp hd
  have h3 : (denoteInteger tok == longMax) = false := by simp; omega
  simpa [intValue, h3, intSentinel, Sev.warnIf, Sev.sentinelIf] using this

/-- INTEGER, the in-band null as a theorem: among the tokens of the integer grammar whose value fits `long`, exactly those that
    denote LONG_MAX (`9223372036854775807`, `+9223372036854775807`, with any number of leading zeros) are read as an *unset*
    attribute — silently (severity NULL) while `ReadInteger` stores the sentinel, with SEVERITY_WARNING once it reports it
    (`cfg.intNullReported`, fixes/C09-9); every other one is read to its value with no error (any delimiter context) -/
theorem C09_integer_inband_null_iff {F} (ops : FloatOps F) (cfg : LexCfg) (lookup : Int → RefLookup) (nullable : Bool)
    (tok sp rest : List Byte) (d : Byte)
    (htok : isInteger tok = true) (hlo : longMin ≤ denoteInteger tok) (hhi : denoteInteger tok ≤ longMax)
    (hsp : Gap cfg sp) (hd : d = 44 ∨ d = 41) :
    ∃ r, attrRead ops cfg lookup .integer nullable (IStream.ofBytes (tok ++ sp ++ d :: rest)) = .ok r ∧
      r.s.right = d :: rest ∧
      ((denoteInteger tok = longMax ∧ r.val = .unset ∧ r.sev = (if cfg.intNullReported then .warning else .null)) ∨
       (denoteInteger tok ≠ longMax ∧ r.val = .int (denoteInteger tok) ∧ r.sev = .null)) := by
  refine ⟨_, C09_accept_integer_inband ops cfg lookup nullable tok sp rest d htok hlo hhi hsp hd, rfl, ?_⟩
  by_cases h : denoteInteger tok = longMax
  · left
    refine ⟨h, by simp [intValue, h], ?_⟩
    cases hf : cfg.intNullReported <;> simp [intSentinel, hf, h, Sev.warnIf, Sev.sentinelIf, Sev.greater, Sev.toInt]
  · right
    have h3 : (denoteInteger tok == longMax) = false := by simpa using h
    exact ⟨h, by simp [intValue, h3], by simp [intSentinel, h3, Sev.warnIf, Sev.sentinelIf]⟩

/-- INTEGER with the repaired `ReadInteger`: no token is silently read as unset — the sentinel's spellings are reported -/
theorem C09_integer_null_reported {F} (ops : FloatOps F) (cfg : LexCfg) (hrep : cfg.intNullReported = true)
    (lookup : Int → RefLookup) (nullable : Bool) (tok sp rest : List Byte) (d : Byte)
    (htok : isInteger tok = true) (hmax : denoteInteger tok = longMax) (hsp : Gap cfg sp) (hd : d = 44 ∨ d = 41) :
    attrRead ops cfg lookup .integer nullable (IStream.ofBytes (tok ++ sp ++ d :: rest)) =
      .ok ⟨.warning, .unset, { left := sp.reverse ++ tok.reverse, right := d :: rest }⟩ := by
  have := C09_accept_integer_inband ops cfg lookup nullable tok sp rest d htok (by rw [hmax]; decide) (by omega) hsp hd
  rw [this]
  simp [intSentinel, hrep, hmax, intValue, Sev.warnIf, Sev.sentinelIf, Sev.greater, Sev.toInt]

/-- with the repaired readers the values the never-silent theorems conclude are never "unset": `intSentinel … = false` /
    `(… && isRealNull v) = false` in their clause (a) then say the value is not the sentinel -/
theorem C09_no_silent_null {F} (ops : FloatOps F) (cfg : LexCfg) :
    (∀ v : Int, cfg.intNullReported = true → intSentinel cfg (some v) = false → (intValue (some v) : Value F) = .int v) ∧
    (∀ v : F, cfg.realNullReported = true → (cfg.realNullReported && ops.isRealNull v) = false → realValue ops (some v) = .real v) ∧
    (∀ v : F, cfg.numberNullReported = true → (cfg.numberNullReported && ops.isRealNull v) = false → realValue ops (some v) = .real v) := by
  refine ⟨?_, ?_, ?_⟩
  · intro v h1 h2
    simp [intSentinel, h1] at h2
    have : (v == longMax) = false := by simpa using h2
    simp [intValue, this]
  · intro v h1 h2
    simp [h1] at h2
    simp [realValue, h2]
  · intro v h1 h2
    simp [h1] at h2
    simp [realValue, h2]

/-- INTEGER, never silent (for any scanner configuration that reports failed extractions and keeps the severity found
    after `$`): whenever `STEPattribute::STEPread` flags no error, for *any* input bytes, then either
    (a) the input is blanks, a token of the integer grammar whose value fits `long`, blanks, and the stream rests at the
        end or in front of a delimiter, and the attribute holds exactly the denoted value (`intValue`: LONG_MAX itself is the
        in-band null and reads as unset — see `C09_integer_sentinel_witness`); or
    (b) the attribute is OPTIONAL and the input is `$` (followed by blanks only) or a missing value; or
    (c) the input is nothing but blanks. -/
theorem never_silent_integer_of_cfg {F} (ops : FloatOps F) (cfg : LexCfg) (hcfg : cfg.intReportsFail = true) (hcfg2 : cfg.dollarKeepsError = true)
    (lookup : Int → RefLookup) (nullable : Bool)
    (input : List Byte) (l0 : List Byte) (r : ReadResult F)
    (h : attrRead ops cfg lookup .integer nullable ({ left := l0, right := input } : IStream) = .ok r) (hne : NoErr r.sev) :
    (∃ sp1 tok sp2, input = sp1 ++ tok ++ sp2 ++ r.s.right ∧ sp1.all isSpace = true ∧ Between cfg sp2 ∧
        isInteger tok = true ∧ longMin ≤ denoteInteger tok ∧ denoteInteger tok ≤ longMax ∧
        r.val = intValue (some (denoteInteger tok)) ∧ intSentinel cfg (some (denoteInteger tok)) = false ∧
        AtDelimOrEnd cfg r.s.right) ∨
    (nullable = true ∧ r.val = .unset ∧ ∃ sp1 c t, input = sp1 ++ c :: t ∧ sp1.all isSpace = true ∧
        ((c = 36 ∧ ∃ sp2, t = sp2 ++ r.s.right ∧ Between cfg sp2 ∧ AtDelimOrEnd cfg r.s.right) ∨
         ((c = 44 ∨ c = 41) ∧ r.s.right = c :: t))) ∨
    (input.all isSpace = true ∧ r.val = .unset) := by
  obtain ⟨sp1, body, h1, h2, h3, h4⟩ := dropSpaces_split l0 input
  rcases h4 with rfl | ⟨c, t, rfl, hc⟩
  · -- nothing but blanks
    right; right
    simp at h1; subst h1
    simp [attrRead, IStream.ofBytes, IStream.ws, IStream.sentry, IStream.good, h3, IStream.peekC, IStream.peek,
      readInteger, IStream.extractLong, IStream.failed, checkRemainingInput, intValue] at h
    subst h
    try replace hne := (noErr_sentinelIf _ _ hne).2
    exact ⟨h2, rfl⟩
  · subst h1
    have hpre : ({ left := l0, right := sp1 ++ c :: t } : IStream).ws = { left := (sp1.reverse ++ l0), right := c :: t } := by
      simpa [IStream.ofBytes] using ws_good l0 sp1 c t true h2 hc
    by_cases h36 : c = 36
    · -- `$`
      subst h36
      simp only [attrRead, hpre, peekC_good, ignore1_good] at h
      simp at h
      have hch := cri_char cfg { left := 36 :: (sp1.reverse ++ l0), right := t } Sev.null rfl
      subst h
      try replace hne := (noErr_sentinelIf _ _ hne).2
      cases nullable with
      | false => simp [NoErr] at hne
      | true =>
        simp only [hcfg2, if_true] at hne ⊢
        right; left
        have := hch.2 hne
        simp at this
        obtain ⟨sp2, hs2, ht, _, hat⟩ := this
        exact ⟨by simp, by simp, sp1, 36, t, rfl, h2, Or.inl ⟨rfl, sp2, ht, hs2, hat⟩⟩
    · by_cases hdl : c = 44 ∨ c = 41
      · -- a missing value
        have hcond : (c == 36 || c == 44 || c == 41) = true := by rcases hdl with rfl | rfl <;> decide
        simp only [attrRead, hpre, peekC_good, hcond, if_true] at h
        have h36' : (c == 36) = false := by simpa using h36
        simp [h36'] at h
        subst h
        try replace hne := (noErr_sentinelIf _ _ hne).2
        cases nullable with
        | false => simp [NoErr] at hne
        | true =>
          right; left
          exact ⟨rfl, rfl, sp1, c, t, rfl, h2, Or.inr ⟨hdl, rfl⟩⟩
      · -- a value
        have hcond : (c == 36 || c == 44 || c == 41) = false := by
          simp at hdl ⊢; exact ⟨⟨h36, hdl.1⟩, hdl.2⟩
        simp only [attrRead, hpre, peekC_good, hcond, readInteger, ws_good0 _ _ _ _ hc, extractLong_good _ _ _ hc] at h
        obtain ⟨tok, rest, hr, hrest, hs2, hval, _⟩ := scanInt_split longMin longMax (by decide) (by decide) (sp1.reverse ++ l0) (c :: t)
        generalize hsc : scanInt longMin longMax (sp1.reverse ++ l0) (c :: t) = sc at h hs2 hval
        obtain ⟨res, l', r'⟩ := sc
        simp only [Prod.mk.injEq] at hs2
        obtain ⟨rfl, rfl⟩ := hs2
        simp only [Bool.false_eq_true, if_false, IStream.failed, Bool.or_false, Bool.not_false, Bool.and_true, hcfg, Sev.warnIf] at h
        simp only [Outcome.ok.injEq] at h
        subst h
        have hsent := (noErr_sentinelIf _ _ hne).1
        replace hne := (noErr_sentinelIf _ _ hne).2
        simp only at hne ⊢
        cases hf : res.fail with
        | true =>
          exfalso
          simp only [hf, Bool.and_self, if_true] at hne
          have hch := (cri_char cfg { left := tok.reverse ++ (sp1.reverse ++ l0), right := r', eof := r'.isEmpty, fail := true }
            (Sev.null.greater Sev.warning) rfl).1
          rcases hch with he | he
          · rw [he] at hne; exact greater_warning_err _ hne
          · exact he hne
        | false =>
          simp only [hf, Bool.false_and, Bool.false_eq_true, if_false, Bool.not_false, if_true] at hne ⊢
          obtain ⟨htok, hv, hlo, hhi⟩ := hval hf
          have hch := (cri_char cfg { left := tok.reverse ++ (sp1.reverse ++ l0), right := r', eof := r'.isEmpty, fail := false }
            Sev.null rfl).2 hne
          generalize checkRemainingInput cfg (some attrDelims)
            { left := tok.reverse ++ (sp1.reverse ++ l0), right := r', eof := r'.isEmpty, fail := false } Sev.null = X at hne hch ⊢
          left
          rcases hch with ⟨heof, hsame⟩ | ⟨heof, sp2, hs2, hrr, _, hat⟩
          · simp only at heof
            have hre : r' = [] := by simpa using heof
            subst hre
            refine ⟨sp1, tok, [], ?_, h2, Between.nil cfg, htok, hlo, hhi, by rw [hv], by rw [← hv]; simpa [hf] using hsent, ?_⟩
            · rw [hsame]; simp [hr]
            · rw [hsame]; exact Or.inl rfl
          · simp only at hrr
            refine ⟨sp1, tok, sp2, ?_, h2, hs2, htok, hlo, hhi, by rw [hv], by rw [← hv]; simpa [hf] using hsent, hat⟩
            rw [hr, hrr]; simp

/-- INTEGER, never silent, for the scanners as the source has them now (`Generated.lexCfg`). -/
theorem C09_never_silent_integer {F} (ops : FloatOps F) (lookup : Int → RefLookup) (nullable : Bool)
    (input : List Byte) (r : ReadResult F)
    (h : attrRead ops Generated.lexCfg lookup .integer nullable (IStream.ofBytes input) = .ok r) (hne : NoErr r.sev) :
    (∃ sp1 tok sp2, input = sp1 ++ tok ++ sp2 ++ r.s.right ∧ sp1.all isSpace = true ∧ Between Generated.lexCfg sp2 ∧
        isInteger tok = true ∧ longMin ≤ denoteInteger tok ∧ denoteInteger tok ≤ longMax ∧
        r.val = intValue (some (denoteInteger tok)) ∧ intSentinel Generated.lexCfg (some (denoteInteger tok)) = false ∧
        AtDelimOrEnd Generated.lexCfg r.s.right) ∨
    (nullable = true ∧ r.val = .unset ∧ ∃ sp1 c t, input = sp1 ++ c :: t ∧ sp1.all isSpace = true ∧
        ((c = 36 ∧ ∃ sp2, t = sp2 ++ r.s.right ∧ Between Generated.lexCfg sp2 ∧ AtDelimOrEnd Generated.lexCfg r.s.right) ∨
         ((c = 44 ∨ c = 41) ∧ r.s.right = c :: t))) ∨
    (input.all isSpace = true ∧ r.val = .unset) :=
  never_silent_integer_of_cfg ops Generated.lexCfg (by decide) (by decide) lookup nullable input [] r h hne

/-- `C09_never_silent_integer` for `STEPattribute::STEPread` called *anywhere in a stream*: the statement does not depend on what was
    consumed before (`l0`) -/
theorem C09_never_silent_integer_midstream {F} (ops : FloatOps F) (lookup : Int → RefLookup) (nullable : Bool)
    (input : List Byte) (l0 : List Byte) (r : ReadResult F)
    (h : attrRead ops Generated.lexCfg lookup .integer nullable ({ left := l0, right := input } : IStream) = .ok r) (hne : NoErr r.sev) :
    (∃ sp1 tok sp2, input = sp1 ++ tok ++ sp2 ++ r.s.right ∧ sp1.all isSpace = true ∧ Between Generated.lexCfg sp2 ∧
        isInteger tok = true ∧ longMin ≤ denoteInteger tok ∧ denoteInteger tok ≤ longMax ∧
        r.val = intValue (some (denoteInteger tok)) ∧ intSentinel Generated.lexCfg (some (denoteInteger tok)) = false ∧
        AtDelimOrEnd Generated.lexCfg r.s.right) ∨
    (nullable = true ∧ r.val = .unset ∧ ∃ sp1 c t, input = sp1 ++ c :: t ∧ sp1.all isSpace = true ∧
        ((c = 36 ∧ ∃ sp2, t = sp2 ++ r.s.right ∧ Between Generated.lexCfg sp2 ∧ AtDelimOrEnd Generated.lexCfg r.s.right) ∨
         ((c = 44 ∨ c = 41) ∧ r.s.right = c :: t))) ∨
    (input.all isSpace = true ∧ r.val = .unset) :=
  never_silent_integer_of_cfg ops Generated.lexCfg (by decide) (by decide) lookup nullable input l0 r h hne

/-- what `Layout` (the separators of the never-silent clauses and the middle part of `KeptDelims`) is, exactly: blanks and
    *closed* comments each ending at its first `*/` (`ExactLayout`), optionally followed by one last comment that is never
    closed and whose text contains no `*/` — nothing else.  In particular text behind a closed comment is outside it: a
    reader that swallowed `/*c*/ , 2` would not satisfy `Between`.  (`SkipTokenSeparators` has no length bound; the 8192
    characters of `ReadComment` concern `ReadTokenSeparator`, i.e. the aggregate loop of the shared reader model.) -/
theorem C09_layout_exact {m : List Byte} (h : Layout m) :
    ExactLayout m ∨ ∃ a body, m = a ++ 47 :: 42 :: body ∧ ExactLayout a ∧ noClose 0 body = true := by
  induction h with
  | nil => exact Or.inl .nil
  | blank hc _ ih =>
    rcases ih with h | ⟨a, body, rfl, ha, hb⟩
    · exact Or.inl (.blank hc h)
    · exact Or.inr ⟨_ :: a, body, by simp, .blank hc ha, hb⟩
  | @comment body m hb _ ih =>
    rcases ih with h | ⟨a, body', rfl, ha, hb'⟩
    · exact Or.inl (.comment hb h)
    · exact Or.inr ⟨47 :: 42 :: (body ++ 42 :: 47 :: a), body', by simp, .comment hb ha, hb'⟩
  | @unterminated body hb => exact Or.inr ⟨[], body, by simp, .nil, hb⟩

/-- INTEGER, the delimiter is never consumed: for *any* input bytes and any scanner configuration, what the reader takes
    from the stream is a delimiter-free stretch (blanks, `$` or the token), then separators (`Between`: blanks, and comments
    when `CheckRemainingInput` skips them), then delimiter-free garbage up to the next delimiter — a `,` or `)` is only ever
    passed inside a comment -/
theorem C09_delim_kept_integer {F} (ops : FloatOps F) (cfg : LexCfg) (lookup : Int → RefLookup) (nullable : Bool)
    (input : List Byte) (r : ReadResult F)
    (h : attrRead ops cfg lookup .integer nullable (IStream.ofBytes input) = .ok r) :
    ∃ a lay b, input = a ++ lay ++ b ++ r.s.right ∧ r.s.left = (a ++ lay ++ b).reverse ∧
      (∀ x ∈ a, isDelim attrDelims x = false) ∧ Between cfg lay ∧ (∀ x ∈ b, isDelim attrDelims x = false) := by
  obtain ⟨sp1, body, h1, h2, h3, h4⟩ := dropSpaces_split [] input
  have hsp1 : ∀ b ∈ sp1, isDelim attrDelims b = false := fun x hx => space_not_delim (List.all_eq_true.mp h2 x hx)
  rcases h4 with rfl | ⟨c, t, rfl, hc⟩
  · simp at h1; subst h1
    have hws : (IStream.ofBytes input).ws = { left := input.reverse, right := [], eof := true } := by
      simpa [IStream.ofBytes] using ws_blank [] input true h2
    simp only [attrRead, hws] at h
    simp [IStream.peekC, IStream.peek, IStream.sentry, IStream.good,
      readInteger, IStream.ws, IStream.extractLong, IStream.failed, checkRemainingInput, intValue, Sev.warnIf] at h
    subst h
    exact ⟨input, [], [], by simp, by simp, hsp1, Between.nil cfg, by simp⟩
  · subst h1
    have hpre : (IStream.ofBytes (sp1 ++ c :: t)).ws = { left := sp1.reverse, right := c :: t } := by
      simpa [IStream.ofBytes] using ws_good [] sp1 c t true h2 hc
    by_cases h36 : c = 36
    · subst h36
      rw [attrRead_dollar ops cfg lookup .integer nullable sp1 t h2] at h
      simp only [Outcome.ok.injEq] at h
      obtain ⟨lay, g, hm1, hm2, hm3, hm4⟩ := cri_left cfg { left := 36 :: sp1.reverse, right := t } Sev.null rfl
      subst h
      generalize checkRemainingInput cfg (some attrDelims) { left := 36 :: sp1.reverse, right := t } Sev.null = X at hm1 hm2 ⊢
      refine ⟨sp1 ++ [36], lay, g, ?_, ?_, ?_, hm3, fun x hx => delimAt_false (hm4 x hx)⟩
      · simp only at hm2 ⊢; rw [hm2]; simp
      · simp only at hm1 ⊢; rw [hm1]; simp
      · intro b hb
        rcases List.mem_append.mp hb with hb | hb
        · exact hsp1 b hb
        · simp at hb; subst hb; decide
    · by_cases hdl : c = 44 ∨ c = 41
      · rw [attrRead_missing ops cfg lookup .integer nullable sp1 t c h2 hdl] at h
        simp only [Outcome.ok.injEq] at h
        subst h
        exact ⟨sp1, [], [], by simp, by simp, hsp1, Between.nil cfg, by simp⟩
      · have hcond : (c == 36 || c == 44 || c == 41) = false := by
          simp at hdl ⊢; exact ⟨⟨h36, hdl.1⟩, hdl.2⟩
        simp only [attrRead, hpre, peekC_good, hcond, readInteger, ws_good0 _ _ _ _ hc, extractLong_good _ _ _ hc] at h
        obtain ⟨tok, rest, hr, hrest, hs2, hval, htokd⟩ := scanInt_split longMin longMax (by decide) (by decide) sp1.reverse (c :: t)
        generalize hsc : scanInt longMin longMax sp1.reverse (c :: t) = sc at h hs2 hval
        obtain ⟨res, l', r'⟩ := sc
        simp only [Prod.mk.injEq] at hs2
        obtain ⟨rfl, rfl⟩ := hs2
        simp only [Bool.false_eq_true, if_false, Outcome.ok.injEq] at h
        subst h
        simp only
        generalize Sev.warnIf _ _ = E
        obtain ⟨lay, g, hm1, hm2, hm3, hm4⟩ := cri_left cfg { left := tok.reverse ++ sp1.reverse, right := r', eof := r'.isEmpty, fail := res.fail } E rfl
        generalize checkRemainingInput cfg (some attrDelims)
          { left := tok.reverse ++ sp1.reverse, right := r', eof := r'.isEmpty, fail := res.fail } E = X at hm1 hm2 ⊢
        refine ⟨sp1 ++ tok, lay, g, ?_, ?_, ?_, hm3, fun x hx => delimAt_false (hm4 x hx)⟩
        · simp only at hm2 ⊢; rw [hr, hm2]; simp
        · simp only at hm1 ⊢; rw [hm1]; simp
        · intro b hb
          rcases List.mem_append.mp hb with hb | hb
          · exact hsp1 b hb
          · exact htokd b hb

/-- INTEGER, writer: every value except the in-band null is written as a token of the grammar denoting it, and that
    token reads back to the same value with no error, the stream resting at the delimiter -/
theorem C09_write_read_integer {F} (ops : FloatOps F) (cfg : LexCfg) (lookup : Int → RefLookup) (nullable : Bool)
    (v : Int) (hlo : longMin ≤ v) (hhi : v < longMax) (sp rest : List Byte) (d : Byte)
    (hsp : Gap cfg sp) (hd : d = 44 ∨ d = 41) :
    isInteger (attrWrite ops .integer (.int v)) = true ∧ denoteInteger (attrWrite ops .integer (.int v)) = v ∧
    attrRead ops cfg lookup .integer nullable (IStream.ofBytes (attrWrite ops .integer (.int v) ++ sp ++ d :: rest)) =
      .ok ⟨.null, .int v, { left := sp.reverse ++ (attrWrite ops .integer (.int v)).reverse, right := d :: rest }⟩ := by
  have hs := showInt_spec v
  refine ⟨hs.1, hs.2, ?_⟩
  have := C09_accept_integer ops cfg lookup nullable (showInt v) sp rest d hs.1 (by rw [hs.2]; exact hlo) (by rw [hs.2]; exact hhi) hsp hd
  rw [hs.2] at this
  exact this

/-! ## BOOLEAN / LOGICAL / ENUMERATION -/

/-- BOOLEAN / LOGICAL / ENUMERATION, never silent (any configuration in which `SDAI_LOGICAL::ReadEnum` rejects the name
    `UNSET` and the severity found after `$` is kept): whenever `STEPattribute::STEPread` flags no error, for *any* input
    bytes, then either
    (a) the input is blanks, `.`, a word of letters/digits/`_`, `.`, blanks, and the stream rests at the end or in front of
        a delimiter; the word, upper-cased, is item `i` of the kind's table (not the "unset" slot) and the attribute holds
        item `i`; or
    (b) the attribute is OPTIONAL and the input is `$` (followed by blanks only) or a missing value; or
    (c) the attribute is OPTIONAL and the input is nothing but blanks. -/
theorem never_silent_enum_of_cfg {F} (ops : FloatOps F) (cfg : LexCfg) (hcfg : cfg.logicalRejectsUnset = true)
    (hcfg2 : cfg.dollarKeepsError = true) (lookup : Int → RefLookup) (k : Kind) (hk : EnumLike k) (nullable : Bool)
    (input : List Byte) (l0 : List Byte) (r : ReadResult F)
    (h : attrRead ops cfg lookup k nullable ({ left := l0, right := input } : IStream) = .ok r) (hne : NoErr r.sev) :
    (∃ sp1 name sp2 i, input = sp1 ++ 46 :: (name ++ 46 :: (sp2 ++ r.s.right)) ∧ sp1.all isSpace = true ∧ Between cfg sp2 ∧
        name ≠ [] ∧ name.all pw = true ∧ findName k.enumKind.table (name.map toUpper) = some i ∧
        k.enumKind.isUnsetIdx i = false ∧ r.val = .enum i ∧ AtDelimOrEnd cfg r.s.right) ∨
    (nullable = true ∧ r.val = .unset ∧ ∃ sp1 c t, input = sp1 ++ c :: t ∧ sp1.all isSpace = true ∧
        ((c = 36 ∧ ∃ sp2, t = sp2 ++ r.s.right ∧ Between cfg sp2 ∧ AtDelimOrEnd cfg r.s.right) ∨
         ((c = 44 ∨ c = 41) ∧ r.s.right = c :: t))) ∨
    (nullable = true ∧ input.all isSpace = true ∧ r.val = .unset) := by
  obtain ⟨sp1, body, h1, h2, h3, h4⟩ := dropSpaces_split l0 input
  rcases h4 with rfl | ⟨c, t, rfl, hc⟩
  · -- nothing but blanks
    simp at h1; subst h1
    right; right
    have hws : ({ left := l0, right := input } : IStream).ws = { left := input.reverse ++ l0, right := [], eof := true } := by
      simpa [IStream.ofBytes] using ws_blank l0 input true h2
    have : attrRead ops cfg lookup k nullable ({ left := l0, right := input } : IStream) =
        .ok ⟨if nullable then .null else .incomplete, .unset, { left := input.reverse ++ l0, right := [], eof := true, fail := true }⟩ := by
      rcases hk with rfl | rfl | ⟨items, rfl⟩ <;> simp only [attrRead, hws] <;>
        simp [IStream.peekC, IStream.peek, IStream.sentry, IStream.good, enumRead, readEnum, IStream.ws,
          checkRemainingInput, enumValue, Sev.greater, Sev.toInt] <;> cases nullable <;> rfl
    rw [this] at h
    simp only [Outcome.ok.injEq] at h
    subst h
    cases nullable with
    | false => simp [NoErr] at hne
    | true => exact ⟨rfl, h2, rfl⟩
  · subst h1
    by_cases h36 : c = 36
    · subst h36
      rw [attrRead_dollar_at ops cfg lookup k nullable l0 sp1 t h2] at h
      simp only [Outcome.ok.injEq] at h
      have hch := cri_char cfg { left := 36 :: (sp1.reverse ++ l0), right := t } Sev.null rfl
      subst h
      cases nullable with
      | false => simp [NoErr] at hne
      | true =>
        simp only [hcfg2, if_true] at hne ⊢
        right; left
        have := hch.2 hne
        simp at this
        obtain ⟨sp2, hs2, ht, _, hat⟩ := this
        exact ⟨by simp, by simp, sp1, 36, t, rfl, h2, Or.inl ⟨rfl, sp2, ht, hs2, hat⟩⟩
    · by_cases hdl : c = 44 ∨ c = 41
      · rw [attrRead_missing_at ops cfg lookup k nullable l0 sp1 t c h2 hdl] at h
        simp only [Outcome.ok.injEq] at h
        subst h
        cases nullable with
        | false => simp [NoErr] at hne
        | true => right; left; exact ⟨rfl, rfl, sp1, c, t, rfl, h2, Or.inr ⟨hdl, rfl⟩⟩
      · have hcond : (c == 36 || c == 44 || c == 41) = false := by
          simp at hdl ⊢; exact ⟨⟨h36, hdl.1⟩, hdl.2⟩
        rw [attrRead_enumlike_at ops cfg lookup k hk nullable l0 sp1 t c h2 hc hcond] at h
        simp only [Outcome.ok.injEq] at h
        subst h
        simp only at hne ⊢
        have hc44 : c ≠ 44 := fun e => hdl (Or.inl e)
        have hc41 : c ≠ 41 := fun e => hdl (Or.inr e)
        generalize hq : enumRead cfg k.enumKind nullable { left := (sp1.reverse ++ l0), right := c :: t } Sev.null = q at hne ⊢
        have hqe : NoErr q.2.2 := by
          rcases cri_mono cfg q.2.1 q.2.2 with hm | hm
          · rw [hm] at hne; exact hne
          · exact absurd hne hm
        -- the severity ReadEnum itself reported is null, usermsg or incomplete
        have hquiet : Quiet (readEnum cfg k.enumKind true { left := (sp1.reverse ++ l0), right := c :: t } Sev.null).2.2 := by
          rw [← hq] at hqe
          simp only [enumRead] at hqe
          by_cases hi : ((readEnum cfg k.enumKind true { left := (sp1.reverse ++ l0), right := c :: t } Sev.null).2.2 == Sev.incomplete) = true
          · right; right; simpa using hi
          · have hi' : ((readEnum cfg k.enumKind true { left := (sp1.reverse ++ l0), right := c :: t } Sev.null).2.2 == Sev.incomplete) = false := by
              simpa using hi
            simp only [hi', Bool.false_and, Bool.false_eq_true, if_false] at hqe
            exact NoErr.quiet hqe
        obtain ⟨name, rest, i, hct, hn1, hn2, hf, hu, hre⟩ :=
          readEnum_noerr cfg k.enumKind (sp1.reverse ++ l0) c t true hc hc44 hc41 hquiet
        have hqv : q = (some i, { left := 46 :: (name.reverse ++ 46 :: (sp1.reverse ++ l0)), right := rest }, Sev.null) := by
          rw [← hq]; simp [enumRead, hre]
        subst hqv
        simp only at hne ⊢
        have hch := (cri_char cfg { left := 46 :: (name.reverse ++ 46 :: (sp1.reverse ++ l0)), right := rest } Sev.null rfl).2 hne
        generalize checkRemainingInput cfg (some attrDelims) { left := 46 :: (name.reverse ++ 46 :: (sp1.reverse ++ l0)), right := rest } Sev.null = X at hne hch ⊢
        left
        have hui := hu hcfg
        simp at hch
        obtain ⟨sp2, hs2, hrr, _, hat⟩ := hch
        refine ⟨sp1, name, sp2, i, ?_, h2, hs2, hn1, hn2, hf, hui, by simp [enumValue, hui], hat⟩
        rw [hct, hrr]

/-- BOOLEAN / LOGICAL / ENUMERATION, never silent, for the scanners as the source has them now. -/
theorem C09_never_silent_enum {F} (ops : FloatOps F) (lookup : Int → RefLookup) (k : Kind) (hk : EnumLike k) (nullable : Bool)
    (input : List Byte) (r : ReadResult F)
    (h : attrRead ops Generated.lexCfg lookup k nullable (IStream.ofBytes input) = .ok r) (hne : NoErr r.sev) :
    (∃ sp1 name sp2 i, input = sp1 ++ 46 :: (name ++ 46 :: (sp2 ++ r.s.right)) ∧ sp1.all isSpace = true ∧ Between Generated.lexCfg sp2 ∧
        name ≠ [] ∧ name.all pw = true ∧ findName k.enumKind.table (name.map toUpper) = some i ∧
        k.enumKind.isUnsetIdx i = false ∧ r.val = .enum i ∧ AtDelimOrEnd Generated.lexCfg r.s.right) ∨
    (nullable = true ∧ r.val = .unset ∧ ∃ sp1 c t, input = sp1 ++ c :: t ∧ sp1.all isSpace = true ∧
        ((c = 36 ∧ ∃ sp2, t = sp2 ++ r.s.right ∧ Between Generated.lexCfg sp2 ∧ AtDelimOrEnd Generated.lexCfg r.s.right) ∨
         ((c = 44 ∨ c = 41) ∧ r.s.right = c :: t))) ∨
    (nullable = true ∧ input.all isSpace = true ∧ r.val = .unset) :=
  never_silent_enum_of_cfg ops Generated.lexCfg (by decide) (by decide) lookup k hk nullable input [] r h hne

/-- `C09_never_silent_enum` for `STEPattribute::STEPread` called *anywhere in a stream*: the statement does not depend on what was
    consumed before (`l0`) -/
theorem C09_never_silent_enum_midstream {F} (ops : FloatOps F) (lookup : Int → RefLookup) (k : Kind) (hk : EnumLike k) (nullable : Bool)
    (input : List Byte) (l0 : List Byte) (r : ReadResult F)
    (h : attrRead ops Generated.lexCfg lookup k nullable ({ left := l0, right := input } : IStream) = .ok r) (hne : NoErr r.sev) :
    (∃ sp1 name sp2 i, input = sp1 ++ 46 :: (name ++ 46 :: (sp2 ++ r.s.right)) ∧ sp1.all isSpace = true ∧ Between Generated.lexCfg sp2 ∧
        name ≠ [] ∧ name.all pw = true ∧ findName k.enumKind.table (name.map toUpper) = some i ∧
        k.enumKind.isUnsetIdx i = false ∧ r.val = .enum i ∧ AtDelimOrEnd Generated.lexCfg r.s.right) ∨
    (nullable = true ∧ r.val = .unset ∧ ∃ sp1 c t, input = sp1 ++ c :: t ∧ sp1.all isSpace = true ∧
        ((c = 36 ∧ ∃ sp2, t = sp2 ++ r.s.right ∧ Between Generated.lexCfg sp2 ∧ AtDelimOrEnd Generated.lexCfg r.s.right) ∨
         ((c = 44 ∨ c = 41) ∧ r.s.right = c :: t))) ∨
    (nullable = true ∧ input.all isSpace = true ∧ r.val = .unset) :=
  never_silent_enum_of_cfg ops Generated.lexCfg (by decide) (by decide) lookup k hk nullable input l0 r h hne

/-! ## REAL / NUMBER

`_partial`: these theorems cover the half of "never silent" that the unrepaired tree violated — a token is never silently
turned into an *unset* attribute — for all inputs.  Not proved: that a value accepted without error equals the token's
denotation (it needs the lexical equivalence between libstdc++'s float scan + `strtod` and `Grammar.denoteReal`; it is
covered by the correspondence with the exhaustive / random token streams and by the FloatLaws validation only). -/

/-- NUMBER, never silently unset (any configuration in which `ReadNumber` reports a failed extraction): for *any* input
    bytes, if `STEPattribute::STEPread` flags no error and leaves the attribute unset, then the attribute is OPTIONAL and
    the input is `$`/a missing value, or the input is blank, or the text converts to the in-band null `FLT_MIN`. -/
theorem never_silently_unset_number_of_cfg {F} (ops : FloatOps F) (cfg : LexCfg) (hcfg : cfg.numberReportsFail = true)
    (lookup : Int → RefLookup) (nullable : Bool) (input : List Byte) (l0 : List Byte) (r : ReadResult F)
    (h : attrRead ops cfg lookup .number nullable ({ left := l0, right := input } : IStream) = .ok r) (hne : NoErr r.sev)
    (hun : r.val = .unset) : UnsetOrigin ops nullable input := by
  obtain ⟨sp1, body, h1, h2, h3, h4⟩ := dropSpaces_split l0 input
  rcases h4 with rfl | ⟨c, t, rfl, hc⟩
  · right; left; simp at h1; subst h1; exact h2
  · subst h1
    by_cases h36 : c = 36
    · subst h36
      rw [attrRead_dollar_at ops cfg lookup .number nullable l0 sp1 t h2] at h
      simp only [Outcome.ok.injEq] at h
      subst h
      try replace hne := (noErr_sentinelIf _ _ hne).2
      cases nullable with
      | false => simp [NoErr] at hne
      | true => left; exact ⟨rfl, sp1, 36, t, rfl, h2, Or.inl rfl⟩
    · by_cases hdl : c = 44 ∨ c = 41
      · rw [attrRead_missing_at ops cfg lookup .number nullable l0 sp1 t c h2 hdl] at h
        simp only [Outcome.ok.injEq] at h
        subst h
        try replace hne := (noErr_sentinelIf _ _ hne).2
        cases nullable with
        | false => simp [NoErr] at hne
        | true => left; exact ⟨rfl, sp1, c, t, rfl, h2, Or.inr hdl⟩
      · have hcond : (c == 36 || c == 44 || c == 41) = false := by
          simp at hdl ⊢; exact ⟨⟨h36, hdl.1⟩, hdl.2⟩
        have hpre : ({ left := l0, right := sp1 ++ c :: t } : IStream).ws = { left := (sp1.reverse ++ l0), right := c :: t } := by
          simpa [IStream.ofBytes] using ws_good l0 sp1 c t true h2 hc
        simp only [attrRead, hpre, peekC_good, hcond, readNumber, ws_good0 _ _ _ _ hc, extractFloatText_good _ _ _ hc] at h
        simp only [Bool.false_eq_true, if_false, Outcome.ok.injEq] at h
        cases hconv : ops.conv (scanFloat (sp1.reverse ++ l0) (c :: t)).1 with
        | ok v =>
          right; right
          simp only [hconv] at h
          subst h
          try replace hne := (noErr_sentinelIf _ _ hne).2
          simp only [realValue] at hun
          by_cases hnull : ops.isRealNull v = true
          · exact ⟨_, v, hconv, hnull⟩
          · simp [hnull] at hun
        | invalid =>
          exfalso
          simp only [hconv, IStream.setFail, IStream.failed, Bool.or_true, Bool.true_or, hcfg, Bool.not_false, Bool.and_self] at h
          subst h
          try replace hne := (noErr_sentinelIf _ _ hne).2
          rcases cri_mono cfg _ _ with hm | hm
          · rw [hm] at hne; exact warnIf_true_err Sev.null hne
          · exact hm hne
        | overflow =>
          exfalso
          simp only [hconv, IStream.setFail, IStream.failed, Bool.or_true, Bool.true_or, hcfg, Bool.not_false, Bool.and_self] at h
          subst h
          try replace hne := (noErr_sentinelIf _ _ hne).2
          rcases cri_mono cfg _ _ with hm | hm
          · rw [hm] at hne; exact warnIf_true_err Sev.null hne
          · exact hm hne


theorem C09_never_silent_number_partial {F} (ops : FloatOps F) (lookup : Int → RefLookup) (nullable : Bool)
    (input : List Byte) (r : ReadResult F)
    (h : attrRead ops Generated.lexCfg lookup .number nullable (IStream.ofBytes input) = .ok r) (hne : NoErr r.sev)
    (hun : r.val = .unset) : UnsetOrigin ops nullable input :=
  never_silently_unset_number_of_cfg ops Generated.lexCfg (by decide) lookup nullable input [] r h hne hun

/-- `C09_never_silent_number_partial` for `STEPattribute::STEPread` called *anywhere in a stream*: the statement does not depend on what was
    consumed before (`l0`) -/
theorem C09_never_silent_number_partial_midstream {F} (ops : FloatOps F) (lookup : Int → RefLookup) (nullable : Bool)
    (input : List Byte) (l0 : List Byte) (r : ReadResult F)
    (h : attrRead ops Generated.lexCfg lookup .number nullable ({ left := l0, right := input } : IStream) = .ok r) (hne : NoErr r.sev)
    (hun : r.val = .unset) : UnsetOrigin ops nullable input :=
  never_silently_unset_number_of_cfg ops Generated.lexCfg (by decide) lookup nullable input l0 r h hne hun

/-- REAL, never silently unset (any configuration in which `ReadReal` reports a failed conversion of a non-empty text):
    for any input bytes whose first non-blank byte is not in `quietFirst cfg.realFailUnlessBlank cfg` — empty once `ReadReal`
    reports every non-blank input that is not a value (fixes/C09-8); before that: NUL where the bare `strchr(",)", c)` makes
    `CheckRemainingInput` take it for a delimiter (`cfg.nulIsDelim`), and `/` (a comment in place of the value is skipped
    by `CheckRemainingInput` when it skips comments) —, if
    `STEPattribute::STEPread` flags no error and leaves the attribute unset, then the attribute is OPTIONAL and the input
    is `$`/a missing value, or the input is blank, or the text converts to the in-band null `FLT_MIN`. -/
theorem never_silently_unset_real_of_cfg {F} (ops : FloatOps F) (cfg : LexCfg) (hcfg : cfg.realReportsFail = true)
    (lookup : Int → RefLookup) (nullable : Bool) (input : List Byte) (l0 : List Byte) (hfirst : FirstByteNot input (quietFirst cfg.realFailUnlessBlank cfg)) (r : ReadResult F)
    (h : attrRead ops cfg lookup .real nullable ({ left := l0, right := input } : IStream) = .ok r) (hne : NoErr r.sev)
    (hun : r.val = .unset) : UnsetOrigin ops nullable input := by
  obtain ⟨sp1, body, h1, h2, h3, h4⟩ := dropSpaces_split l0 input
  rcases h4 with rfl | ⟨c, t, rfl, hc⟩
  · right; left; simp at h1; subst h1; exact h2
  · subst h1
    by_cases h36 : c = 36
    · subst h36
      rw [attrRead_dollar_at ops cfg lookup .real nullable l0 sp1 t h2] at h
      simp only [Outcome.ok.injEq] at h
      subst h
      try replace hne := (noErr_sentinelIf _ _ hne).2
      cases nullable with
      | false => simp [NoErr] at hne
      | true => left; exact ⟨rfl, sp1, 36, t, rfl, h2, Or.inl rfl⟩
    · by_cases hdl : c = 44 ∨ c = 41
      · rw [attrRead_missing_at ops cfg lookup .real nullable l0 sp1 t c h2 hdl] at h
        simp only [Outcome.ok.injEq] at h
        subst h
        try replace hne := (noErr_sentinelIf _ _ hne).2
        cases nullable with
        | false => simp [NoErr] at hne
        | true => left; exact ⟨rfl, sp1, c, t, rfl, h2, Or.inr hdl⟩
      · have hcond : (c == 36 || c == 44 || c == 41) = false := by
          simp at hdl ⊢; exact ⟨⟨h36, hdl.1⟩, hdl.2⟩
        have hcf := hfirst sp1 c t rfl h2 hc
        have hgar : cfg.realFailUnlessBlank = false → delimAt cfg attrDelims c = false ∧ c ≠ 47 := fun hq =>
          quietFirst_spec hq hcf (by simp at hdl; exact hdl.1) (by simp at hdl; exact hdl.2)
        have hpre : ({ left := l0, right := sp1 ++ c :: t } : IStream).ws = { left := (sp1.reverse ++ l0), right := c :: t } := by
          simpa [IStream.ofBytes] using ws_good l0 sp1 c t true h2 hc
        simp only [attrRead, hpre, peekC_good, hcond, readReal, ws_good0 _ _ _ _ hc, IStream.good] at h
        simp only [Bool.false_eq_true, if_false, Bool.not_false, Bool.and_self, Bool.not_true] at h
        have happ := realCollect_append (c :: t)
        generalize hrc : realCollect (c :: t) = rc at h happ
        obtain ⟨buf, rest, e⟩ := rc
        simp only at h happ
        by_cases hov : (cfg.realBuf != 0 && decide (buf.length ≥ cfg.realBuf)) = true
        · simp [hov] at h
        · simp only [hov, Bool.false_eq_true, if_false] at h
          cases hconv : ops.conv (scanFloat [] buf).1 with
          | ok v =>
            right; right
            simp only [hconv, Outcome.ok.injEq] at h
            subst h
            try replace hne := (noErr_sentinelIf _ _ hne).2
            simp only [realValue] at hun
            by_cases hnull : ops.isRealNull v = true
            · exact ⟨_, v, hconv, hnull⟩
            · simp [hnull] at hun
          | invalid =>
            exfalso
            simp only [hconv, Outcome.ok.injEq, hcfg, Bool.true_and] at h
            subst h
            try replace hne := (noErr_sentinelIf _ _ hne).2
            try simp only at hne
            by_cases hrep : (cfg.realFailUnlessBlank || !buf.isEmpty) = true
            · rw [hrep] at hne
              rcases cri_mono cfg _ _ with hm | hm
              · rw [hm] at hne; exact warnIf_true_err Sev.null hne
              · exact hm hne
            · have hrep' : cfg.realFailUnlessBlank = false ∧ buf = [] := by
                cases hq : cfg.realFailUnlessBlank <;> cases buf <;> simp_all
              obtain ⟨hq, hb⟩ := hrep'
              subst hb
              simp only [List.nil_append] at happ
              subst happ
              exact cri_garbage cfg _ c t false true _ hc (hgar hq).1 (hgar hq).2 hne
          | overflow =>
            exfalso
            simp only [hconv, Outcome.ok.injEq, hcfg, Bool.true_and] at h
            subst h
            try replace hne := (noErr_sentinelIf _ _ hne).2
            try simp only at hne
            by_cases hrep : (cfg.realFailUnlessBlank || !buf.isEmpty) = true
            · rw [hrep] at hne
              rcases cri_mono cfg _ _ with hm | hm
              · rw [hm] at hne; exact warnIf_true_err Sev.null hne
              · exact hm hne
            · have hrep' : cfg.realFailUnlessBlank = false ∧ buf = [] := by
                cases hq : cfg.realFailUnlessBlank <;> cases buf <;> simp_all
              obtain ⟨hq, hb⟩ := hrep'
              subst hb
              simp only [List.nil_append] at happ
              subst happ
              exact cri_garbage cfg _ c t false true _ hc (hgar hq).1 (hgar hq).2 hne

theorem C09_never_silent_real_partial {F} (ops : FloatOps F) (lookup : Int → RefLookup) (nullable : Bool)
    (input : List Byte) (hfirst : FirstByteNot input (quietFirst Generated.lexCfg.realFailUnlessBlank Generated.lexCfg)) (r : ReadResult F)
    (h : attrRead ops Generated.lexCfg lookup .real nullable (IStream.ofBytes input) = .ok r) (hne : NoErr r.sev)
    (hun : r.val = .unset) : UnsetOrigin ops nullable input :=
  never_silently_unset_real_of_cfg ops Generated.lexCfg (by decide) lookup nullable input [] hfirst r h hne hun

/-- `C09_never_silent_real_partial` for `STEPattribute::STEPread` called *anywhere in a stream*: the statement does not depend on what was
    consumed before (`l0`) -/
theorem C09_never_silent_real_partial_midstream {F} (ops : FloatOps F) (lookup : Int → RefLookup) (nullable : Bool)
    (input : List Byte) (l0 : List Byte) (hfirst : FirstByteNot input (quietFirst Generated.lexCfg.realFailUnlessBlank Generated.lexCfg)) (r : ReadResult F)
    (h : attrRead ops Generated.lexCfg lookup .real nullable ({ left := l0, right := input } : IStream) = .ok r) (hne : NoErr r.sev)
    (hun : r.val = .unset) : UnsetOrigin ops nullable input :=
  never_silently_unset_real_of_cfg ops Generated.lexCfg (by decide) lookup nullable input l0 hfirst r h hne hun

/-- REAL, accept (any configuration): every token of the grammar `real` whose denotation converts (`ofDecimal`: inside the
    double range) to a double other than the in-band null, and that fits `ReadReal`'s buffer, followed by blanks and a
    delimiter, is read to exactly that double with no error, and the stream stops at the delimiter. -/
theorem C09_accept_real_inband {F} (ops : FloatOps F) (cfg : LexCfg) (lookup : Int → RefLookup) (nullable : Bool)
    (tok sp rest : List Byte) (d : Byte) (dec : Decimal) (v : F)
    (htok : isReal tok = true) (hden : denoteReal tok = some dec) (hv : ops.ofDecimal dec = some v)
    (hbuf : cfg.realBuf = 0 ∨ tok.length < cfg.realBuf)
    (hsp : Gap cfg sp) (hd : d = 44 ∨ d = 41) :
    attrRead ops cfg lookup .real nullable (IStream.ofBytes (tok ++ sp ++ d :: rest)) =
      .ok ⟨Sev.null.sentinelIf (cfg.realNullReported && ops.isRealNull v), realValue ops (some v),
        { left := sp.reverse ++ tok.reverse, right := d :: rest }⟩ := by
  obtain ⟨sg, ip, fp, ex, rfl, hsg, hip1, hip, hfp, hex⟩ := isReal_shape tok htok
  have hdd : isDelim attrDelims d = true := by rcases hd with rfl | rfl <;> decide
  have hdn : isSpace d = false := by rcases hd with rfl | rfl <;> decide
  -- the first character of the token
  obtain ⟨c, u, hcu, hcs, hc36, hc44, hc41⟩ : ∃ c u, realText sg ip fp 69 ex = c :: u ∧ isSpace c = false ∧ c ≠ 36 ∧ c ≠ 44 ∧ c ≠ 41 := by
    obtain ⟨i0, iu, rfl⟩ : ∃ i0 iu, ip = i0 :: iu := by
      cases ip with
      | nil => exact absurd rfl hip1
      | cons i0 iu => exact ⟨i0, iu, rfl⟩
    have hi0 : isDigit i0 = true := by simp at hip; exact hip.1
    have hi0' : isSpace i0 = false ∧ i0 ≠ 36 ∧ i0 ≠ 44 ∧ i0 ≠ 41 := by
      refine ⟨digit_not_space hi0, ?_, ?_, ?_⟩ <;> (simp [isDigit] at hi0; bomega)
    rcases hsg with rfl | rfl | rfl
    · exact ⟨i0, iu ++ 46 :: (fp ++ exText 69 ex), by simp [realText], hi0'.1, hi0'.2.1, hi0'.2.2.1, hi0'.2.2.2⟩
    · exact ⟨43, i0 :: (iu ++ 46 :: (fp ++ exText 69 ex)), by simp [realText], by decide, by decide, by decide, by decide⟩
    · exact ⟨45, i0 :: (iu ++ 46 :: (fp ++ exText 69 ex)), by simp [realText], by decide, by decide, by decide, by decide⟩
  have hcont : RealCont (sp ++ d :: rest) := by
    obtain ⟨c', t', h', a1, a2, a3, _, _⟩ := gap_cont cfg sp rest d hsp hd
    exact Or.inr ⟨c', t', h', a1, a2, a3⟩
  have hcol := realCollect_realText sg ip fp ex (sp ++ d :: rest) hsg hip1 hip hfp hex hcont
  have hparse := parse_scanFloat_realText sg ip fp 69 ex hsg hip1 hip hfp (Or.inl rfl) hex
  have hden' := parse_realText sg ip fp 69 ex hsg hip1 hip hfp (Or.inl rfl) hex
  have hdec : dec = ⟨sg == [45], digitsVal (ip ++ fp) 0, exVal ex - (fp.length : Int)⟩ := by
    unfold denoteReal at hden; rw [hden'] at hden; simpa using hden.symm
  have hconv : ops.conv (scanFloat [] (realText sg ip fp 69 ex)).1 = .ok v := by
    unfold FloatOps.conv; rw [hparse]; simp only; rw [← hdec, hv]
  have hov : (cfg.realBuf != 0 && decide ((realText sg ip fp 69 ex).length ≥ cfg.realBuf)) = false := by
    rcases hbuf with h0 | hlt
    · simp [h0]
    · simp; intro _; omega
  have hpre : (IStream.ofBytes (realText sg ip fp 69 ex ++ sp ++ d :: rest)).ws =
      { left := [], right := realText sg ip fp 69 ex ++ (sp ++ d :: rest) } := by
    rw [hcu]
    simpa [IStream.ofBytes] using ws_good0 [] c (u ++ (sp ++ d :: rest)) true hcs
  have hcond : (c == 36 || c == 44 || c == 41) = false := by simp [hc36, hc44, hc41]
  have hrne : (sp ++ d :: rest).isEmpty = false := by cases sp <;> rfl
  have hcri := cri_gap_delim cfg ((realText sg ip fp 69 ex).reverse) sp rest d false true Sev.null hsp hdd hdn
  simp only [attrRead, hpre]
  rw [hcu] at hcol hconv hov hcri ⊢
  simp only [List.cons_append, peekC_good, hcond, Bool.false_eq_true, if_false, readReal, ws_good0 _ _ _ _ hcs, IStream.good,
    Bool.not_false, Bool.and_self, Bool.not_true]
  simp only [List.cons_append] at hcol
  simp only [hcol, hov, Bool.false_eq_true, if_false, hconv, hrne, List.append_nil]
  simp only [show Sev.null.greater Sev.null = Sev.null from rfl, hcri, realSentinel]

theorem C09_accept_real {F} (ops : FloatOps F) (cfg : LexCfg) (lookup : Int → RefLookup) (nullable : Bool)
    (tok sp rest : List Byte) (d : Byte) (dec : Decimal) (v : F)
    (htok : isReal tok = true) (hden : denoteReal tok = some dec) (hv : ops.ofDecimal dec = some v)
    (hnn : ops.isRealNull v = false) (hbuf : cfg.realBuf = 0 ∨ tok.length < cfg.realBuf)
    (hsp : Gap cfg sp) (hd : d = 44 ∨ d = 41) :
    attrRead ops cfg lookup .real nullable (IStream.ofBytes (tok ++ sp ++ d :: rest)) =
      .ok ⟨.null, .real v, { left := sp.reverse ++ tok.reverse, right := d :: rest }⟩ := by
  have := C09_accept_real_inband ops cfg lookup nullable tok sp rest d dec v htok hden hv hbuf hsp hd
  simpa [realValue, hnn, Sev.sentinelIf, Sev.warnIf] using this

/-- REAL, the in-band null as a theorem: among the tokens whose denotation converts, exactly those that convert to the
    in-band null (`isRealNull`: the double equal to FLT_MIN, e.g. `1.1754943508222875E-38` and every other spelling inside the
    same rounding interval) are read as an *unset* attribute — silently (severity NULL) while the reader stores the sentinel,
    with SEVERITY_WARNING once it reports it (`cfg.realNullReported`, fixes/C09-9); every other one is read to its double with no error -/
theorem C09_real_inband_null_iff {F} (ops : FloatOps F) (cfg : LexCfg) (lookup : Int → RefLookup) (nullable : Bool)
    (tok sp rest : List Byte) (d : Byte) (dec : Decimal) (v : F)
    (htok : isReal tok = true) (hden : denoteReal tok = some dec) (hv : ops.ofDecimal dec = some v)
    (hbuf : cfg.realBuf = 0 ∨ tok.length < cfg.realBuf) (hsp : Gap cfg sp) (hd : d = 44 ∨ d = 41) :
    ∃ r, attrRead ops cfg lookup .real nullable (IStream.ofBytes (tok ++ sp ++ d :: rest)) = .ok r ∧
      r.s.right = d :: rest ∧
      ((ops.isRealNull v = true ∧ r.val = .unset ∧ r.sev = (if cfg.realNullReported then .warning else .null)) ∨
       (ops.isRealNull v = false ∧ r.val = .real v ∧ r.sev = .null)) := by
  refine ⟨_, C09_accept_real_inband ops cfg lookup nullable tok sp rest d dec v htok hden hv hbuf hsp hd, rfl, ?_⟩
  cases h : ops.isRealNull v
  · right; exact ⟨rfl, by simp [realValue, h], by simp [Sev.sentinelIf, Sev.warnIf]⟩
  · left
    refine ⟨rfl, by simp [realValue, h], ?_⟩
    cases hf : cfg.realNullReported <;> simp [Sev.sentinelIf, Sev.warnIf, Sev.greater, Sev.toInt]

/-- REAL with the repaired `ReadReal`: a token that converts to the sentinel is reported, never silently unset -/
theorem C09_real_null_reported {F} (ops : FloatOps F) (cfg : LexCfg) (hrep : cfg.realNullReported = true)
    (lookup : Int → RefLookup) (nullable : Bool) (tok sp rest : List Byte) (d : Byte) (dec : Decimal) (v : F)
    (htok : isReal tok = true) (hden : denoteReal tok = some dec) (hv : ops.ofDecimal dec = some v)
    (hnull : ops.isRealNull v = true) (hbuf : cfg.realBuf = 0 ∨ tok.length < cfg.realBuf) (hsp : Gap cfg sp) (hd : d = 44 ∨ d = 41) :
    attrRead ops cfg lookup .real nullable (IStream.ofBytes (tok ++ sp ++ d :: rest)) =
      .ok ⟨.warning, .unset, { left := sp.reverse ++ tok.reverse, right := d :: rest }⟩ := by
  rw [C09_accept_real_inband ops cfg lookup nullable tok sp rest d dec v htok hden hv hbuf hsp hd]
  simp [hrep, hnull, realValue, Sev.sentinelIf, Sev.warnIf, Sev.greater, Sev.toInt]

/-- REAL, never silent (any configuration in which `ReadReal` reports a failed conversion and the severity found after `$`
    is kept): for any input bytes whose first non-blank byte is not in `quietFirst cfg.realFailUnlessBlank cfg` (see
    `never_silently_unset_real_of_cfg`; the empty list for the repaired `ReadReal`), whenever `STEPattribute::STEPread`
    flags no error then either
    (a) the input is blanks, a token of the grammar `real = [sign] digit {digit} '.' {digit} ['E' [sign] digit {digit}]`
        (no leniency survives: a missing point, a leading point, a lower-case `e`, an empty exponent are all reported),
        separators, and the stream rests at the end or in front of a delimiter; the decimal the token denotes converts
        (`ofDecimal`, i.e. it is inside the double range) and the attribute holds exactly that double (`realValue`: the
        in-band null `FLT_MIN` reads as unset); or
    (b) the attribute is OPTIONAL and the input is `$` (followed by separators only) or a missing value; or
    (c) the input is nothing but blanks.
    No `FloatLaws` hypothesis is needed: the statement is relative to `ops.ofDecimal` applied to the denotation. -/
theorem never_silent_real_of_cfg {F} (ops : FloatOps F) (cfg : LexCfg) (hcfg : cfg.realReportsFail = true)
    (hcfg2 : cfg.dollarKeepsError = true)
    (lookup : Int → RefLookup) (nullable : Bool) (input : List Byte) (l0 : List Byte) (hfirst : FirstByteNot input (quietFirst cfg.realFailUnlessBlank cfg)) (r : ReadResult F)
    (h : attrRead ops cfg lookup .real nullable ({ left := l0, right := input } : IStream) = .ok r) (hne : NoErr r.sev) :
    (∃ sp1 tok sp2 d v, input = sp1 ++ tok ++ sp2 ++ r.s.right ∧ sp1.all isSpace = true ∧ Between cfg sp2 ∧
        isReal tok = true ∧ denoteReal tok = some d ∧ ops.ofDecimal d = some v ∧
        r.val = realValue ops (some v) ∧ (cfg.realNullReported && ops.isRealNull v) = false ∧
        AtDelimOrEnd cfg r.s.right) ∨
    (nullable = true ∧ r.val = .unset ∧ ∃ sp1 c t, input = sp1 ++ c :: t ∧ sp1.all isSpace = true ∧
        ((c = 36 ∧ ∃ sp2, t = sp2 ++ r.s.right ∧ Between cfg sp2 ∧ AtDelimOrEnd cfg r.s.right) ∨
         ((c = 44 ∨ c = 41) ∧ r.s.right = c :: t))) ∨
    (input.all isSpace = true ∧ r.val = .unset) := by
  obtain ⟨sp1, body, h1, h2, h3, h4⟩ := dropSpaces_split l0 input
  rcases h4 with rfl | ⟨c, t, rfl, hc⟩
  · right; right
    simp at h1; subst h1
    have hws : ({ left := l0, right := input } : IStream).ws = { left := input.reverse ++ l0, right := [], eof := true } := by
      simpa [IStream.ofBytes] using ws_blank l0 input true h2
    simp only [attrRead, hws] at h
    simp [IStream.peekC, IStream.peek, IStream.sentry, IStream.good, readReal, IStream.ws, checkRemainingInput, realValue] at h
    subst h
    try replace hne := (noErr_sentinelIf _ _ hne).2
    exact ⟨h2, rfl⟩
  · subst h1
    by_cases h36 : c = 36
    · subst h36
      rw [attrRead_dollar_at ops cfg lookup .real nullable l0 sp1 t h2] at h
      simp only [Outcome.ok.injEq] at h
      have hch := cri_char cfg { left := 36 :: (sp1.reverse ++ l0), right := t } Sev.null rfl
      subst h
      try replace hne := (noErr_sentinelIf _ _ hne).2
      cases nullable with
      | false => simp [NoErr] at hne
      | true =>
        simp only [hcfg2, if_true] at hne ⊢
        right; left
        have := hch.2 hne
        simp at this
        obtain ⟨sp2, hs2, ht, _, hat⟩ := this
        exact ⟨by simp, by simp, sp1, 36, t, rfl, h2, Or.inl ⟨rfl, sp2, ht, hs2, hat⟩⟩
    · by_cases hdl : c = 44 ∨ c = 41
      · rw [attrRead_missing_at ops cfg lookup .real nullable l0 sp1 t c h2 hdl] at h
        simp only [Outcome.ok.injEq] at h
        subst h
        try replace hne := (noErr_sentinelIf _ _ hne).2
        cases nullable with
        | false => simp [NoErr] at hne
        | true => right; left; exact ⟨rfl, rfl, sp1, c, t, rfl, h2, Or.inr ⟨hdl, rfl⟩⟩
      · have hcond : (c == 36 || c == 44 || c == 41) = false := by
          simp at hdl ⊢; exact ⟨⟨h36, hdl.1⟩, hdl.2⟩
        have hcf := hfirst sp1 c t rfl h2 hc
        have hgar : cfg.realFailUnlessBlank = false → delimAt cfg attrDelims c = false ∧ c ≠ 47 := fun hq =>
          quietFirst_spec hq hcf (by simp at hdl; exact hdl.1) (by simp at hdl; exact hdl.2)
        have hpre : ({ left := l0, right := sp1 ++ c :: t } : IStream).ws = { left := (sp1.reverse ++ l0), right := c :: t } := by
          simpa [IStream.ofBytes] using ws_good l0 sp1 c t true h2 hc
        simp only [attrRead, hpre, peekC_good, hcond, readReal, ws_good0 _ _ _ _ hc, IStream.good] at h
        simp only [Bool.false_eq_true, if_false, Bool.not_false, Bool.and_self, Bool.not_true] at h
        have happ := realCollect_append (c :: t)
        have hsevs := realCollect_sev (c :: t)
        have hshape := realCollect_null (c :: t)
        generalize hrc : realCollect (c :: t) = rc at h happ hsevs hshape
        obtain ⟨buf, rest, e⟩ := rc
        simp only at h happ hsevs hshape
        by_cases hov : (cfg.realBuf != 0 && decide (buf.length ≥ cfg.realBuf)) = true
        · simp [hov] at h
        · simp only [hov, Bool.false_eq_true, if_false] at h
          cases hconv : ops.conv (scanFloat [] buf).1 with
          | ok v =>
            left
            simp only [hconv, Outcome.ok.injEq] at h
            subst h
            have hsent := (noErr_sentinelIf _ _ hne).1
            replace hne := (noErr_sentinelIf _ _ hne).2
            simp only [realSentinel] at hsent
            simp only at hne ⊢
            -- the format severity must be null
            have hen : NoErr (Sev.null.greater e) := by
              rcases cri_mono cfg _ (Sev.null.greater e) with hm | hm
              · rw [hm] at hne; exact hne
              · exact absurd hne hm
            have he := null_greater_noerr e hen hsevs
            subst he
            obtain ⟨sg, ip, fp, ex, hbuf, hsg, hip1, hip, hfp, hex⟩ := hshape rfl
            subst hbuf
            have hparse := parse_scanFloat_realText sg ip fp 69 ex hsg hip1 hip hfp (Or.inl rfl) hex
            have hden := parse_realText sg ip fp 69 ex hsg hip1 hip hfp (Or.inl rfl) hex
            -- unfold the conversion
            have hof : ops.ofDecimal ⟨sg == [45], digitsVal (ip ++ fp) 0, exVal ex - (fp.length : Int)⟩ = some v := by
              unfold FloatOps.conv at hconv
              rw [hparse] at hconv
              simp only at hconv
              cases ho : ops.ofDecimal ⟨sg == [45], digitsVal (ip ++ fp) 0, exVal ex - (fp.length : Int)⟩ with
              | none => rw [ho] at hconv; cases hconv
              | some v' => rw [ho] at hconv; simp at hconv; rw [hconv]
            have hch := (cri_char cfg { left := (realText sg ip fp 69 ex).reverse ++ (sp1.reverse ++ l0), right := rest, eof := rest.isEmpty }
              (Sev.null.greater Sev.null) rfl).2 hne
            generalize checkRemainingInput cfg (some attrDelims)
              { left := (realText sg ip fp 69 ex).reverse ++ (sp1.reverse ++ l0), right := rest, eof := rest.isEmpty } (Sev.null.greater Sev.null) = X at hne hch ⊢
            rcases hch with ⟨heof, hsame⟩ | ⟨heof, sp2, hsp2, hrr, _, hat⟩
            · simp only at heof
              have hre : rest = [] := by simpa using heof
              subst hre
              refine ⟨sp1, realText sg ip fp 69 ex, [], _, v, ?_, h2, Between.nil cfg, isReal_realText sg ip fp ex hsg hip1 hip hfp hex,
                hden, hof, rfl, hsent, ?_⟩
              · rw [hsame]; simp [← happ]
              · rw [hsame]; exact Or.inl rfl
            · simp only at hrr
              refine ⟨sp1, realText sg ip fp 69 ex, sp2, _, v, ?_, h2, hsp2, isReal_realText sg ip fp ex hsg hip1 hip hfp hex,
                hden, hof, rfl, hsent, hat⟩
              rw [← happ, hrr]; simp
          | invalid =>
            exfalso
            simp only [hconv, Outcome.ok.injEq, hcfg, Bool.true_and] at h
            subst h
            try replace hne := (noErr_sentinelIf _ _ hne).2
            try simp only at hne
            by_cases hrep : (cfg.realFailUnlessBlank || !buf.isEmpty) = true
            · rw [hrep] at hne
              rcases cri_mono cfg _ _ with hm | hm
              · rw [hm] at hne; exact warnIf_true_err Sev.null hne
              · exact hm hne
            · have hrep' : cfg.realFailUnlessBlank = false ∧ buf = [] := by
                cases hq : cfg.realFailUnlessBlank <;> cases buf <;> simp_all
              obtain ⟨hq, hb⟩ := hrep'
              subst hb
              simp only [List.nil_append] at happ
              subst happ
              exact cri_garbage cfg _ c t false true _ hc (hgar hq).1 (hgar hq).2 hne
          | overflow =>
            exfalso
            simp only [hconv, Outcome.ok.injEq, hcfg, Bool.true_and] at h
            subst h
            try replace hne := (noErr_sentinelIf _ _ hne).2
            try simp only at hne
            by_cases hrep : (cfg.realFailUnlessBlank || !buf.isEmpty) = true
            · rw [hrep] at hne
              rcases cri_mono cfg _ _ with hm | hm
              · rw [hm] at hne; exact warnIf_true_err Sev.null hne
              · exact hm hne
            · have hrep' : cfg.realFailUnlessBlank = false ∧ buf = [] := by
                cases hq : cfg.realFailUnlessBlank <;> cases buf <;> simp_all
              obtain ⟨hq, hb⟩ := hrep'
              subst hb
              simp only [List.nil_append] at happ
              subst happ
              exact cri_garbage cfg _ c t false true _ hc (hgar hq).1 (hgar hq).2 hne

/-- REAL, never silent, for the scanners as the source has them now. -/
theorem C09_never_silent_real {F} (ops : FloatOps F) (lookup : Int → RefLookup) (nullable : Bool) (input : List Byte)
    (hfirst : FirstByteNot input (quietFirst Generated.lexCfg.realFailUnlessBlank Generated.lexCfg)) (r : ReadResult F)
    (h : attrRead ops Generated.lexCfg lookup .real nullable (IStream.ofBytes input) = .ok r) (hne : NoErr r.sev) :
    (∃ sp1 tok sp2 d v, input = sp1 ++ tok ++ sp2 ++ r.s.right ∧ sp1.all isSpace = true ∧ Between Generated.lexCfg sp2 ∧
        isReal tok = true ∧ denoteReal tok = some d ∧ ops.ofDecimal d = some v ∧
        r.val = realValue ops (some v) ∧ (Generated.lexCfg.realNullReported && ops.isRealNull v) = false ∧
        AtDelimOrEnd Generated.lexCfg r.s.right) ∨
    (nullable = true ∧ r.val = .unset ∧ ∃ sp1 c t, input = sp1 ++ c :: t ∧ sp1.all isSpace = true ∧
        ((c = 36 ∧ ∃ sp2, t = sp2 ++ r.s.right ∧ Between Generated.lexCfg sp2 ∧ AtDelimOrEnd Generated.lexCfg r.s.right) ∨
         ((c = 44 ∨ c = 41) ∧ r.s.right = c :: t))) ∨
    (input.all isSpace = true ∧ r.val = .unset) :=
  never_silent_real_of_cfg ops Generated.lexCfg (by decide) (by decide) lookup nullable input [] hfirst r h hne

/-- `C09_never_silent_real` for `STEPattribute::STEPread` called *anywhere in a stream*: the statement does not depend on what was
    consumed before (`l0`) -/
theorem C09_never_silent_real_midstream {F} (ops : FloatOps F) (lookup : Int → RefLookup) (nullable : Bool) (input : List Byte) (l0 : List Byte)
    (hfirst : FirstByteNot input (quietFirst Generated.lexCfg.realFailUnlessBlank Generated.lexCfg)) (r : ReadResult F)
    (h : attrRead ops Generated.lexCfg lookup .real nullable ({ left := l0, right := input } : IStream) = .ok r) (hne : NoErr r.sev) :
    (∃ sp1 tok sp2 d v, input = sp1 ++ tok ++ sp2 ++ r.s.right ∧ sp1.all isSpace = true ∧ Between Generated.lexCfg sp2 ∧
        isReal tok = true ∧ denoteReal tok = some d ∧ ops.ofDecimal d = some v ∧
        r.val = realValue ops (some v) ∧ (Generated.lexCfg.realNullReported && ops.isRealNull v) = false ∧
        AtDelimOrEnd Generated.lexCfg r.s.right) ∨
    (nullable = true ∧ r.val = .unset ∧ ∃ sp1 c t, input = sp1 ++ c :: t ∧ sp1.all isSpace = true ∧
        ((c = 36 ∧ ∃ sp2, t = sp2 ++ r.s.right ∧ Between Generated.lexCfg sp2 ∧ AtDelimOrEnd Generated.lexCfg r.s.right) ∨
         ((c = 44 ∨ c = 41) ∧ r.s.right = c :: t))) ∨
    (input.all isSpace = true ∧ r.val = .unset) :=
  never_silent_real_of_cfg ops Generated.lexCfg (by decide) (by decide) lookup nullable input l0 hfirst r h hne

/-! ### REAL writer, under `FloatLaws` (hypotheses) -/

/-- `FloatLaws`: what the REAL writer theorem assumes about the platform's conversions *for the value at hand* — explicit
    hypotheses, validated against libc by `checks/c09.py` (`fl g15`, `fl parse`, the writer grid), never axioms.
    * `shape` (L2): `%.15G` prints optional `-`, digits, optionally `.` digits, optionally `E` sign digits;
    * `stable` (L1): reading the printed text gives the value back (for the 15-digit writer: expected of every double that is
      the nearest normal double of a decimal with at most 15 significant digits — `DBL_DIG`, `fifteen_digits_survive`; for the repaired writer
      `dblOpsRT` it is a theorem for every finite double: `dbl_fmtShortest_stable` + `C09_writer_seventeen_digits_convert_back`). -/
structure FloatLaws {F} (ops : FloatOps F) (v : F) : Prop where
  shape : G15Shape (ops.fmtG15 v)
  stable : ∃ dec, parseFloatText (ops.fmtG15 v) = some dec ∧ ops.ofDecimal dec = some v

/-- REAL, writer is conforming (under L2): the written token is in the grammar `real` — it always has a decimal point and an
    upper-case `E` — and denotes the decimal `%.15G` printed -/
theorem C09_write_real_conforming {F} (ops : FloatOps F) (v : F) (h : G15Shape (ops.fmtG15 v)) :
    isReal (attrWrite ops .real (.real v)) = true ∧
    denoteReal (attrWrite ops .real (.real v)) = parseFloatText (ops.fmtG15 v) := by
  obtain ⟨sg, ip, fp, ex, hw, hsg, hip1, hip, hfp, hex, hparse⟩ := writeReal_shape ops v h
  simp only [attrWrite, hw]
  exact ⟨isReal_realText sg ip fp ex hsg hip1 hip hfp hex,
    by unfold denoteReal; rw [parse_realText sg ip fp 69 ex hsg hip1 hip hfp (Or.inl rfl) hex, hparse]⟩

/-- REAL, writer output reads back (under `FloatLaws`): the written token followed by blanks and a delimiter is read to the
    same value with no error, the stream resting at the delimiter -/
theorem C09_write_read_real {F} (ops : FloatOps F) (cfg : LexCfg) (lookup : Int → RefLookup) (nullable : Bool) (v : F)
    (laws : FloatLaws ops v) (hnn : ops.isRealNull v = false)
    (hbuf : cfg.realBuf = 0 ∨ (attrWrite ops .real (.real v)).length < cfg.realBuf)
    (sp rest : List Byte) (d : Byte) (hsp : Gap cfg sp) (hd : d = 44 ∨ d = 41) :
    attrRead ops cfg lookup .real nullable (IStream.ofBytes (attrWrite ops .real (.real v) ++ sp ++ d :: rest)) =
      .ok ⟨.null, .real v, { left := sp.reverse ++ (attrWrite ops .real (.real v)).reverse, right := d :: rest }⟩ := by
  obtain ⟨hreal, hden⟩ := C09_write_real_conforming ops v laws.shape
  obtain ⟨dec, hp, hv⟩ := laws.stable
  exact C09_accept_real ops cfg lookup nullable _ sp rest d dec v hreal (by rw [hden, hp]) hv hnn hbuf hsp hd

-- the hypotheses are satisfiable: the executable instance satisfies both laws at 1.5 (bits 0x3FF8000000000000, printed `1.5`)
theorem fmt_one_and_a_half : dblOps.fmtG15 0x3FF8000000000000 = [49, 46, 53] := by rfl

example : FloatLaws dblOps 0x3FF8000000000000 where
  shape := ⟨[], [49], [46, 53], none, by rw [fmt_one_and_a_half]; rfl, Or.inl rfl, by decide, by decide,
    Or.inr ⟨[53], rfl, by decide⟩, trivial⟩
  stable := ⟨⟨false, 15, -1⟩, by rw [fmt_one_and_a_half]; rfl, by rfl⟩

/-- REAL / NUMBER writer, conforming, at full strength over the executable float model: for *every* finite double (biased
    exponent ≠ 2047, i.e. not INF/NAN) `WriteReal` over `dblOps` writes a token of the grammar `real` — it always has a
    decimal point and an upper-case `E` — denoting exactly the decimal `%.15G` printed.  Law L2 is a theorem here
    (`dbl_fmtG15_shape`), not a hypothesis; `dblOps.fmtG15` itself is compared with the platform's `%.15G` bit for bit on
    every run (`fl g15`). -/
theorem C09_writer_real_conforming_model (bits : Nat) (hfin : (bits / Dbl.pow2 52 % 2048 == 2047) = false) :
    isReal (attrWrite dblOps .real (.real bits)) = true ∧ isReal (attrWrite dblOps .number (.real bits)) = true ∧
    denoteReal (attrWrite dblOps .real (.real bits)) = parseFloatText (dblOps.fmtG15 bits) :=
  have h := C09_write_real_conforming dblOps bits (dbl_fmtG15_shape bits hfin)
  ⟨h.1, h.1, h.2⟩

/-- … and it reads back: for every finite double whose 15-digit print converts back to it (`stable`: expected of the doubles nearest to a
    decimal of at most 15 significant digits — DBL_DIG, `C09_writer_real_fifteen_digit_decimals_survive`; validated against the platform on the writer grid) and that is not
    the in-band null, the written token followed by any `Gap` and a delimiter is read to the same double with no error.
    Only `stable` remains a hypothesis; the shape law is discharged by the model. -/
theorem C09_writer_real_reads_back_model (cfg : LexCfg) (lookup : Int → RefLookup) (nullable : Bool) (bits : Nat)
    (hfin : (bits / Dbl.pow2 52 % 2048 == 2047) = false)
    (hstable : ∃ dec, parseFloatText (dblOps.fmtG15 bits) = some dec ∧ dblOps.ofDecimal dec = some bits)
    (hnn : dblOps.isRealNull bits = false)
    (hbuf : cfg.realBuf = 0 ∨ (attrWrite dblOps .real (.real bits)).length < cfg.realBuf)
    (sp rest : List Byte) (d : Byte) (hsp : Gap cfg sp) (hd : d = 44 ∨ d = 41) :
    attrRead dblOps cfg lookup .real nullable (IStream.ofBytes (attrWrite dblOps .real (.real bits) ++ sp ++ d :: rest)) =
      .ok ⟨.null, .real bits, { left := sp.reverse ++ (attrWrite dblOps .real (.real bits)).reverse, right := d :: rest }⟩ :=
  C09_write_read_real dblOps cfg lookup nullable bits ⟨dbl_fmtG15_shape bits hfin, hstable⟩ hnn hbuf sp rest d hsp hd

/-! #### the repaired `WriteReal` (fixes/C09-10): 15, then 16, then 17 significant digits until the text converts back -/

/-- conforming, for every finite double, also with the repaired writer (`dblOpsRT`) -/
theorem C09_writer_real_conforming_model_rt (bits : Nat) (hfin : (bits / Dbl.pow2 52 % 2048 == 2047) = false) :
    isReal (attrWrite dblOpsRT .real (.real bits)) = true ∧ isReal (attrWrite dblOpsRT .number (.real bits)) = true ∧
    denoteReal (attrWrite dblOpsRT .real (.real bits)) = parseFloatText (dblOpsRT.fmtG15 bits) :=
  have h := C09_write_real_conforming dblOpsRT bits (dbl_fmtShortest_shape bits hfin)
  ⟨h.1, h.1, h.2⟩

/-- REAL / NUMBER writer, reads back to the same value — for **every** finite double, with the repaired `WriteReal`: the
    written token followed by any `Gap` and a delimiter is read to exactly the double that was written, no error.  The one
    hypothesis left is the numeric fact that 17 significant digits determine a double (`h17`: `%.17G` of the value converts
    back to it), needed only when neither 15 nor 16 digits do — the writer *tests* those; `h17` is validated against the
    platform for every double the check writes (`fl g17` + `fl parse`, the writer grid). -/
theorem C09_writer_real_round_trips_model (cfg : LexCfg) (lookup : Int → RefLookup) (nullable : Bool) (bits : Nat)
    (hfin : (bits / Dbl.pow2 52 % 2048 == 2047) = false) (h17 : Dbl.readsBack (Dbl.fmtG 17 bits) bits = true)
    (hnn : dblOpsRT.isRealNull bits = false)
    (hbuf : cfg.realBuf = 0 ∨ (attrWrite dblOpsRT .real (.real bits)).length < cfg.realBuf)
    (sp rest : List Byte) (d : Byte) (hsp : Gap cfg sp) (hd : d = 44 ∨ d = 41) :
    attrRead dblOpsRT cfg lookup .real nullable (IStream.ofBytes (attrWrite dblOpsRT .real (.real bits) ++ sp ++ d :: rest)) =
      .ok ⟨.null, .real bits, { left := sp.reverse ++ (attrWrite dblOpsRT .real (.real bits)).reverse, right := d :: rest }⟩ :=
  C09_write_read_real dblOpsRT cfg lookup nullable bits ⟨dbl_fmtShortest_shape bits hfin, dbl_fmtShortest_stable bits h17⟩ hnn hbuf
    sp rest d hsp hd

/-- the same with the hypothesis reduced to **arithmetic** (final proof round): `h17` of the theorem above is a statement about
    a text — `%.17G`'s layout in three styles, dropped trailing zeros and decimal point, the printed exponent, `strtod`'s lexical
    stage.  All of that is discharged by `dbl_fmtG_readsBack` (`P21/FloatRead.lean`); what is left, `SigDigitsReadBack 17 bits`,
    mentions no text: the 17 significant digits `Dbl.sigDigits` computes for the double's `m · 2^e2` (a 17-digit number —
    `sigDigits_digits`, proved for every rational and precision), with any number of trailing zeros removed, are rounded back to
    `bits` by `Dbl.ofDecimal` — "17 significant digits determine a
    binary64" (10^16 > 2^53) stated for the model's own `ofRatio`.  It is needed for non-zero values only (±0 is proved), and
    only when neither 15 nor 16 digits convert back. -/
theorem C09_writer_real_round_trips_arith (cfg : LexCfg) (lookup : Int → RefLookup) (nullable : Bool) (bits : Nat)
    (hlt : bits < 2 ^ 64) (hfin : (bits / Dbl.pow2 52 % 2048 == 2047) = false)
    (h17 : (bits / Dbl.pow2 52 % 2048 == 0 && bits % Dbl.pow2 52 == 0) = false → SigDigitsReadBack 17 bits)
    (hnn : dblOpsRT.isRealNull bits = false)
    (hbuf : cfg.realBuf = 0 ∨ (attrWrite dblOpsRT .real (.real bits)).length < cfg.realBuf)
    (sp rest : List Byte) (d : Byte) (hsp : Gap cfg sp) (hd : d = 44 ∨ d = 41) :
    attrRead dblOpsRT cfg lookup .real nullable (IStream.ofBytes (attrWrite dblOpsRT .real (.real bits) ++ sp ++ d :: rest)) =
      .ok ⟨.null, .real bits, { left := sp.reverse ++ (attrWrite dblOpsRT .real (.real bits)).reverse, right := d :: rest }⟩ :=
  C09_writer_real_round_trips_model cfg lookup nullable bits hfin (dbl_fmtG_readsBack 17 (by decide) bits hlt hfin h17) hnn hbuf
    sp rest d hsp hd

/-- **`%.17G` converts back — proved.**  For every finite double of the float model, the text `Dbl.fmtG 17` prints is converted
    back to the same bit pattern by the model's `strtod` (`parseFloatText` + `Dbl.ofDecimal`): 17 significant digits determine a
    binary64.  `sigDigitsReadBack_17` (`P21/FloatSeventeen.lean`) is the arithmetic: `Dbl.sigDigits 17` yields a nearest
    17-digit decimal of `m · 2^e` (`sigDigits_spec`), whose distance `≤ 10^(x−16)/2` is below half the spacing of the doubles
    there because `10^16 > 2^53` (a quarter of it just below a power of two, where the spacing halves), and `Dbl.ofRatio` rounds
    every rational that close to `m · 2^e` (`ofRatio_round`: binary exponent from `Nat.log2`, subnormal clamp, carry to the
    next binade, encoding); the magnitude guards of `ofDecimal` do not fire (`2^1024 < 10^309`, `2^1074 ≤ 10^324`).  Together
    with the text layer (`dbl_fmtG_readsBack`) no hypothesis is left. -/
theorem C09_writer_seventeen_digits_convert_back (bits : Nat) (hlt : bits < 2 ^ 64)
    (hfin : (bits / Dbl.pow2 52 % 2048 == 2047) = false) : Dbl.readsBack (Dbl.fmtG 17 bits) bits = true :=
  dbl_fmtG_readsBack 17 (by decide) bits hlt hfin (fun hnz => sigDigitsReadBack_17 bits hlt hfin hnz)

/-- **REAL / NUMBER writer, reads back to the same value — for every finite double, no numeric hypothesis** (repaired
    `WriteReal`, fixes/C09-10): the token written for any 64-bit pattern that is finite and not the in-band null, followed by
    any `Gap` and a delimiter, is read to exactly the double that was written, with no error.  (`hbuf`: the token fits
    `ReadReal`'s buffer — at most 24 characters are written.) -/
theorem C09_writer_real_round_trips (cfg : LexCfg) (lookup : Int → RefLookup) (nullable : Bool) (bits : Nat)
    (hlt : bits < 2 ^ 64) (hfin : (bits / Dbl.pow2 52 % 2048 == 2047) = false)
    (hnn : dblOpsRT.isRealNull bits = false)
    (hbuf : cfg.realBuf = 0 ∨ (attrWrite dblOpsRT .real (.real bits)).length < cfg.realBuf)
    (sp rest : List Byte) (d : Byte) (hsp : Gap cfg sp) (hd : d = 44 ∨ d = 41) :
    attrRead dblOpsRT cfg lookup .real nullable (IStream.ofBytes (attrWrite dblOpsRT .real (.real bits) ++ sp ++ d :: rest)) =
      .ok ⟨.null, .real bits, { left := sp.reverse ++ (attrWrite dblOpsRT .real (.real bits)).reverse, right := d :: rest }⟩ :=
  C09_writer_real_round_trips_model cfg lookup nullable bits hfin (C09_writer_seventeen_digits_convert_back bits hlt hfin) hnn hbuf
    sp rest d hsp hd

/-- **… for the source as it is** (an instantiation at the regenerated configuration): with the `WriteReal` found in the tree
    (`Generated.writeRealRoundTrips`, regenerated from the shape of its `sprintf` loop) and the scanner configuration found in
    the tree (`Generated.lexCfg`: no fixed-size buffer in `ReadReal`), every finite 64-bit pattern other than the in-band null
    is written as a token that — followed by any `Gap` and a delimiter — reads back to exactly that pattern with no error.
    On a tree whose `WriteReal` prints 15 digits only this theorem does not compile. -/
theorem C09_writer_real_round_trips_source (lookup : Int → RefLookup) (nullable : Bool) (bits : Nat)
    (hlt : bits < 2 ^ 64) (hfin : (bits / Dbl.pow2 52 % 2048 == 2047) = false)
    (hnn : (bits == Dbl.realNullBits) = false)
    (sp rest : List Byte) (d : Byte) (hsp : Gap Generated.lexCfg sp) (hd : d = 44 ∨ d = 41) :
    attrRead (dblOpsOf Generated.writeRealRoundTrips) Generated.lexCfg lookup .real nullable
        (IStream.ofBytes (attrWrite (dblOpsOf Generated.writeRealRoundTrips) .real (.real bits) ++ sp ++ d :: rest)) =
      .ok ⟨.null, .real bits,
        { left := sp.reverse ++ (attrWrite (dblOpsOf Generated.writeRealRoundTrips) .real (.real bits)).reverse, right := d :: rest }⟩ := by
  have hrt : Generated.writeRealRoundTrips = true := by decide
  have hops : dblOpsOf Generated.writeRealRoundTrips = dblOpsRT := by rw [hrt]; rfl
  rw [hops]
  exact C09_writer_real_round_trips Generated.lexCfg lookup nullable bits hlt hfin hnn (Or.inl (by decide)) sp rest d hsp hd

/-- **The value a REAL / NUMBER token is read to is a nearest double.**  The accept and never-silent theorems say that a token
    is read to `ops.ofDecimal d`, `d` the decimal it denotes (`denoteReal`).  For the executable float model that conversion is
    round-to-nearest: whatever `Dbl.ofDecimal` returns for `M · 10^E` (`M > 0`) is sign + the encoding of some `m · 2^e`
    (`m < 2^53`, `−1074 ≤ e`, finite, below `2^52` only at the subnormal exponent) with `|M·10^E − m·2^e| ≤ 2^e / 2` — or the
    signed zero, for a decimal below `10^-330` (underflow counts as rounding); the other direction is `ofRatio_round` (a rational
    strictly within half a unit of a double is converted to it), the overflow verdict (`none`) is the reader's "not
    representable".  `M = 0` gives the signed zero (`C09_real_zero_value`). -/
theorem C09_real_value_is_nearest_double (dec : Decimal) (hM : 0 < dec.mant) (b : Nat) (h : dblOps.ofDecimal dec = some b) :
    (b = (if dec.neg then Dbl.signBit else 0) ∧ (dec.mant : Rat) * zp 10 dec.exp < zp 10 (-330)) ∨
    ∃ (m : Nat) (e : Int), -1074 ≤ e ∧ e + 1075 < 2047 ∧ m < 2 ^ 53 ∧ (m < 2 ^ 52 → e = -1074) ∧
      b = (if m < 2 ^ 52 then m else (e + 1075).toNat * 2 ^ 52 + (m - 2 ^ 52)) + (if dec.neg then Dbl.signBit else 0) ∧
      2 * ((dec.mant : Rat) * zp 10 dec.exp) ≤ (2 * (m : Rat) + 1) * zp 2 e ∧
      (2 * (m : Rat) - 1) * zp 2 e ≤ 2 * ((dec.mant : Rat) * zp 10 dec.exp) :=
  ofDecimal_nearest dec hM b h

theorem C09_real_zero_value (neg : Bool) (E : Int) : dblOps.ofDecimal ⟨neg, 0, E⟩ = some (if neg then Dbl.signBit else 0) := by
  show Dbl.ofDecimal ⟨neg, 0, E⟩ = _
  simp [Dbl.ofDecimal]

/-- … and for the 15-digit writer (`dblOps`, the unrepaired `WriteReal` and `asStr`): `hstable` of
    `C09_writer_real_reads_back_model` reduced the same way — the written token reads back to the value whenever the double's 15
    significant digits are rounded back to it (`SigDigitsReadBack 15 bits`: true of every double that came from a decimal of at
    most 15 digits, DBL_DIG — `C09_writer_real_fifteen_digit_decimals_survive`; false e.g. of 0.1 + 0.2, `C09_writer_fifteen_digits_witness`) -/
theorem C09_writer_real_reads_back_arith (cfg : LexCfg) (lookup : Int → RefLookup) (nullable : Bool) (bits : Nat)
    (hlt : bits < 2 ^ 64) (hfin : (bits / Dbl.pow2 52 % 2048 == 2047) = false)
    (h15 : (bits / Dbl.pow2 52 % 2048 == 0 && bits % Dbl.pow2 52 == 0) = false → SigDigitsReadBack 15 bits)
    (hnn : dblOps.isRealNull bits = false)
    (hbuf : cfg.realBuf = 0 ∨ (attrWrite dblOps .real (.real bits)).length < cfg.realBuf)
    (sp rest : List Byte) (d : Byte) (hsp : Gap cfg sp) (hd : d = 44 ∨ d = 41) :
    attrRead dblOps cfg lookup .real nullable (IStream.ofBytes (attrWrite dblOps .real (.real bits) ++ sp ++ d :: rest)) =
      .ok ⟨.null, .real bits, { left := sp.reverse ++ (attrWrite dblOps .real (.real bits)).reverse, right := d :: rest }⟩ := by
  have h := dbl_fmtG_readsBack 15 (by decide) bits hlt hfin h15
  have hst : ∃ dec, parseFloatText (dblOps.fmtG15 bits) = some dec ∧ dblOps.ofDecimal dec = some bits := by
    show ∃ dec, parseFloatText (Dbl.fmtG 15 bits) = some dec ∧ Dbl.ofDecimal dec = some bits
    unfold Dbl.readsBack at h
    cases hp : parseFloatText (Dbl.fmtG 15 bits) with
    | none => rw [hp] at h; cases h
    | some dd => rw [hp] at h; exact ⟨dd, rfl, by simpa using h⟩
  exact C09_writer_real_reads_back_model cfg lookup nullable bits hfin hst hnn hbuf sp rest d hsp hd

/-- **DBL_DIG, proved for the model: 15-digit decimals survive even the 15-digit writer.**  A REAL value that came from a decimal of
    at most 15 significant digits (`M < 10^15`; e.g. read from such a token: `bits = ofDecimal` of the decimal it denotes, a
    normal double) is written by the *unrepaired* `WriteReal` — `%.15G`, `dblOps` — as a token that reads back to exactly that
    double: `fifteen_digits_survive` (`P21/FloatFifteen.lean`) shows that `%.15G` prints a decimal of the *same value* (the
    double is within half a unit in the last place of the decimal, `ofDecimal_nearest`; 15-digit decimals are further apart
    than doubles, `10^15 < 2^52 · 10`; the printed digits are the nearest 15-digit decimal, `sigDigits_spec`), and the
    conversion depends on sign and value only (`ofDecimal_congr`), ties included. -/
theorem C09_writer_real_fifteen_digit_decimals_survive (cfg : LexCfg) (lookup : Int → RefLookup) (nullable : Bool)
    (neg : Bool) (M : Nat) (E : Int) (hM : 0 < M) (hM15 : M < 10 ^ 15) (bits : Nat) (hlt : bits < 2 ^ 64)
    (h : dblOps.ofDecimal ⟨neg, M, E⟩ = some bits)
    (hnorm : 1 ≤ bits / Dbl.pow2 52 % 2048) (hfin : (bits / Dbl.pow2 52 % 2048 == 2047) = false)
    (hnn : dblOps.isRealNull bits = false)
    (hbuf : cfg.realBuf = 0 ∨ (attrWrite dblOps .real (.real bits)).length < cfg.realBuf)
    (sp rest : List Byte) (d : Byte) (hsp : Gap cfg sp) (hd : d = 44 ∨ d = 41) :
    attrRead dblOps cfg lookup .real nullable (IStream.ofBytes (attrWrite dblOps .real (.real bits) ++ sp ++ d :: rest)) =
      .ok ⟨.null, .real bits, { left := sp.reverse ++ (attrWrite dblOps .real (.real bits)).reverse, right := d :: rest }⟩ :=
  C09_writer_real_reads_back_arith cfg lookup nullable bits hlt hfin
    (fun _ => fifteen_digits_survive neg M E hM hM15 bits hlt h hnorm hfin) hnn hbuf sp rest d hsp hd

/-- **How many decimal digits survive, per significand** (proof-only stretch; subnormals included).  A decimal of at most `p`
    significant digits (`M < 10^p`) that the model's `strtod` converts to the finite non-zero double `bits` is printed by
    `%.<p>G` as a text that converts back to `bits`, **whenever the double's significand is at least `10^p`**
    (`mantOf bits`: the 53-bit significand of a normal double, the fraction field of a subnormal one).  The condition is what
    the spacing argument needs — the last place `2^e` of the double is below the decimal unit `10^(x−p+1)` iff `m ≥ 10^p` — and
    it is the only one: `digits_survive` (`P21/FloatDigits.lean`) is `fifteen_digits_survive` with 15 replaced by `p` and
    "normal" by this bound. -/
theorem C09_digits_survive (p : Nat) (hp : 1 ≤ p) (neg : Bool) (M : Nat) (E : Int) (hM : 0 < M) (hMp : M < 10 ^ p) (bits : Nat)
    (hlt : bits < 2 ^ 64) (h : dblOps.ofDecimal ⟨neg, M, E⟩ = some bits)
    (hfin : (bits / Dbl.pow2 52 % 2048 == 2047) = false)
    (hnz : (bits / Dbl.pow2 52 % 2048 == 0 && bits % Dbl.pow2 52 == 0) = false)
    (hmp : 10 ^ p ≤ mantOf bits) : Dbl.readsBack (Dbl.fmtG p bits) bits = true :=
  dbl_fmtG_readsBack p hp bits hlt hfin (fun _ => digits_survive p hp neg M E hM hMp bits hlt h hfin hnz hmp)

/-- … and it is the **digits** that survive, not only the double: under the same hypotheses the text `%.<p>G` prints parses
    (`strtod`'s lexical stage) to a decimal with the sign of the original and **the same value** `M · 10^E` — the original digits
    up to trailing zeros and the layout `%G` chooses — which converts to `bits` again.  (Without the bound on the significand the
    double still comes back, but through other digits: `C09_digits_lost_witness`.) -/
theorem C09_digits_survive_as_text (p : Nat) (hp : 1 ≤ p) (neg : Bool) (M : Nat) (E : Int) (hM : 0 < M) (hMp : M < 10 ^ p)
    (bits : Nat) (hlt : bits < 2 ^ 64) (h : dblOps.ofDecimal ⟨neg, M, E⟩ = some bits)
    (hfin : (bits / Dbl.pow2 52 % 2048 == 2047) = false)
    (hnz : (bits / Dbl.pow2 52 % 2048 == 0 && bits % Dbl.pow2 52 == 0) = false)
    (hmp : 10 ^ p ≤ mantOf bits) :
    ∃ dec : Decimal, parseFloatText (Dbl.fmtG p bits) = some dec ∧ dec.neg = neg ∧
      (dec.mant : Rat) * zp 10 dec.exp = (M : Rat) * zp 10 E ∧ dblOps.ofDecimal dec = some bits := by
  obtain ⟨M', k, hpar, hq⟩ := dbl_fmtG_parse p hp bits hfin hnz
  obtain ⟨hval, hback⟩ := digits_survive_value p hp neg M E hM hMp bits hlt h hfin hnz hmp M' k hq
  obtain ⟨hsg, _, _⟩ := nearest_ident neg M E hM bits h hnz
  exact ⟨_, hpar, hsg, hval, hback⟩

/-- the bound on the significand is what keeps the digits (kernel evaluation, subnormals): `3E-324` is converted to the smallest
    subnormal (significand 1 < 10), which `%.1G` prints as `5E-324`; `1.23456789012345E-321` is converted to the subnormal with
    significand 250 < 10^15, which `%.15G` prints as `1.23516411460312E-321` — both texts convert back to the same double -/
theorem C09_digits_lost_witness :
    Dbl.ofDecimal ⟨false, 3, -324⟩ = some 1 ∧ Dbl.fmtG 1 1 = [53, 69, 45, 51, 50, 52] ∧ Dbl.readsBack (Dbl.fmtG 1 1) 1 = true ∧
    Dbl.ofDecimal ⟨false, 123456789012345, -335⟩ = some 250 ∧
    Dbl.fmtG 15 250 = [49, 46, 50, 51, 53, 49, 54, 52, 49, 49, 52, 54, 48, 51, 49, 50, 69, 45, 51, 50, 49] ∧
    Dbl.readsBack (Dbl.fmtG 15 250) 250 = true := by
  decide +kernel

/-- normal doubles: every `p ≤ 15` (`10^15 < 2^52 ≤ m`) — DBL_DIG and everything below it -/
theorem C09_digits_survive_normal (p : Nat) (hp : 1 ≤ p) (hp15 : p ≤ 15) (neg : Bool) (M : Nat) (E : Int) (hM : 0 < M)
    (hMp : M < 10 ^ p) (bits : Nat) (hlt : bits < 2 ^ 64) (h : dblOps.ofDecimal ⟨neg, M, E⟩ = some bits)
    (hnorm : 1 ≤ bits / Dbl.pow2 52 % 2048) (hfin : (bits / Dbl.pow2 52 % 2048 == 2047) = false) :
    Dbl.readsBack (Dbl.fmtG p bits) bits = true := by
  have hbe : ¬ (bits / Dbl.pow2 52 % 2048 == 0) = true := by simp; omega
  have hnz : (bits / Dbl.pow2 52 % 2048 == 0 && bits % Dbl.pow2 52 == 0) = false := by
    have : ¬ bits / Dbl.pow2 52 % 2048 = 0 := by omega
    simp [this]
  apply C09_digits_survive p hp neg M E hM hMp bits hlt h hfin hnz
  have h1 : 10 ^ p ≤ 10 ^ 15 := Nat.pow_le_pow_right (by decide) hp15
  have h2 : (10 : Nat) ^ 15 ≤ 2 ^ 52 := by decide
  unfold mantOf
  rw [if_neg hbe]
  unfold Dbl.pow2
  omega

/-- subnormal doubles, binade by binade: a subnormal whose fraction field has `b` significant bits (`2^(b−1) ≤ fr`) keeps every
    `p` with `10^p ≤ 2^(b−1)` digits — `b = 51, 52` keep 15, `b = 48..50` keep 14, …, `b = 5..7` keep 1 (`10 ≤ 2^(b−1)`), and
    below 5 bits nothing is promised (`C09_digits_survive_table_witness`) -/
theorem C09_digits_survive_subnormal (p b : Nat) (hp : 1 ≤ p) (h10 : 10 ^ p ≤ 2 ^ (b - 1)) (neg : Bool) (M : Nat) (E : Int)
    (hM : 0 < M) (hMp : M < 10 ^ p) (bits : Nat) (hlt : bits < 2 ^ 64) (h : dblOps.ofDecimal ⟨neg, M, E⟩ = some bits)
    (hsub : bits / Dbl.pow2 52 % 2048 = 0) (hb : 2 ^ (b - 1) ≤ bits % Dbl.pow2 52) :
    Dbl.readsBack (Dbl.fmtG p bits) bits = true := by
  have hbe : (bits / Dbl.pow2 52 % 2048 == 0) = true := by simp [hsub]
  have hfin : (bits / Dbl.pow2 52 % 2048 == 2047) = false := by simp [hsub]
  have hpos : 0 < bits % Dbl.pow2 52 := Nat.lt_of_lt_of_le (Nat.pow_pos (by decide)) hb
  have hnz : (bits / Dbl.pow2 52 % 2048 == 0 && bits % Dbl.pow2 52 == 0) = false := by
    have : ¬ bits % Dbl.pow2 52 = 0 := by omega
    simp [this]
  apply C09_digits_survive p hp neg M E hM hMp bits hlt h hfin hnz
  unfold mantOf
  rw [if_pos hbe]
  exact Nat.le_trans h10 hb

/-- the table of the previous theorem at its edges (kernel evaluation): which `p` a subnormal with `b` significant bits keeps -/
theorem C09_digits_survive_table_witness :
    (10 ^ 15 ≤ 2 ^ (51 - 1) ∧ ¬ 10 ^ 15 ≤ 2 ^ (50 - 1)) ∧ (10 ^ 14 ≤ 2 ^ (48 - 1) ∧ ¬ 10 ^ 14 ≤ 2 ^ (47 - 1)) ∧
    (10 ^ 1 ≤ 2 ^ (5 - 1) ∧ ¬ 10 ^ 1 ≤ 2 ^ (4 - 1)) ∧ ((10 : Nat) ^ 15 < 2 ^ 52 ∧ ¬ (10 : Nat) ^ 16 ≤ 2 ^ 52) := by
  decide

/-- ±0 needs no hypothesis at all: `0.` / `-0.` reads back to the same bit pattern (the sign of zero is kept) -/
theorem C09_writer_real_zero_round_trips (p : Nat) (hp : 1 ≤ p) :
    Dbl.readsBack (Dbl.fmtG p 0) 0 = true ∧ Dbl.readsBack (Dbl.fmtG p Dbl.signBit) Dbl.signBit = true :=
  ⟨dbl_fmtG_readsBack p hp 0 (by decide) (by decide) (fun h => absurd h (by decide)),
   dbl_fmtG_readsBack p hp Dbl.signBit (by decide) (by decide) (fun h => absurd h (by decide))⟩

set_option exponentiation.threshold 2000 in
set_option maxRecDepth 100000 in
/-- `h17` at the edges of the format (kernel evaluation of the model's `%.17G` and `strtod`): DBL_MAX, the smallest and the
    largest subnormal, DBL_MIN, 1, the double below 1, -1/3, 2^53 and the double below it all convert back from 17 digits;
    DBL_MAX does not from 16 -/
theorem C09_writer_seventeen_digits_witness :
    Dbl.readsBack (Dbl.fmtG 17 0x7FEFFFFFFFFFFFFF) 0x7FEFFFFFFFFFFFFF = true ∧
    Dbl.readsBack (Dbl.fmtG 17 0x0000000000000001) 0x0000000000000001 = true ∧
    Dbl.readsBack (Dbl.fmtG 17 0x000FFFFFFFFFFFFF) 0x000FFFFFFFFFFFFF = true ∧
    Dbl.readsBack (Dbl.fmtG 17 0x0010000000000000) 0x0010000000000000 = true ∧
    Dbl.readsBack (Dbl.fmtG 17 0x3FF0000000000000) 0x3FF0000000000000 = true ∧
    Dbl.readsBack (Dbl.fmtG 17 0x3FEFFFFFFFFFFFFF) 0x3FEFFFFFFFFFFFFF = true ∧
    Dbl.readsBack (Dbl.fmtG 17 0xBFD5555555555555) 0xBFD5555555555555 = true ∧
    Dbl.readsBack (Dbl.fmtG 17 0x4340000000000000) 0x4340000000000000 = true ∧
    Dbl.readsBack (Dbl.fmtG 17 0x433FFFFFFFFFFFFF) 0x433FFFFFFFFFFFFF = true ∧
    Dbl.readsBack (Dbl.fmtG 16 0x7FEFFFFFFFFFFFFF) 0x7FEFFFFFFFFFFFFF = false := by
  decide +kernel

/-- what 15 digits lose, and what the repair restores (kernel evaluation): 0.1 + 0.2 = 0x3FD3333333333334 is written `0.3` by
    the 15-digit writer, which reads back as 0x3FD3333333333333 — another double; the repaired writer writes
    `0.30000000000000004`, which reads back to the value -/
theorem C09_writer_fifteen_digits_witness :
    attrWrite dblOps .real (.real 0x3FD3333333333334) = [48, 46, 51] ∧
    Dbl.readsBack (attrWrite dblOps .real (.real 0x3FD3333333333334)) 0x3FD3333333333333 = true ∧
    Dbl.readsBack (attrWrite dblOps .real (.real 0x3FD3333333333334)) 0x3FD3333333333334 = false ∧
    Dbl.readsBack (attrWrite dblOpsRT .real (.real 0x3FD3333333333334)) 0x3FD3333333333334 = true := by
  decide

/-! ### NUMBER: full theorems through the scan/parse equivalence of `in >> d` -/

/-- NUMBER, never silent (any configuration in which `ReadNumber` reports a failed extraction and the severity found after
    `$` is kept): whenever `STEPattribute::STEPread` flags no error, for *any* input bytes, then either
    (a) the input is blanks, a text `tok` that `strtod` converts completely (`denoteReal tok = some d`: sign, digits, optional
        `.` digits, optional exponent — the integer and real tokens of the grammar and the reader's lenient forms `.5`, `1e5`),
        separators, and the stream rests at the end or in front of a delimiter; `d` is inside the double range and the
        attribute holds exactly `ofDecimal d` (`realValue`: the in-band null reads as unset); or
    (b) OPTIONAL and `$` (followed by separators only) / a missing value; or (c) blank input.
    Rests on `numSplit_spec` + `parse_norm`: what libstdc++'s `_M_extract_float` consumes from *any* input, and the normal
    form it hands to `strtod`, denote the same decimal. -/
theorem never_silent_number_of_cfg {F} (ops : FloatOps F) (cfg : LexCfg) (hcfg : cfg.numberReportsFail = true)
    (hcfg2 : cfg.dollarKeepsError = true)
    (lookup : Int → RefLookup) (nullable : Bool) (input : List Byte) (l0 : List Byte) (r : ReadResult F)
    (h : attrRead ops cfg lookup .number nullable ({ left := l0, right := input } : IStream) = .ok r) (hne : NoErr r.sev) :
    (∃ sp1 tok sp2 d v, input = sp1 ++ tok ++ sp2 ++ r.s.right ∧ sp1.all isSpace = true ∧ Between cfg sp2 ∧
        denoteReal tok = some d ∧ ops.ofDecimal d = some v ∧
        r.val = realValue ops (some v) ∧ (cfg.numberNullReported && ops.isRealNull v) = false ∧
        AtDelimOrEnd cfg r.s.right) ∨
    (nullable = true ∧ r.val = .unset ∧ ∃ sp1 c t, input = sp1 ++ c :: t ∧ sp1.all isSpace = true ∧
        ((c = 36 ∧ ∃ sp2, t = sp2 ++ r.s.right ∧ Between cfg sp2 ∧ AtDelimOrEnd cfg r.s.right) ∨
         ((c = 44 ∨ c = 41) ∧ r.s.right = c :: t))) ∨
    (input.all isSpace = true ∧ r.val = .unset) := by
  obtain ⟨sp1, body, h1, h2, h3, h4⟩ := dropSpaces_split l0 input
  rcases h4 with rfl | ⟨c, t, rfl, hc⟩
  · right; right
    simp at h1; subst h1
    have hws : ({ left := l0, right := input } : IStream).ws = { left := input.reverse ++ l0, right := [], eof := true } := by
      simpa [IStream.ofBytes] using ws_blank l0 input true h2
    simp only [attrRead, hws] at h
    simp [IStream.peekC, IStream.peek, IStream.sentry, IStream.good, readNumber, IStream.ws, IStream.extractFloatText,
      checkRemainingInput, realValue, IStream.failed, Sev.warnIf] at h
    subst h
    try replace hne := (noErr_sentinelIf _ _ hne).2
    exact ⟨h2, rfl⟩
  · subst h1
    by_cases h36 : c = 36
    · subst h36
      rw [attrRead_dollar_at ops cfg lookup .number nullable l0 sp1 t h2] at h
      simp only [Outcome.ok.injEq] at h
      have hch := cri_char cfg { left := 36 :: (sp1.reverse ++ l0), right := t } Sev.null rfl
      subst h
      try replace hne := (noErr_sentinelIf _ _ hne).2
      cases nullable with
      | false => simp [NoErr] at hne
      | true =>
        simp only [hcfg2, if_true] at hne ⊢
        right; left
        have := hch.2 hne
        simp at this
        obtain ⟨sp2, hs2, ht, _, hat⟩ := this
        exact ⟨by simp, by simp, sp1, 36, t, rfl, h2, Or.inl ⟨rfl, sp2, ht, hs2, hat⟩⟩
    · by_cases hdl : c = 44 ∨ c = 41
      · rw [attrRead_missing_at ops cfg lookup .number nullable l0 sp1 t c h2 hdl] at h
        simp only [Outcome.ok.injEq] at h
        subst h
        try replace hne := (noErr_sentinelIf _ _ hne).2
        cases nullable with
        | false => simp [NoErr] at hne
        | true => right; left; exact ⟨rfl, rfl, sp1, c, t, rfl, h2, Or.inr ⟨hdl, rfl⟩⟩
      · have hcond : (c == 36 || c == 44 || c == 41) = false := by
          simp at hdl ⊢; exact ⟨⟨h36, hdl.1⟩, hdl.2⟩
        have hpre : ({ left := l0, right := sp1 ++ c :: t } : IStream).ws = { left := (sp1.reverse ++ l0), right := c :: t } := by
          simpa [IStream.ofBytes] using ws_good l0 sp1 c t true h2 hc
        simp only [attrRead, hpre, peekC_good, hcond, readNumber, ws_good0 _ _ _ _ hc, extractFloatText_good _ _ _ hc] at h
        simp only [Bool.false_eq_true, if_false, Outcome.ok.injEq] at h
        obtain ⟨hwf, happ, hscan⟩ := numSplit_spec (sp1.reverse ++ l0) (c :: t)
        generalize hns : numSplit (c :: t) = ns at hwf happ hscan
        obtain ⟨f, rest⟩ := ns
        simp only at hwf happ hscan
        rw [hscan] at h
        simp only at h
        cases hconv : ops.conv f.norm.text with
        | ok v =>
          left
          simp only [hconv] at h
          subst h
          have hsent := (noErr_sentinelIf _ _ hne).1
          replace hne := (noErr_sentinelIf _ _ hne).2
          simp only [realSentinel] at hsent
          simp only [IStream.failed, Bool.or_self, Bool.false_and, Sev.warnIf, Bool.false_eq_true, if_false] at hne ⊢
          have hof : ∃ d, parseFloatText f.text = some d ∧ ops.ofDecimal d = some v := by
            unfold FloatOps.conv at hconv
            rw [parse_norm f hwf] at hconv
            cases hp : parseFloatText f.text with
            | none => rw [hp] at hconv; cases hconv
            | some d =>
              rw [hp] at hconv; simp only at hconv
              cases ho : ops.ofDecimal d with
              | none => rw [ho] at hconv; cases hconv
              | some v' => rw [ho] at hconv; simp at hconv; exact ⟨d, rfl, by rw [ho, hconv]⟩
          obtain ⟨d, hd1, hd2⟩ := hof
          have hch := (cri_char cfg { left := f.text.reverse ++ (sp1.reverse ++ l0), right := rest, eof := rest.isEmpty } Sev.null rfl).2 hne
          generalize checkRemainingInput cfg (some attrDelims)
            { left := f.text.reverse ++ (sp1.reverse ++ l0), right := rest, eof := rest.isEmpty } Sev.null = X at hne hch ⊢
          rcases hch with ⟨heof, hsame⟩ | ⟨heof, sp2, hsp2, hrr, _, hat⟩
          · simp only at heof
            have hre : rest = [] := by simpa using heof
            subst hre
            refine ⟨sp1, f.text, [], d, v, ?_, h2, Between.nil cfg, hd1, hd2, rfl, hsent, ?_⟩
            · rw [hsame]; simp [happ]
            · rw [hsame]; exact Or.inl rfl
          · simp only at hrr
            refine ⟨sp1, f.text, sp2, d, v, ?_, h2, hsp2, hd1, hd2, rfl, hsent, hat⟩
            rw [happ, hrr]; simp
        | invalid =>
          exfalso
          simp only [hconv, IStream.setFail, IStream.failed, Bool.or_true, Bool.true_or, hcfg, Bool.not_false, Bool.and_self] at h
          subst h
          try replace hne := (noErr_sentinelIf _ _ hne).2
          rcases cri_mono cfg _ _ with hm | hm
          · rw [hm] at hne; exact warnIf_true_err Sev.null hne
          · exact hm hne
        | overflow =>
          exfalso
          simp only [hconv, IStream.setFail, IStream.failed, Bool.or_true, Bool.true_or, hcfg, Bool.not_false, Bool.and_self] at h
          subst h
          try replace hne := (noErr_sentinelIf _ _ hne).2
          rcases cri_mono cfg _ _ with hm | hm
          · rw [hm] at hne; exact warnIf_true_err Sev.null hne
          · exact hm hne


/-- NUMBER, never silent, for the scanners as the source has them now. -/
theorem C09_never_silent_number {F} (ops : FloatOps F) (lookup : Int → RefLookup) (nullable : Bool) (input : List Byte)
    (r : ReadResult F)
    (h : attrRead ops Generated.lexCfg lookup .number nullable (IStream.ofBytes input) = .ok r) (hne : NoErr r.sev) :
    (∃ sp1 tok sp2 d v, input = sp1 ++ tok ++ sp2 ++ r.s.right ∧ sp1.all isSpace = true ∧ Between Generated.lexCfg sp2 ∧
        denoteReal tok = some d ∧ ops.ofDecimal d = some v ∧
        r.val = realValue ops (some v) ∧ (Generated.lexCfg.numberNullReported && ops.isRealNull v) = false ∧
        AtDelimOrEnd Generated.lexCfg r.s.right) ∨
    (nullable = true ∧ r.val = .unset ∧ ∃ sp1 c t, input = sp1 ++ c :: t ∧ sp1.all isSpace = true ∧
        ((c = 36 ∧ ∃ sp2, t = sp2 ++ r.s.right ∧ Between Generated.lexCfg sp2 ∧ AtDelimOrEnd Generated.lexCfg r.s.right) ∨
         ((c = 44 ∨ c = 41) ∧ r.s.right = c :: t))) ∨
    (input.all isSpace = true ∧ r.val = .unset) :=
  never_silent_number_of_cfg ops Generated.lexCfg (by decide) (by decide) lookup nullable input [] r h hne

/-- `C09_never_silent_number` for `STEPattribute::STEPread` called *anywhere in a stream*: the statement does not depend on what was
    consumed before (`l0`) -/
theorem C09_never_silent_number_midstream {F} (ops : FloatOps F) (lookup : Int → RefLookup) (nullable : Bool) (input : List Byte) (l0 : List Byte)
    (r : ReadResult F)
    (h : attrRead ops Generated.lexCfg lookup .number nullable ({ left := l0, right := input } : IStream) = .ok r) (hne : NoErr r.sev) :
    (∃ sp1 tok sp2 d v, input = sp1 ++ tok ++ sp2 ++ r.s.right ∧ sp1.all isSpace = true ∧ Between Generated.lexCfg sp2 ∧
        denoteReal tok = some d ∧ ops.ofDecimal d = some v ∧
        r.val = realValue ops (some v) ∧ (Generated.lexCfg.numberNullReported && ops.isRealNull v) = false ∧
        AtDelimOrEnd Generated.lexCfg r.s.right) ∨
    (nullable = true ∧ r.val = .unset ∧ ∃ sp1 c t, input = sp1 ++ c :: t ∧ sp1.all isSpace = true ∧
        ((c = 36 ∧ ∃ sp2, t = sp2 ++ r.s.right ∧ Between Generated.lexCfg sp2 ∧ AtDelimOrEnd Generated.lexCfg r.s.right) ∨
         ((c = 44 ∨ c = 41) ∧ r.s.right = c :: t))) ∨
    (input.all isSpace = true ∧ r.val = .unset) :=
  never_silent_number_of_cfg ops Generated.lexCfg (by decide) (by decide) lookup nullable input l0 r h hne

/-- NUMBER, accept (any configuration): every token of the `integer` or of the `real` grammar whose denotation converts to a
    double other than the in-band null, followed by blanks and a delimiter, is read to exactly that double with no error,
    and the stream stops at the delimiter -/
theorem C09_accept_number_inband {F} (ops : FloatOps F) (cfg : LexCfg) (lookup : Int → RefLookup) (nullable : Bool)
    (tok sp rest : List Byte) (d : Byte) (dec : Decimal) (v : F)
    (htok : isReal tok = true ∨ isInteger tok = true) (hden : denoteReal tok = some dec) (hv : ops.ofDecimal dec = some v)
    (hsp : Gap cfg sp) (hd : d = 44 ∨ d = 41) :
    attrRead ops cfg lookup .number nullable (IStream.ofBytes (tok ++ sp ++ d :: rest)) =
      .ok ⟨Sev.null.sentinelIf (cfg.numberNullReported && ops.isRealNull v), realValue ops (some v),
        { left := sp.reverse ++ tok.reverse, right := d :: rest }⟩ := by
  have hdd : isDelim attrDelims d = true := by rcases hd with rfl | rfl <;> decide
  have hdn : isSpace d = false := by rcases hd with rfl | rfl <;> decide
  have hcont : NumCont (sp ++ d :: rest) := by
    obtain ⟨c', t', h', a1, a2, a3, a4, _⟩ := gap_cont cfg sp rest d hsp hd
    exact Or.inr ⟨c', t', h', a1, a2, a3, a4⟩
  -- the split of the input
  obtain ⟨f, hf1, hf2⟩ : ∃ f, numSplit (tok ++ (sp ++ d :: rest)) = (f, sp ++ d :: rest) ∧ f.text = tok := by
    rcases htok with hr | hi
    · obtain ⟨sg, ip, fp, ex, rfl, hsg, hip1, hip, hfp, hex⟩ := isReal_shape tok hr
      exact numSplit_realText sg ip fp ex _ hsg hip1 hip hfp hex hcont.real
    · obtain ⟨sg, ds, rfl, hsg, hds1, hds⟩ := isInteger_form tok hi
      have := numSplit_intText sg ds _ hsg hds1 hds hcont
      simpa using this
  -- the first character
  obtain ⟨c, u, hcu, hcs, hc36, hc44, hc41⟩ : ∃ c u, tok = c :: u ∧ isSpace c = false ∧ c ≠ 36 ∧ c ≠ 44 ∧ c ≠ 41 := by
    have key : ∀ (sg ds : List Byte), IsSign sg → ds ≠ [] → ds.all isDigit = true → ∀ tail,
        ∃ c u, sg ++ (ds ++ tail) = c :: u ∧ isSpace c = false ∧ c ≠ 36 ∧ c ≠ 44 ∧ c ≠ 41 := by
      intro sg ds hsg hds1 hds tail
      obtain ⟨i0, iu, rfl⟩ : ∃ i0 iu, ds = i0 :: iu := by
        cases ds with
        | nil => exact absurd rfl hds1
        | cons i0 iu => exact ⟨i0, iu, rfl⟩
      have hi0 : isDigit i0 = true := by simp at hds; exact hds.1
      have hi0' : isSpace i0 = false ∧ i0 ≠ 36 ∧ i0 ≠ 44 ∧ i0 ≠ 41 := by
        refine ⟨digit_not_space hi0, ?_, ?_, ?_⟩ <;> (simp [isDigit] at hi0; bomega)
      rcases hsg with rfl | rfl | rfl
      · exact ⟨i0, iu ++ tail, by simp, hi0'.1, hi0'.2.1, hi0'.2.2.1, hi0'.2.2.2⟩
      · exact ⟨43, i0 :: (iu ++ tail), by simp, by decide, by decide, by decide, by decide⟩
      · exact ⟨45, i0 :: (iu ++ tail), by simp, by decide, by decide, by decide, by decide⟩
    rcases htok with hr | hi
    · obtain ⟨sg, ip, fp, ex, rfl, hsg, hip1, hip, _, _⟩ := isReal_shape tok hr
      exact key sg ip hsg hip1 hip _
    · obtain ⟨sg, ds, rfl, hsg, hds1, hds⟩ := isInteger_form tok hi
      simpa using key sg ds hsg hds1 hds []
  obtain ⟨hwf, _, hscan⟩ := numSplit_spec [] (tok ++ (sp ++ d :: rest))
  rw [hf1] at hwf hscan
  simp only [hf2] at hscan
  have hconv : ops.conv f.norm.text = .ok v := by
    unfold FloatOps.conv
    rw [parse_norm f hwf, hf2]
    unfold denoteReal at hden
    rw [hden]; simp only; rw [hv]
  have hpre : (IStream.ofBytes (tok ++ sp ++ d :: rest)).ws = { left := [], right := tok ++ (sp ++ d :: rest) } := by
    rw [hcu]
    simpa [IStream.ofBytes] using ws_good0 [] c (u ++ (sp ++ d :: rest)) true hcs
  have hcond : (c == 36 || c == 44 || c == 41) = false := by simp [hc36, hc44, hc41]
  have hrne : (sp ++ d :: rest).isEmpty = false := by cases sp <;> rfl
  have hcri := cri_gap_delim cfg tok.reverse sp rest d false true Sev.null hsp hdd hdn
  simp only [attrRead, hpre]
  rw [hcu] at hscan hcri ⊢
  simp only [List.cons_append, peekC_good, hcond, Bool.false_eq_true, if_false, readNumber, ws_good0 _ _ _ _ hcs,
    extractFloatText_good _ _ _ hcs]
  simp only [List.cons_append] at hscan
  simp only [hscan, hconv, IStream.failed, Bool.or_self, Bool.false_and, Sev.warnIf, Bool.false_eq_true, if_false, hrne,
    List.append_nil, hcri, realSentinel]

theorem C09_accept_number {F} (ops : FloatOps F) (cfg : LexCfg) (lookup : Int → RefLookup) (nullable : Bool)
    (tok sp rest : List Byte) (d : Byte) (dec : Decimal) (v : F)
    (htok : isReal tok = true ∨ isInteger tok = true) (hden : denoteReal tok = some dec) (hv : ops.ofDecimal dec = some v)
    (hnn : ops.isRealNull v = false) (hsp : Gap cfg sp) (hd : d = 44 ∨ d = 41) :
    attrRead ops cfg lookup .number nullable (IStream.ofBytes (tok ++ sp ++ d :: rest)) =
      .ok ⟨.null, .real v, { left := sp.reverse ++ tok.reverse, right := d :: rest }⟩ := by
  have := C09_accept_number_inband ops cfg lookup nullable tok sp rest d dec v htok hden hv hsp hd
  simpa [realValue, hnn, Sev.sentinelIf, Sev.warnIf] using this

/-- NUMBER, the in-band null as a theorem: among the tokens whose denotation converts, exactly those that convert to the
    in-band null (`isRealNull`: the double equal to FLT_MIN, e.g. `1.1754943508222875E-38` and every other spelling inside the
    same rounding interval) are read as an *unset* attribute — silently (severity NULL) while the reader stores the sentinel,
    with SEVERITY_WARNING once it reports it (`cfg.numberNullReported`, fixes/C09-9); every other one is read to its double with no error -/
theorem C09_number_inband_null_iff {F} (ops : FloatOps F) (cfg : LexCfg) (lookup : Int → RefLookup) (nullable : Bool)
    (tok sp rest : List Byte) (d : Byte) (dec : Decimal) (v : F)
    (htok : isReal tok = true ∨ isInteger tok = true) (hden : denoteReal tok = some dec) (hv : ops.ofDecimal dec = some v)
    (hsp : Gap cfg sp) (hd : d = 44 ∨ d = 41) :
    ∃ r, attrRead ops cfg lookup .number nullable (IStream.ofBytes (tok ++ sp ++ d :: rest)) = .ok r ∧
      r.s.right = d :: rest ∧
      ((ops.isRealNull v = true ∧ r.val = .unset ∧ r.sev = (if cfg.numberNullReported then .warning else .null)) ∨
       (ops.isRealNull v = false ∧ r.val = .real v ∧ r.sev = .null)) := by
  refine ⟨_, C09_accept_number_inband ops cfg lookup nullable tok sp rest d dec v htok hden hv hsp hd, rfl, ?_⟩
  cases h : ops.isRealNull v
  · right; exact ⟨rfl, by simp [realValue, h], by simp [Sev.sentinelIf, Sev.warnIf]⟩
  · left
    refine ⟨rfl, by simp [realValue, h], ?_⟩
    cases hf : cfg.numberNullReported <;> simp [Sev.sentinelIf, Sev.warnIf, Sev.greater, Sev.toInt]

/-- NUMBER with the repaired `ReadNumber`: a token that converts to the sentinel is reported, never silently unset -/
theorem C09_number_null_reported {F} (ops : FloatOps F) (cfg : LexCfg) (hrep : cfg.numberNullReported = true)
    (lookup : Int → RefLookup) (nullable : Bool) (tok sp rest : List Byte) (d : Byte) (dec : Decimal) (v : F)
    (htok : isReal tok = true ∨ isInteger tok = true) (hden : denoteReal tok = some dec) (hv : ops.ofDecimal dec = some v)
    (hnull : ops.isRealNull v = true) (hsp : Gap cfg sp) (hd : d = 44 ∨ d = 41) :
    attrRead ops cfg lookup .number nullable (IStream.ofBytes (tok ++ sp ++ d :: rest)) =
      .ok ⟨.warning, .unset, { left := sp.reverse ++ tok.reverse, right := d :: rest }⟩ := by
  rw [C09_accept_number_inband ops cfg lookup nullable tok sp rest d dec v htok hden hv hsp hd]
  simp [hrep, hnull, realValue, Sev.sentinelIf, Sev.warnIf, Sev.greater, Sev.toInt]

/-- NUMBER, writer (under `FloatLaws`): what `WriteReal` writes for a NUMBER attribute reads back as a NUMBER -/
theorem C09_write_read_number {F} (ops : FloatOps F) (cfg : LexCfg) (lookup : Int → RefLookup) (nullable : Bool) (v : F)
    (laws : FloatLaws ops v) (hnn : ops.isRealNull v = false)
    (sp rest : List Byte) (d : Byte) (hsp : Gap cfg sp) (hd : d = 44 ∨ d = 41) :
    attrRead ops cfg lookup .number nullable (IStream.ofBytes (attrWrite ops .number (.real v) ++ sp ++ d :: rest)) =
      .ok ⟨.null, .real v, { left := sp.reverse ++ (attrWrite ops .number (.real v)).reverse, right := d :: rest }⟩ := by
  obtain ⟨hreal, hden⟩ := C09_write_real_conforming ops v laws.shape
  obtain ⟨dec, hp, hv⟩ := laws.stable
  have hw : attrWrite ops .number (.real v) = attrWrite ops .real (.real v) := rfl
  rw [hw]
  exact C09_accept_number ops cfg lookup nullable _ sp rest d dec v (Or.inl hreal) (by rw [hden, hp]) hv hnn hsp hd

/-- **NUMBER writer, reads back to the same value — every finite double, no numeric hypothesis** (the NUMBER counterpart of
    `C09_writer_real_round_trips`; `FloatLaws` discharged by `dbl_fmtShortest_shape` and the 17-digit theorem) -/
theorem C09_writer_number_round_trips (cfg : LexCfg) (lookup : Int → RefLookup) (nullable : Bool) (bits : Nat)
    (hlt : bits < 2 ^ 64) (hfin : (bits / Dbl.pow2 52 % 2048 == 2047) = false)
    (hnn : dblOpsRT.isRealNull bits = false)
    (sp rest : List Byte) (d : Byte) (hsp : Gap cfg sp) (hd : d = 44 ∨ d = 41) :
    attrRead dblOpsRT cfg lookup .number nullable (IStream.ofBytes (attrWrite dblOpsRT .number (.real bits) ++ sp ++ d :: rest)) =
      .ok ⟨.null, .real bits, { left := sp.reverse ++ (attrWrite dblOpsRT .number (.real bits)).reverse, right := d :: rest }⟩ :=
  C09_write_read_number dblOpsRT cfg lookup nullable bits
    ⟨dbl_fmtShortest_shape bits hfin, dbl_fmtShortest_stable bits (C09_writer_seventeen_digits_convert_back bits hlt hfin)⟩ hnn
    sp rest d hsp hd

/-- … for the source as it is (regenerated `WriteReal` shape and scanner configuration) -/
theorem C09_writer_number_round_trips_source (lookup : Int → RefLookup) (nullable : Bool) (bits : Nat)
    (hlt : bits < 2 ^ 64) (hfin : (bits / Dbl.pow2 52 % 2048 == 2047) = false)
    (hnn : (bits == Dbl.realNullBits) = false)
    (sp rest : List Byte) (d : Byte) (hsp : Gap Generated.lexCfg sp) (hd : d = 44 ∨ d = 41) :
    attrRead (dblOpsOf Generated.writeRealRoundTrips) Generated.lexCfg lookup .number nullable
        (IStream.ofBytes (attrWrite (dblOpsOf Generated.writeRealRoundTrips) .number (.real bits) ++ sp ++ d :: rest)) =
      .ok ⟨.null, .real bits,
        { left := sp.reverse ++ (attrWrite (dblOpsOf Generated.writeRealRoundTrips) .number (.real bits)).reverse, right := d :: rest }⟩ := by
  have hrt : Generated.writeRealRoundTrips = true := by decide
  have hops : dblOpsOf Generated.writeRealRoundTrips = dblOpsRT := by rw [hrt]; rfl
  rw [hops]
  exact C09_writer_number_round_trips Generated.lexCfg lookup nullable bits hlt hfin hnn sp rest d hsp hd

/-! ## entity reference -/

/-- entity reference, never silent (any configuration that keeps the severity found after `$`): for any input bytes
    whose first non-blank byte is not in `quietFirst cfg.refReportsNonRef cfg` (the empty list for the repaired
    `ReadEntityRef`; NUL and/or `/` before, see `never_silently_unset_real_of_cfg`), whenever
    `STEPattribute::STEPread` flags no error then either
    (a) the input is blanks, `#`, optional blanks, an integer token whose value fits `int`, blanks, and the stream rests at
        the end or in front of a delimiter; an instance with that id exists and conforms to the attribute's type, and the
        attribute refers to it (`#+5` and `# 5` are the reader's leniencies: they spell the id 5); or
    (b) the attribute is OPTIONAL and the input is `$` (followed by blanks only) or a missing value; or
    (c) the input is nothing but blanks. -/
theorem never_silent_ref_of_cfg {F} (ops : FloatOps F) (cfg : LexCfg) (hcfg2 : cfg.dollarKeepsError = true)
    (lookup : Int → RefLookup) (nullable : Bool) (input : List Byte) (l0 : List Byte) (hfirst : FirstByteNot input (quietFirst cfg.refReportsNonRef cfg)) (r : ReadResult F)
    (h : attrRead ops cfg lookup .ref nullable ({ left := l0, right := input } : IStream) = .ok r) (hne : NoErr r.sev) :
    (∃ sp1 spx tok sp2, input = sp1 ++ 35 :: (spx ++ tok ++ sp2 ++ r.s.right) ∧ sp1.all isSpace = true ∧ spx.all isSpace = true ∧
        Between cfg sp2 ∧ isInteger tok = true ∧ intMin ≤ denoteInteger tok ∧ denoteInteger tok ≤ intMax ∧
        lookup (denoteInteger tok) = .found ∧ r.val = .ref (denoteInteger tok) ∧ AtDelimOrEnd cfg r.s.right) ∨
    (nullable = true ∧ r.val = .unset ∧ ∃ sp1 c t, input = sp1 ++ c :: t ∧ sp1.all isSpace = true ∧
        ((c = 36 ∧ ∃ sp2, t = sp2 ++ r.s.right ∧ Between cfg sp2 ∧ AtDelimOrEnd cfg r.s.right) ∨
         ((c = 44 ∨ c = 41) ∧ r.s.right = c :: t))) ∨
    (input.all isSpace = true ∧ r.val = .unset) := by
  obtain ⟨sp1, body, h1, h2, h3, h4⟩ := dropSpaces_split l0 input
  rcases h4 with rfl | ⟨c, t, rfl, hc⟩
  · right; right
    simp at h1; subst h1
    have hws : ({ left := l0, right := input } : IStream).ws = { left := input.reverse ++ l0, right := [], eof := true } := by
      simpa [IStream.ofBytes] using ws_blank l0 input true h2
    simp only [attrRead, hws] at h
    simp [IStream.peekC, IStream.peek, IStream.sentry, IStream.good, readEntityRef, IStream.ws, IStream.getChar,
      IStream.putback, checkRemainingInput, IStream.clear, dropSpaces] at h
    subst h
    exact ⟨h2, rfl⟩
  · subst h1
    by_cases h36 : c = 36
    · subst h36
      rw [attrRead_dollar_at ops cfg lookup .ref nullable l0 sp1 t h2] at h
      simp only [Outcome.ok.injEq] at h
      have hch := cri_char cfg { left := 36 :: (sp1.reverse ++ l0), right := t } Sev.null rfl
      subst h
      cases nullable with
      | false => simp [NoErr] at hne
      | true =>
        simp only [hcfg2, if_true] at hne ⊢
        right; left
        have := hch.2 hne
        simp at this
        obtain ⟨sp2, hs2, ht, _, hat⟩ := this
        exact ⟨by simp, by simp, sp1, 36, t, rfl, h2, Or.inl ⟨rfl, sp2, ht, hs2, hat⟩⟩
    · by_cases hdl : c = 44 ∨ c = 41
      · rw [attrRead_missing_at ops cfg lookup .ref nullable l0 sp1 t c h2 hdl] at h
        simp only [Outcome.ok.injEq] at h
        subst h
        cases nullable with
        | false => simp [NoErr] at hne
        | true => right; left; exact ⟨rfl, rfl, sp1, c, t, rfl, h2, Or.inr ⟨hdl, rfl⟩⟩
      · have hcond : (c == 36 || c == 44 || c == 41) = false := by
          simp at hdl ⊢; exact ⟨⟨h36, hdl.1⟩, hdl.2⟩
        have hcf := hfirst sp1 c t rfl h2 hc
        have hgar : cfg.refReportsNonRef = false → delimAt cfg attrDelims c = false ∧ c ≠ 47 := fun hq =>
          quietFirst_spec hq hcf (by simp at hdl; exact hdl.1) (by simp at hdl; exact hdl.2)
        have hpre : ({ left := l0, right := sp1 ++ c :: t } : IStream).ws = { left := (sp1.reverse ++ l0), right := c :: t } := by
          simpa [IStream.ofBytes] using ws_good l0 sp1 c t true h2 hc
        simp only [attrRead, hpre, peekC_good, hcond, readEntityRef, ws_good0 _ _ _ _ hc, getChar_good _ _ _ hc] at h
        simp only [Bool.false_eq_true, if_false, Option.getD_some, Option.isSome_some, Bool.and_true, Outcome.ok.injEq] at h
        by_cases h35 : c = 35
        · subst h35
          simp only [beq_self_eq_true, Bool.true_or, if_true] at h
          have h64 : ((35 : Byte) == 64) = false := by decide
          simp only [h64, Bool.false_eq_true, if_false] at h
          obtain ⟨spx, body', hb1, hb2, hb3, hb4⟩ := dropSpaces_split (35 :: (sp1.reverse ++ l0)) t
          rcases hb4 with rfl | ⟨c', t', rfl, hc'⟩
          · -- nothing after `#`
            exfalso
            simp only [List.append_nil] at hb1
            subst hb1
            simp only [refTail, extractInt32_blank _ _ hb2, IStream.failed, Bool.or_false, if_true] at h
            subst h
            rcases cri_mono cfg _ (Sev.null.greater Sev.warning) with hm | hm
            · simp only at hne; rw [hm] at hne; exact greater_warning_err _ hne
            · exact hm hne
          · subst hb1
            simp only [refTail, extractInt32_skip _ _ _ _ hb2 hc', IStream.failed, Bool.or_false] at h
            obtain ⟨tok, rest, hr, hrest, hs2, hval, _⟩ :=
              scanInt_split longMin longMax (by decide) (by decide) (spx.reverse ++ 35 :: (sp1.reverse ++ l0)) (c' :: t')
            generalize hsc : scanInt longMin longMax (spx.reverse ++ 35 :: (sp1.reverse ++ l0)) (c' :: t') = sc at h hs2 hval
            obtain ⟨res, l', r'⟩ := sc
            simp only [Prod.mk.injEq] at hs2
            obtain ⟨rfl, rfl⟩ := hs2
            simp only at h hval
            by_cases hlo : res.value < intMin
            · exfalso
              simp only [hlo, if_true] at h
              subst h
              rcases cri_mono cfg _ (Sev.null.greater Sev.warning) with hm | hm
              · simp only at hne; rw [hm] at hne; exact greater_warning_err _ hne
              · exact hm hne
            · by_cases hhi : res.value > intMax
              · exfalso
                simp only [hlo, hhi, if_true, if_false] at h
                subst h
                rcases cri_mono cfg _ (Sev.null.greater Sev.warning) with hm | hm
                · simp only at hne; rw [hm] at hne; exact greater_warning_err _ hne
                · exact hm hne
              · simp only [hlo, hhi, if_false] at h
                cases hf : res.fail with
                | true =>
                  exfalso
                  simp only [hf, if_true] at h
                  subst h
                  rcases cri_mono cfg _ (Sev.null.greater Sev.warning) with hm | hm
                  · simp only at hne; rw [hm] at hne; exact greater_warning_err _ hne
                  · exact hm hne
                | false =>
                  simp only [hf, Bool.false_eq_true, if_false, Option.getD_some] at h
                  obtain ⟨htok, hv, _, _⟩ := hval hf
                  cases hlk : lookup res.value with
                  | found =>
                    simp only [hlk] at h
                    subst h
                    simp only at hne ⊢
                    have hch := (cri_char cfg { left := tok.reverse ++ (spx.reverse ++ 35 :: (sp1.reverse ++ l0)), right := r', eof := r'.isEmpty, fail := false }
                      Sev.null rfl).2 hne
                    generalize checkRemainingInput cfg (some attrDelims)
                      { left := tok.reverse ++ (spx.reverse ++ 35 :: (sp1.reverse ++ l0)), right := r', eof := r'.isEmpty, fail := false } Sev.null = X at hne hch ⊢
                    left
                    rw [hv] at hlk hlo hhi
                    rcases hch with ⟨heof, hsame⟩ | ⟨heof, sp2, hsp2, hrr, _, hat⟩
                    · simp only at heof
                      have hre : r' = [] := by simpa using heof
                      subst hre
                      refine ⟨sp1, spx, tok, [], ?_, h2, hb2, Between.nil cfg, htok, by omega, by omega, hlk, by rw [hv], ?_⟩
                      · rw [hsame]; simp [hr]
                      · rw [hsame]; exact Or.inl rfl
                    · simp only at hrr
                      refine ⟨sp1, spx, tok, sp2, ?_, h2, hb2, hsp2, htok, by omega, by omega, hlk, by rw [hv], hat⟩
                      rw [hr, hrr]; simp
                  | wrongType =>
                    exfalso
                    simp only [hlk] at h
                    subst h
                    exact greater_warning_err _ hne
                  | missing =>
                    exfalso
                    simp only [hlk] at h
                    subst h
                    exact greater_warning_err _ hne
        · by_cases h64 : c = 64
          · -- `@`: always a warning
            exfalso
            subst h64
            simp only [beq_self_eq_true, Bool.or_true, if_true] at h
            subst h
            exact refTail_mono cfg lookup _ _ (greater_warning_err _) hne
          · exfalso
            have hno : (c == 35 || c == 64) = false := by simp [h35, h64]
            have hnd : refNotDelim (some attrDelims) c = true := by
              simp at hdl; simp [refNotDelim, isDelim, attrDelims, hdl.1, hdl.2]
            simp only [hno, Bool.false_eq_true, if_false, putback_good, hnd, Bool.and_true] at h
            subst h
            cases hq : cfg.refReportsNonRef with
            | true =>
              simp only [hq] at hne
              rcases cri_mono cfg _ _ with hm | hm
              · rw [hm] at hne; exact warnIf_true_err Sev.null hne
              · exact hm hne
            | false => exact cri_garbage cfg _ c t false true _ hc (hgar hq).1 (hgar hq).2 hne

/-- entity reference, never silent, for the scanners as the source has them now. -/
theorem C09_never_silent_ref {F} (ops : FloatOps F) (lookup : Int → RefLookup) (nullable : Bool) (input : List Byte)
    (hfirst : FirstByteNot input (quietFirst Generated.lexCfg.refReportsNonRef Generated.lexCfg)) (r : ReadResult F)
    (h : attrRead ops Generated.lexCfg lookup .ref nullable (IStream.ofBytes input) = .ok r) (hne : NoErr r.sev) :
    (∃ sp1 spx tok sp2, input = sp1 ++ 35 :: (spx ++ tok ++ sp2 ++ r.s.right) ∧ sp1.all isSpace = true ∧ spx.all isSpace = true ∧
        Between Generated.lexCfg sp2 ∧ isInteger tok = true ∧ intMin ≤ denoteInteger tok ∧ denoteInteger tok ≤ intMax ∧
        lookup (denoteInteger tok) = .found ∧ r.val = .ref (denoteInteger tok) ∧ AtDelimOrEnd Generated.lexCfg r.s.right) ∨
    (nullable = true ∧ r.val = .unset ∧ ∃ sp1 c t, input = sp1 ++ c :: t ∧ sp1.all isSpace = true ∧
        ((c = 36 ∧ ∃ sp2, t = sp2 ++ r.s.right ∧ Between Generated.lexCfg sp2 ∧ AtDelimOrEnd Generated.lexCfg r.s.right) ∨
         ((c = 44 ∨ c = 41) ∧ r.s.right = c :: t))) ∨
    (input.all isSpace = true ∧ r.val = .unset) :=
  never_silent_ref_of_cfg ops Generated.lexCfg (by decide) lookup nullable input [] hfirst r h hne

/-- `C09_never_silent_ref` for `STEPattribute::STEPread` called *anywhere in a stream*: the statement does not depend on what was
    consumed before (`l0`) -/
theorem C09_never_silent_ref_midstream {F} (ops : FloatOps F) (lookup : Int → RefLookup) (nullable : Bool) (input : List Byte) (l0 : List Byte)
    (hfirst : FirstByteNot input (quietFirst Generated.lexCfg.refReportsNonRef Generated.lexCfg)) (r : ReadResult F)
    (h : attrRead ops Generated.lexCfg lookup .ref nullable ({ left := l0, right := input } : IStream) = .ok r) (hne : NoErr r.sev) :
    (∃ sp1 spx tok sp2, input = sp1 ++ 35 :: (spx ++ tok ++ sp2 ++ r.s.right) ∧ sp1.all isSpace = true ∧ spx.all isSpace = true ∧
        Between Generated.lexCfg sp2 ∧ isInteger tok = true ∧ intMin ≤ denoteInteger tok ∧ denoteInteger tok ≤ intMax ∧
        lookup (denoteInteger tok) = .found ∧ r.val = .ref (denoteInteger tok) ∧ AtDelimOrEnd Generated.lexCfg r.s.right) ∨
    (nullable = true ∧ r.val = .unset ∧ ∃ sp1 c t, input = sp1 ++ c :: t ∧ sp1.all isSpace = true ∧
        ((c = 36 ∧ ∃ sp2, t = sp2 ++ r.s.right ∧ Between Generated.lexCfg sp2 ∧ AtDelimOrEnd Generated.lexCfg r.s.right) ∨
         ((c = 44 ∨ c = 41) ∧ r.s.right = c :: t))) ∨
    (input.all isSpace = true ∧ r.val = .unset) :=
  never_silent_ref_of_cfg ops Generated.lexCfg (by decide) lookup nullable input l0 hfirst r h hne

/-! ## BINARY -/

/-- BINARY, never silent (any configuration in which `ReadBinary` reports delimiters without a digit and the severity found
    after `$` is kept): whenever `STEPattribute::STEPread` flags no error, for *any* input bytes, then either
    (a) the input is blanks, `"`, a non-empty run of hexadecimal digits (either case: the reader's leniency), `"`, blanks, and
        the stream rests at the end or in front of a delimiter; the attribute holds exactly those digits; or
    (b) the attribute is OPTIONAL and the input is `$` (followed by blanks only) or a missing value.
    (A blank input is always reported: INCOMPLETE.) -/
theorem never_silent_binary_of_cfg {F} (ops : FloatOps F) (cfg : LexCfg) (hcfg : cfg.binaryRejectsEmpty = true)
    (hcfg2 : cfg.dollarKeepsError = true) (lookup : Int → RefLookup) (nullable : Bool)
    (input : List Byte) (l0 : List Byte) (r : ReadResult F)
    (h : attrRead ops cfg lookup .binary nullable ({ left := l0, right := input } : IStream) = .ok r) (hne : NoErr r.sev) :
    (∃ sp1 hex sp2, input = sp1 ++ 34 :: (hex ++ 34 :: (sp2 ++ r.s.right)) ∧ sp1.all isSpace = true ∧ Between cfg sp2 ∧
        hex ≠ [] ∧ hex.all isXDigit = true ∧ r.val = .bin hex ∧ AtDelimOrEnd cfg r.s.right) ∨
    (nullable = true ∧ r.val = .unset ∧ ∃ sp1 c t, input = sp1 ++ c :: t ∧ sp1.all isSpace = true ∧
        ((c = 36 ∧ ∃ sp2, t = sp2 ++ r.s.right ∧ Between cfg sp2 ∧ AtDelimOrEnd cfg r.s.right) ∨
         ((c = 44 ∨ c = 41) ∧ r.s.right = c :: t))) := by
  obtain ⟨sp1, body, h1, h2, h3, h4⟩ := dropSpaces_split l0 input
  rcases h4 with rfl | ⟨c, t, rfl, hc⟩
  · -- nothing but blanks: ReadBinary reports INCOMPLETE
    exfalso
    simp at h1; subst h1
    have hws : ({ left := l0, right := input } : IStream).ws = { left := input.reverse ++ l0, right := [], eof := true } := by
      simpa [IStream.ofBytes] using ws_blank l0 input true h2
    simp only [attrRead, hws] at h
    simp [IStream.peekC, IStream.peek, IStream.sentry, IStream.good, readBinary, IStream.ws, checkRemainingInput] at h
    subst h
    exact greater_incomplete_err Sev.null hne
  · subst h1
    by_cases h36 : c = 36
    · subst h36
      rw [attrRead_dollar_at ops cfg lookup .binary nullable l0 sp1 t h2] at h
      simp only [Outcome.ok.injEq] at h
      have hch := cri_char cfg { left := 36 :: (sp1.reverse ++ l0), right := t } Sev.null rfl
      subst h
      cases nullable with
      | false => simp [NoErr] at hne
      | true =>
        simp only [hcfg2, if_true] at hne ⊢
        right
        have := hch.2 hne
        simp at this
        obtain ⟨sp2, hs2, ht, _, hat⟩ := this
        exact ⟨by simp, by simp, sp1, 36, t, rfl, h2, Or.inl ⟨rfl, sp2, ht, hs2, hat⟩⟩
    · by_cases hdl : c = 44 ∨ c = 41
      · rw [attrRead_missing_at ops cfg lookup .binary nullable l0 sp1 t c h2 hdl] at h
        simp only [Outcome.ok.injEq] at h
        subst h
        cases nullable with
        | false => simp [NoErr] at hne
        | true => right; exact ⟨rfl, rfl, sp1, c, t, rfl, h2, Or.inr ⟨hdl, rfl⟩⟩
      · have hcond : (c == 36 || c == 44 || c == 41) = false := by
          simp at hdl ⊢; exact ⟨⟨h36, hdl.1⟩, hdl.2⟩
        have hpre : ({ left := l0, right := sp1 ++ c :: t } : IStream).ws = { left := (sp1.reverse ++ l0), right := c :: t } := by
          simpa [IStream.ofBytes] using ws_good l0 sp1 c t true h2 hc
        simp only [attrRead, hpre, peekC_good, hcond, Bool.false_eq_true, if_false, Outcome.ok.injEq] at h
        subst h
        simp only at hne ⊢
        generalize hq : readBinary cfg true { left := (sp1.reverse ++ l0), right := c :: t } Sev.null = q at hne ⊢
        have hqe : NoErr q.2.2 := by
          rcases cri_mono cfg q.2.1 q.2.2 with hm | hm
          · rw [hm] at hne; exact hne
          · exact absurd hne hm
        rw [← hq] at hqe
        obtain ⟨hex, rest, hct, hx1, hx2, hre⟩ := readBinary_noerr cfg hcfg (sp1.reverse ++ l0) c t true hc hqe
        rw [hre] at hq
        subst hq
        simp only at hne ⊢
        have hch := (cri_char cfg { left := 34 :: (hex.reverse ++ 34 :: (sp1.reverse ++ l0)), right := rest } Sev.null rfl).2 hne
        generalize checkRemainingInput cfg (some attrDelims) { left := 34 :: (hex.reverse ++ 34 :: (sp1.reverse ++ l0)), right := rest } Sev.null = X at hne hch ⊢
        left
        simp at hch
        obtain ⟨sp2, hs2, hrr, _, hat⟩ := hch
        have hxe : hex.isEmpty = false := by cases hex <;> simp_all
        refine ⟨sp1, hex, sp2, ?_, h2, hs2, hx1, hx2, by simp [hxe], hat⟩
        rw [hct, hrr]

/-- BINARY, never silent, for the scanners as the source has them now. -/
theorem C09_never_silent_binary {F} (ops : FloatOps F) (lookup : Int → RefLookup) (nullable : Bool)
    (input : List Byte) (r : ReadResult F)
    (h : attrRead ops Generated.lexCfg lookup .binary nullable (IStream.ofBytes input) = .ok r) (hne : NoErr r.sev) :
    (∃ sp1 hex sp2, input = sp1 ++ 34 :: (hex ++ 34 :: (sp2 ++ r.s.right)) ∧ sp1.all isSpace = true ∧ Between Generated.lexCfg sp2 ∧
        hex ≠ [] ∧ hex.all isXDigit = true ∧ r.val = .bin hex ∧ AtDelimOrEnd Generated.lexCfg r.s.right) ∨
    (nullable = true ∧ r.val = .unset ∧ ∃ sp1 c t, input = sp1 ++ c :: t ∧ sp1.all isSpace = true ∧
        ((c = 36 ∧ ∃ sp2, t = sp2 ++ r.s.right ∧ Between Generated.lexCfg sp2 ∧ AtDelimOrEnd Generated.lexCfg r.s.right) ∨
         ((c = 44 ∨ c = 41) ∧ r.s.right = c :: t))) :=
  never_silent_binary_of_cfg ops Generated.lexCfg (by decide) (by decide) lookup nullable input [] r h hne

/-- `C09_never_silent_binary` for `STEPattribute::STEPread` called *anywhere in a stream*: the statement does not depend on what was
    consumed before (`l0`) -/
theorem C09_never_silent_binary_midstream {F} (ops : FloatOps F) (lookup : Int → RefLookup) (nullable : Bool)
    (input : List Byte) (l0 : List Byte) (r : ReadResult F)
    (h : attrRead ops Generated.lexCfg lookup .binary nullable ({ left := l0, right := input } : IStream) = .ok r) (hne : NoErr r.sev) :
    (∃ sp1 hex sp2, input = sp1 ++ 34 :: (hex ++ 34 :: (sp2 ++ r.s.right)) ∧ sp1.all isSpace = true ∧ Between Generated.lexCfg sp2 ∧
        hex ≠ [] ∧ hex.all isXDigit = true ∧ r.val = .bin hex ∧ AtDelimOrEnd Generated.lexCfg r.s.right) ∨
    (nullable = true ∧ r.val = .unset ∧ ∃ sp1 c t, input = sp1 ++ c :: t ∧ sp1.all isSpace = true ∧
        ((c = 36 ∧ ∃ sp2, t = sp2 ++ r.s.right ∧ Between Generated.lexCfg sp2 ∧ AtDelimOrEnd Generated.lexCfg r.s.right) ∨
         ((c = 44 ∨ c = 41) ∧ r.s.right = c :: t))) :=
  never_silent_binary_of_cfg ops Generated.lexCfg (by decide) (by decide) lookup nullable input l0 r h hne

/-! ## STRING -/

/-- STRING, accept (any configuration): an apostrophe, any body of the string grammar (`StringBody`: non-q characters, `''`,
    `\\`, and every control directive `\S\c`, `\PA\`, `\X\hh`, `\X2\…\X0\`, `\X4\…\X0\`), an apostrophe, followed by
    blanks and a delimiter: read with no error to exactly that literal (stepcode keeps the encoded form), the stream stops
    at the delimiter.  The proof is the quote-parity argument: at every unit boundary `allDelimsEscaped` is true again and
    the text never ends in `\S\` (`litLoop_body`).  Note the stream's `skipws` flag is left switched off. -/
theorem C09_accept_string_body {F} (ops : FloatOps F) (cfg : LexCfg) (lookup : Int → RefLookup) (nullable : Bool)
    (b sp rest : List Byte) (d : Byte) (hb : StringBody b) (hsp : Gap cfg sp) (hd : d = 44 ∨ d = 41) :
    attrRead ops cfg lookup .string nullable (IStream.ofBytes (39 :: (b ++ [39]) ++ sp ++ d :: rest)) =
      .ok ⟨.null, .str (39 :: (b ++ [39])),
        { left := sp.reverse ++ (39 :: (b ++ [39])).reverse, right := d :: rest, skipws := false }⟩ := by
  have hdd : isDelim attrDelims d = true := by rcases hd with rfl | rfl <;> decide
  have hdn : isSpace d = false := by rcases hd with rfl | rfl <;> decide
  have hpre : (IStream.ofBytes (39 :: (b ++ [39]) ++ sp ++ d :: rest)).ws =
      { left := [], right := 39 :: (b ++ (39 :: (sp ++ d :: rest))) } := by
    have := ws_good0 [] 39 (b ++ (39 :: (sp ++ d :: rest))) true (by decide)
    simpa [IStream.ofBytes] using this
  -- the automaton
  obtain ⟨e1, e2⟩ := litLoop_body b hb [39] (39 :: (sp ++ d :: rest)) rfl
  have hcont : ∃ c t, sp ++ d :: rest = c :: t ∧ c ≠ 39 := by
    obtain ⟨c', t', h', _, _, _, _, a5⟩ := gap_cont cfg sp rest d hsp hd
    exact ⟨c', t', h', a5⟩
  obtain ⟨c, t, hct, hc39⟩ := hcont
  have hll : litLoop [39] true (b ++ 39 :: (sp ++ d :: rest)) =
      (39 :: (b.reverse ++ [39]), sp ++ d :: rest, false, false) := by
    rw [e1, litLoop_quote, e2]
    simp only [Bool.false_eq_true, if_false, Bool.not_true]
    rw [hct]
    have : (c == 39) = false := by simpa using hc39
    simp [litLoop, this]
  have hcri := cri_gap_delim cfg (39 :: (b.reverse ++ [39])) sp rest d false false Sev.null hsp hdd hdn
  simp only [attrRead, hpre, peekC_good]
  simp only [show ((39 : Byte) == 36 || (39 : Byte) == 44 || (39 : Byte) == 41) = false from by decide, Bool.false_eq_true, if_false,
    stringRead, IStream.setSkipws, getLiteralStr, ws_good0 _ _ _ _ (show isSpace 39 = false from by decide), IStream.good,
    Bool.not_false, Bool.and_self, Bool.not_true, beq_self_eq_true, if_true, hll]
  simp [hcri]


/-- STRING, accept, for the executable recogniser of the grammar: every token `isString` accepts -/
theorem C09_accept_string {F} (ops : FloatOps F) (cfg : LexCfg) (lookup : Int → RefLookup) (nullable : Bool)
    (tok sp rest : List Byte) (d : Byte) (htok : isString tok = true) (hsp : Gap cfg sp) (hd : d = 44 ∨ d = 41) :
    attrRead ops cfg lookup .string nullable (IStream.ofBytes (tok ++ sp ++ d :: rest)) =
      .ok ⟨.null, .str tok, { left := sp.reverse ++ tok.reverse, right := d :: rest, skipws := false }⟩ := by
  obtain ⟨b, rfl, hb⟩ := isString_body tok htok
  exact C09_accept_string_body ops cfg lookup nullable b sp rest d hb hsp hd

/-- STRING, never silent (any configuration that keeps the severity found after `$`): whenever
    `STEPattribute::STEPread` flags no error, for *any* input bytes, then either
    (a) the input is blanks, a literal that starts and ends with an apostrophe, blanks, and the stream rests at the end or in
        front of a delimiter; the attribute holds exactly that literal (stepcode keeps strings in their encoded form, quotes
        included, and never decodes control directives — so every such literal spells itself); or
    (b) the attribute is OPTIONAL and the input is `$` (followed by blanks only) or a missing value.
    (A blank input, or one that does not start with an apostrophe, is always reported.) -/
theorem never_silent_string_of_cfg {F} (ops : FloatOps F) (cfg : LexCfg) (hcfg2 : cfg.dollarKeepsError = true)
    (lookup : Int → RefLookup) (nullable : Bool) (input : List Byte) (l0 : List Byte) (r : ReadResult F)
    (h : attrRead ops cfg lookup .string nullable ({ left := l0, right := input } : IStream) = .ok r) (hne : NoErr r.sev) :
    (∃ sp1 tok sp2, input = sp1 ++ tok ++ sp2 ++ r.s.right ∧ sp1.all isSpace = true ∧ Between cfg sp2 ∧
        isStringLenient tok = true ∧ r.val = .str tok ∧ AtDelimOrEnd cfg r.s.right) ∨
    (nullable = true ∧ r.val = .unset ∧ ∃ sp1 c t, input = sp1 ++ c :: t ∧ sp1.all isSpace = true ∧
        ((c = 36 ∧ ∃ sp2, t = sp2 ++ r.s.right ∧ Between cfg sp2 ∧ AtDelimOrEnd cfg r.s.right) ∨
         ((c = 44 ∨ c = 41) ∧ r.s.right = c :: t))) := by
  obtain ⟨sp1, body, h1, h2, h3, h4⟩ := dropSpaces_split l0 input
  rcases h4 with rfl | ⟨c, t, rfl, hc⟩
  · exfalso
    simp at h1; subst h1
    have hws : ({ left := l0, right := input } : IStream).ws = { left := input.reverse ++ l0, right := [], eof := true } := by
      simpa [IStream.ofBytes] using ws_blank l0 input true h2
    simp only [attrRead, hws] at h
    simp [IStream.peekC, IStream.peek, IStream.sentry, IStream.good, stringRead, getLiteralStr, IStream.setSkipws, IStream.ws,
      checkRemainingInput] at h
    subst h
    exact greater_incomplete_err Sev.null hne
  · subst h1
    by_cases h36 : c = 36
    · subst h36
      rw [attrRead_dollar_at ops cfg lookup .string nullable l0 sp1 t h2] at h
      simp only [Outcome.ok.injEq] at h
      have hch := cri_char cfg { left := 36 :: (sp1.reverse ++ l0), right := t } Sev.null rfl
      subst h
      cases nullable with
      | false => simp [NoErr] at hne
      | true =>
        simp only [hcfg2, if_true] at hne ⊢
        right
        have := hch.2 hne
        simp at this
        obtain ⟨sp2, hs2, ht, _, hat⟩ := this
        exact ⟨by simp, by simp, sp1, 36, t, rfl, h2, Or.inl ⟨rfl, sp2, ht, hs2, hat⟩⟩
    · by_cases hdl : c = 44 ∨ c = 41
      · rw [attrRead_missing_at ops cfg lookup .string nullable l0 sp1 t c h2 hdl] at h
        simp only [Outcome.ok.injEq] at h
        subst h
        cases nullable with
        | false => simp [NoErr] at hne
        | true => right; exact ⟨rfl, rfl, sp1, c, t, rfl, h2, Or.inr ⟨hdl, rfl⟩⟩
      · have hcond : (c == 36 || c == 44 || c == 41) = false := by
          simp at hdl ⊢; exact ⟨⟨h36, hdl.1⟩, hdl.2⟩
        have hpre : ({ left := l0, right := sp1 ++ c :: t } : IStream).ws = { left := (sp1.reverse ++ l0), right := c :: t } := by
          simpa [IStream.ofBytes] using ws_good l0 sp1 c t true h2 hc
        simp only [attrRead, hpre, peekC_good, hcond, Bool.false_eq_true, if_false, Outcome.ok.injEq, stringRead,
          IStream.setSkipws, getLiteralStr, ws_good0 _ _ _ _ hc, IStream.good, Bool.not_false, Bool.and_self, Bool.not_true] at h
        by_cases hq : c = 39
        · subst hq
          simp only [beq_self_eq_true, if_true] at h
          obtain ⟨m, hm1, hm2, hm3, hm4, hm5, hm6⟩ := litLoop_spec [39] true t (by simp)
          generalize hll : litLoop [39] true t = ll at h hm1 hm2 hm3 hm4 hm5 hm6
          obtain ⟨srev, rest, esc, hitEnd⟩ := ll
          simp only at h hm1 hm2 hm3 hm4 hm5 hm6
          subst hm2
          have hne' : (m.reverse ++ [39]).reverse.isEmpty = false := by simp
          simp only [hne', Bool.false_eq_true, if_false] at h
          subst h
          simp only at hne ⊢
          cases esc with
          | true =>
            exfalso
            simp only [if_true] at hne
            rcases cri_mono cfg _ (Sev.null.greater Sev.inputError) with hmm | hmm
            · rw [hmm] at hne; exact greater_inputError_err _ hne
            · exact hmm hne
          | false =>
            simp only [Bool.false_eq_true, if_false] at hne ⊢
            have hmne : m ≠ [] := by
              intro hm; have := hm6 hm; cases this
            have hch := (cri_char cfg { left := m.reverse ++ [39] ++ (sp1.reverse ++ l0), right := rest, eof := hitEnd, skipws := false } Sev.null rfl).2 hne
            generalize checkRemainingInput cfg (some attrDelims)
              { left := m.reverse ++ [39] ++ (sp1.reverse ++ l0), right := rest, eof := hitEnd, skipws := false } Sev.null = X at hne hch ⊢
            left
            have hlast : m.getLast? = some 39 := by
              have := hm3 rfl
              cases hmr : m.reverse with
              | nil => simp at hmr; exact absurd hmr hmne
              | cons a u =>
                rw [hmr] at this
                simp at this
                have : m = (a :: u).reverse := by rw [← hmr]; simp
                rw [this]; simp; assumption
            have hlen : isStringLenient ((m.reverse ++ [39]).reverse) = true := by
              simp [isStringLenient, hlast]
            rcases hch with ⟨heof, hsame⟩ | ⟨heof, sp2, hs2, hrr, _, hat⟩
            · simp only at heof
              subst heof
              have hre : rest = [] := hm4 rfl
              subst hre
              refine ⟨sp1, (m.reverse ++ [39]).reverse, [], ?_, h2, Between.nil cfg, hlen, rfl, ?_⟩
              · rw [hsame]; simp [hm1]
              · rw [hsame]; exact Or.inl rfl
            · simp only at hrr
              refine ⟨sp1, (m.reverse ++ [39]).reverse, sp2, ?_, h2, hs2, hlen, rfl, hat⟩
              rw [hm1, hrr]; simp
        · exfalso
          have hq' : (c == 39) = false := by simpa using hq
          simp only [hq', Bool.false_eq_true, if_false, List.isEmpty_nil, if_true] at h
          subst h
          simp only at hne
          rcases cri_mono cfg _ (Sev.null.greater Sev.incomplete) with hmm | hmm
          · rw [hmm] at hne; exact greater_incomplete_err _ hne
          · exact hmm hne

/-- STRING, never silent, for the scanners as the source has them now. -/
theorem C09_never_silent_string {F} (ops : FloatOps F) (lookup : Int → RefLookup) (nullable : Bool)
    (input : List Byte) (r : ReadResult F)
    (h : attrRead ops Generated.lexCfg lookup .string nullable (IStream.ofBytes input) = .ok r) (hne : NoErr r.sev) :
    (∃ sp1 tok sp2, input = sp1 ++ tok ++ sp2 ++ r.s.right ∧ sp1.all isSpace = true ∧ Between Generated.lexCfg sp2 ∧
        isStringLenient tok = true ∧ r.val = .str tok ∧ AtDelimOrEnd Generated.lexCfg r.s.right) ∨
    (nullable = true ∧ r.val = .unset ∧ ∃ sp1 c t, input = sp1 ++ c :: t ∧ sp1.all isSpace = true ∧
        ((c = 36 ∧ ∃ sp2, t = sp2 ++ r.s.right ∧ Between Generated.lexCfg sp2 ∧ AtDelimOrEnd Generated.lexCfg r.s.right) ∨
         ((c = 44 ∨ c = 41) ∧ r.s.right = c :: t))) :=
  never_silent_string_of_cfg ops Generated.lexCfg (by decide) lookup nullable input [] r h hne

/-- `C09_never_silent_string` for `STEPattribute::STEPread` called *anywhere in a stream*: the statement does not depend on what was
    consumed before (`l0`) -/
theorem C09_never_silent_string_midstream {F} (ops : FloatOps F) (lookup : Int → RefLookup) (nullable : Bool)
    (input : List Byte) (l0 : List Byte) (r : ReadResult F)
    (h : attrRead ops Generated.lexCfg lookup .string nullable ({ left := l0, right := input } : IStream) = .ok r) (hne : NoErr r.sev) :
    (∃ sp1 tok sp2, input = sp1 ++ tok ++ sp2 ++ r.s.right ∧ sp1.all isSpace = true ∧ Between Generated.lexCfg sp2 ∧
        isStringLenient tok = true ∧ r.val = .str tok ∧ AtDelimOrEnd Generated.lexCfg r.s.right) ∨
    (nullable = true ∧ r.val = .unset ∧ ∃ sp1 c t, input = sp1 ++ c :: t ∧ sp1.all isSpace = true ∧
        ((c = 36 ∧ ∃ sp2, t = sp2 ++ r.s.right ∧ Between Generated.lexCfg sp2 ∧ AtDelimOrEnd Generated.lexCfg r.s.right) ∨
         ((c = 44 ∨ c = 41) ∧ r.s.right = c :: t))) :=
  never_silent_string_of_cfg ops Generated.lexCfg (by decide) lookup nullable input l0 r h hne

/-! ## accept and writer theorems for BINARY, entity references, enumerations, STRING -/

/-- BINARY, accept (any configuration): `"`, a non-empty run of hexadecimal digits, `"`, blanks, a delimiter: read with no
    error to exactly those digits, the stream stops at the delimiter -/
theorem C09_accept_binary {F} (ops : FloatOps F) (cfg : LexCfg) (lookup : Int → RefLookup) (nullable : Bool)
    (hex sp rest : List Byte) (d : Byte) (hne : hex ≠ []) (hhex : hex.all isXDigit = true)
    (hsp : Gap cfg sp) (hd : d = 44 ∨ d = 41) :
    attrRead ops cfg lookup .binary nullable (IStream.ofBytes (34 :: (hex ++ [34]) ++ sp ++ d :: rest)) =
      .ok ⟨.null, .bin hex, { left := sp.reverse ++ (34 :: (hex ++ [34])).reverse, right := d :: rest }⟩ := by
  have hdd : isDelim attrDelims d = true := by rcases hd with rfl | rfl <;> decide
  have hdn : isSpace d = false := by rcases hd with rfl | rfl <;> decide
  obtain ⟨h0, hu, rfl⟩ : ∃ h0 hu, hex = h0 :: hu := by
    cases hex with
    | nil => exact absurd rfl hne
    | cons h0 hu => exact ⟨h0, hu, rfl⟩
  have hpre : (IStream.ofBytes (34 :: ((h0 :: hu) ++ [34]) ++ sp ++ d :: rest)).ws =
      { left := [], right := 34 :: h0 :: (hu ++ 34 :: (sp ++ d :: rest)) } := by
    have := ws_good0 [] 34 (h0 :: (hu ++ 34 :: (sp ++ d :: rest))) true (by decide)
    simpa [IStream.ofBytes] using this
  -- the word
  obtain ⟨w, rst, h1, h2, h3⟩ := scanWord_spec isXDigit 34 h0 [34] (hu ++ 34 :: (sp ++ d :: rest)) true
  have hsplit : (h0 :: hu) ++ (34 :: (sp ++ d :: rest)) = w ++ rst := by simpa using h1
  have hrst : rst = [] ∨ ∃ c t, rst = c :: t ∧ isXDigit c = false := by
    rcases h3 with ⟨hw, hp, _⟩ | ⟨_, hr, _⟩ | ⟨_, u, hr, hq, _⟩ | ⟨_, x, u, hr, _, hx, _⟩
    · subst hw; simp at h1; exact Or.inr ⟨h0, _, h1.symm, hp⟩
    · exact Or.inl hr
    · exact Or.inr ⟨34, u, hr, hq⟩
    · exact Or.inr ⟨x, u, hr, hx⟩
  obtain ⟨ew, er⟩ := prefix_unique isXDigit (h0 :: hu) w (34 :: (sp ++ d :: rest)) rst hsplit hhex h2
    (Or.inr ⟨34, _, rfl, by decide⟩) hrst
  subst ew er
  have hsw : scanWord isXDigit 34 h0 { left := h0 :: [34], right := hu ++ 34 :: (sp ++ d :: rest), skipws := true } =
      (h0 :: hu, 34, { left := 34 :: ((h0 :: hu).reverse ++ [34]), right := sp ++ d :: rest, skipws := true }) := by
    rcases h3 with ⟨hw, _, _⟩ | ⟨_, hr, _⟩ | ⟨_, u, hr, _, he⟩ | ⟨_, x, u, hr, hxq, _, _⟩
    · cases hw
    · cases hr
    · simp only [List.cons.injEq, true_and] at hr; subst hr; exact he
    · simp only [List.cons.injEq] at hr; exact absurd hr.1.symm hxq
  have hcri := cri_gap_delim cfg (34 :: ((h0 :: hu).reverse ++ [34])) sp rest d false true Sev.null hsp hdd hdn
  simp only [attrRead, hpre, peekC_good]
  simp only [show ((34 : Byte) == 36 || (34 : Byte) == 44 || (34 : Byte) == 41) = false from by decide, Bool.false_eq_true, if_false,
    readBinary, ws_good0 _ _ _ _ (show isSpace 34 = false from by decide), IStream.good, Bool.not_false, Bool.and_self, Bool.not_true,
    getInto_good, beq_self_eq_true, Bool.true_or, if_true, hsw]
  simp only [List.reverse_cons, List.append_assoc, List.cons_append, List.nil_append] at hcri
  simp [Sev.warnIf, hcri]

/-- BINARY, accept, for the executable recognisers: every token of the grammar (and every lenient one) -/
theorem C09_accept_binary_token {F} (ops : FloatOps F) (cfg : LexCfg) (lookup : Int → RefLookup) (nullable : Bool)
    (tok body sp rest : List Byte) (d : Byte) (hb : binaryBody tok = some body) (hl : isBinaryLenient tok = true)
    (hsp : Gap cfg sp) (hd : d = 44 ∨ d = 41) :
    attrRead ops cfg lookup .binary nullable (IStream.ofBytes (tok ++ sp ++ d :: rest)) =
      .ok ⟨.null, .bin body, { left := sp.reverse ++ tok.reverse, right := d :: rest }⟩ := by
  have ht := binaryBody_eq tok body hb
  subst ht
  have hbody : body ≠ [] ∧ body.all isXDigit = true := by
    unfold isBinaryLenient at hl
    rw [hb] at hl
    cases body with
    | nil => simp at hl
    | cons a u => exact ⟨by simp, by simpa using hl⟩
  exact C09_accept_binary ops cfg lookup nullable body sp rest d hbody.1 hbody.2 hsp hd

/-- entity reference, accept (any configuration): `#` digits whose value fits `int` and names an existing instance of a
    conforming type, blanks, a delimiter: the attribute refers to that instance, no error, the stream stops at the delimiter -/
theorem C09_accept_ref {F} (ops : FloatOps F) (cfg : LexCfg) (lookup : Int → RefLookup) (nullable : Bool)
    (ds sp rest : List Byte) (d : Byte) (hne : ds ≠ []) (hds : ds.all isDigit = true)
    (hrange : ((digitsVal ds 0 : Nat) : Int) ≤ intMax) (hfound : lookup ((digitsVal ds 0 : Nat) : Int) = .found)
    (hsp : Gap cfg sp) (hd : d = 44 ∨ d = 41) :
    attrRead ops cfg lookup .ref nullable (IStream.ofBytes (35 :: ds ++ sp ++ d :: rest)) =
      .ok ⟨.null, .ref ((digitsVal ds 0 : Nat) : Int), { left := sp.reverse ++ (35 :: ds).reverse, right := d :: rest }⟩ := by
  have hdd : isDelim attrDelims d = true := by rcases hd with rfl | rfl <;> decide
  have hdn : isSpace d = false := by rcases hd with rfl | rfl <;> decide
  have hdg : isDigit d = false := by rcases hd with rfl | rfl <;> decide
  obtain ⟨d0, du, rfl⟩ : ∃ d0 du, ds = d0 :: du := by
    cases ds with
    | nil => exact absurd rfl hne
    | cons d0 du => exact ⟨d0, du, rfl⟩
  have hd0 : isDigit d0 = true := by simp at hds; exact hds.1
  have hpre : (IStream.ofBytes (35 :: (d0 :: du) ++ sp ++ d :: rest)).ws =
      { left := [], right := 35 :: d0 :: (du ++ (sp ++ d :: rest)) } := by
    have := ws_good0 [] 35 (d0 :: (du ++ (sp ++ d :: rest))) true (by decide)
    simpa [IStream.ofBytes] using this
  have htok : isInteger (d0 :: du) = true := isInteger_unsigned _ hne hds
  have hr : (sp ++ d :: rest) = [] ∨ ∃ c t, (sp ++ d :: rest) = c :: t ∧ isDigit c = false := by
    obtain ⟨c', t', h', hdig, _⟩ := gap_cont cfg sp rest d hsp hd
    exact Or.inr ⟨c', t', h', hdig⟩
  have hscan := scanInt_token longMin longMax [35] (d0 :: du) (sp ++ d :: rest) htok hr
  have hss : splitSign (d0 :: du) = (false, d0 :: du) := splitSign_digits _ hne hds
  have hden : denoteInteger (d0 :: du) = ((digitsVal (d0 :: du) 0 : Nat) : Int) := by simp [denoteInteger, hss]
  have hge : (0 : Int) ≤ ((digitsVal (d0 :: du) 0 : Nat) : Int) := Int.natCast_nonneg _
  have h1 : ¬ ((digitsVal (d0 :: du) 0 : Nat) : Int) > longMax := by
    have : intMax ≤ longMax := by decide
    omega
  rw [hss, hden] at hscan
  simp only [Bool.false_eq_true, if_false, h1] at hscan
  simp only [List.cons_append] at hscan
  have h2 : ¬ ((digitsVal (d0 :: du) 0 : Nat) : Int) < intMin := by
    have : intMin ≤ 0 := by decide
    omega
  have h3 : ¬ ((digitsVal (d0 :: du) 0 : Nat) : Int) > intMax := by omega
  have hskip := extractInt32_of_scan [35] d0 (du ++ (sp ++ d :: rest)) _ _ _ (digit_not_space hd0) hscan h2 h3
  have hrne : (sp ++ d :: rest).isEmpty = false := by cases sp <;> rfl
  have hcri := cri_gap_delim cfg ((d0 :: du).reverse ++ [35]) sp rest d false true Sev.null hsp hdd hdn
  simp only [attrRead, hpre, peekC_good]
  simp only [show ((35 : Byte) == 36 || (35 : Byte) == 44 || (35 : Byte) == 41) = false from by decide, Bool.false_eq_true, if_false,
    readEntityRef, ws_good0 _ _ _ _ (show isSpace 35 = false from by decide), getChar_good _ _ _ (show isSpace 35 = false from by decide),
    Option.getD_some, Option.isSome_some, Bool.and_true, beq_self_eq_true, Bool.true_or, if_true,
    show ((35 : Byte) == 64) = false from by decide, refTail, hskip, IStream.failed, Bool.or_self, hrne, hcri, hfound]
  simp

/-- BOOLEAN / LOGICAL / ENUMERATION, accept (any configuration): `.` word `.` where the upper-cased word is item `i` of the
    kind's table (not the unset slot), blanks, a delimiter: item `i`, no error, the stream stops at the delimiter -/
theorem C09_accept_enum {F} (ops : FloatOps F) (cfg : LexCfg) (lookup : Int → RefLookup) (k : Kind) (hk : EnumLike k)
    (nullable : Bool) (name sp rest : List Byte) (d : Byte) (i : Nat)
    (hne : name ≠ []) (hname : name.all pw = true) (hfind : findName k.enumKind.table (name.map toUpper) = some i)
    (hset : k.enumKind.isUnsetIdx i = false)
    (hsp : Gap cfg sp) (hd : d = 44 ∨ d = 41) :
    attrRead ops cfg lookup k nullable (IStream.ofBytes (46 :: (name ++ [46]) ++ sp ++ d :: rest)) =
      .ok ⟨.null, .enum i, { left := sp.reverse ++ (46 :: (name ++ [46])).reverse, right := d :: rest }⟩ := by
  have hdd : isDelim attrDelims d = true := by rcases hd with rfl | rfl <;> decide
  have hdn : isSpace d = false := by rcases hd with rfl | rfl <;> decide
  obtain ⟨n0, nu, rfl⟩ : ∃ n0 nu, name = n0 :: nu := by
    cases name with
    | nil => exact absurd rfl hne
    | cons n0 nu => exact ⟨n0, nu, rfl⟩
  -- the word
  obtain ⟨w, rst, h1, h2, h3⟩ := enumWord_spec n0 [46] (nu ++ 46 :: (sp ++ d :: rest)) true
  have hsplit : (n0 :: nu) ++ (46 :: (sp ++ d :: rest)) = w ++ rst := by simpa using h1
  have hrst : rst = [] ∨ ∃ c t, rst = c :: t ∧ pw c = false := by
    rcases h3 with ⟨hw, hp, _⟩ | ⟨_, hr, _⟩ | ⟨_, u, hr, _⟩ | ⟨_, x, u, hr, _, hx, _⟩
    · subst hw; simp at h1; exact Or.inr ⟨n0, _, h1.symm, hp⟩
    · exact Or.inl hr
    · exact Or.inr ⟨46, u, hr, pw_not_dot⟩
    · exact Or.inr ⟨x, u, hr, hx⟩
  obtain ⟨ew, er⟩ := prefix_unique pw (n0 :: nu) w (46 :: (sp ++ d :: rest)) rst hsplit hname h2
    (Or.inr ⟨46, _, rfl, pw_not_dot⟩) hrst
  subst ew er
  have hsw : enumWord n0 { left := n0 :: [46], right := nu ++ 46 :: (sp ++ d :: rest), skipws := true } =
      (n0 :: nu, 46, { left := 46 :: ((n0 :: nu).reverse ++ [46]), right := sp ++ d :: rest, skipws := true }) := by
    rcases h3 with ⟨hw, _, _⟩ | ⟨_, hr, _⟩ | ⟨_, u, hr, he⟩ | ⟨_, x, u, hr, hxq, _, _⟩
    · cases hw
    · cases hr
    · simp only [List.cons.injEq, true_and] at hr; subst hr; exact he
    · simp only [List.cons.injEq] at hr; exact absurd hr.1.symm hxq
  have hfin : enumFinish cfg k.enumKind true false (n0 :: nu) 46 Sev.null = (some i, Sev.null) := by
    simp only [List.map_cons] at hfind
    simp [enumFinish, hfind, hset, Sev.warnIf]
  have hcri := cri_gap_delim cfg (46 :: ((n0 :: nu).reverse ++ [46])) sp rest d false true Sev.null hsp hdd hdn
  simp only [List.reverse_cons, List.append_assoc, List.cons_append, List.nil_append] at hcri
  have hcond : ((46 : Byte) == 36 || (46 : Byte) == 44 || (46 : Byte) == 41) = false := by decide
  have hshape := attrRead_enumlike ops cfg lookup k hk nullable [] (n0 :: (nu ++ 46 :: (sp ++ d :: rest))) 46 (by simp) (by decide) hcond
  simp only [List.nil_append, List.reverse_nil] at hshape
  have hin : (46 :: ((n0 :: nu) ++ [46]) ++ sp ++ d :: rest) = 46 :: n0 :: (nu ++ 46 :: (sp ++ d :: rest)) := by simp
  rw [hin, hshape]
  simp only [enumRead, readEnum, ws_good0 _ _ _ _ (show isSpace 46 = false from by decide), IStream.good, Bool.not_false, Bool.and_self,
    Bool.not_true, Bool.false_eq_true, if_false, getInto_good, beq_self_eq_true, Bool.true_or, if_true, hsw, List.isEmpty_cons, hfin]
  simp [enumValue, hset, hcri]

/-- STRING, writer: the value is the literal; it is written as it is and reads back -/
theorem C09_write_read_string {F} (ops : FloatOps F) (cfg : LexCfg) (lookup : Int → RefLookup) (nullable : Bool)
    (tok sp rest : List Byte) (d : Byte) (htok : isString tok = true) (hsp : Gap cfg sp) (hd : d = 44 ∨ d = 41) :
    attrWrite ops .string (.str tok) = tok ∧
    attrRead ops cfg lookup .string nullable (IStream.ofBytes (attrWrite ops .string (.str tok) ++ sp ++ d :: rest)) =
      .ok ⟨.null, .str tok, { left := sp.reverse ++ tok.reverse, right := d :: rest, skipws := false }⟩ :=
  ⟨rfl, C09_accept_string ops cfg lookup nullable tok sp rest d htok hsp hd⟩

/-- BINARY, writer: digits between double quotes, reads back -/
theorem C09_write_read_binary {F} (ops : FloatOps F) (cfg : LexCfg) (lookup : Int → RefLookup) (nullable : Bool)
    (hex sp rest : List Byte) (d : Byte) (hne : hex ≠ []) (hhex : hex.all isXDigit = true)
    (hsp : Gap cfg sp) (hd : d = 44 ∨ d = 41) :
    attrWrite ops .binary (.bin hex) = 34 :: (hex ++ [34]) ∧
    attrRead ops cfg lookup .binary nullable (IStream.ofBytes (attrWrite ops .binary (.bin hex) ++ sp ++ d :: rest)) =
      .ok ⟨.null, .bin hex, { left := sp.reverse ++ (34 :: (hex ++ [34])).reverse, right := d :: rest }⟩ := by
  have hw : attrWrite ops .binary (.bin hex) = 34 :: (hex ++ [34]) := by
    cases hex with
    | nil => exact absurd rfl hne
    | cons a u => simp [attrWrite, writeBinary]
  exact ⟨hw, by rw [hw]; exact C09_accept_binary ops cfg lookup nullable hex sp rest d hne hhex hsp hd⟩

/-- entity reference, writer: `#` and the decimal id, reads back to the same instance -/
theorem C09_write_read_ref {F} (ops : FloatOps F) (cfg : LexCfg) (lookup : Int → RefLookup) (nullable : Bool)
    (id : Nat) (sp rest : List Byte) (d : Byte) (hrange : (id : Int) ≤ intMax) (hfound : lookup (id : Int) = .found)
    (hsp : Gap cfg sp) (hd : d = 44 ∨ d = 41) :
    isRef (attrWrite ops .ref (.ref (id : Int))) = true ∧ denoteRef (attrWrite ops .ref (.ref (id : Int))) = (id : Int) ∧
    attrRead ops cfg lookup .ref nullable (IStream.ofBytes (attrWrite ops .ref (.ref (id : Int)) ++ sp ++ d :: rest)) =
      .ok ⟨.null, .ref (id : Int), { left := sp.reverse ++ (attrWrite ops .ref (.ref (id : Int))).reverse, right := d :: rest }⟩ := by
  obtain ⟨h1, h2, h3⟩ := toDigits_spec id
  have hw : attrWrite ops .ref (.ref (id : Int)) = 35 :: (Nat.toDigits 10 id).map Char.toNat := by
    have : ¬ ((id : Int) < 0) := by omega
    simp [attrWrite, showInt, this]
  rw [hw]
  refine ⟨?_, ?_, ?_⟩
  · simp only [isRef, allDigits, h2, Bool.and_true]
    cases hq : (List.map Char.toNat (Nat.toDigits 10 id)) with
    | nil => exact absurd hq h3
    | cons a u => rfl
  · simp [denoteRef, h1]
  · have := C09_accept_ref ops cfg lookup nullable _ sp rest d h3 h2 (by rw [h1]; exact hrange) (by rw [h1]; exact hfound) hsp hd
    rw [h1] at this
    exact this

/-- ENUMERATION (any item table), writer: for an item whose name is a word (letters, digits, `_`) that the table look-up
    finds at its own index, `.NAME.` is written and reads back -/
theorem C09_write_read_enum {F} (ops : FloatOps F) (cfg : LexCfg) (lookup : Int → RefLookup) (k : Kind) (hk : EnumLike k)
    (nullable : Bool) (i : Nat) (name sp rest : List Byte) (d : Byte)
    (hname : k.enumKind.table.getD i bUNSET = name) (hne : name ≠ []) (hpw : name.all pw = true)
    (hfind : findName k.enumKind.table (name.map toUpper) = some i) (hset : k.enumKind.isUnsetIdx i = false)
    (hsp : Gap cfg sp) (hd : d = 44 ∨ d = 41) :
    attrWrite ops k (.enum i) = 46 :: (name ++ [46]) ∧
    attrRead ops cfg lookup k nullable (IStream.ofBytes (attrWrite ops k (.enum i) ++ sp ++ d :: rest)) =
      .ok ⟨.null, .enum i, { left := sp.reverse ++ (46 :: (name ++ [46])).reverse, right := d :: rest }⟩ := by
  have hw : attrWrite ops k (.enum i) = 46 :: (name ++ [46]) := by
    simp only [attrWrite, hname]; simp
  exact ⟨hw, by rw [hw]; exact C09_accept_enum ops cfg lookup k hk nullable name sp rest d i hne hpw hfind hset hsp hd⟩

/-- entity reference, representability guard: `#` and a digit string of *any* length whose value does not fit the library's
    `int` raises an error and leaves the attribute unset — it never resolves to an instance, whatever instances exist
    (any configuration, any look-up) -/
theorem C09_reject_ref_unrepresentable {F} (ops : FloatOps F) (cfg : LexCfg) (lookup : Int → RefLookup) (nullable : Bool)
    (ds sp rest : List Byte) (d : Byte) (hne : ds ≠ []) (hds : ds.all isDigit = true)
    (hbig : refRepresentable ((digitsVal ds 0 : Nat) : Int) = false)
    (hsp : Gap cfg sp) (hd : d = 44 ∨ d = 41) :
    ∃ r, attrRead ops cfg lookup .ref nullable (IStream.ofBytes (35 :: ds ++ sp ++ d :: rest)) = .ok r ∧
      ¬ NoErr r.sev ∧ r.val = .unset ∧ r.s.right = d :: rest := by
  have hdd : isDelim attrDelims d = true := by rcases hd with rfl | rfl <;> decide
  have hdn : isSpace d = false := by rcases hd with rfl | rfl <;> decide
  have hdg : isDigit d = false := by rcases hd with rfl | rfl <;> decide
  obtain ⟨d0, du, rfl⟩ : ∃ d0 du, ds = d0 :: du := by
    cases ds with
    | nil => exact absurd rfl hne
    | cons d0 du => exact ⟨d0, du, rfl⟩
  have hd0 : isDigit d0 = true := by simp at hds; exact hds.1
  have hgt : ((digitsVal (d0 :: du) 0 : Nat) : Int) > intMax := by
    have hge : (0 : Int) ≤ ((digitsVal (d0 :: du) 0 : Nat) : Int) := Int.natCast_nonneg _
    have : intMin ≤ 0 := by decide
    simp only [refRepresentable, Bool.and_eq_false_iff, decide_eq_false_iff_not] at hbig
    rcases hbig with h | h <;> omega
  have hpre : (IStream.ofBytes (35 :: (d0 :: du) ++ sp ++ d :: rest)).ws =
      { left := [], right := 35 :: d0 :: (du ++ (sp ++ d :: rest)) } := by
    have := ws_good0 [] 35 (d0 :: (du ++ (sp ++ d :: rest))) true (by decide)
    simpa [IStream.ofBytes] using this
  have htok : isInteger (d0 :: du) = true := isInteger_unsigned _ hne hds
  have hr : (sp ++ d :: rest) = [] ∨ ∃ c t, (sp ++ d :: rest) = c :: t ∧ isDigit c = false := by
    obtain ⟨c', t', h', hdig, _⟩ := gap_cont cfg sp rest d hsp hd
    exact Or.inr ⟨c', t', h', hdig⟩
  have hscan := scanInt_token longMin longMax [35] (d0 :: du) (sp ++ d :: rest) htok hr
  have hss : splitSign (d0 :: du) = (false, d0 :: du) := splitSign_digits _ hne hds
  have hden : denoteInteger (d0 :: du) = ((digitsVal (d0 :: du) 0 : Nat) : Int) := by simp [denoteInteger, hss]
  rw [hss, hden] at hscan
  simp only [Bool.false_eq_true, if_false, List.cons_append] at hscan
  -- whichever way `in >> long` went, the value handed on exceeds INT_MAX
  have hres : ∃ res, scanInt longMin longMax [35] (d0 :: (du ++ (sp ++ d :: rest))) = (res, (d0 :: du).reverse ++ [35], sp ++ d :: rest) ∧
      res.value > intMax := by
    by_cases hl : ((digitsVal (d0 :: du) 0 : Nat) : Int) > longMax
    · simp only [hl, if_true] at hscan
      exact ⟨_, hscan, by decide⟩
    · simp only [hl, if_false] at hscan
      exact ⟨_, hscan, hgt⟩
  obtain ⟨res, hsc, hrv⟩ := hres
  have hx := extractInt32_of_scan_hi [35] d0 (du ++ (sp ++ d :: rest)) res _ _ (digit_not_space hd0) hsc hrv
  have hcri := cri_gap_delim cfg ((d0 :: du).reverse ++ [35]) sp rest d true true
    ((Sev.null).greater Sev.warning) hsp hdd hdn
  have hrne : (sp ++ d :: rest).isEmpty = false := by cases sp <;> rfl
  refine ⟨⟨Sev.null.greater Sev.warning, .unset,
    { left := sp.reverse ++ ((d0 :: du).reverse ++ [35]), right := d :: rest }⟩, ?_, ?_, ?_, ?_⟩
  · simp only [attrRead, hpre, peekC_good]
    simp only [show ((35 : Byte) == 36 || (35 : Byte) == 44 || (35 : Byte) == 41) = false from by decide, Bool.false_eq_true, if_false,
      readEntityRef, ws_good0 _ _ _ _ (show isSpace 35 = false from by decide), getChar_good _ _ _ (show isSpace 35 = false from by decide),
      Option.getD_some, Option.isSome_some, Bool.and_true, beq_self_eq_true, Bool.true_or, if_true,
      show ((35 : Byte) == 64) = false from by decide, refTail, hx, IStream.failed, Bool.true_or, hrne, hcri]
  · simp [NoErr, Sev.greater, Sev.toInt]
  · rfl
  · rfl

/-! ## the delimiter is never consumed, for any input (all kinds) -/

/-- NUMBER: the delimiter is never consumed, for any input and any configuration -/
theorem C09_delim_kept_number {F} (ops : FloatOps F) (cfg : LexCfg) (lookup : Int → RefLookup) (nullable : Bool)
    (input : List Byte) (r : ReadResult F)
    (h : attrRead ops cfg lookup .number nullable (IStream.ofBytes input) = .ok r) : KeptDelims cfg input r.s := by
  obtain ⟨sp1, body, h1, h2, h3, h4⟩ := dropSpaces_split [] input
  rcases h4 with rfl | ⟨c, t, rfl, hc⟩
  · simp at h1; subst h1
    have hws : (IStream.ofBytes input).ws = { left := input.reverse, right := [], eof := true } := by
      simpa [IStream.ofBytes] using ws_blank [] input true h2
    simp only [attrRead, hws] at h
    simp [IStream.peekC, IStream.peek, IStream.sentry, IStream.good, readNumber, IStream.ws, IStream.extractFloatText,
      checkRemainingInput, realValue, IStream.failed, Sev.warnIf] at h
    subst h
    exact ⟨input, [], [], by simp, by simp, NoCP.blanks h2, Between.nil cfg, NoCP.nil⟩
  · subst h1
    by_cases h36 : c = 36
    · subst h36; exact kept_dollar ops cfg lookup _ nullable sp1 t h2 r h
    · by_cases hdl : c = 44 ∨ c = 41
      · exact kept_missing ops cfg lookup _ nullable sp1 t c h2 hdl r h
      · have hcond : (c == 36 || c == 44 || c == 41) = false := by
          simp at hdl ⊢; exact ⟨⟨h36, hdl.1⟩, hdl.2⟩
        have hpre : (IStream.ofBytes (sp1 ++ c :: t)).ws = { left := sp1.reverse, right := c :: t } := by
          simpa [IStream.ofBytes] using ws_good [] sp1 c t true h2 hc
        simp only [attrRead, hpre, peekC_good, hcond, readNumber, ws_good0 _ _ _ _ hc, extractFloatText_good _ _ _ hc] at h
        simp only [Bool.false_eq_true, if_false, Outcome.ok.injEq] at h
        obtain ⟨hwf, happ, hscan⟩ := numSplit_spec sp1.reverse (c :: t)
        generalize numSplit (c :: t) = ns at hwf happ hscan
        obtain ⟨f, rest⟩ := ns
        simp only at hwf happ hscan
        rw [hscan] at h
        simp only at h
        rw [happ]
        cases hconv : ops.conv f.norm.text with
        | ok v =>
          simp only [hconv] at h; subst h
          simpa [List.append_assoc] using kept_through_cri cfg sp1 f.text rest rest.isEmpty false true _ h2 (numForm_noCP f hwf)
        | invalid =>
          simp only [hconv, IStream.setFail] at h; subst h
          simpa [List.append_assoc] using kept_through_cri cfg sp1 f.text rest rest.isEmpty true true _ h2 (numForm_noCP f hwf)
        | overflow =>
          simp only [hconv, IStream.setFail] at h; subst h
          simpa [List.append_assoc] using kept_through_cri cfg sp1 f.text rest rest.isEmpty true true _ h2 (numForm_noCP f hwf)


/-- REAL: the delimiter is never consumed, for any input and any configuration -/
theorem C09_delim_kept_real {F} (ops : FloatOps F) (cfg : LexCfg) (lookup : Int → RefLookup) (nullable : Bool)
    (input : List Byte) (r : ReadResult F)
    (h : attrRead ops cfg lookup .real nullable (IStream.ofBytes input) = .ok r) : KeptDelims cfg input r.s := by
  obtain ⟨sp1, body, h1, h2, h3, h4⟩ := dropSpaces_split [] input
  rcases h4 with rfl | ⟨c, t, rfl, hc⟩
  · simp at h1; subst h1
    have hws : (IStream.ofBytes input).ws = { left := input.reverse, right := [], eof := true } := by
      simpa [IStream.ofBytes] using ws_blank [] input true h2
    simp only [attrRead, hws] at h
    simp [IStream.peekC, IStream.peek, IStream.sentry, IStream.good, readReal, IStream.ws, checkRemainingInput, realValue] at h
    subst h
    exact ⟨input, [], [], by simp, by simp, NoCP.blanks h2, Between.nil cfg, NoCP.nil⟩
  · subst h1
    by_cases h36 : c = 36
    · subst h36; exact kept_dollar ops cfg lookup _ nullable sp1 t h2 r h
    · by_cases hdl : c = 44 ∨ c = 41
      · exact kept_missing ops cfg lookup _ nullable sp1 t c h2 hdl r h
      · have hcond : (c == 36 || c == 44 || c == 41) = false := by
          simp at hdl ⊢; exact ⟨⟨h36, hdl.1⟩, hdl.2⟩
        have hpre : (IStream.ofBytes (sp1 ++ c :: t)).ws = { left := sp1.reverse, right := c :: t } := by
          simpa [IStream.ofBytes] using ws_good [] sp1 c t true h2 hc
        simp only [attrRead, hpre, peekC_good, hcond, readReal, ws_good0 _ _ _ _ hc, IStream.good] at h
        simp only [Bool.false_eq_true, if_false, Bool.not_false, Bool.and_self, Bool.not_true] at h
        have happ := realCollect_append (c :: t)
        have hcp := realCollect_noCP (c :: t)
        generalize realCollect (c :: t) = rc at h happ hcp
        obtain ⟨buf, rest, e⟩ := rc
        simp only at h happ hcp
        rw [← happ]
        by_cases hov : (cfg.realBuf != 0 && decide (buf.length ≥ cfg.realBuf)) = true
        · simp [hov] at h
        · simp only [hov, Bool.false_eq_true, if_false] at h
          cases hconv : ops.conv (scanFloat [] buf).1 with
          | ok v =>
            simp only [hconv, Outcome.ok.injEq] at h; subst h
            simpa [List.append_assoc] using kept_through_cri cfg sp1 buf rest rest.isEmpty false true _ h2 hcp
          | invalid =>
            simp only [hconv, Outcome.ok.injEq] at h; subst h
            simpa [List.append_assoc] using kept_through_cri cfg sp1 buf rest rest.isEmpty false true _ h2 hcp
          | overflow =>
            simp only [hconv, Outcome.ok.injEq] at h; subst h
            simpa [List.append_assoc] using kept_through_cri cfg sp1 buf rest rest.isEmpty false true _ h2 hcp


/-- BINARY: the delimiter is never consumed, for any input and any configuration -/
theorem C09_delim_kept_binary {F} (ops : FloatOps F) (cfg : LexCfg) (lookup : Int → RefLookup) (nullable : Bool)
    (input : List Byte) (r : ReadResult F)
    (h : attrRead ops cfg lookup .binary nullable (IStream.ofBytes input) = .ok r) : KeptDelims cfg input r.s := by
  obtain ⟨sp1, body, h1, h2, h3, h4⟩ := dropSpaces_split [] input
  rcases h4 with rfl | ⟨c, t, rfl, hc⟩
  · simp at h1; subst h1
    have hws : (IStream.ofBytes input).ws = { left := input.reverse, right := [], eof := true } := by
      simpa [IStream.ofBytes] using ws_blank [] input true h2
    simp only [attrRead, hws] at h
    simp [IStream.peekC, IStream.peek, IStream.sentry, IStream.good, readBinary, IStream.ws, checkRemainingInput] at h
    subst h
    exact ⟨input, [], [], by simp, by simp, NoCP.blanks h2, Between.nil cfg, NoCP.nil⟩
  · subst h1
    by_cases h36 : c = 36
    · subst h36; exact kept_dollar ops cfg lookup _ nullable sp1 t h2 r h
    · by_cases hdl : c = 44 ∨ c = 41
      · exact kept_missing ops cfg lookup _ nullable sp1 t c h2 hdl r h
      · have hcond : (c == 36 || c == 44 || c == 41) = false := by
          simp at hdl ⊢; exact ⟨⟨h36, hdl.1⟩, hdl.2⟩
        have hcNo : NoCP [c] := by
          intro b hb; simp at hb; subst hb; simp at hdl; exact hdl
        have hpre : (IStream.ofBytes (sp1 ++ c :: t)).ws = { left := sp1.reverse, right := c :: t } := by
          simpa [IStream.ofBytes] using ws_good [] sp1 c t true h2 hc
        simp only [attrRead, hpre, peekC_good, hcond, Bool.false_eq_true, if_false, Outcome.ok.injEq, readBinary,
          ws_good0 _ _ _ _ hc, IStream.good, Bool.not_false, Bool.and_self, Bool.not_true, getInto_good] at h
        by_cases hq : c = 34
        · subst hq
          simp only [beq_self_eq_true, Bool.true_or, if_true] at h
          cases t with
          | nil =>
            simp only [getInto_end] at h
            rw [scanWord_notgood isXDigit 34 34 _ (by simp [IStream.good])] at h
            subst h
            simp only
            generalize Sev.warnIf _ _ = E
            have := kept_through_cri' cfg sp1 [34] { left := 34 :: sp1.reverse, right := [], eof := true, fail := true, skipws := true }
              E h2 hcNo rfl rfl
            simpa using this
          | cons c1 t1 =>
            simp only [getInto_good] at h
            obtain ⟨k, hk1, hk2, hk3, hk4, _⟩ := scanWord_stream isXDigit 34 c1 (34 :: sp1.reverse) t1 true
            generalize scanWord isXDigit 34 c1 { left := c1 :: 34 :: sp1.reverse, right := t1, skipws := true } = sw at h hk1 hk2 hk4
            obtain ⟨str, c2, s5⟩ := sw
            simp only at h hk1 hk2 hk4
            subst h
            simp only
            generalize Sev.warnIf _ _ = E
            have := kept_through_cri' cfg sp1 (34 :: k) s5 E h2
              (NoCP.append (a := [34]) (by intro b hb; simp at hb; subst hb; decide) (xdigit_noCP k hk3)) hk4
              (by rw [hk1]; simp)
            simpa [hk2] using this
        · have hq' : (c == 34) = false := by simpa using hq
          simp only [hq', Bool.false_or, Bool.false_eq_true, if_false] at h
          by_cases hx : isXDigit c = true
          · simp only [hx, if_true] at h
            obtain ⟨k, hk1, hk2, hk3, hk4, _⟩ := scanWord_stream isXDigit 34 c sp1.reverse t true
            generalize scanWord isXDigit 34 c { left := c :: sp1.reverse, right := t, skipws := true } = sw at h hk1 hk2 hk4
            obtain ⟨str, c2, s5⟩ := sw
            simp only at h hk1 hk2 hk4
            subst h
            simp only
            generalize Sev.warnIf _ _ = E
            have := kept_through_cri' cfg sp1 k s5 E h2 (xdigit_noCP k hk3) hk4 hk1
            simpa [hk2] using this
          · have hx' : isXDigit c = false := by simpa using hx
            simp only [hx', Bool.false_eq_true, if_false] at h
            subst h
            have := kept_through_cri' cfg sp1 [c] { left := c :: sp1.reverse, right := t, skipws := true } (Sev.null.greater Sev.warning)
              h2 hcNo rfl rfl
            simpa using this


/-- BOOLEAN / LOGICAL / ENUMERATION: the delimiter is never consumed, for any input and any configuration -/
theorem C09_delim_kept_enum {F} (ops : FloatOps F) (cfg : LexCfg) (lookup : Int → RefLookup) (k : Kind) (hk : EnumLike k)
    (nullable : Bool) (input : List Byte) (r : ReadResult F)
    (h : attrRead ops cfg lookup k nullable (IStream.ofBytes input) = .ok r) : KeptDelims cfg input r.s := by
  obtain ⟨sp1, body, h1, h2, h3, h4⟩ := dropSpaces_split [] input
  rcases h4 with rfl | ⟨c, t, rfl, hc⟩
  · simp at h1; subst h1
    have hws : (IStream.ofBytes input).ws = { left := input.reverse, right := [], eof := true } := by
      simpa [IStream.ofBytes] using ws_blank [] input true h2
    have : r.s = { left := input.reverse, right := [], eof := true, fail := true } := by
      rcases hk with rfl | rfl | ⟨items, rfl⟩ <;> simp only [attrRead, hws] at h <;>
        simp [IStream.peekC, IStream.peek, IStream.sentry, IStream.good, enumRead, readEnum, IStream.ws,
          checkRemainingInput] at h <;> rw [← h]
    rw [this]
    exact ⟨input, [], [], by simp, by simp, NoCP.blanks h2, Between.nil cfg, NoCP.nil⟩
  · subst h1
    by_cases h36 : c = 36
    · subst h36; exact kept_dollar ops cfg lookup _ nullable sp1 t h2 r h
    · by_cases hdl : c = 44 ∨ c = 41
      · exact kept_missing ops cfg lookup _ nullable sp1 t c h2 hdl r h
      · have hcond : (c == 36 || c == 44 || c == 41) = false := by
          simp at hdl ⊢; exact ⟨⟨h36, hdl.1⟩, hdl.2⟩
        have hcNo : NoCP [c] := by
          intro b hb; simp at hb; subst hb; simp at hdl; exact hdl
        rw [attrRead_enumlike ops cfg lookup k hk nullable sp1 t c h2 hc hcond] at h
        simp only [Outcome.ok.injEq] at h
        subst h
        simp only
        -- the stream ReadEnum leaves, whatever it reports
        have key : ∃ kk, NoCP kk ∧ (readEnum cfg k.enumKind true { left := sp1.reverse, right := c :: t } Sev.null).2.1.bad = false ∧
            (readEnum cfg k.enumKind true { left := sp1.reverse, right := c :: t } Sev.null).2.1.left = kk.reverse ++ sp1.reverse ∧
            c :: t = kk ++ (readEnum cfg k.enumKind true { left := sp1.reverse, right := c :: t } Sev.null).2.1.right := by
          simp only [readEnum, ws_good0 _ _ _ _ hc, IStream.good, Bool.not_false, Bool.and_self, Bool.not_true, Bool.false_eq_true,
            if_false, getInto_good]
          have hcd : (c == 44 || c == 41) = false := by simp at hdl; simp [hdl.1, hdl.2]
          by_cases hq : c = 46
          · subst hq
            simp only [beq_self_eq_true, Bool.true_or, if_true]
            cases t with
            | nil =>
              simp only [getInto_end]
              rw [enumWord_notgood 46 _ (by simp [IStream.good])]
              refine ⟨[46], hcNo, ?_, ?_, ?_⟩ <;> simp
            | cons c1 t1 =>
              simp only [getInto_good]
              rw [enumWord_as_scanWord]
              obtain ⟨kk, hk1, hk2, hk3, hk4, _⟩ := scanWord_stream pw 46 c1 (46 :: sp1.reverse) t1 true
              generalize scanWord pw 46 c1 { left := c1 :: 46 :: sp1.reverse, right := t1, skipws := true } = sw at hk1 hk2 hk4 ⊢
              obtain ⟨str, c3, s6⟩ := sw
              simp only at hk1 hk2 hk4
              refine ⟨46 :: kk, NoCP.append (a := [46]) hcNo (pw_noCP kk hk3), ?_, ?_, ?_⟩
              · split <;> (try split) <;> simp [hk4]
              · split <;> (try split) <;> simp [hk1]
              · split <;> (try split) <;> simp [hk2]
          · have hq' : (c == 46) = false := by simpa using hq
            simp only [hq', Bool.false_or, Bool.false_eq_true, if_false]
            by_cases ha : isAlpha c = true
            · simp only [ha, if_true]
              rw [enumWord_as_scanWord]
              obtain ⟨kk, hk1, hk2, hk3, hk4, _⟩ := scanWord_stream pw 46 c sp1.reverse t true
              generalize scanWord pw 46 c { left := c :: sp1.reverse, right := t, skipws := true } = sw at hk1 hk2 hk4 ⊢
              obtain ⟨str, c3, s6⟩ := sw
              simp only at hk1 hk2 hk4
              refine ⟨kk, pw_noCP kk hk3, ?_, ?_, ?_⟩
              · split <;> (try split) <;> simp [hk4]
              · split <;> (try split) <;> simp [hk1]
              · split <;> (try split) <;> simp [hk2]
            · have ha' : isAlpha c = false := by simpa using ha
              simp only [ha', Bool.false_eq_true, if_false, hcd, putback_good]
              exact ⟨[], NoCP.nil, by triv, by simp, by simp⟩
        obtain ⟨kk, hkk, hb, hl, hr⟩ := key
        have hrd : (enumRead cfg k.enumKind nullable { left := sp1.reverse, right := c :: t } Sev.null).2.1 =
            (readEnum cfg k.enumKind true { left := sp1.reverse, right := c :: t } Sev.null).2.1 := by
          simp [enumRead]
        rw [hrd]
        have := kept_through_cri' cfg sp1 kk _ (enumRead cfg k.enumKind nullable { left := sp1.reverse, right := c :: t } Sev.null).2.2
          h2 hkk hb hl
        rw [List.append_assoc, ← hr] at this
        exact this


/-- entity reference: the delimiter is never consumed, for any input and any configuration -/
theorem C09_delim_kept_ref {F} (ops : FloatOps F) (cfg : LexCfg) (lookup : Int → RefLookup)
    (nullable : Bool) (input : List Byte) (r : ReadResult F)
    (h : attrRead ops cfg lookup .ref nullable (IStream.ofBytes input) = .ok r) : KeptDelims cfg input r.s := by
  obtain ⟨sp1, body, h1, h2, h3, h4⟩ := dropSpaces_split [] input
  rcases h4 with rfl | ⟨c, t, rfl, hc⟩
  · simp at h1; subst h1
    have hws : (IStream.ofBytes input).ws = { left := input.reverse, right := [], eof := true } := by
      simpa [IStream.ofBytes] using ws_blank [] input true h2
    simp only [attrRead, hws] at h
    simp [IStream.peekC, IStream.peek, IStream.sentry, IStream.good, readEntityRef, IStream.ws, IStream.getChar,
      IStream.putback, checkRemainingInput, IStream.clear, sepSkip, skipSeps, dropSpaces] at h
    have : r.s.left = input.reverse ∧ r.s.right = [] := by
      rw [← h]; cases cfg.criSkipsComments <;> simp [IStream.ws, IStream.sentry, IStream.good, dropSpaces]
    exact ⟨input, [], [], by simp [this.2], by simp [this.1], NoCP.blanks h2, Between.nil cfg, NoCP.nil⟩
  · subst h1
    by_cases h36 : c = 36
    · subst h36; exact kept_dollar ops cfg lookup _ nullable sp1 t h2 r h
    · by_cases hdl : c = 44 ∨ c = 41
      · exact kept_missing ops cfg lookup _ nullable sp1 t c h2 hdl r h
      · have hcond : (c == 36 || c == 44 || c == 41) = false := by
          simp at hdl ⊢; exact ⟨⟨h36, hdl.1⟩, hdl.2⟩
        have hcNo : NoCP [c] := by
          intro b hb; simp at hb; subst hb; simp at hdl; exact hdl
        have hpre : (IStream.ofBytes (sp1 ++ c :: t)).ws = { left := sp1.reverse, right := c :: t } := by
          simpa [IStream.ofBytes] using ws_good [] sp1 c t true h2 hc
        simp only [attrRead, hpre, peekC_good, hcond, readEntityRef, ws_good0 _ _ _ _ hc, getChar_good _ _ _ hc] at h
        simp only [Bool.false_eq_true, if_false, Option.getD_some, Option.isSome_some, Bool.and_true, Outcome.ok.injEq] at h
        -- every path ends in CheckRemainingInput on a stream that took `kk` after the blanks
        have key : ∀ (kk : List Byte) (s' : IStream) (E : Sev), NoCP kk → s'.bad = false →
            s'.left = kk.reverse ++ sp1.reverse → c :: t = kk ++ s'.right →
            KeptDelims cfg (sp1 ++ c :: t) (checkRemainingInput cfg (some attrDelims) s' E).1 := by
          intro kk s' E a1 a2 a3 a4
          have := kept_through_cri' cfg sp1 kk s' E h2 a1 a2 a3
          rw [List.append_assoc, ← a4] at this
          exact this
        by_cases hsharp : (c == 35 || c == 64) = true
        · simp only [hsharp, if_true] at h
          obtain ⟨E, hE⟩ := refTail_stream cfg lookup { left := c :: sp1.reverse, right := t, skipws := true }
            (if (c == 64) = true then Sev.null.greater Sev.warning else Sev.null)
          have hrs : r.s = (refTail cfg lookup (some attrDelims) { left := c :: sp1.reverse, right := t, skipws := true }
              (if (c == 64) = true then Sev.null.greater Sev.warning else Sev.null)).2.1 := by rw [← h]
          rw [hrs, hE]
          obtain ⟨spx, body', hb1, hb2, hb3, hb4⟩ := dropSpaces_split (c :: sp1.reverse) t
          rcases hb4 with rfl | ⟨c', t', rfl, hc'⟩
          · simp only [List.append_nil] at hb1; subst hb1
            rw [extractInt32_blank _ _ hb2]
            exact key (c :: t) _ _ (NoCP.append (a := [c]) hcNo (NoCP.blanks hb2)) rfl (by simp) (by simp)
          · subst hb1
            rw [extractInt32_skip _ _ _ _ hb2 hc']
            obtain ⟨tok, rest, hr, _, hs2, _, htokd⟩ :=
              scanInt_split longMin longMax (by decide) (by decide) (spx.reverse ++ c :: sp1.reverse) (c' :: t')
            generalize scanInt longMin longMax (spx.reverse ++ c :: sp1.reverse) (c' :: t') = sc at hs2 ⊢
            obtain ⟨res, l', r'⟩ := sc
            simp only [Prod.mk.injEq] at hs2
            obtain ⟨rfl, rfl⟩ := hs2
            have hkk : NoCP (c :: (spx ++ tok)) :=
              NoCP.append (a := [c]) hcNo ((NoCP.blanks hb2).append (NoCP.of_notDelim htokd))
            have hin : c :: (spx ++ c' :: t') = (c :: (spx ++ tok)) ++ r' := by rw [hr]; simp
            refine key _ _ _ hkk ?_ ?_ ?_
            · rfl
            · simp
            · exact hin
        · have hno : (c == 35 || c == 64) = false := by simpa using hsharp
          simp only [hno, Bool.false_eq_true, if_false, putback_good] at h
          subst h
          exact key [] _ _ NoCP.nil rfl (by simp) (by simp)


/-- STRING: outside the literal itself (which may contain `,` and `)`), the delimiter is never consumed — for any input and
    any configuration: what the reader took is blanks, then nothing or a text that starts with an apostrophe, then separators,
    then a stretch without `,`/`)` -/
theorem C09_delim_kept_string {F} (ops : FloatOps F) (cfg : LexCfg) (lookup : Int → RefLookup)
    (nullable : Bool) (input : List Byte) (r : ReadResult F)
    (h : attrRead ops cfg lookup .string nullable (IStream.ofBytes input) = .ok r) :
    ∃ sp1 lit lay b, input = sp1 ++ lit ++ lay ++ b ++ r.s.right ∧ r.s.left = (sp1 ++ lit ++ lay ++ b).reverse ∧
      sp1.all isSpace = true ∧ (lit = [] ∨ lit = [36] ∨ ∃ m, lit = 39 :: m) ∧ Between cfg lay ∧ NoCP b := by
  obtain ⟨sp1, body, h1, h2, h3, h4⟩ := dropSpaces_split [] input
  -- through CheckRemainingInput from a stream that took `lit` after the blanks
  have key : ∀ (lit : List Byte) (s' : IStream) (E : Sev), s'.bad = false → s'.left = lit.reverse ++ sp1.reverse →
      body = lit ++ s'.right → (lit = [] ∨ lit = [36] ∨ ∃ m, lit = 39 :: m) →
      ∃ sp1 lit lay b, input = sp1 ++ lit ++ lay ++ b ++ (checkRemainingInput cfg (some attrDelims) s' E).1.right ∧
        (checkRemainingInput cfg (some attrDelims) s' E).1.left = (sp1 ++ lit ++ lay ++ b).reverse ∧
        sp1.all isSpace = true ∧ (lit = [] ∨ lit = [36] ∨ ∃ m, lit = 39 :: m) ∧ Between cfg lay ∧ NoCP b := by
    intro lit s' E a1 a2 a3 a4
    obtain ⟨lay, g, hm1, hm2, hm3, hm4⟩ := cri_left cfg s' E a1
    generalize checkRemainingInput cfg (some attrDelims) s' E = X at hm1 hm2 ⊢
    refine ⟨sp1, lit, lay, g, ?_, ?_, h2, a4, hm3, NoCP.of_notDelim (fun b hb => delimAt_false (hm4 b hb))⟩
    · rw [h1, a3, hm2]; simp
    · rw [hm1, a2]; simp
  rcases h4 with rfl | ⟨c, t, rfl, hc⟩
  · simp at h1; subst h1
    have hws : (IStream.ofBytes input).ws = { left := input.reverse, right := [], eof := true } := by
      simpa [IStream.ofBytes] using ws_blank [] input true h2
    simp only [attrRead, hws] at h
    simp [IStream.peekC, IStream.peek, IStream.sentry, IStream.good, stringRead, getLiteralStr, IStream.setSkipws, IStream.ws,
      checkRemainingInput] at h
    subst h
    exact ⟨input, [], [], [], by simp, by simp, h2, Or.inl rfl, Between.nil cfg, NoCP.nil⟩
  · subst h1
    by_cases h36 : c = 36
    · subst h36
      rw [attrRead_dollar ops cfg lookup .string nullable sp1 t h2] at h
      simp only [Outcome.ok.injEq] at h
      subst h
      exact key [36] { left := 36 :: sp1.reverse, right := t } Sev.null rfl (by simp) (by simp) (Or.inr (Or.inl rfl))
    · by_cases hdl : c = 44 ∨ c = 41
      · rw [attrRead_missing ops cfg lookup .string nullable sp1 t c h2 hdl] at h
        simp only [Outcome.ok.injEq] at h
        subst h
        exact ⟨sp1, [], [], [], by simp, by simp, h2, Or.inl rfl, Between.nil cfg, NoCP.nil⟩
      · have hcond : (c == 36 || c == 44 || c == 41) = false := by
          simp at hdl ⊢; exact ⟨⟨h36, hdl.1⟩, hdl.2⟩
        have hpre : (IStream.ofBytes (sp1 ++ c :: t)).ws = { left := sp1.reverse, right := c :: t } := by
          simpa [IStream.ofBytes] using ws_good [] sp1 c t true h2 hc
        simp only [attrRead, hpre, peekC_good, hcond, Bool.false_eq_true, if_false, Outcome.ok.injEq, stringRead,
          IStream.setSkipws, getLiteralStr, ws_good0 _ _ _ _ hc, IStream.good, Bool.not_false, Bool.and_self, Bool.not_true] at h
        by_cases hq : c = 39
        · subst hq
          simp only [beq_self_eq_true, if_true] at h
          obtain ⟨m, hm1, hm2, _, _, _, _⟩ := litLoop_spec [39] true t (by simp)
          generalize litLoop [39] true t = ll at h hm1 hm2
          obtain ⟨srev, rest, esc, hitEnd⟩ := ll
          simp only at h hm1 hm2
          subst hm2
          have hne' : (m.reverse ++ [39]).reverse.isEmpty = false := by simp
          simp only [hne', Bool.false_eq_true, if_false] at h
          subst h
          exact key (39 :: m) { left := m.reverse ++ [39] ++ sp1.reverse, right := rest, eof := hitEnd, skipws := false } _ rfl
            (by simp) (by simp [hm1]) (Or.inr (Or.inr ⟨m, rfl⟩))
        · have hq' : (c == 39) = false := by simpa using hq
          simp only [hq', Bool.false_eq_true, if_false, List.isEmpty_nil, if_true] at h
          subst h
          exact key [] { left := sp1.reverse, right := c :: t, skipws := true } _ rfl (by simp) (by simp) (Or.inl rfl)


/-! ## witnesses: what the unrepaired scanners did, and the in-band null (any configuration)

Each `…_witness_unrepaired` theorem evaluates the model under the configuration of the tree *before* the C09 repairs on the
minimal failing token: no error is flagged and the attribute is left unset.  They keep the negation of the never-silent
statements visible for that configuration; the same inputs are replayed on the real code by `checks/c09.py` (corpus). -/

/-- the scanners before the C09 repairs -/
def unrepairedCfg : LexCfg :=
  { intReportsFail := false, realReportsFail := false, numberReportsFail := false, logicalRejectsUnset := false,
    binaryRejectsEmpty := false, dollarKeepsError := false, asStrUsesWriteReal := false, criSkipsComments := false,
    realBuf := 0, realPrecision := 15 }

/-- no error flagged, attribute left unset -/
def silentUnset {F} (o : Outcome (ReadResult F)) : Bool :=
  match o with
  | .ok r => (r.sev == .null) && (match r.val with | .unset => true | _ => false)
  | .overflow => false

def noRef : Int → RefLookup := fun _ => .missing

theorem C09_integer_overflow_witness_unrepaired :
    silentUnset (attrRead dblOps unrepairedCfg noRef .integer false (IStream.ofBytes (List.replicate 20 57 ++ [44]))) = true := by
  decide

theorem C09_integer_sign_only_witness_unrepaired :
    silentUnset (attrRead dblOps unrepairedCfg noRef .integer false (IStream.ofBytes [45, 44])) = true := by
  decide

/-- `9223372036854775807` = LONG_MAX is stepcode's in-band "unset" for INTEGER: while `ReadInteger` stores it, it is read
    without error and reported unset; the repaired reader reports it (fixes/C09-9).  (`repairedCfg` is defined below.) -/
theorem C09_integer_sentinel_witness :
    silentUnset (attrRead dblOps { unrepairedCfg with intReportsFail := true } noRef .integer false
      (IStream.ofBytes [57,50,50,51,51,55,50,48,51,54,56,53,52,55,55,53,56,48,55,44])) = true ∧
    (match attrRead dblOps { unrepairedCfg with intReportsFail := true, intNullReported := true } noRef .integer false
      (IStream.ofBytes [57,50,50,51,51,55,50,48,51,54,56,53,52,55,55,53,56,48,55,44]) with
      | .ok r => r.sev == .warning && (match r.val with | .unset => true | _ => false)
      | .overflow => false) = true := by
  decide

theorem C09_logical_unset_witness_unrepaired :
    silentUnset (attrRead dblOps unrepairedCfg noRef .logical false (IStream.ofBytes [46,85,78,83,69,84,46,44])) = true := by
  decide

theorem C09_binary_empty_witness_unrepaired :
    silentUnset (attrRead dblOps unrepairedCfg noRef .binary false (IStream.ofBytes [34,34,44])) = true := by
  decide

theorem C09_dollar_garbage_witness_unrepaired :
    silentUnset (attrRead dblOps unrepairedCfg noRef .integer true (IStream.ofBytes [36,120,44])) = true := by
  decide

theorem C09_number_sign_only_witness_unrepaired :
    silentUnset (attrRead dblOps unrepairedCfg noRef .number false (IStream.ofBytes [45, 44])) = true := by
  decide

theorem C09_real_overflow_witness_unrepaired :
    silentUnset (attrRead dblOps unrepairedCfg noRef .real false (IStream.ofBytes [49,46,48,69,57,57,57,44])) = true := by
  decide

/-! ### NUL byte / a comment in place of the value (fixes/C09-7, fixes/C09-8) -/

/-- every scanner repaired (fixes/C09-1 … C09-9, C01-2) -/
def repairedCfg : LexCfg :=
  { intReportsFail := true, realReportsFail := true, numberReportsFail := true, logicalRejectsUnset := true,
    binaryRejectsEmpty := true, dollarKeepsError := true, asStrUsesWriteReal := false, criSkipsComments := true,
    realBuf := 0, realPrecision := 15, nulIsDelim := false, realFailUnlessBlank := true, refReportsNonRef := true,
    intNullReported := true, realNullReported := true, numberNullReported := true }

/-- read with no error flagged, to the integer `v`, the stream resting `pos` bytes into the input -/
def readsIntAt {F} (o : Outcome (ReadResult F)) (v : Int) (pos : Nat) : Bool :=
  match o with
  | .ok r => (r.sev == .null) && (match r.val with | .int w => w == v | _ => false) && (r.s.left.length == pos)
  | .overflow => false

/-- an error is flagged -/
def readsErr {F} (o : Outcome (ReadResult F)) : Bool :=
  match o with
  | .ok r => r.sev != .null
  | .overflow => false

/-- with the bare `strchr(",)", c)` a NUL byte is a delimiter: `1<NUL>,` is read as 1 with no error and the stream is left in
    front of the NUL; with the guarded test the same input is reported -/
theorem C09_nul_delimiter_witness :
    readsIntAt (attrRead dblOps { repairedCfg with nulIsDelim := true } noRef .integer false (IStream.ofBytes [49, 0, 44])) 1 1 = true ∧
    readsErr (attrRead dblOps repairedCfg noRef .integer false (IStream.ofBytes [49, 0, 44])) = true := by
  decide

/-- where the stream may rest after a value, spelled out: the end of the input, a `,`, a `)` — and a NUL byte exactly in the
    configurations in which `CheckRemainingInput` uses the bare `strchr` -/
theorem C09_delimiter_is_comma_or_paren (cfg : LexCfg) (right : List Byte) :
    AtDelimOrEnd cfg right ↔
      (right = [] ∨ ∃ d t, right = d :: t ∧ (d = 44 ∨ d = 41 ∨ (cfg.nulIsDelim = true ∧ d = 0))) := by
  unfold AtDelimOrEnd
  constructor
  · rintro (h | ⟨d, t, h, hd⟩)
    · exact Or.inl h
    · refine Or.inr ⟨d, t, h, ?_⟩
      simp [delimAt, isDelim, attrDelims] at hd
      rcases hd with ⟨h1, h2⟩ | h | h
      · exact Or.inr (Or.inr ⟨h1, h2⟩)
      · exact Or.inl h
      · exact Or.inr (Or.inl h)
  · rintro (h | ⟨d, t, h, hd⟩)
    · exact Or.inl h
    · refine Or.inr ⟨d, t, h, ?_⟩
      rcases hd with rfl | rfl | ⟨h1, rfl⟩
      · simp [delimAt, isDelim, attrDelims]
      · simp [delimAt, isDelim, attrDelims]
      · simp [delimAt, h1]

/-- `/*c*/,` where a REAL should be: unset with no error while `ReadReal` reports only collected characters that do not
    convert; reported once it reports every non-blank input that is not a value -/
theorem C09_comment_for_real_witness :
    silentUnset (attrRead dblOps { repairedCfg with realFailUnlessBlank := false } noRef .real false
      (IStream.ofBytes [47, 42, 99, 42, 47, 44])) = true ∧
    readsErr (attrRead dblOps repairedCfg noRef .real false (IStream.ofBytes [47, 42, 99, 42, 47, 44])) = true := by
  decide

/-- the same for an entity reference -/
theorem C09_comment_for_ref_witness :
    silentUnset (attrRead dblOps { repairedCfg with refReportsNonRef := false } noRef .ref false
      (IStream.ofBytes [47, 42, 99, 42, 47, 44])) = true ∧
    readsErr (attrRead dblOps repairedCfg noRef .ref false (IStream.ofBytes [47, 42, 99, 42, 47, 44])) = true := by
  decide

/-- once the scanners report what stands in place of the value, the never-silent theorems for REAL and entity references
    exclude no input at all -/
theorem C09_quiet_first_empty (cfg : LexCfg) : quietFirst true cfg = [] := rfl

theorem firstByteNot_nil (input : List Byte) : FirstByteNot input [] := by
  intro _ _ _ _ _ _ h; cases h

/-- REAL, never silent at full strength: in every configuration whose `ReadReal` reports every non-blank input that is not
    a value (fixes/C09-8), the statement of `never_silent_real_of_cfg` holds for *every* input — nothing is excluded -/
theorem C09_never_silent_real_full {F} (ops : FloatOps F) (cfg : LexCfg) (hcfg : cfg.realReportsFail = true)
    (hcfg2 : cfg.dollarKeepsError = true)
    (lookup : Int → RefLookup) (nullable : Bool) (input : List Byte) (hq : cfg.realFailUnlessBlank = true) (r : ReadResult F)
    (h : attrRead ops cfg lookup .real nullable (IStream.ofBytes input) = .ok r) (hne : NoErr r.sev) :
    (∃ sp1 tok sp2 d v, input = sp1 ++ tok ++ sp2 ++ r.s.right ∧ sp1.all isSpace = true ∧ Between cfg sp2 ∧
        isReal tok = true ∧ denoteReal tok = some d ∧ ops.ofDecimal d = some v ∧
        r.val = realValue ops (some v) ∧ (cfg.realNullReported && ops.isRealNull v) = false ∧
        AtDelimOrEnd cfg r.s.right) ∨
    (nullable = true ∧ r.val = .unset ∧ ∃ sp1 c t, input = sp1 ++ c :: t ∧ sp1.all isSpace = true ∧
        ((c = 36 ∧ ∃ sp2, t = sp2 ++ r.s.right ∧ Between cfg sp2 ∧ AtDelimOrEnd cfg r.s.right) ∨
         ((c = 44 ∨ c = 41) ∧ r.s.right = c :: t))) ∨
    (input.all isSpace = true ∧ r.val = .unset) :=
  never_silent_real_of_cfg ops cfg hcfg hcfg2 lookup nullable input [] (by rw [hq]; exact firstByteNot_nil input) r h hne

/-- entity reference, never silent at full strength: in every configuration whose `ReadEntityRef` reports a character that
    is neither `#`/`@` nor a delimiter where the reference should be (fixes/C09-8), no input is excluded -/
theorem C09_never_silent_ref_full {F} (ops : FloatOps F) (cfg : LexCfg) (hcfg2 : cfg.dollarKeepsError = true)
    (lookup : Int → RefLookup) (nullable : Bool) (input : List Byte) (hq : cfg.refReportsNonRef = true) (r : ReadResult F)
    (h : attrRead ops cfg lookup .ref nullable (IStream.ofBytes input) = .ok r) (hne : NoErr r.sev) :
    (∃ sp1 spx tok sp2, input = sp1 ++ 35 :: (spx ++ tok ++ sp2 ++ r.s.right) ∧ sp1.all isSpace = true ∧ spx.all isSpace = true ∧
        Between cfg sp2 ∧ isInteger tok = true ∧ intMin ≤ denoteInteger tok ∧ denoteInteger tok ≤ intMax ∧
        lookup (denoteInteger tok) = .found ∧ r.val = .ref (denoteInteger tok) ∧ AtDelimOrEnd cfg r.s.right) ∨
    (nullable = true ∧ r.val = .unset ∧ ∃ sp1 c t, input = sp1 ++ c :: t ∧ sp1.all isSpace = true ∧
        ((c = 36 ∧ ∃ sp2, t = sp2 ++ r.s.right ∧ Between cfg sp2 ∧ AtDelimOrEnd cfg r.s.right) ∨
         ((c = 44 ∨ c = 41) ∧ r.s.right = c :: t))) ∨
    (input.all isSpace = true ∧ r.val = .unset) :=
  never_silent_ref_of_cfg ops cfg hcfg2 lookup nullable input [] (by rw [hq]; exact firstByteNot_nil input) r h hne

/-! ## BOOLEAN / LOGICAL writer: all values (finite), by evaluation of the model -/

/-- the written token is in the grammar of kind `k` and denotes item `i`; followed by `d` it reads back to item `i` with
    no error and the stream rests on `d` -/
def enumRoundTrip (cfg : LexCfg) (k : Kind) (nullable : Bool) (i : Nat) (d : Byte) : Bool :=
  let w := attrWrite dblOps k (.enum i : Value Nat)
  (match classify dblOps noRef k w with
   | .grammar (.enum j) => j == i
   | _ => false) &&
  (match attrRead dblOps cfg noRef k nullable (IStream.ofBytes (w ++ [d, 88])) with
   | .ok r => (r.sev == .null) && (match r.val with | .enum j => j == i | _ => false) && (r.s.right == [d, 88]) && r.s.good
   | .overflow => false)

theorem C09_write_read_boolean :
    ∀ i ∈ [0, 1], ∀ d ∈ [44, 41], ∀ nullable ∈ [true, false],
      enumRoundTrip Generated.lexCfg .boolean nullable i d = true := by decide

theorem C09_write_read_logical :
    ∀ i ∈ [0, 1, 3], ∀ d ∈ [44, 41], ∀ nullable ∈ [true, false],
      enumRoundTrip Generated.lexCfg .logical nullable i d = true := by decide

/-! ## non-vacuity: the hypotheses of the theorems above are satisfiable (evaluation of the model) -/

/-- read without error -/
def readsNoErr {F} (o : Outcome (ReadResult F)) : Bool :=
  match o with
  | .ok r => r.sev == .null
  | .overflow => false

def someRef : Int → RefLookup := fun id => if id == 5 then .found else .missing

-- `-12 ,`  `.t.)`  `.RED.,`  `#5,`  `"0A",`  `'it''s',`  `1.5E3,`  `12,` (NUMBER)  and `$ ,` for an OPTIONAL REAL
example : readsNoErr (attrRead dblOps Generated.lexCfg noRef .integer false (IStream.ofBytes [45, 49, 50, 32, 44])) = true := by decide
example : readsNoErr (attrRead dblOps Generated.lexCfg noRef .logical false (IStream.ofBytes [46, 116, 46, 41])) = true := by decide
example : readsNoErr (attrRead dblOps Generated.lexCfg noRef (.enumeration [[82, 69, 68]]) false
    (IStream.ofBytes [46, 82, 69, 68, 46, 44])) = true := by decide
example : readsNoErr (attrRead dblOps Generated.lexCfg someRef .ref false (IStream.ofBytes [35, 53, 44])) = true := by decide
example : readsNoErr (attrRead dblOps Generated.lexCfg noRef .binary false (IStream.ofBytes [34, 48, 65, 34, 44])) = true := by decide
example : readsNoErr (attrRead dblOps Generated.lexCfg noRef .string false
    (IStream.ofBytes [39, 105, 116, 39, 39, 115, 39, 44])) = true := by decide
example : readsNoErr (attrRead dblOps Generated.lexCfg noRef .real false (IStream.ofBytes [49, 46, 53, 69, 51, 44])) = true := by decide
example : readsNoErr (attrRead dblOps Generated.lexCfg noRef .number false (IStream.ofBytes [49, 50, 44])) = true := by decide
example : silentUnset (attrRead dblOps Generated.lexCfg noRef .real true (IStream.ofBytes [36, 32, 44])) = true := by decide
example : isInteger [45, 49, 50] = true ∧ longMin ≤ denoteInteger [45, 49, 50] ∧ denoteInteger [45, 49, 50] < longMax := by decide
example : FirstByteNot [49] [0, 47] := by
  intro sp c t h _ _
  cases sp with
  | nil => simp at h; rw [← h.1]; decide
  | cons x sp' => simp at h

-- comment contexts: the regenerated configuration skips comments between the value and the delimiter, so the `Gap` of the
-- accept theorems is `ExactLayout` — inhabited by ` /*c*/ ` — and `-12 /*c*/ ,` is read without error
example : Generated.lexCfg.criSkipsComments = true := by decide
example : Gap Generated.lexCfg [32, 47, 42, 99, 42, 47, 32] := by
  have h : Generated.lexCfg.criSkipsComments = true := by decide
  unfold Gap; rw [if_pos h]
  exact .blank (by decide) (.comment (body := [99]) (by decide) (.blank (by decide) .nil))
example : readsNoErr (attrRead dblOps Generated.lexCfg noRef .integer false
    (IStream.ofBytes [45, 49, 50, 32, 47, 42, 99, 42, 47, 32, 44])) = true := by decide

/-! ### the writers of BINARY, ENUMERATION and STRING: the written token is in the grammar (when the stored value is) -/

/-- BINARY writer, conforming: for a content that is the body of a grammar token (first digit 0…3, upper-case hexadecimal
    digits) the written token is that token of the grammar `binary` and denotes the content -/
theorem C09_writer_binary_conforming {F} (ops : FloatOps F) (hex : List Byte) (htok : isBinary (34 :: (hex ++ [34])) = true) :
    isBinary (attrWrite ops .binary (.bin hex)) = true ∧ binaryBody (attrWrite ops .binary (.bin hex)) = some hex := by
  have hne : hex ≠ [] := by
    intro h; subst h; simp [isBinary, binaryBody] at htok
  have hw : attrWrite ops .binary (.bin hex) = 34 :: (hex ++ [34]) := by
    cases hex with
    | nil => exact absurd rfl hne
    | cons a u => simp [attrWrite, writeBinary]
  rw [hw]
  exact ⟨htok, by simp [binaryBody]⟩

/-- … and where the writer is *not* conforming: the content is written verbatim, so a content that was read leniently (lower-
    case digits, first digit above 3) is written back as a token outside the grammar `binary` (named exclusion of the writer
    claim: the value did not come from a grammar token) -/
theorem C09_writer_binary_lenient_witness :
    attrWrite dblOps .binary (.bin [102, 102]) = [34, 102, 102, 34] ∧ isBinary (attrWrite dblOps .binary (.bin [102, 102])) = false ∧
    isBinaryLenient (attrWrite dblOps .binary (.bin [102, 102])) = true := by
  decide

/-- ENUMERATION / BOOLEAN / LOGICAL writer, conforming: for an item whose table name is a name of the grammar (`upper { upper |
    digit }` — the generated tables hold upper-case names) the written token is `.NAME.`, a token of the grammar
    `enumeration` denoting that name -/
theorem C09_writer_enum_conforming {F} (ops : FloatOps F) (k : Kind) (hk : EnumLike k) (i : Nat) (name : List Byte)
    (hname : k.enumKind.table.getD i bUNSET = name) (hgram : isEnumName name = true) :
    attrWrite ops k (.enum i) = 46 :: (name ++ [46]) ∧ enumBody (attrWrite ops k (.enum i)) = some name ∧ isEnumName name = true := by
  have hw : attrWrite ops k (.enum i) = 46 :: (name ++ [46]) := by
    simp only [attrWrite, hname]; simp
  rw [hw]
  exact ⟨rfl, by simp [enumBody], hgram⟩

/-- the item names of BOOLEAN and LOGICAL, as regenerated from `element_at`, are names of the grammar -/
theorem C09_writer_logical_names_conforming :
    (Generated.booleanTable.all fun n => isEnumName n) = true ∧ (Generated.logicalTable.all fun n => isEnumName n) = true := by
  decide

/-- STRING writer, conforming: the stored value *is* the literal in its encoded form (`SDAI_String` keeps quotes and control
    directives as read; `STEPwrite` writes it verbatim), so for a value that is a token of the grammar `string` the written
    token is that token.  Nothing is re-encoded: quote doubling and directives are examined on the read side
    (`C09_accept_string_body`), not here — a value set through the API with a bare apostrophe is written verbatim too. -/
theorem C09_writer_string_conforming {F} (ops : FloatOps F) (tok : List Byte) (htok : isString tok = true) :
    attrWrite ops .string (.str tok) = tok ∧ isString (attrWrite ops .string (.str tok)) = true :=
  ⟨rfl, htok⟩

/-! ## aggregates of simple kinds (`STEPaggregate::ReadValue` = `aggrRead` of `P21/Reader.lean`, the reader model shared with C01)

The element loop is proved once for every element kind (`AggrLemmas.aggrRead_elems`); a kind plugs in through `ElemReads`:
its element reader, started at a token of the kind's grammar, yields the token's value with no error and rests at the
delimiter behind any layout of blanks and comments.  `renderQ es` is `e₁ , … , eₙ )` with each element's own layout before
and after its token. -/

section Aggregates
open StepModel.P21.RLemmas StepModel.P21.AggrLemmas

/-- aggregate, accept: `( e₁ , … , eₙ )`, n ≥ 1, of any element kind whose element reader accepts the elements, with any
    layout (blanks, comments) around every element, standing anywhere in a stream: read to the list of the elements'
    values in order, no error, and the stream rests behind the closing parenthesis (`f` = what the element reader does to
    the `skipws` flag: the identity, except for STRING, which leaves it switched off) -/
theorem C09_aggr_accept {F} (env : Env F) (hagg : env.cfg.aggrSkipsComments = true) (ty : ElemTy) (f : Bool → Bool)
    (hf : ∀ b, f (f b) = f b) (es : List (ElemQ F)) (hne : es ≠ []) (hok : ∀ e ∈ es, ElemReads env ty f e)
    (l : List Byte) (sk : Bool) (rest : List Byte) :
    aggrRead env ty (G l (40 :: (renderQ es ++ rest)) sk) =
      .ok (.null, some (es.map (·.val)), G ((40 :: renderQ es).reverse ++ l) rest (f sk)) :=
  aggrRead_elems env hagg ty f hf es hne hok l sk rest

/-- the empty aggregate `( )` with any layout inside, any element kind: the empty list (not "unset"), no error -/
theorem C09_aggr_accept_empty {F} (env : Env F) (hagg : env.cfg.aggrSkipsComments = true) (ty : ElemTy)
    (seps : List Byte) (hs : Seps seps) (l : List Byte) (sk : Bool) (rest : List Byte) :
    aggrRead env ty (G l (40 :: (seps ++ 41 :: rest)) sk) =
      .ok (.null, some [], G (41 :: (seps.reverse ++ 40 :: l)) rest sk) :=
  aggrRead_none env hagg ty seps hs l sk rest

/-- INTEGER elements: every token of the grammar in `[LONG_MIN, LONG_MAX)` -/
theorem C09_aggr_elem_integer {F} (env : Env F) (hcfg : env.lex.criSkipsComments = true) (hagg : env.cfg.aggrSkipsComments = true)
    (tok before after : List Byte) (htok : isInteger tok = true) (hlo : longMin ≤ denoteInteger tok)
    (hhi : denoteInteger tok < longMax) (hb : Seps before) (ha : Seps after) :
    ElemReads env .integer id ⟨tok, before, after, .atom (.int (denoteInteger tok))⟩ :=
  ElemReads.integer env hcfg hagg tok before after htok hlo hhi hb ha

/-- REAL elements — and NUMBER elements as long as they are read by `ReadReal` like them (the listed finding
    `agg:number-element-spelled-as-integer`): every token of the grammar `real` whose denotation converts, except the in-band null -/
theorem C09_aggr_elem_real {F} (env : Env F) (hcfg : env.lex.criSkipsComments = true) (hagg : env.cfg.aggrSkipsComments = true)
    (ty : ElemTy) (hty : ty = .real ∨ (ty = .number ∧ env.cfg.numberElemReadsNumber = false))
    (tok before after : List Byte) (dec : Decimal) (v : F) (htok : isReal tok = true) (hden : denoteReal tok = some dec)
    (hv : env.ops.ofDecimal dec = some v) (hnn : env.ops.isRealNull v = false)
    (hbuf : env.lex.realBuf = 0 ∨ tok.length < env.lex.realBuf) (hb : Seps before) (ha : Seps after) :
    ElemReads env ty id ⟨tok, before, after, .atom (.real v)⟩ :=
  ElemReads.real env hcfg hagg ty hty tok before after dec v htok hden hv hnn hbuf hb ha

/-- NUMBER elements once `RealAggregate::ReadValue` reads them with `ReadNumber` (the repair of that finding): every token
    of the `integer` *or* of the `real` grammar whose denotation converts, except the in-band null -/
theorem C09_aggr_elem_number {F} (env : Env F) (hcfg : env.lex.criSkipsComments = true) (hagg : env.cfg.aggrSkipsComments = true)
    (hnum : env.cfg.numberElemReadsNumber = true)
    (tok before after : List Byte) (dec : Decimal) (v : F) (htok : isReal tok = true ∨ isInteger tok = true)
    (hden : denoteReal tok = some dec) (hv : env.ops.ofDecimal dec = some v) (hnn : env.ops.isRealNull v = false)
    (hb : Seps before) (ha : Seps after) :
    ElemReads env .number id ⟨tok, before, after, .atom (.real v)⟩ :=
  ElemReads.number env hcfg hagg hnum tok before after dec v htok hden hv hnn hb ha

/-- STRING elements: every literal of the full string grammar -/
theorem C09_aggr_elem_string {F} (env : Env F) (hcfg : env.lex.criSkipsComments = true) (hagg : env.cfg.aggrSkipsComments = true)
    (b before after : List Byte) (hbody : StringBody b) (hb : Seps before) (ha : Seps after) :
    ElemReads env .string (fun _ => false) ⟨39 :: (b ++ [39]), before, after, .atom (.str (39 :: (b ++ [39])))⟩ :=
  ElemReads.string env hcfg hagg b before after hbody hb ha

/-- BINARY elements -/
theorem C09_aggr_elem_binary {F} (env : Env F) (hcfg : env.lex.criSkipsComments = true) (hagg : env.cfg.aggrSkipsComments = true)
    (hex before after : List Byte) (hne : hex ≠ []) (hhex : hex.all isXDigit = true) (hb : Seps before) (ha : Seps after) :
    ElemReads env .binary id ⟨34 :: (hex ++ [34]), before, after, .atom (.bin hex)⟩ :=
  ElemReads.binary env hcfg hagg hex before after hne hhex hb ha

/-- BOOLEAN / LOGICAL / ENUMERATION elements -/
theorem C09_aggr_elem_enum {F} (env : Env F) (hcfg : env.lex.criSkipsComments = true) (hagg : env.cfg.aggrSkipsComments = true)
    (ty : ElemTy) (het : EnumTy ty) (name before after : List Byte) (i : Nat)
    (hne : name ≠ []) (hname : name.all pw = true) (hfind : findName (enumKindOf ty).table (name.map toUpper) = some i)
    (hset : (enumKindOf ty).isUnsetIdx i = false) (hb : Seps before) (ha : Seps after) :
    ElemReads env ty id ⟨46 :: (name ++ [46]), before, after, .atom (.enum i)⟩ :=
  ElemReads.enum env hcfg hagg ty het name before after i hne hname hfind hset hb ha

/-- entity-reference elements -/
theorem C09_aggr_elem_ref {F} (env : Env F) (hcfg : env.lex.criSkipsComments = true) (hagg : env.cfg.aggrSkipsComments = true)
    (tg : String) (ds before after : List Byte) (hne : ds ≠ []) (hds : ds.all isDigit = true)
    (hhi : ((digitsVal ds 0 : Nat) : Int) ≤ intMax)
    (hfound : refLookup env.lookup tg ((digitsVal ds 0 : Nat) : Int) = .found) (hb : Seps before) (ha : Seps after) :
    ElemReads env (.entity tg) id ⟨35 :: ds, before, after, .atom (.ref ((digitsVal ds 0 : Nat) : Int))⟩ :=
  ElemReads.entity env hcfg hagg tg ds before after hne hds hhi hfound hb ha

/-- the two together, spelled out for INTEGER: a list of integer tokens with arbitrary layout reads to the list of their values -/
theorem C09_aggr_accept_integers {F} (env : Env F) (hcfg : env.lex.criSkipsComments = true) (hagg : env.cfg.aggrSkipsComments = true)
    (es : List (ElemQ F)) (hne : es ≠ [])
    (hes : ∀ e ∈ es, isInteger e.tok = true ∧ longMin ≤ denoteInteger e.tok ∧ denoteInteger e.tok < longMax ∧
      Seps e.before ∧ Seps e.after ∧ e.val = .atom (.int (denoteInteger e.tok)))
    (l : List Byte) (sk : Bool) (rest : List Byte) :
    aggrRead env .integer (G l (40 :: (renderQ es ++ rest)) sk) =
      .ok (.null, some (es.map (fun e => .atom (.int (denoteInteger e.tok)))), G ((40 :: renderQ es).reverse ++ l) rest sk) := by
  have hok : ∀ e ∈ es, ElemReads env .integer id e := by
    intro e he
    obtain ⟨h1, h2, h3, h4, h5, h6⟩ := hes e he
    have := ElemReads.integer env hcfg hagg e.tok e.before e.after h1 h2 h3 h4 h5
    rw [← h6] at this
    exact this
  rw [aggrRead_elems env hagg .integer id (fun _ => rfl) es hne hok l sk rest]
  have : es.map (·.val) = es.map (fun e => (.atom (.int (denoteInteger e.tok)) : Elem F)) :=
    List.map_congr_left (fun e he => (hes e he).2.2.2.2.2)
  simp [this]

-- non-vacuity: under the regenerated configurations `(1, /*c*/ 2 ),` is read as the INTEGER list [1, 2] with no error and
-- the stream rests at the `,`; the hypotheses `aggrSkipsComments` / `criSkipsComments` hold for the source as it is
def sampleEnv : Env Nat :=
  { ops := dblOps, lex := Generated.lexCfg, cfg := Generated.rwCfg, dict := ⟨[], [], []⟩, lookup := fun _ => none }

example : sampleEnv.cfg.aggrSkipsComments = true ∧ sampleEnv.lex.criSkipsComments = true := by decide

example : (match aggrRead sampleEnv .integer (IStream.ofBytes [40, 49, 44, 32, 47, 42, 99, 42, 47, 32, 50, 32, 41, 44]) with
    | .ok (sev, some [.atom (.int 1), .atom (.int 2)], s) => sev == .null && s.right == [44]
    | _ => false) = true := by decide

/-- aggregate, never silent — the loop's part (`_partial`): for *any* stream and any element kind, when
    `STEPaggregate::ReadValue` stores an aggregate and reports no error, then the severity is NULL, the input starts (after
    blanks) with `(`, and what follows the token separators behind it is a `LoopRun`: a chain of element-reader calls none of
    which reported WARNING, INPUT_ERROR or BUG, each followed by (blanks and) exactly one `,` — or the `)` that ends the run
    — taken by the loop itself, and the stored list is exactly the values those calls returned, in order: no element is
    dropped, repeated or invented, a missing comma or closing parenthesis is always reported.
    Excluded, i.e. left to the element reader's own verdict on the bytes of one element position: (1) an *empty* position
    (`(a,,b)`, `(a,)`, `(,a)`) — the readers of STRING, BOOLEAN, LOGICAL, ENUMERATION and entity references answer it with
    nothing worse than INCOMPLETE, which the loop does not hand on (`C09_aggr_missing_element_witness`, finding
    `agg:missing-element-read-as-unset`; gone with the loop's "missing element" test, `C09_aggr_no_missing_element`);
    (2) the lenient spellings each element reader accepts at attribute level (`C09_never_silent_*`; transferred to any
    position of any stream by the `C09_aggr_*_element_never_silent_any_stream` theorems);
    (3) **what `ReadTokenSeparator` consumes in front of an element** — every element-reader call of the `LoopRun` begins with
    it, and it takes more than separators: besides blanks, comments and `\N\` / `\F\` it drops, with no report, a `/` that
    starts no comment and a `\` that starts no complete print control directive, so `(0, / 7)`, `(0,/7)`, `(0, \ 7)`,
    `(0, \N 7)` are stored as `(0,7)` with severity NULL (`C09_aggr_stray_slash_witness`, finding
    `agg:stray-slash-or-backslash-dropped`).  What is proved about that skip on arbitrary input is where it ends
    (`readTokenSeparator_head`: in front of a character that is not a blank, `/` or `\`), not that what it skipped is a
    conforming layout. -/
theorem C09_aggr_never_silent_partial {F} (env : Env F) (ty : ElemTy) (s : IStream) (sev : Sev) (es : List (Elem F))
    (sf : IStream) (h : aggrRead env ty s = .ok (sev, some es, sf)) (hne : NoErr sev) :
    sev = .null ∧ s.ws.peekC.1 = 40 ∧
    ∃ c3 s6, LoopRun env ty c3 s6 es sf ∧
      (let s4 := if env.cfg.aggrSkipsComments then readTokenSeparator (getInto 40 s.ws.peekC.2).2 else (getInto 40 s.ws.peekC.2).2.ws
       (c3, s6) = (if s4.peekC.1 == 41 then getInto s4.peekC.1 s4.peekC.2 else (s4.peekC.1, s4.peekC.2))) :=
  aggrRead_sound env ty s sev es sf h hne

/-- exclusion (1) of `C09_aggr_never_silent_partial` disappears with the loop's "missing element" test: in a configuration
    with `aggrReportsMissingElement` (regenerated from the element loops) an element read that reports nothing worse than
    INCOMPLETE — every element of a `LoopRun` — did not start at a delimiter; no element position is empty -/
theorem C09_aggr_no_missing_element {F} (env : Env F) (hm : env.cfg.aggrReportsMissingElement = true) (ty : ElemTy) (s s1 : IStream)
    (e : Sev) (v : Elem F) (h : elemRead env ty s = .ok (e, v, s1)) (hne : ¬ e.toInt < Sev.incomplete.toInt) :
    (if env.cfg.aggrSkipsComments then readTokenSeparator s else s).peekC.1 ≠ 44 ∧
    (if env.cfg.aggrSkipsComments then readTokenSeparator s else s).peekC.1 ≠ 41 :=
  elemRead_not_missing env hm ty s s1 e v h hne

/-- aggregate, never silent — the element's part, INTEGER, mid-stream: one round of the element loop standing anywhere in a
    stream (arbitrary consumed side, either state of `skipws`), the token-separator skip having left a stream without
    pending flags in front of a non-blank character `c`: when the round reports nothing worse than INCOMPLETE — as every
    element of a `LoopRun` does (`C09_aggr_never_silent_partial`) — its severity is NULL, what it took is a token of the
    `integer` grammar in `long` range followed by separators, the stored value is the token's, and the stream rests at its
    end or in front of a delimiter.  Together: an aggregate of INTEGER stored without error consists of grammar tokens
    with their values, one per position — up to what `ReadTokenSeparator` skipped in front of each of them (exclusion (3) of
    `C09_aggr_never_silent_partial`).  The hypothesis `hsA` — the shape of the stream behind the token-separator skip — is
    discharged for every stream by `C09_aggr_hsA_general` (`readTokenSeparator_head`): see the `_any_stream` versions below;
    the other element kinds have the same statement (`C09_aggr_*_element_never_silent`). -/
theorem C09_aggr_integer_element_never_silent {F} (env : Env F) (hcfg : env.lex.intReportsFail = true) (s : IStream)
    (l : List Byte) (c : Byte) (t : List Byte) (sk : Bool)
    (hsA : (if env.cfg.aggrSkipsComments then readTokenSeparator s else s) = G l (c :: t) sk) (hc : isSpace c = false)
    (e : Sev) (v : Elem F) (s1 : IStream)
    (h : elemRead env .integer s = .ok (e, v, s1)) (hne : ¬ e.toInt < Sev.incomplete.toInt) :
    e = .null ∧ ∃ tok sp2 sp3, c :: t = tok ++ sp2 ++ sp3 ++ s1.right ∧ Between env.lex sp2 ∧ Between env.lex sp3 ∧
      isInteger tok = true ∧ longMin ≤ denoteInteger tok ∧ denoteInteger tok ≤ longMax ∧
      v = .atom (valueToAtom (intValue (some (denoteInteger tok)) : Value F)) ∧ AtDelimOrEnd env.lex s1.right :=
  elemRead_integer_sound env hcfg s l c t sk hsA hc e v s1 h hne

/-! the element's part for the other kinds, same shape: one round of the loop behind the token separators (`hsA`), in front of a
character `c` that is neither blank, `/` nor a delimiter (`C09_aggr_no_missing_element` supplies the latter for the repaired
loop), reporting nothing worse than INCOMPLETE ⇒ severity NULL and the element is a token of its kind's grammar (lenient
forms as at attribute level) with its value, followed by separators, the stream resting at its end or a delimiter -/

/-- `hsA` holds whenever the element stands behind a layout of blanks and comments (C01's `Seps`) and does not start with a
    blank, `/` or `\` -/
theorem C09_aggr_hsA_of_seps {F} (env : Env F) (hagg : env.cfg.aggrSkipsComments = true) (seps : List Byte) (hs : Seps seps)
    (l : List Byte) (c : Byte) (t : List Byte) (sk : Bool) (hc : isSpace c = false) (h47 : c ≠ 47) (h92 : c ≠ 92) :
    (if env.cfg.aggrSkipsComments then readTokenSeparator (G l (seps ++ c :: t) sk) else G l (seps ++ c :: t) sk) =
      G (seps.reverse ++ l) (c :: t) sk := by
  simp only [hagg, if_true]
  exact readTokenSeparator_seps seps hs l c t sk hc h47 h92

theorem C09_aggr_real_element_never_silent {F} (env : Env F) (hcfg : env.lex.realReportsFail = true) (ty : ElemTy)
    (hty : ty = .real ∨ (ty = .number ∧ env.cfg.numberElemReadsNumber = false)) (s : IStream)
    (l : List Byte) (c : Byte) (t : List Byte) (sk : Bool)
    (hsA : (if env.cfg.aggrSkipsComments then readTokenSeparator s else s) = G l (c :: t) sk) (hc : isSpace c = false)
    (hd : delimAt env.lex attrDelims c = false) (h47 : c ≠ 47)
    (e : Sev) (v : Elem F) (s1 : IStream)
    (h : elemRead env ty s = .ok (e, v, s1)) (hne : ¬ e.toInt < Sev.incomplete.toInt) :
    e = .null ∧ ∃ tok sp2 sp3 d x, c :: t = tok ++ sp2 ++ sp3 ++ s1.right ∧ Between env.lex sp2 ∧ Between env.lex sp3 ∧
      isReal tok = true ∧ denoteReal tok = some d ∧ env.ops.ofDecimal d = some x ∧
      v = .atom (valueToAtom (realValue env.ops (some x))) ∧ AtDelimOrEnd env.lex s1.right :=
  elemCore_real_sound env hcfg ty hty l c t sk hc (fun _ => ⟨hd, h47⟩) e v s1
    (elemRead_core env ty s l c t sk hsA e v s1 h hne) hne

theorem C09_aggr_number_element_never_silent {F} (env : Env F) (hcfg : env.lex.numberReportsFail = true)
    (hnum : env.cfg.numberElemReadsNumber = true) (s : IStream) (l : List Byte) (c : Byte) (t : List Byte) (sk : Bool)
    (hsA : (if env.cfg.aggrSkipsComments then readTokenSeparator s else s) = G l (c :: t) sk) (hc : isSpace c = false)
    (e : Sev) (v : Elem F) (s1 : IStream)
    (h : elemRead env .number s = .ok (e, v, s1)) (hne : ¬ e.toInt < Sev.incomplete.toInt) :
    e = .null ∧ ∃ tok sp2 sp3 d x, c :: t = tok ++ sp2 ++ sp3 ++ s1.right ∧ Between env.lex sp2 ∧ Between env.lex sp3 ∧
      denoteReal tok = some d ∧ env.ops.ofDecimal d = some x ∧
      v = .atom (valueToAtom (realValue env.ops (some x))) ∧ AtDelimOrEnd env.lex s1.right :=
  elemCore_number_sound env hcfg hnum l c t sk hc e v s1 (elemRead_core env .number s l c t sk hsA e v s1 h hne) hne

theorem C09_aggr_string_element_never_silent {F} (env : Env F) (s : IStream) (l : List Byte) (c : Byte) (t : List Byte) (sk : Bool)
    (hsA : (if env.cfg.aggrSkipsComments then readTokenSeparator s else s) = G l (c :: t) sk) (hc : isSpace c = false)
    (hd : delimAt env.lex attrDelims c = false) (h47 : c ≠ 47)
    (e : Sev) (v : Elem F) (s1 : IStream)
    (h : elemRead env .string s = .ok (e, v, s1)) (hne : ¬ e.toInt < Sev.incomplete.toInt) :
    e = .null ∧ ∃ tok sp3, c :: t = tok ++ sp3 ++ s1.right ∧ isStringLenient tok = true ∧ Between env.lex sp3 ∧
      v = .atom (.str tok) ∧ AtDelimOrEnd env.lex s1.right :=
  elemCore_string_sound env l c t sk hc hd h47 e v s1 (elemRead_core env .string s l c t sk hsA e v s1 h hne) hne

theorem C09_aggr_binary_element_never_silent {F} (env : Env F) (hcfg : env.lex.binaryRejectsEmpty = true) (s : IStream)
    (l : List Byte) (c : Byte) (t : List Byte) (sk : Bool)
    (hsA : (if env.cfg.aggrSkipsComments then readTokenSeparator s else s) = G l (c :: t) sk) (hc : isSpace c = false)
    (e : Sev) (v : Elem F) (s1 : IStream)
    (h : elemRead env .binary s = .ok (e, v, s1)) (hne : ¬ e.toInt < Sev.incomplete.toInt) :
    e = .null ∧ ∃ hex sp3, c :: t = 34 :: (hex ++ 34 :: (sp3 ++ s1.right)) ∧ hex ≠ [] ∧ hex.all isXDigit = true ∧
      Between env.lex sp3 ∧ v = .atom (.bin hex) ∧ AtDelimOrEnd env.lex s1.right :=
  elemCore_binary_sound env hcfg l c t sk hc e v s1 (elemRead_core env .binary s l c t sk hsA e v s1 h hne) hne

theorem C09_aggr_enum_element_never_silent {F} (env : Env F) (ty : ElemTy) (het : EnumTy ty) (s : IStream)
    (l : List Byte) (c : Byte) (t : List Byte) (sk : Bool)
    (hsA : (if env.cfg.aggrSkipsComments then readTokenSeparator s else s) = G l (c :: t) sk) (hc : isSpace c = false)
    (h44 : c ≠ 44) (h41 : c ≠ 41) (e : Sev) (v : Elem F) (s1 : IStream)
    (h : elemRead env ty s = .ok (e, v, s1)) (hne : ¬ e.toInt < Sev.incomplete.toInt) :
    e = .null ∧ ∃ name i sp3, c :: t = 46 :: (name ++ 46 :: (sp3 ++ s1.right)) ∧ name ≠ [] ∧ name.all pw = true ∧
      findName (enumKindOf ty).table (name.map toUpper) = some i ∧
      (env.lex.logicalRejectsUnset = true → (enumKindOf ty).isUnsetIdx i = false) ∧ Between env.lex sp3 ∧
      v = .atom (valueToAtom (enumValue (enumKindOf ty) (some i) : Value F)) ∧ AtDelimOrEnd env.lex s1.right :=
  elemCore_enum_sound env ty het l c t sk hc h44 h41 e v s1 (elemRead_core env ty s l c t sk hsA e v s1 h hne) hne

/-- entity references, either state of `skipws` (it is off after a STRING was read from the same stream; then `# 5` is no
    longer accepted — `readEntityRef_sound_nosk` — and `spx` is empty) -/
theorem C09_aggr_ref_element_never_silent {F} (env : Env F) (tg : String) (s : IStream) (l : List Byte) (c : Byte) (t : List Byte)
    (sk : Bool)
    (hsA : (if env.cfg.aggrSkipsComments then readTokenSeparator s else s) = G l (c :: t) sk) (hc : isSpace c = false)
    (hd : delimAt env.lex attrDelims c = false) (h47 : c ≠ 47)
    (e : Sev) (v : Elem F) (s1 : IStream)
    (h : elemRead env (.entity tg) s = .ok (e, v, s1)) (hne : ¬ e.toInt < Sev.incomplete.toInt) :
    e = .null ∧ ∃ spx tok sp2 sp3, c :: t = 35 :: (spx ++ tok ++ sp2 ++ sp3 ++ s1.right) ∧ spx.all isSpace = true ∧
      Between env.lex sp2 ∧ Between env.lex sp3 ∧ isInteger tok = true ∧ intMin ≤ denoteInteger tok ∧ denoteInteger tok ≤ intMax ∧
      refLookup env.lookup tg (denoteInteger tok) = .found ∧ v = .atom (.ref (denoteInteger tok)) ∧
      AtDelimOrEnd env.lex s1.right :=
  elemCore_ref_sound_any env tg l c t sk hc hd h47 e v s1 (elemRead_core env (.entity tg) s l c t sk hsA e v s1 h hne) hne

/-! ### the element theorems on an **arbitrary** stream (final proof round)

`hsA` discharged in general: `readTokenSeparator_head` (`P21/RtsLemmas.lean`) specifies `ReadTokenSeparator` on arbitrary input —
when it leaves a stream with no flag pending and input left, that stream stands in front of a character that is not a blank, `/`
or `\`.  So the element theorems hold for a round of the loop standing on *any* stream `s`; what they describe is
`(readTokenSeparator s).right`, the input behind whatever the token-separator skip consumed.  They do **not** say that what was
skipped is a conforming layout — it is not always: a `/` that starts no comment and an incomplete print control directive are
dropped without a report (finding `agg:stray-slash-or-backslash-dropped`, `C09_aggr_stray_slash_witness`). -/

theorem C09_aggr_hsA_general {F} (env : Env F) (hagg : env.cfg.aggrSkipsComments = true) (s : IStream)
    (hg : (readTokenSeparator s).good = true) (hr : (readTokenSeparator s).right ≠ []) :
    ∃ l c t sk, (if env.cfg.aggrSkipsComments then readTokenSeparator s else s) = G l (c :: t) sk ∧
      isSpace c = false ∧ c ≠ 47 ∧ c ≠ 92 := by
  simp only [hagg, if_true]
  exact readTokenSeparator_head s hg hr

theorem C09_aggr_integer_element_never_silent_any_stream {F} (env : Env F) (hcfg : env.lex.intReportsFail = true)
    (hagg : env.cfg.aggrSkipsComments = true) (s : IStream)
    (hg : (readTokenSeparator s).good = true) (hr : (readTokenSeparator s).right ≠ [])
    (e : Sev) (v : Elem F) (s1 : IStream)
    (h : elemRead env .integer s = .ok (e, v, s1)) (hne : ¬ e.toInt < Sev.incomplete.toInt) :
    e = .null ∧ ∃ tok sp2 sp3, (readTokenSeparator s).right = tok ++ sp2 ++ sp3 ++ s1.right ∧ Between env.lex sp2 ∧
      Between env.lex sp3 ∧ isInteger tok = true ∧ longMin ≤ denoteInteger tok ∧ denoteInteger tok ≤ longMax ∧
      v = .atom (valueToAtom (intValue (some (denoteInteger tok)) : Value F)) ∧ AtDelimOrEnd env.lex s1.right := by
  obtain ⟨l, c, t, sk, hsA, hc, h47, _⟩ := C09_aggr_hsA_general env hagg s hg hr
  have hR : (readTokenSeparator s).right = c :: t := by
    have := hsA; simp only [hagg, if_true] at this; rw [this]
  rw [hR]
  exact C09_aggr_integer_element_never_silent env hcfg s l c t sk hsA hc e v s1 h hne

theorem C09_aggr_real_element_never_silent_any_stream {F} (env : Env F) (hcfg : env.lex.realReportsFail = true) (ty : ElemTy)
    (hty : ty = .real ∨ (ty = .number ∧ env.cfg.numberElemReadsNumber = false)) (hagg : env.cfg.aggrSkipsComments = true) (s : IStream)
    (hg : (readTokenSeparator s).good = true) (hr : (readTokenSeparator s).right ≠ [])
    (hd : ∀ c t, (readTokenSeparator s).right = c :: t → delimAt env.lex attrDelims c = false)
    (e : Sev) (v : Elem F) (s1 : IStream)
    (h : elemRead env ty s = .ok (e, v, s1)) (hne : ¬ e.toInt < Sev.incomplete.toInt) :
    e = .null ∧ ∃ tok sp2 sp3 d x, (readTokenSeparator s).right = tok ++ sp2 ++ sp3 ++ s1.right ∧ Between env.lex sp2 ∧
      Between env.lex sp3 ∧ isReal tok = true ∧ denoteReal tok = some d ∧ env.ops.ofDecimal d = some x ∧
      v = .atom (valueToAtom (realValue env.ops (some x))) ∧ AtDelimOrEnd env.lex s1.right := by
  obtain ⟨l, c, t, sk, hsA, hc, h47, _⟩ := C09_aggr_hsA_general env hagg s hg hr
  have hR : (readTokenSeparator s).right = c :: t := by
    have := hsA; simp only [hagg, if_true] at this; rw [this]
  rw [hR]
  exact C09_aggr_real_element_never_silent env hcfg ty hty s l c t sk hsA hc (hd c t hR) h47 e v s1 h hne

theorem C09_aggr_number_element_never_silent_any_stream {F} (env : Env F) (hcfg : env.lex.numberReportsFail = true)
    (hnum : env.cfg.numberElemReadsNumber = true) (hagg : env.cfg.aggrSkipsComments = true) (s : IStream)
    (hg : (readTokenSeparator s).good = true) (hr : (readTokenSeparator s).right ≠ [])
    (e : Sev) (v : Elem F) (s1 : IStream)
    (h : elemRead env .number s = .ok (e, v, s1)) (hne : ¬ e.toInt < Sev.incomplete.toInt) :
    e = .null ∧ ∃ tok sp2 sp3 d x, (readTokenSeparator s).right = tok ++ sp2 ++ sp3 ++ s1.right ∧ Between env.lex sp2 ∧
      Between env.lex sp3 ∧ denoteReal tok = some d ∧ env.ops.ofDecimal d = some x ∧
      v = .atom (valueToAtom (realValue env.ops (some x))) ∧ AtDelimOrEnd env.lex s1.right := by
  obtain ⟨l, c, t, sk, hsA, hc, h47, _⟩ := C09_aggr_hsA_general env hagg s hg hr
  have hR : (readTokenSeparator s).right = c :: t := by
    have := hsA; simp only [hagg, if_true] at this; rw [this]
  rw [hR]
  exact C09_aggr_number_element_never_silent env hcfg hnum s l c t sk hsA hc e v s1 h hne

theorem C09_aggr_string_element_never_silent_any_stream {F} (env : Env F) (hagg : env.cfg.aggrSkipsComments = true) (s : IStream)
    (hg : (readTokenSeparator s).good = true) (hr : (readTokenSeparator s).right ≠ [])
    (hd : ∀ c t, (readTokenSeparator s).right = c :: t → delimAt env.lex attrDelims c = false)
    (e : Sev) (v : Elem F) (s1 : IStream)
    (h : elemRead env .string s = .ok (e, v, s1)) (hne : ¬ e.toInt < Sev.incomplete.toInt) :
    e = .null ∧ ∃ tok sp3, (readTokenSeparator s).right = tok ++ sp3 ++ s1.right ∧ isStringLenient tok = true ∧
      Between env.lex sp3 ∧ v = .atom (.str tok) ∧ AtDelimOrEnd env.lex s1.right := by
  obtain ⟨l, c, t, sk, hsA, hc, h47, _⟩ := C09_aggr_hsA_general env hagg s hg hr
  have hR : (readTokenSeparator s).right = c :: t := by
    have := hsA; simp only [hagg, if_true] at this; rw [this]
  rw [hR]
  exact C09_aggr_string_element_never_silent env s l c t sk hsA hc (hd c t hR) h47 e v s1 h hne

theorem C09_aggr_binary_element_never_silent_any_stream {F} (env : Env F) (hcfg : env.lex.binaryRejectsEmpty = true)
    (hagg : env.cfg.aggrSkipsComments = true) (s : IStream)
    (hg : (readTokenSeparator s).good = true) (hr : (readTokenSeparator s).right ≠ [])
    (e : Sev) (v : Elem F) (s1 : IStream)
    (h : elemRead env .binary s = .ok (e, v, s1)) (hne : ¬ e.toInt < Sev.incomplete.toInt) :
    e = .null ∧ ∃ hex sp3, (readTokenSeparator s).right = 34 :: (hex ++ 34 :: (sp3 ++ s1.right)) ∧ hex ≠ [] ∧
      hex.all isXDigit = true ∧ Between env.lex sp3 ∧ v = .atom (.bin hex) ∧ AtDelimOrEnd env.lex s1.right := by
  obtain ⟨l, c, t, sk, hsA, hc, h47, _⟩ := C09_aggr_hsA_general env hagg s hg hr
  have hR : (readTokenSeparator s).right = c :: t := by
    have := hsA; simp only [hagg, if_true] at this; rw [this]
  rw [hR]
  exact C09_aggr_binary_element_never_silent env hcfg s l c t sk hsA hc e v s1 h hne

theorem C09_aggr_enum_element_never_silent_any_stream {F} (env : Env F) (ty : ElemTy) (het : EnumTy ty) (hagg : env.cfg.aggrSkipsComments = true) (s : IStream)
    (hg : (readTokenSeparator s).good = true) (hr : (readTokenSeparator s).right ≠ [])
    (hd : ∀ c t, (readTokenSeparator s).right = c :: t → c ≠ 44 ∧ c ≠ 41)
    (e : Sev) (v : Elem F) (s1 : IStream)
    (h : elemRead env ty s = .ok (e, v, s1)) (hne : ¬ e.toInt < Sev.incomplete.toInt) :
    e = .null ∧ ∃ name i sp3, (readTokenSeparator s).right = 46 :: (name ++ 46 :: (sp3 ++ s1.right)) ∧ name ≠ [] ∧
      name.all pw = true ∧ findName (enumKindOf ty).table (name.map toUpper) = some i ∧
      (env.lex.logicalRejectsUnset = true → (enumKindOf ty).isUnsetIdx i = false) ∧ Between env.lex sp3 ∧
      v = .atom (valueToAtom (enumValue (enumKindOf ty) (some i) : Value F)) ∧ AtDelimOrEnd env.lex s1.right := by
  obtain ⟨l, c, t, sk, hsA, hc, h47, _⟩ := C09_aggr_hsA_general env hagg s hg hr
  have hR : (readTokenSeparator s).right = c :: t := by
    have := hsA; simp only [hagg, if_true] at this; rw [this]
  rw [hR]
  exact C09_aggr_enum_element_never_silent env ty het s l c t sk hsA hc (hd c t hR).1 (hd c t hR).2 e v s1 h hne

theorem C09_aggr_ref_element_never_silent_any_stream {F} (env : Env F) (tg : String) (hagg : env.cfg.aggrSkipsComments = true) (s : IStream)
    (hg : (readTokenSeparator s).good = true) (hr : (readTokenSeparator s).right ≠ [])
    (hd : ∀ c t, (readTokenSeparator s).right = c :: t → delimAt env.lex attrDelims c = false)
    (e : Sev) (v : Elem F) (s1 : IStream)
    (h : elemRead env (.entity tg) s = .ok (e, v, s1)) (hne : ¬ e.toInt < Sev.incomplete.toInt) :
    e = .null ∧ ∃ spx tok sp2 sp3, (readTokenSeparator s).right = 35 :: (spx ++ tok ++ sp2 ++ sp3 ++ s1.right) ∧
      spx.all isSpace = true ∧ Between env.lex sp2 ∧ Between env.lex sp3 ∧ isInteger tok = true ∧
      intMin ≤ denoteInteger tok ∧ denoteInteger tok ≤ intMax ∧
      refLookup env.lookup tg (denoteInteger tok) = .found ∧ v = .atom (.ref (denoteInteger tok)) ∧
      AtDelimOrEnd env.lex s1.right := by
  obtain ⟨l, c, t, sk, hsA, hc, h47, _⟩ := C09_aggr_hsA_general env hagg s hg hr
  have hR : (readTokenSeparator s).right = c :: t := by
    have := hsA; simp only [hagg, if_true] at this; rw [this]
  rw [hR]
  exact C09_aggr_ref_element_never_silent env tg s l c t sk hsA hc (hd c t hR) h47 e v s1 h hne

/-- a `LoopRun` stores one value per element-reader call (so the count of stored elements is the count of element positions) -/
theorem C09_aggr_looprun_elements {F} (env : Env F) (ty : ElemTy) (c : Byte) (s sf : IStream) (vs : List (Elem F))
    (h : LoopRun env ty c s vs sf) :
    (vs = [] ∧ c = 41 ∧ sf = s) ∨
    (∃ e v s1 c2 s3 rest, vs = v :: rest ∧ s.good = true ∧ c ≠ 41 ∧ elemRead env ty s = .ok (e, v, s1) ∧
      ¬ e.toInt < Sev.incomplete.toInt ∧ getInto c s1.ws = (c2, s3) ∧ (c2 = 44 ∨ c2 = 41) ∧ LoopRun env ty c2 s3 rest sf) := by
  cases h with
  | close => exact Or.inl ⟨rfl, rfl, rfl⟩
  | elem h1 h2 h3 h4 h5 h6 h7 => exact Or.inr ⟨_, _, _, _, _, _, rfl, h1, h2, h3, h4, h5, h6, h7⟩

/-- what `aggrRead` answers: severity NULL and these elements -/
def aggrSilent (o : Except Stop (Sev × Option (List (Elem Nat)) × IStream)) (vals : List (Elem Nat)) : Bool :=
  match o with
  | .ok (sev, some es, _) => sev == .null && es == vals
  | _ => false

/-- the reader model with the two aggregate switches set by hand (everything else as regenerated) -/
def aggEnvWith (missing number : Bool) : Env Nat :=
  { sampleEnv with cfg := { Generated.rwCfg with aggrReportsMissingElement := missing, numberElemReadsNumber := number } }

def aggrSev (o : Except Stop (Sev × Option (List (Elem Nat)) × IStream)) : Option Sev :=
  match o with
  | .ok (sev, _, _) => some sev
  | _ => none

/-- the never-silent statement does *not* hold for aggregates while the element loop does not look for a missing element
    (finding `agg:missing-element-read-as-unset`): `('a',,'b')` — an element missing — is read with no error, the missing
    element stored as an unset node; likewise `(.T.,)`; INTEGER elements report it.  With the loop's "missing element" test
    switched on the same inputs are reported. -/
theorem C09_aggr_missing_element_witness :
    aggrSilent (aggrRead (aggEnvWith false false) .string (IStream.ofBytes [40, 39, 97, 39, 44, 44, 39, 98, 39, 41, 44]))
      [.atom (.str [39, 97, 39]), .atom .unset, .atom (.str [39, 98, 39])] = true ∧
    aggrSilent (aggrRead (aggEnvWith false false) .boolean (IStream.ofBytes [40, 46, 84, 46, 44, 41, 44])) [.atom (.enum 1), .atom .unset] = true ∧
    aggrSev (aggrRead (aggEnvWith false false) .integer (IStream.ofBytes [40, 49, 44, 44, 50, 41, 44])) = some .warning ∧
    aggrSev (aggrRead (aggEnvWith true false) .string (IStream.ofBytes [40, 39, 97, 39, 44, 44, 39, 98, 39, 41, 44])) = some .warning ∧
    aggrSev (aggrRead (aggEnvWith true false) .boolean (IStream.ofBytes [40, 46, 84, 46, 44, 41, 44])) = some .warning := by
  decide

/-- a conforming `LIST OF NUMBER` is not accepted silently while NUMBER elements are read by `ReadReal` (finding
    `agg:number-element-spelled-as-integer`): `(3)` is read to `[3.0]` but reported WARNING, `(3.)` is accepted; with the
    elements read by `ReadNumber` both are accepted -/
theorem C09_aggr_number_integer_spelling_witness :
    (match aggrRead (aggEnvWith false false) .number (IStream.ofBytes [40, 51, 41, 44]) with
      | .ok (sev, some [.atom (.real v)], _) => sev == .warning && v == 0x4008000000000000
      | _ => false) = true ∧
    (match aggrRead (aggEnvWith false false) .number (IStream.ofBytes [40, 51, 46, 41, 44]) with
      | .ok (sev, some [.atom (.real v)], _) => sev == .null && v == 0x4008000000000000
      | _ => false) = true ∧
    (match aggrRead (aggEnvWith false true) .number (IStream.ofBytes [40, 51, 41, 44]) with
      | .ok (sev, some [.atom (.real v)], _) => sev == .null && v == 0x4008000000000000
      | _ => false) = true := by
  decide

/-- what `ReadTokenSeparator` skips is not always a separator (finding `agg:stray-slash-or-backslash-dropped`): `(0, / 7)`,
    `(0,/7)`, `(0, \ 7)` and `(0, \N 7)` — a `/` that starts no comment, a `\` that starts no complete print control
    directive — are read as `(0,7)` with severity NULL; behind the element, `(0 / ,7)`, the same `/` is reported; and the
    backslash takes up to two more characters with it: `(\1.5,-40)` of NUMBER is stored as (0.5, -40.0) -/
theorem C09_aggr_stray_slash_witness :
    aggrSilent (aggrRead sampleEnv .integer (IStream.ofBytes [40, 48, 44, 32, 47, 32, 55, 41, 44])) [.atom (.int 0), .atom (.int 7)] = true ∧
    aggrSilent (aggrRead sampleEnv .integer (IStream.ofBytes [40, 48, 44, 47, 55, 41, 44])) [.atom (.int 0), .atom (.int 7)] = true ∧
    aggrSilent (aggrRead sampleEnv .integer (IStream.ofBytes [40, 48, 44, 32, 92, 32, 55, 41, 44])) [.atom (.int 0), .atom (.int 7)] = true ∧
    aggrSilent (aggrRead sampleEnv .integer (IStream.ofBytes [40, 48, 44, 32, 92, 78, 32, 55, 41, 44])) [.atom (.int 0), .atom (.int 7)] = true ∧
    aggrSev (aggrRead sampleEnv .integer (IStream.ofBytes [40, 48, 32, 47, 32, 44, 55, 41, 44])) = some .warning ∧
    -- `(\1.5,-40)` of NUMBER: `ReadPcd` eats the backslash *and* the `1`; the element is read from `.5` — stored 0.5, severity NULL
    (match aggrRead sampleEnv .number (IStream.ofBytes [40, 92, 49, 46, 53, 44, 45, 52, 48, 41, 44]) with
      | .ok (sev, some [.atom (.real v), .atom (.real w)], _) => sev == .null && v == 0x3FE0000000000000 && w == 0xC044000000000000
      | _ => false) = true := by
  decide

/-- **what the aggregate path of the reader model does not cover yet: in-band-null elements** (still open, coordinated with C01).
    At attribute level the model follows the repaired source (fixes/C09-9): `9223372036854775807` is reported (WARNING, unset).
    On the element path `scalarNodeRead` still calls `readInteger` / `readReal` without the sentinel wrappers, so the *model*
    stores `(9223372036854775807)` and `(1.1754943508222875E-38)` as an unset element with severity NULL — the *code* reports
    both (WARNING; oracle-only lines of the `aggregates` batch).  The `C09_aggr_*` theorems are therefore statements about
    aggregates whose elements are not the in-band null; this witness pins the gap so that it shows when the model is switched -/
theorem C09_aggr_sentinel_element_witness :
    aggrSilent (aggrRead sampleEnv .integer (IStream.ofBytes [40, 57, 50, 50, 51, 51, 55, 50, 48, 51, 54, 56, 53, 52, 55, 55, 53, 56, 48, 55, 41, 44])) [.atom .unset] = true ∧
    aggrSilent (aggrRead sampleEnv .real (IStream.ofBytes [40, 49, 46, 49, 55, 53, 52, 57, 52, 51, 53, 48, 56, 50, 50, 50, 56, 55, 53, 69, 45, 51, 56, 41, 44])) [.atom .unset] = true ∧
    (match attrRead dblOps Generated.lexCfg (fun _ => .missing) .integer false (IStream.ofBytes [57, 50, 50, 51, 51, 55, 50, 48, 51, 54, 56, 53, 52, 55, 55, 53, 56, 48, 55, 44]) with
      | .ok r => r.sev == .warning && (match r.val with | .unset => true | _ => false)
      | _ => false) = true ∧
    (match attrRead dblOps Generated.lexCfg (fun _ => .missing) .real false (IStream.ofBytes [49, 46, 49, 55, 53, 52, 57, 52, 51, 53, 48, 56, 50, 50, 50, 56, 55, 53, 69, 45, 51, 56, 44]) with
      | .ok r => r.sev == .warning && (match r.val with | .unset => true | _ => false)
      | _ => false) = true := by
  decide +kernel

/-! ### nested aggregates: the raw-text semantics (proof-only stretch)

The elements of an aggregate of aggregates are not read by any literal scanner: `STEPaggregate::ReadValue` hands each of them to
`SCLundefined::STEPread` (`undefRead` / `pushPastAggr` of C01's reader model, element type `.generic`), which keeps the *text* of
the element.  Accept direction: a balanced group `( u )` — `u` any `Raw` text: plain bytes (digits, signs, `.`, `,`, `#`, `$`,
`*`, letters, blanks, `/` …) and nested balanced groups to any depth, no string literal and no `;` — is stored **verbatim** as
`.undef "(u)"`, nothing is reported, and the stream rests at the delimiter. -/

/-- `SCLundefined::STEPread` on a balanced group: the text, verbatim -/
theorem C09_nested_raw_text_verbatim (lex : LexCfg) (stop : Bool) (u : List Byte) (hu : Raw u) (l0 rest : List Byte) (d : Byte)
    (sk : Bool) (hd : d = 44 ∨ d = 41) :
    undefRead lex stop (G l0 (40 :: (u ++ 41 :: d :: rest)) sk) =
      .ok (40 :: (u ++ [41]), G (41 :: (u.reverse ++ 40 :: l0)) (d :: rest) sk, P21.Sev.null) :=
  undefRead_raw lex stop u hu l0 rest d sk hd

/-- an element of an aggregate of aggregates (any layout of blanks and comments in front of it, the delimiter directly behind
    it — whatever else stood there would become part of the stored text) -/
theorem C09_aggr_elem_nested {F} (env : Env F) (hagg : env.cfg.aggrSkipsComments = true) (u before : List Byte) (hu : Raw u)
    (hb : Seps before) :
    ElemReads env .generic id ⟨40 :: (u ++ [41]), before, [], (.atom (.undef (40 :: (u ++ [41]))) : Elem F)⟩ :=
  ElemReads.generic env hagg u before hu hb

/-- **aggregate of aggregates, accept**: `( (u₁) , … , (uₙ) )`, every `uᵢ` a `Raw` text, any layout in front of every group:
    read with no error to the list of the groups' texts, the stream behind the closing parenthesis -/
theorem C09_aggr_nested_accept {F} (env : Env F) (hagg : env.cfg.aggrSkipsComments = true) (es : List (ElemQ F)) (hne : es ≠ [])
    (hes : ∀ e ∈ es, ∃ u, Raw u ∧ e.tok = 40 :: (u ++ [41]) ∧ Seps e.before ∧ e.after = [] ∧ e.val = .atom (.undef e.tok))
    (l : List Byte) (sk : Bool) (rest : List Byte) :
    aggrRead env .generic (G l (40 :: (renderQ es ++ rest)) sk) =
      .ok (.null, some (es.map (·.val)), G ((40 :: renderQ es).reverse ++ l) rest sk) := by
  have := C09_aggr_accept env hagg .generic id (fun _ => rfl) es hne (by
    intro e he
    obtain ⟨u, hu, h1, h2, h3, h4⟩ := hes e he
    obtain ⟨tok, before, after, val⟩ := e
    simp only at h1 h2 h3 h4
    subst h1 h3 h4
    exact ElemReads.generic env hagg u before hu h2) l sk rest
  simpa using this

/-- `((1,2),(3,(4)))` under the regenerated configuration (an instance of the theorem): stored as the two texts `(1,2)` and
    `(3,(4))`, severity NULL, the stream at the `,` that follows -/
theorem C09_aggr_nested_witness :
    aggrRead sampleEnv .generic (G [] [40, 40, 49, 44, 50, 41, 44, 40, 51, 44, 40, 52, 41, 41, 41, 44] true) =
      .ok (.null, some [.atom (.undef [40, 49, 44, 50, 41]), .atom (.undef [40, 51, 44, 40, 52, 41, 41])],
        G [41, 41, 41, 52, 40, 44, 51, 40, 44, 41, 50, 44, 49, 40, 40] [44] true) := by
  have p : ∀ c : Byte, c ≠ 40 → c ≠ 41 → c ≠ 39 → c ≠ 59 → plainByte c := fun _ a b c d => ⟨a, b, c, d⟩
  have hR1 : Raw [49, 44, 50] :=
    .plain 49 _ (p 49 (by decide) (by decide) (by decide) (by decide))
      (.plain 44 _ (p 44 (by decide) (by decide) (by decide) (by decide))
        (.plain 50 _ (p 50 (by decide) (by decide) (by decide) (by decide)) .nil))
  have hR2 : Raw [51, 44, 40, 52, 41] :=
    .plain 51 _ (p 51 (by decide) (by decide) (by decide) (by decide))
      (.plain 44 _ (p 44 (by decide) (by decide) (by decide) (by decide))
        (.nest [52] [] (.plain 52 _ (p 52 (by decide) (by decide) (by decide) (by decide)) .nil) .nil))
  have h := C09_aggr_nested_accept sampleEnv (by decide)
    [⟨[40, 49, 44, 50, 41], [], [], .atom (.undef [40, 49, 44, 50, 41])⟩,
     ⟨[40, 51, 44, 40, 52, 41, 41], [], [], .atom (.undef [40, 51, 44, 40, 52, 41, 41])⟩] (by simp)
    (by
      intro e he
      simp only [List.mem_cons, List.mem_nil_iff, or_false] at he
      rcases he with rfl | rfl
      · exact ⟨[49, 44, 50], hR1, rfl, Seps.blanks [] (by simp), rfl, rfl⟩
      · exact ⟨[51, 44, 40, 52, 41], hR2, rfl, Seps.blanks [] (by simp), rfl, rfl⟩) [] true [44]
  simpa [renderQ] using h

/-! … with string literals inside the groups (`RawS`): `PushPastImbedAggr` steps over a literal of the string grammar with
`GetLiteralStr`, so parentheses, commas and semicolons *inside* a literal do not count -/

/-- `SCLundefined::STEPread` on a balanced group that may contain string literals: the text, verbatim -/
theorem C09_nested_raw_text_verbatim_strings (lex : LexCfg) (stop : Bool) (u : List Byte) (hu : RawS u) (l0 rest : List Byte)
    (d : Byte) (sk : Bool) (hd : d = 44 ∨ d = 41) :
    undefRead lex stop (G l0 (40 :: (u ++ 41 :: d :: rest)) sk) =
      .ok (40 :: (u ++ [41]), G (41 :: (u.reverse ++ 40 :: l0)) (d :: rest) sk, P21.Sev.null) :=
  undefRead_rawS lex stop u hu l0 rest d sk hd

/-- aggregate of aggregates whose groups may contain string literals, accept -/
theorem C09_aggr_nested_accept_strings {F} (env : Env F) (hagg : env.cfg.aggrSkipsComments = true) (es : List (ElemQ F))
    (hne : es ≠ [])
    (hes : ∀ e ∈ es, ∃ u, RawS u ∧ e.tok = 40 :: (u ++ [41]) ∧ Seps e.before ∧ e.after = [] ∧ e.val = .atom (.undef e.tok))
    (l : List Byte) (sk : Bool) (rest : List Byte) :
    aggrRead env .generic (G l (40 :: (renderQ es ++ rest)) sk) =
      .ok (.null, some (es.map (·.val)), G ((40 :: renderQ es).reverse ++ l) rest sk) := by
  have := C09_aggr_accept env hagg .generic id (fun _ => rfl) es hne (by
    intro e he
    obtain ⟨u, hu, h1, h2, h3, h4⟩ := hes e he
    obtain ⟨tok, before, after, val⟩ := e
    simp only at h1 h2 h3 h4
    subst h1 h3 h4
    exact ElemReads.genericS env hagg u before hu h2) l sk rest
  simpa using this

/-- `((')';',1))` — a group holding the literal `')';'` (a `)` and a `;` inside apostrophes) and `1` — is stored as the text
    `(')';',1)` (an instance of the theorem, regenerated configuration) -/
theorem C09_aggr_nested_string_witness :
    aggrRead sampleEnv .generic (G [] [40, 40, 39, 41, 59, 39, 44, 49, 41, 41, 44] true) =
      .ok (.null, some [.atom (.undef [40, 39, 41, 59, 39, 44, 49, 41])],
        G [41, 41, 49, 44, 39, 59, 41, 39, 40, 40] [44] true) := by
  have p : ∀ c : Byte, c ≠ 40 → c ≠ 41 → c ≠ 39 → c ≠ 59 → plainByte c := fun _ a b c d => ⟨a, b, c, d⟩
  have hb : StringBody [41, 59] := .nonq (by decide) (.nonq (by decide) .nil)
  have hR : RawS [39, 41, 59, 39, 44, 49] :=
    .str [41, 59] [44, 49] hb (by decide)
      (.plain 44 _ (p 44 (by decide) (by decide) (by decide) (by decide))
        (.plain 49 _ (p 49 (by decide) (by decide) (by decide) (by decide)) .nil))
  have h := C09_aggr_nested_accept_strings sampleEnv (by decide)
    [⟨[40, 39, 41, 59, 39, 44, 49, 41], [], [], .atom (.undef [40, 39, 41, 59, 39, 44, 49, 41])⟩] (by simp)
    (by
      intro e he
      simp only [List.mem_cons, List.mem_nil_iff, or_false] at he
      subst he
      exact ⟨[39, 41, 59, 39, 44, 49], hR, rfl, Seps.blanks [] (by simp), rfl, rfl⟩) [] true [44]
  simpa [renderQ] using h

/-! ### aggregates, writer side (over `writeAggr` of C01's `P21/Writer.lean`) -/

/-- **aggregate of INTEGER, written and read back**: what `STEPaggregate::STEPwrite` writes for a non-empty list of INTEGER values
    other than the in-band null — `( tok₁ , … , tokₙ )`, every `tokᵢ` the token `WriteInteger` prints, a token of the grammar
    (`showInt_spec`) — is read by `STEPaggregate::ReadValue` to exactly that list with no error, wherever it stands -/
theorem C09_aggr_writer_integer_round_trip {F} (env : Env F) (hcfg : env.lex.criSkipsComments = true)
    (hagg : env.cfg.aggrSkipsComments = true) (d : Dict) (vs : List Int) (hne : vs ≠ [])
    (hr : ∀ v ∈ vs, longMin ≤ v ∧ v < longMax) (l : List Byte) (sk : Bool) (rest : List Byte) :
    aggrRead env .integer (G l (writeAggr env.ops env.cfg d .integer (vs.map (fun v => (Elem.atom (.int v) : Elem F))) ++ rest) sk) =
      .ok (.null, some (vs.map (fun v => (Elem.atom (.int v) : Elem F))),
        G ((writeAggr env.ops env.cfg d .integer (vs.map (fun v => (Elem.atom (.int v) : Elem F)))).reverse ++ l) rest sk) := by
  have hw : writeAggr env.ops env.cfg d .integer (vs.map (fun v => (Elem.atom (.int v) : Elem F))) =
      40 :: renderQ (vs.map (fun v => (intQ v : ElemQ F))) := by
    unfold writeAggr
    have := writeNodes_int env.ops env.cfg d vs [] hne
    simp only [List.cons_append, List.nil_append]
    rw [this]
  rw [hw]
  have hok : ∀ e ∈ vs.map (fun v => (intQ v : ElemQ F)), ElemReads env .integer id e := by
    intro e he
    obtain ⟨v, hv, rfl⟩ := List.mem_map.1 he
    obtain ⟨h1, h2⟩ := showInt_spec v
    obtain ⟨h3, h4⟩ := hr v hv
    have := ElemReads.integer env hcfg hagg (showInt v) [] [] h1 (by rw [h2]; exact h3) (by rw [h2]; exact h4)
      (Seps.blanks [] (by simp)) (Seps.blanks [] (by simp))
    rw [h2] at this
    exact this
  have := C09_aggr_accept env hagg .integer id (fun _ => rfl) (vs.map (fun v => (intQ v : ElemQ F))) (by simpa using hne) hok l sk rest
  simpa [intQ, List.map_map, Function.comp_def] using this

/-- **aggregate of REAL, written and read back — every finite double**: with the repaired `WriteReal` (`dblOpsRT`) and no
    fixed buffer in `ReadReal`, what `STEPaggregate::STEPwrite` writes for a non-empty list of finite doubles other than the
    in-band null is read by `STEPaggregate::ReadValue` to exactly that list, bit for bit, with no error (the element tokens are
    grammar tokens by `C09_write_real_conforming`, their values come back by the 17-digit theorem) -/
theorem C09_aggr_writer_real_round_trip (env : Env Nat) (hops : env.ops = dblOpsRT) (hcfg : env.lex.criSkipsComments = true)
    (hagg : env.cfg.aggrSkipsComments = true) (hbuf : env.lex.realBuf = 0) (d : Dict) (vs : List Nat) (hne : vs ≠ [])
    (hr : ∀ v ∈ vs, v < 2 ^ 64 ∧ (v / Dbl.pow2 52 % 2048 == 2047) = false ∧ (v == Dbl.realNullBits) = false)
    (l : List Byte) (sk : Bool) (rest : List Byte) :
    aggrRead env .real (G l (writeAggr env.ops env.cfg d .real (vs.map (fun v => (Elem.atom (.real v) : Elem Nat))) ++ rest) sk) =
      .ok (.null, some (vs.map (fun v => (Elem.atom (.real v) : Elem Nat))),
        G ((writeAggr env.ops env.cfg d .real (vs.map (fun v => (Elem.atom (.real v) : Elem Nat)))).reverse ++ l) rest sk) := by
  have hw : writeAggr env.ops env.cfg d .real (vs.map (fun v => (Elem.atom (.real v) : Elem Nat))) =
      40 :: renderQ ((vs.map (fun v => (Atom.real v : Atom Nat))).map
        (fun a => (⟨writeAtomCore env.ops .real a, [], [], .atom a⟩ : ElemQ Nat))) := by
    unfold writeAggr
    have := writeNodes_atoms env.ops env.cfg d .real (writeAtomCore env.ops .real) (fun sc a => rfl)
      (vs.map (fun v => (Atom.real v : Atom Nat))) [] (by simpa using hne)
    simp only [List.map_map, Function.comp_def] at this
    simp only [List.cons_append, List.nil_append, List.map_map, Function.comp_def]
    rw [this]
  rw [hw]
  have hok : ∀ e ∈ (vs.map (fun v => (Atom.real v : Atom Nat))).map
      (fun a => (⟨writeAtomCore env.ops .real a, [], [], .atom a⟩ : ElemQ Nat)), ElemReads env .real id e := by
    intro e he
    simp only [List.map_map, List.mem_map, Function.comp_def] at he
    obtain ⟨v, hv, rfl⟩ := he
    obtain ⟨h1, h2, h3⟩ := hr v hv
    have hshape := dbl_fmtShortest_shape v h2
    obtain ⟨dec, hp, hdv⟩ := dbl_fmtShortest_stable v (C09_writer_seventeen_digits_convert_back v h1 h2)
    obtain ⟨hreal, hden⟩ := C09_write_real_conforming dblOpsRT v hshape
    have htok : writeAtomCore env.ops .real (Atom.real v) = attrWrite dblOpsRT .real (.real v) := by rw [hops]; rfl
    rw [htok]
    exact ElemReads.real env hcfg hagg .real (Or.inl rfl) _ [] [] dec v hreal (by rw [hden]; exact hp) (by rw [hops]; exact hdv)
      (by rw [hops]; exact h3) (Or.inl hbuf) (Seps.blanks [] (by simp)) (Seps.blanks [] (by simp))
  have := C09_aggr_accept env hagg .real id (fun _ => rfl) _ (by simpa using hne) hok l sk rest
  simpa [List.map_map, Function.comp_def] using this

/-- **aggregate of NUMBER, written and read back — every finite double** (elements read by `ReadNumber`, as the repaired
    `RealAggregate::ReadValue` does: `numberElemReadsNumber`) -/
theorem C09_aggr_writer_number_round_trip (env : Env Nat) (hops : env.ops = dblOpsRT) (hcfg : env.lex.criSkipsComments = true)
    (hagg : env.cfg.aggrSkipsComments = true) (hnum : env.cfg.numberElemReadsNumber = true) (d : Dict) (vs : List Nat)
    (hne : vs ≠ [])
    (hr : ∀ v ∈ vs, v < 2 ^ 64 ∧ (v / Dbl.pow2 52 % 2048 == 2047) = false ∧ (v == Dbl.realNullBits) = false)
    (l : List Byte) (sk : Bool) (rest : List Byte) :
    aggrRead env .number (G l (writeAggr env.ops env.cfg d .number (vs.map (fun v => (Elem.atom (.real v) : Elem Nat))) ++ rest) sk) =
      .ok (.null, some (vs.map (fun v => (Elem.atom (.real v) : Elem Nat))),
        G ((writeAggr env.ops env.cfg d .number (vs.map (fun v => (Elem.atom (.real v) : Elem Nat)))).reverse ++ l) rest sk) := by
  have hw : writeAggr env.ops env.cfg d .number (vs.map (fun v => (Elem.atom (.real v) : Elem Nat))) =
      40 :: renderQ ((vs.map (fun v => (Atom.real v : Atom Nat))).map
        (fun a => (⟨writeAtomCore env.ops .number a, [], [], .atom a⟩ : ElemQ Nat))) := by
    unfold writeAggr
    have := writeNodes_atoms env.ops env.cfg d .number (writeAtomCore env.ops .number) (fun sc a => rfl)
      (vs.map (fun v => (Atom.real v : Atom Nat))) [] (by simpa using hne)
    simp only [List.map_map, Function.comp_def] at this
    simp only [List.cons_append, List.nil_append, List.map_map, Function.comp_def]
    rw [this]
  rw [hw]
  have hok : ∀ e ∈ (vs.map (fun v => (Atom.real v : Atom Nat))).map
      (fun a => (⟨writeAtomCore env.ops .number a, [], [], .atom a⟩ : ElemQ Nat)), ElemReads env .number id e := by
    intro e he
    simp only [List.map_map, List.mem_map, Function.comp_def] at he
    obtain ⟨v, hv, rfl⟩ := he
    obtain ⟨h1, h2, h3⟩ := hr v hv
    have hshape := dbl_fmtShortest_shape v h2
    obtain ⟨dec, hp, hdv⟩ := dbl_fmtShortest_stable v (C09_writer_seventeen_digits_convert_back v h1 h2)
    obtain ⟨hreal, hden⟩ := C09_write_real_conforming dblOpsRT v hshape
    have htok : writeAtomCore env.ops .number (Atom.real v) = attrWrite dblOpsRT .real (.real v) := by rw [hops]; rfl
    rw [htok]
    exact ElemReads.number env hcfg hagg hnum _ [] [] dec v (Or.inl hreal) (by rw [hden]; exact hp) (by rw [hops]; exact hdv)
      (by rw [hops]; exact h3) (Seps.blanks [] (by simp)) (Seps.blanks [] (by simp))
  have := C09_aggr_accept env hagg .number id (fun _ => rfl) _ (by simpa using hne) hok l sk rest
  simpa [List.map_map, Function.comp_def] using this

/-- **aggregate of aggregates, written and read back**: the stored raw texts `(uᵢ)` (`RawS`: balanced, string literals of the
    grammar allowed) are written as they are, comma-separated, and read back to the same texts -/
theorem C09_aggr_writer_nested_round_trip {F} (env : Env F) (hagg : env.cfg.aggrSkipsComments = true) (d : Dict)
    (us : List (List Byte)) (hne : us ≠ []) (hr : ∀ u ∈ us, RawS u) (l : List Byte) (sk : Bool) (rest : List Byte) :
    aggrRead env .generic
        (G l (writeAggr env.ops env.cfg d .generic (us.map (fun u => (Elem.atom (.undef (40 :: (u ++ [41]))) : Elem F))) ++ rest) sk) =
      .ok (.null, some (us.map (fun u => (Elem.atom (.undef (40 :: (u ++ [41]))) : Elem F))),
        G ((writeAggr env.ops env.cfg d .generic (us.map (fun u => (Elem.atom (.undef (40 :: (u ++ [41]))) : Elem F)))).reverse ++ l)
          rest sk) := by
  have htk : ∀ (sc : List Byte) (a : Atom F), nodeWrite env.ops env.cfg d .generic sc (Elem.atom a) =
      (match a with | .unset => [36] | a => writeAtomCore env.ops .generic a) := by
    intro sc a; cases a <;> rfl
  have hw : writeAggr env.ops env.cfg d .generic (us.map (fun u => (Elem.atom (.undef (40 :: (u ++ [41]))) : Elem F))) =
      40 :: renderQ (us.map (fun u => (⟨40 :: (u ++ [41]), [], [], .atom (.undef (40 :: (u ++ [41])))⟩ : ElemQ F))) := by
    unfold writeAggr
    have := writeNodes_atoms env.ops env.cfg d .generic _ htk
      (us.map (fun u => (Atom.undef (40 :: (u ++ [41])) : Atom F))) [] (by simpa using hne)
    simp only [List.map_map, Function.comp_def, writeAtomCore] at this
    simp only [List.cons_append, List.nil_append, List.map_map, Function.comp_def]
    rw [this]
  rw [hw]
  have := C09_aggr_nested_accept_strings env hagg
    (us.map (fun u => (⟨40 :: (u ++ [41]), [], [], .atom (.undef (40 :: (u ++ [41])))⟩ : ElemQ F))) (by simpa using hne)
    (by
      intro e he
      obtain ⟨u, hu, rfl⟩ := List.mem_map.1 he
      exact ⟨u, hr u hu, rfl, Seps.blanks [] (by simp), rfl, rfl⟩) l sk rest
  simpa [List.map_map, Function.comp_def] using this

/-- **aggregate of STRING, written and read back** (string nodes written into their own scratch string: `stringNodeAppends = false`,
    as `Generated.rwCfg` has it on the repaired source): a non-empty list of literals of the full string grammar is written as it is,
    comma-separated, and read back to the same literals; the stream's `skipws` flag is left off, as after every STRING -/
theorem C09_aggr_writer_string_round_trip {F} (env : Env F) (hcfg : env.lex.criSkipsComments = true)
    (hagg : env.cfg.aggrSkipsComments = true) (happ : env.cfg.stringNodeAppends = false) (d : Dict)
    (bs : List (List Byte)) (hne : bs ≠ []) (hr : ∀ b ∈ bs, StringBody b) (l : List Byte) (sk : Bool) (rest : List Byte) :
    aggrRead env .string
        (G l (writeAggr env.ops env.cfg d .string (bs.map (fun b => (Elem.atom (.str (39 :: (b ++ [39]))) : Elem F))) ++ rest) sk) =
      .ok (.null, some (bs.map (fun b => (Elem.atom (.str (39 :: (b ++ [39]))) : Elem F))),
        G ((writeAggr env.ops env.cfg d .string (bs.map (fun b => (Elem.atom (.str (39 :: (b ++ [39]))) : Elem F)))).reverse ++ l)
          rest false) := by
  have htk : ∀ (sc : List Byte) (a : Atom F), nodeWrite env.ops env.cfg d .string sc (Elem.atom a) =
      (match a with | .str t => t | _ => []) := by
    intro sc a; cases a <;> simp [nodeWrite, happ]
  have hw : writeAggr env.ops env.cfg d .string (bs.map (fun b => (Elem.atom (.str (39 :: (b ++ [39]))) : Elem F))) =
      40 :: renderQ (bs.map (fun b => (⟨39 :: (b ++ [39]), [], [], .atom (.str (39 :: (b ++ [39])))⟩ : ElemQ F))) := by
    unfold writeAggr
    have := writeNodes_atoms env.ops env.cfg d .string _ htk
      (bs.map (fun b => (Atom.str (39 :: (b ++ [39])) : Atom F))) [] (by simpa using hne)
    simp only [List.map_map, Function.comp_def] at this
    simp only [List.cons_append, List.nil_append, List.map_map, Function.comp_def]
    rw [this]
  rw [hw]
  have hok : ∀ e ∈ bs.map (fun b => (⟨39 :: (b ++ [39]), [], [], .atom (.str (39 :: (b ++ [39])))⟩ : ElemQ F)),
      ElemReads env .string (fun _ => false) e := by
    intro e he
    obtain ⟨b, hb, rfl⟩ := List.mem_map.1 he
    exact ElemReads.string env hcfg hagg b [] [] (hr b hb) (Seps.blanks [] (by simp)) (Seps.blanks [] (by simp))
  have := C09_aggr_accept env hagg .string (fun _ => false) (fun _ => rfl) _ (by simpa using hne) hok l sk rest
  simpa [List.map_map, Function.comp_def] using this

/-- **aggregate of BINARY, written and read back**: non-empty hexadecimal contents -/
theorem C09_aggr_writer_binary_round_trip {F} (env : Env F) (hcfg : env.lex.criSkipsComments = true)
    (hagg : env.cfg.aggrSkipsComments = true) (d : Dict) (hs : List (List Byte)) (hne : hs ≠ [])
    (hr : ∀ h ∈ hs, h ≠ [] ∧ h.all isXDigit = true) (l : List Byte) (sk : Bool) (rest : List Byte) :
    aggrRead env .binary (G l (writeAggr env.ops env.cfg d .binary (hs.map (fun h => (Elem.atom (.bin h) : Elem F))) ++ rest) sk) =
      .ok (.null, some (hs.map (fun h => (Elem.atom (.bin h) : Elem F))),
        G ((writeAggr env.ops env.cfg d .binary (hs.map (fun h => (Elem.atom (.bin h) : Elem F)))).reverse ++ l) rest sk) := by
  have htk : ∀ (sc : List Byte) (a : Atom F), nodeWrite env.ops env.cfg d .binary sc (Elem.atom a) =
      (match a with | .unset => [36] | a => writeAtomCore env.ops .binary a) := by
    intro sc a; cases a <;> rfl
  have hw : writeAggr env.ops env.cfg d .binary (hs.map (fun h => (Elem.atom (.bin h) : Elem F))) =
      40 :: renderQ (hs.map (fun h => (⟨writeBinary h, [], [], .atom (.bin h)⟩ : ElemQ F))) := by
    unfold writeAggr
    have := writeNodes_atoms env.ops env.cfg d .binary _ htk (hs.map (fun h => (Atom.bin h : Atom F))) [] (by simpa using hne)
    simp only [List.map_map, Function.comp_def, writeAtomCore] at this
    simp only [List.cons_append, List.nil_append, List.map_map, Function.comp_def]
    rw [this]
  rw [hw]
  have hok : ∀ e ∈ hs.map (fun h => (⟨writeBinary h, [], [], .atom (.bin h)⟩ : ElemQ F)), ElemReads env .binary id e := by
    intro e he
    obtain ⟨h, hh, rfl⟩ := List.mem_map.1 he
    obtain ⟨h1, h2⟩ := hr h hh
    have hwb : writeBinary h = 34 :: (h ++ [34]) := by
      unfold writeBinary
      have : h.isEmpty = false := by cases h <;> simp_all
      simp [this]
    rw [hwb]
    exact ElemReads.binary env hcfg hagg h [] [] h1 h2 (Seps.blanks [] (by simp)) (Seps.blanks [] (by simp))
  have := C09_aggr_accept env hagg .binary id (fun _ => rfl) _ (by simpa using hne) hok l sk rest
  simpa [List.map_map, Function.comp_def] using this

/-- **aggregate of entity references, written and read back**: ids `0 ≤ id ≤ INT_MAX` of instances the look-up finds with the
    right type are written `#id` and read back to the same ids -/
theorem C09_aggr_writer_ref_round_trip {F} (env : Env F) (hcfg : env.lex.criSkipsComments = true)
    (hagg : env.cfg.aggrSkipsComments = true) (d : Dict) (tg : String) (ids : List Nat) (hne : ids ≠ [])
    (hr : ∀ n ∈ ids, ((n : Nat) : Int) ≤ intMax ∧ refLookup env.lookup tg ((n : Nat) : Int) = .found)
    (l : List Byte) (sk : Bool) (rest : List Byte) :
    aggrRead env (.entity tg)
        (G l (writeAggr env.ops env.cfg d (.entity tg) (ids.map (fun n => (Elem.atom (.ref ((n : Nat) : Int)) : Elem F))) ++ rest) sk) =
      .ok (.null, some (ids.map (fun n => (Elem.atom (.ref ((n : Nat) : Int)) : Elem F))),
        G ((writeAggr env.ops env.cfg d (.entity tg) (ids.map (fun n => (Elem.atom (.ref ((n : Nat) : Int)) : Elem F)))).reverse ++ l)
          rest sk) := by
  have htk : ∀ (sc : List Byte) (a : Atom F), nodeWrite env.ops env.cfg d (.entity tg) sc (Elem.atom a) =
      (match a with | .unset => [36] | a => writeAtomCore env.ops (.entity tg) a) := by
    intro sc a; cases a <;> rfl
  have hw : writeAggr env.ops env.cfg d (.entity tg) (ids.map (fun n => (Elem.atom (.ref ((n : Nat) : Int)) : Elem F))) =
      40 :: renderQ (ids.map (fun n => (⟨35 :: showInt ((n : Nat) : Int), [], [], .atom (.ref ((n : Nat) : Int))⟩ : ElemQ F))) := by
    unfold writeAggr
    have := writeNodes_atoms env.ops env.cfg d (.entity tg) _ htk (ids.map (fun n => (Atom.ref ((n : Nat) : Int) : Atom F))) []
      (by simpa using hne)
    simp only [List.map_map, Function.comp_def, writeAtomCore] at this
    simp only [List.cons_append, List.nil_append, List.map_map, Function.comp_def]
    rw [this]
  rw [hw]
  have hok : ∀ e ∈ ids.map (fun n => (⟨35 :: showInt ((n : Nat) : Int), [], [], .atom (.ref ((n : Nat) : Int))⟩ : ElemQ F)),
      ElemReads env (.entity tg) id e := by
    intro e he
    obtain ⟨n, hn, rfl⟩ := List.mem_map.1 he
    obtain ⟨h1, h2⟩ := hr n hn
    obtain ⟨t1, t2, t3⟩ := toDigits_spec n
    have hs : showInt ((n : Nat) : Int) = (Nat.toDigits 10 n).map Char.toNat := by
      unfold showInt
      have : ¬ ((n : Nat) : Int) < 0 := by omega
      simp [this]
    rw [hs]
    have := ElemReads.entity env hcfg hagg tg ((Nat.toDigits 10 n).map Char.toNat) [] [] t3 t2 (by rw [t1]; exact h1)
      (by rw [t1]; exact h2) (Seps.blanks [] (by simp)) (Seps.blanks [] (by simp))
    rw [t1] at this
    exact this
  have := C09_aggr_accept env hagg (.entity tg) id (fun _ => rfl) _ (by simpa using hne) hok l sk rest
  simpa [List.map_map, Function.comp_def] using this

/-- **aggregate of BOOLEAN / LOGICAL / ENUMERATION, written and read back**: every index `i` whose table entry is a non-empty name
    of the grammar that the table finds again (and that is not the "unset" entry) is written `.NAME.` and read back to `i` -/
theorem C09_aggr_writer_enum_round_trip {F} (env : Env F) (hcfg : env.lex.criSkipsComments = true)
    (hagg : env.cfg.aggrSkipsComments = true) (d : Dict) (ty : ElemTy) (het : EnumTy ty) (is : List Nat) (hne : is ≠ [])
    (hr : ∀ i ∈ is, (enumTable ty).getD i bUNSET ≠ [] ∧ ((enumTable ty).getD i bUNSET).all pw = true ∧
      findName (enumKindOf ty).table (((enumTable ty).getD i bUNSET).map toUpper) = some i ∧ (enumKindOf ty).isUnsetIdx i = false)
    (l : List Byte) (sk : Bool) (rest : List Byte) :
    aggrRead env ty (G l (writeAggr env.ops env.cfg d ty (is.map (fun i => (Elem.atom (.enum i) : Elem F))) ++ rest) sk) =
      .ok (.null, some (is.map (fun i => (Elem.atom (.enum i) : Elem F))),
        G ((writeAggr env.ops env.cfg d ty (is.map (fun i => (Elem.atom (.enum i) : Elem F)))).reverse ++ l) rest sk) := by
  have htk : ∀ (sc : List Byte) (a : Atom F), nodeWrite env.ops env.cfg d ty sc (Elem.atom a) = writeAtomCore env.ops ty a := by
    intro sc a
    rcases het with rfl | rfl | ⟨items, rfl⟩ <;> rfl
  have hw : writeAggr env.ops env.cfg d ty (is.map (fun i => (Elem.atom (.enum i) : Elem F))) =
      40 :: renderQ (is.map (fun i => (⟨46 :: ((enumTable ty).getD i bUNSET ++ [46]), [], [], .atom (.enum i)⟩ : ElemQ F))) := by
    unfold writeAggr
    have := writeNodes_atoms env.ops env.cfg d ty _ htk (is.map (fun i => (Atom.enum i : Atom F))) [] (by simpa using hne)
    simp only [List.map_map, Function.comp_def, writeAtomCore, List.singleton_append, List.cons_append, List.nil_append] at this
    simp only [List.cons_append, List.nil_append, List.map_map, Function.comp_def]
    rw [this]
  rw [hw]
  have hok : ∀ e ∈ is.map (fun i => (⟨46 :: ((enumTable ty).getD i bUNSET ++ [46]), [], [], .atom (.enum i)⟩ : ElemQ F)),
      ElemReads env ty id e := by
    intro e he
    obtain ⟨i, hi, rfl⟩ := List.mem_map.1 he
    obtain ⟨h1, h2, h3, h4⟩ := hr i hi
    exact ElemReads.enum env hcfg hagg ty het _ [] [] i h1 h2 h3 h4 (Seps.blanks [] (by simp)) (Seps.blanks [] (by simp))
  have := C09_aggr_accept env hagg ty id (fun _ => rfl) _ (by simpa using hne) hok l sk rest
  simpa [List.map_map, Function.comp_def] using this

/-- the hypotheses of `C09_aggr_writer_enum_round_trip` hold for both values of BOOLEAN and the three of LOGICAL that can be
    stored — `.F.`, `.T.`, `.U.`; index 2 is the "unset" entry — (kernel evaluation of the tables) -/
theorem C09_aggr_writer_boolean_logical_witness :
    (∀ i ∈ [0, 1], (enumTable .boolean).getD i bUNSET ≠ [] ∧ ((enumTable .boolean).getD i bUNSET).all pw = true ∧
      findName (enumKindOf .boolean).table (((enumTable .boolean).getD i bUNSET).map toUpper) = some i ∧
      (enumKindOf .boolean).isUnsetIdx i = false) ∧
    (∀ i ∈ [0, 1, 3], (enumTable .logical).getD i bUNSET ≠ [] ∧ ((enumTable .logical).getD i bUNSET).all pw = true ∧
      findName (enumKindOf .logical).table (((enumTable .logical).getD i bUNSET).map toUpper) = some i ∧
      (enumKindOf .logical).isUnsetIdx i = false) := by
  decide

end Aggregates

/-! ## anywhere in a stream, either state of `skipws`

`STEPattribute::STEPread` is called by the file reader in the middle of a record, and after a STRING attribute has been read
the stream's `skipws` flag is off for the rest of the instance.  The never-silent statements hold there unchanged: proved
here from the mid-stream reader lemmas of `AggrLemmas.lean` for a stream `G l0 input sk` — any consumed side, any `skipws`. -/

section Anywhere
open StepModel.P21.RLemmas StepModel.P21.AggrLemmas

theorem C09_never_silent_integer_anywhere {F} (ops : FloatOps F) (cfg : LexCfg) (hcfg : cfg.intReportsFail = true)
    (hcfg2 : cfg.dollarKeepsError = true) (lookup : Int → RefLookup) (nullable : Bool)
    (input l0 : List Byte) (sk : Bool) (r : ReadResult F)
    (h : attrRead ops cfg lookup .integer nullable (G l0 input sk) = .ok r) (hne : NoErr r.sev) :
    (∃ sp1 tok sp2, input = sp1 ++ tok ++ sp2 ++ r.s.right ∧ sp1.all isSpace = true ∧ Between cfg sp2 ∧
        isInteger tok = true ∧ longMin ≤ denoteInteger tok ∧ denoteInteger tok ≤ longMax ∧
        r.val = intValue (some (denoteInteger tok)) ∧ intSentinel cfg (some (denoteInteger tok)) = false ∧
        AtDelimOrEnd cfg r.s.right) ∨
    (nullable = true ∧ r.val = .unset ∧ ∃ sp1 c t, input = sp1 ++ c :: t ∧ sp1.all isSpace = true ∧
        ((c = 36 ∧ ∃ sp2, t = sp2 ++ r.s.right ∧ Between cfg sp2 ∧ AtDelimOrEnd cfg r.s.right) ∨
         ((c = 44 ∨ c = 41) ∧ r.s.right = c :: t))) ∨
    (input.all isSpace = true ∧ r.val = .unset) := by
  obtain ⟨sp1, body, h1, h2, h3, h4⟩ := dropSpaces_split l0 input
  rcases h4 with rfl | ⟨c, t, rfl, hc⟩
  · right; right
    simp at h1; subst h1
    have hws := ws_blank l0 input sk h2
    simp only [attrRead, hws] at h
    simp [IStream.peekC, IStream.peek, IStream.sentry, IStream.good, readInteger, IStream.ws, IStream.extractLong, IStream.failed,
      checkRemainingInput, intValue] at h
    subst h
    exact ⟨h2, rfl⟩
  · subst h1
    by_cases h36 : c = 36
    · subst h36
      rw [attrRead_dollar_at_sk ops cfg lookup .integer nullable l0 sp1 t sk h2] at h
      simp only [Outcome.ok.injEq] at h
      have hch := cri_char cfg (G (36 :: (sp1.reverse ++ l0)) t sk) Sev.null rfl
      subst h
      cases nullable with
      | false => simp [NoErr] at hne
      | true =>
        simp only [hcfg2, if_true] at hne ⊢
        right; left
        have := hch.2 hne
        simp at this
        obtain ⟨sp2, hs2, ht, _, hat⟩ := this
        exact ⟨by simp, by simp, sp1, 36, t, rfl, h2, Or.inl ⟨rfl, sp2, ht, hs2, hat⟩⟩
    · by_cases hdl : c = 44 ∨ c = 41
      · rw [attrRead_missing_at_sk ops cfg lookup .integer nullable l0 sp1 t sk c h2 hdl] at h
        simp only [Outcome.ok.injEq] at h
        subst h
        cases nullable with
        | false => simp [NoErr] at hne
        | true => right; left; exact ⟨rfl, rfl, sp1, c, t, rfl, h2, Or.inr ⟨hdl, rfl⟩⟩
      · have hcond : (c == 36 || c == 44 || c == 41) = false := by
          simp at hdl ⊢; exact ⟨⟨h36, hdl.1⟩, hdl.2⟩
        have hpre := ws_good l0 sp1 c t sk h2 hc
        simp only [attrRead, hpre, peekC_good, hcond, Bool.false_eq_true, if_false] at h
        generalize hR : readInteger cfg (some attrDelims) (G (sp1.reverse ++ l0) (c :: t) sk) .null = R at h
        obtain ⟨o, s', e⟩ := R
        simp only [Outcome.ok.injEq] at h
        subst h
        obtain ⟨hsent, hne'⟩ := noErr_sentinelIf _ _ hne
        have hs := readInteger_sound cfg hcfg (sp1.reverse ++ l0) c t sk hc (by rw [hR]; exact hne')
        rw [hR] at hs
        obtain ⟨tok, sp2, hsplit, _, hb2, htok, hlo, hhi, ho, hat⟩ := hs
        simp only at hsplit ho hat hsent
        subst ho
        left
        exact ⟨sp1, tok, sp2, by rw [List.append_assoc, List.append_assoc, ← List.append_assoc tok, ← hsplit], h2, hb2, htok, hlo, hhi, rfl, hsent, hat⟩

theorem C09_never_silent_enum_anywhere {F} (ops : FloatOps F) (cfg : LexCfg) (hcfg : cfg.logicalRejectsUnset = true)
    (hcfg2 : cfg.dollarKeepsError = true) (lookup : Int → RefLookup) (k : Kind) (hk : EnumLike k) (nullable : Bool)
    (input : List Byte) (l0 : List Byte) (sk : Bool) (r : ReadResult F)
    (h : attrRead ops cfg lookup k nullable (G l0 input sk) = .ok r) (hne : NoErr r.sev) :
    (∃ sp1 name sp2 i, input = sp1 ++ 46 :: (name ++ 46 :: (sp2 ++ r.s.right)) ∧ sp1.all isSpace = true ∧ Between cfg sp2 ∧
        name ≠ [] ∧ name.all pw = true ∧ findName k.enumKind.table (name.map toUpper) = some i ∧
        k.enumKind.isUnsetIdx i = false ∧ r.val = .enum i ∧ AtDelimOrEnd cfg r.s.right) ∨
    (nullable = true ∧ r.val = .unset ∧ ∃ sp1 c t, input = sp1 ++ c :: t ∧ sp1.all isSpace = true ∧
        ((c = 36 ∧ ∃ sp2, t = sp2 ++ r.s.right ∧ Between cfg sp2 ∧ AtDelimOrEnd cfg r.s.right) ∨
         ((c = 44 ∨ c = 41) ∧ r.s.right = c :: t))) ∨
    (nullable = true ∧ input.all isSpace = true ∧ r.val = .unset) := by
  obtain ⟨sp1, body, h1, h2, h3, h4⟩ := dropSpaces_split l0 input
  rcases h4 with rfl | ⟨c, t, rfl, hc⟩
  · -- nothing but blanks
    simp at h1; subst h1
    right; right
    have hws : (G l0 input sk).ws = { left := input.reverse ++ l0, right := [], eof := true, skipws := sk } := by
      simpa [IStream.ofBytes] using ws_blank l0 input sk h2
    have : attrRead ops cfg lookup k nullable (G l0 input sk) =
        .ok ⟨if nullable then .null else .incomplete, .unset, { left := input.reverse ++ l0, right := [], eof := true, fail := true, skipws := sk }⟩ := by
      rcases hk with rfl | rfl | ⟨items, rfl⟩ <;> simp only [attrRead, hws] <;>
        simp [IStream.peekC, IStream.peek, IStream.sentry, IStream.good, enumRead, readEnum, IStream.ws,
          checkRemainingInput, enumValue, Sev.greater, Sev.toInt] <;> cases nullable <;> rfl
    rw [this] at h
    simp only [Outcome.ok.injEq] at h
    subst h
    cases nullable with
    | false => simp [NoErr] at hne
    | true => exact ⟨rfl, h2, rfl⟩
  · subst h1
    by_cases h36 : c = 36
    · subst h36
      rw [attrRead_dollar_at_sk ops cfg lookup k nullable l0 sp1 t sk h2] at h
      simp only [Outcome.ok.injEq] at h
      have hch := cri_char cfg { left := 36 :: (sp1.reverse ++ l0), right := t, skipws := sk } Sev.null rfl
      subst h
      cases nullable with
      | false => simp [NoErr] at hne
      | true =>
        simp only [hcfg2, if_true] at hne ⊢
        right; left
        have := hch.2 hne
        simp at this
        obtain ⟨sp2, hs2, ht, _, hat⟩ := this
        exact ⟨by simp, by simp, sp1, 36, t, rfl, h2, Or.inl ⟨rfl, sp2, ht, hs2, hat⟩⟩
    · by_cases hdl : c = 44 ∨ c = 41
      · rw [attrRead_missing_at_sk ops cfg lookup k nullable l0 sp1 t sk c h2 hdl] at h
        simp only [Outcome.ok.injEq] at h
        subst h
        cases nullable with
        | false => simp [NoErr] at hne
        | true => right; left; exact ⟨rfl, rfl, sp1, c, t, rfl, h2, Or.inr ⟨hdl, rfl⟩⟩
      · have hcond : (c == 36 || c == 44 || c == 41) = false := by
          simp at hdl ⊢; exact ⟨⟨h36, hdl.1⟩, hdl.2⟩
        rw [attrRead_enumlike_at_sk ops cfg lookup k hk nullable l0 sp1 t sk c h2 hc hcond] at h
        simp only [Outcome.ok.injEq] at h
        subst h
        simp only at hne ⊢
        have hc44 : c ≠ 44 := fun e => hdl (Or.inl e)
        have hc41 : c ≠ 41 := fun e => hdl (Or.inr e)
        generalize hq : enumRead cfg k.enumKind nullable { left := (sp1.reverse ++ l0), right := c :: t, skipws := sk } Sev.null = q at hne ⊢
        have hqe : NoErr q.2.2 := by
          rcases cri_mono cfg q.2.1 q.2.2 with hm | hm
          · rw [hm] at hne; exact hne
          · exact absurd hne hm
        -- the severity ReadEnum itself reported is null, usermsg or incomplete
        have hquiet : Quiet (readEnum cfg k.enumKind true { left := (sp1.reverse ++ l0), right := c :: t, skipws := sk } Sev.null).2.2 := by
          rw [← hq] at hqe
          simp only [enumRead] at hqe
          by_cases hi : ((readEnum cfg k.enumKind true { left := (sp1.reverse ++ l0), right := c :: t, skipws := sk } Sev.null).2.2 == Sev.incomplete) = true
          · right; right; simpa using hi
          · have hi' : ((readEnum cfg k.enumKind true { left := (sp1.reverse ++ l0), right := c :: t, skipws := sk } Sev.null).2.2 == Sev.incomplete) = false := by
              simpa using hi
            simp only [hi', Bool.false_and, Bool.false_eq_true, if_false] at hqe
            exact NoErr.quiet hqe
        obtain ⟨name, rest, i, hct, hn1, hn2, hf, hu, hre⟩ :=
          readEnum_noerr cfg k.enumKind (sp1.reverse ++ l0) c t sk hc hc44 hc41 hquiet
        have hqv : q = (some i, { left := 46 :: (name.reverse ++ 46 :: (sp1.reverse ++ l0)), right := rest, skipws := sk }, Sev.null) := by
          rw [← hq]; simp [enumRead, hre]
        subst hqv
        simp only at hne ⊢
        have hch := (cri_char cfg { left := 46 :: (name.reverse ++ 46 :: (sp1.reverse ++ l0)), right := rest, skipws := sk } Sev.null rfl).2 hne
        generalize checkRemainingInput cfg (some attrDelims) { left := 46 :: (name.reverse ++ 46 :: (sp1.reverse ++ l0)), right := rest, skipws := sk } Sev.null = X at hne hch ⊢
        left
        have hui := hu hcfg
        simp at hch
        obtain ⟨sp2, hs2, hrr, _, hat⟩ := hch
        refine ⟨sp1, name, sp2, i, ?_, h2, hs2, hn1, hn2, hf, hui, by simp [enumValue, hui], hat⟩
        rw [hct, hrr]


theorem C09_never_silent_binary_anywhere {F} (ops : FloatOps F) (cfg : LexCfg) (hcfg : cfg.binaryRejectsEmpty = true)
    (hcfg2 : cfg.dollarKeepsError = true) (lookup : Int → RefLookup) (nullable : Bool)
    (input : List Byte) (l0 : List Byte) (sk : Bool) (r : ReadResult F)
    (h : attrRead ops cfg lookup .binary nullable (G l0 input sk) = .ok r) (hne : NoErr r.sev) :
    (∃ sp1 hex sp2, input = sp1 ++ 34 :: (hex ++ 34 :: (sp2 ++ r.s.right)) ∧ sp1.all isSpace = true ∧ Between cfg sp2 ∧
        hex ≠ [] ∧ hex.all isXDigit = true ∧ r.val = .bin hex ∧ AtDelimOrEnd cfg r.s.right) ∨
    (nullable = true ∧ r.val = .unset ∧ ∃ sp1 c t, input = sp1 ++ c :: t ∧ sp1.all isSpace = true ∧
        ((c = 36 ∧ ∃ sp2, t = sp2 ++ r.s.right ∧ Between cfg sp2 ∧ AtDelimOrEnd cfg r.s.right) ∨
         ((c = 44 ∨ c = 41) ∧ r.s.right = c :: t))) := by
  obtain ⟨sp1, body, h1, h2, h3, h4⟩ := dropSpaces_split l0 input
  rcases h4 with rfl | ⟨c, t, rfl, hc⟩
  · -- nothing but blanks: ReadBinary reports INCOMPLETE
    exfalso
    simp at h1; subst h1
    have hws : (G l0 input sk).ws = { left := input.reverse ++ l0, right := [], eof := true, skipws := sk } := by
      simpa [IStream.ofBytes] using ws_blank l0 input sk h2
    simp only [attrRead, hws] at h
    simp [IStream.peekC, IStream.peek, IStream.sentry, IStream.good, readBinary, IStream.ws, checkRemainingInput] at h
    subst h
    exact greater_incomplete_err Sev.null hne
  · subst h1
    by_cases h36 : c = 36
    · subst h36
      rw [attrRead_dollar_at_sk ops cfg lookup .binary nullable l0 sp1 t sk h2] at h
      simp only [Outcome.ok.injEq] at h
      have hch := cri_char cfg { left := 36 :: (sp1.reverse ++ l0), right := t, skipws := sk } Sev.null rfl
      subst h
      cases nullable with
      | false => simp [NoErr] at hne
      | true =>
        simp only [hcfg2, if_true] at hne ⊢
        right
        have := hch.2 hne
        simp at this
        obtain ⟨sp2, hs2, ht, _, hat⟩ := this
        exact ⟨by simp, by simp, sp1, 36, t, rfl, h2, Or.inl ⟨rfl, sp2, ht, hs2, hat⟩⟩
    · by_cases hdl : c = 44 ∨ c = 41
      · rw [attrRead_missing_at_sk ops cfg lookup .binary nullable l0 sp1 t sk c h2 hdl] at h
        simp only [Outcome.ok.injEq] at h
        subst h
        cases nullable with
        | false => simp [NoErr] at hne
        | true => right; exact ⟨rfl, rfl, sp1, c, t, rfl, h2, Or.inr ⟨hdl, rfl⟩⟩
      · have hcond : (c == 36 || c == 44 || c == 41) = false := by
          simp at hdl ⊢; exact ⟨⟨h36, hdl.1⟩, hdl.2⟩
        have hpre : (G l0 (sp1 ++ c :: t) sk).ws = { left := (sp1.reverse ++ l0), right := c :: t, skipws := sk } := by
          simpa [IStream.ofBytes] using ws_good l0 sp1 c t sk h2 hc
        simp only [attrRead, hpre, peekC_good, hcond, Bool.false_eq_true, if_false, Outcome.ok.injEq] at h
        subst h
        simp only at hne ⊢
        generalize hq : readBinary cfg true { left := (sp1.reverse ++ l0), right := c :: t, skipws := sk } Sev.null = q at hne ⊢
        have hqe : NoErr q.2.2 := by
          rcases cri_mono cfg q.2.1 q.2.2 with hm | hm
          · rw [hm] at hne; exact hne
          · exact absurd hne hm
        rw [← hq] at hqe
        obtain ⟨hex, rest, hct, hx1, hx2, hre⟩ := readBinary_noerr cfg hcfg (sp1.reverse ++ l0) c t sk hc hqe
        rw [hre] at hq
        subst hq
        simp only at hne ⊢
        have hch := (cri_char cfg { left := 34 :: (hex.reverse ++ 34 :: (sp1.reverse ++ l0)), right := rest, skipws := sk } Sev.null rfl).2 hne
        generalize checkRemainingInput cfg (some attrDelims) { left := 34 :: (hex.reverse ++ 34 :: (sp1.reverse ++ l0)), right := rest, skipws := sk } Sev.null = X at hne hch ⊢
        left
        simp at hch
        obtain ⟨sp2, hs2, hrr, _, hat⟩ := hch
        have hxe : hex.isEmpty = false := by cases hex <;> simp_all
        refine ⟨sp1, hex, sp2, ?_, h2, hs2, hx1, hx2, by simp [hxe], hat⟩
        rw [hct, hrr]


theorem C09_never_silent_string_anywhere {F} (ops : FloatOps F) (cfg : LexCfg) (hcfg2 : cfg.dollarKeepsError = true)
    (lookup : Int → RefLookup) (nullable : Bool) (input : List Byte) (l0 : List Byte) (sk : Bool) (r : ReadResult F)
    (h : attrRead ops cfg lookup .string nullable (G l0 input sk) = .ok r) (hne : NoErr r.sev) :
    (∃ sp1 tok sp2, input = sp1 ++ tok ++ sp2 ++ r.s.right ∧ sp1.all isSpace = true ∧ Between cfg sp2 ∧
        isStringLenient tok = true ∧ r.val = .str tok ∧ AtDelimOrEnd cfg r.s.right) ∨
    (nullable = true ∧ r.val = .unset ∧ ∃ sp1 c t, input = sp1 ++ c :: t ∧ sp1.all isSpace = true ∧
        ((c = 36 ∧ ∃ sp2, t = sp2 ++ r.s.right ∧ Between cfg sp2 ∧ AtDelimOrEnd cfg r.s.right) ∨
         ((c = 44 ∨ c = 41) ∧ r.s.right = c :: t))) := by
  obtain ⟨sp1, body, h1, h2, h3, h4⟩ := dropSpaces_split l0 input
  rcases h4 with rfl | ⟨c, t, rfl, hc⟩
  · exfalso
    simp at h1; subst h1
    have hws : (G l0 input sk).ws = { left := input.reverse ++ l0, right := [], eof := true, skipws := sk } := by
      simpa [IStream.ofBytes] using ws_blank l0 input sk h2
    simp only [attrRead, hws] at h
    simp [IStream.peekC, IStream.peek, IStream.sentry, IStream.good, stringRead, getLiteralStr, IStream.setSkipws, IStream.ws,
      checkRemainingInput] at h
    subst h
    exact greater_incomplete_err Sev.null hne
  · subst h1
    by_cases h36 : c = 36
    · subst h36
      rw [attrRead_dollar_at_sk ops cfg lookup .string nullable l0 sp1 t sk h2] at h
      simp only [Outcome.ok.injEq] at h
      have hch := cri_char cfg { left := 36 :: (sp1.reverse ++ l0), right := t, skipws := sk } Sev.null rfl
      subst h
      cases nullable with
      | false => simp [NoErr] at hne
      | true =>
        simp only [hcfg2, if_true] at hne ⊢
        right
        have := hch.2 hne
        simp at this
        obtain ⟨sp2, hs2, ht, _, hat⟩ := this
        exact ⟨by simp, by simp, sp1, 36, t, rfl, h2, Or.inl ⟨rfl, sp2, ht, hs2, hat⟩⟩
    · by_cases hdl : c = 44 ∨ c = 41
      · rw [attrRead_missing_at_sk ops cfg lookup .string nullable l0 sp1 t sk c h2 hdl] at h
        simp only [Outcome.ok.injEq] at h
        subst h
        cases nullable with
        | false => simp [NoErr] at hne
        | true => right; exact ⟨rfl, rfl, sp1, c, t, rfl, h2, Or.inr ⟨hdl, rfl⟩⟩
      · have hcond : (c == 36 || c == 44 || c == 41) = false := by
          simp at hdl ⊢; exact ⟨⟨h36, hdl.1⟩, hdl.2⟩
        have hpre : (G l0 (sp1 ++ c :: t) sk).ws = { left := (sp1.reverse ++ l0), right := c :: t, skipws := sk } := by
          simpa [IStream.ofBytes] using ws_good l0 sp1 c t sk h2 hc
        simp only [attrRead, hpre, peekC_good, hcond, Bool.false_eq_true, if_false, Outcome.ok.injEq, stringRead,
          IStream.setSkipws, getLiteralStr, ws_good0 _ _ _ _ hc, IStream.good, Bool.not_false, Bool.and_self, Bool.not_true] at h
        by_cases hq : c = 39
        · subst hq
          simp only [beq_self_eq_true, if_true] at h
          obtain ⟨m, hm1, hm2, hm3, hm4, hm5, hm6⟩ := litLoop_spec [39] true t (by simp)
          generalize hll : litLoop [39] true t = ll at h hm1 hm2 hm3 hm4 hm5 hm6
          obtain ⟨srev, rest, esc, hitEnd⟩ := ll
          simp only at h hm1 hm2 hm3 hm4 hm5 hm6
          subst hm2
          have hne' : (m.reverse ++ [39]).reverse.isEmpty = false := by simp
          simp only [hne', Bool.false_eq_true, if_false] at h
          subst h
          simp only at hne ⊢
          cases esc with
          | true =>
            exfalso
            simp only [if_true] at hne
            rcases cri_mono cfg _ (Sev.null.greater Sev.inputError) with hmm | hmm
            · rw [hmm] at hne; exact greater_inputError_err _ hne
            · exact hmm hne
          | false =>
            simp only [Bool.false_eq_true, if_false] at hne ⊢
            have hmne : m ≠ [] := by
              intro hm; have := hm6 hm; cases this
            have hch := (cri_char cfg { left := m.reverse ++ [39] ++ (sp1.reverse ++ l0), right := rest, eof := hitEnd, skipws := false } Sev.null rfl).2 hne
            generalize checkRemainingInput cfg (some attrDelims)
              { left := m.reverse ++ [39] ++ (sp1.reverse ++ l0), right := rest, eof := hitEnd, skipws := false } Sev.null = X at hne hch ⊢
            left
            have hlast : m.getLast? = some 39 := by
              have := hm3 rfl
              cases hmr : m.reverse with
              | nil => simp at hmr; exact absurd hmr hmne
              | cons a u =>
                rw [hmr] at this
                simp at this
                have : m = (a :: u).reverse := by rw [← hmr]; simp
                rw [this]; simp; assumption
            have hlen : isStringLenient ((m.reverse ++ [39]).reverse) = true := by
              simp [isStringLenient, hlast]
            rcases hch with ⟨heof, hsame⟩ | ⟨heof, sp2, hs2, hrr, _, hat⟩
            · simp only at heof
              subst heof
              have hre : rest = [] := hm4 rfl
              subst hre
              refine ⟨sp1, (m.reverse ++ [39]).reverse, [], ?_, h2, Between.nil cfg, hlen, rfl, ?_⟩
              · rw [hsame]; simp [hm1]
              · rw [hsame]; exact Or.inl rfl
            · simp only at hrr
              refine ⟨sp1, (m.reverse ++ [39]).reverse, sp2, ?_, h2, hs2, hlen, rfl, hat⟩
              rw [hm1, hrr]; simp
        · exfalso
          have hq' : (c == 39) = false := by simpa using hq
          simp only [hq', Bool.false_eq_true, if_false, List.isEmpty_nil, if_true] at h
          subst h
          simp only at hne
          rcases cri_mono cfg _ (Sev.null.greater Sev.incomplete) with hmm | hmm
          · rw [hmm] at hne; exact greater_incomplete_err _ hne
          · exact hmm hne


theorem C09_never_silent_real_anywhere {F} (ops : FloatOps F) (cfg : LexCfg) (hcfg : cfg.realReportsFail = true)
    (hcfg2 : cfg.dollarKeepsError = true)
    (lookup : Int → RefLookup) (nullable : Bool) (input : List Byte) (l0 : List Byte) (sk : Bool) (hfirst : FirstByteNot input (quietFirst cfg.realFailUnlessBlank cfg)) (r : ReadResult F)
    (h : attrRead ops cfg lookup .real nullable (G l0 input sk) = .ok r) (hne : NoErr r.sev) :
    (∃ sp1 tok sp2 d v, input = sp1 ++ tok ++ sp2 ++ r.s.right ∧ sp1.all isSpace = true ∧ Between cfg sp2 ∧
        isReal tok = true ∧ denoteReal tok = some d ∧ ops.ofDecimal d = some v ∧
        r.val = realValue ops (some v) ∧ (cfg.realNullReported && ops.isRealNull v) = false ∧
        AtDelimOrEnd cfg r.s.right) ∨
    (nullable = true ∧ r.val = .unset ∧ ∃ sp1 c t, input = sp1 ++ c :: t ∧ sp1.all isSpace = true ∧
        ((c = 36 ∧ ∃ sp2, t = sp2 ++ r.s.right ∧ Between cfg sp2 ∧ AtDelimOrEnd cfg r.s.right) ∨
         ((c = 44 ∨ c = 41) ∧ r.s.right = c :: t))) ∨
    (input.all isSpace = true ∧ r.val = .unset) := by
  obtain ⟨sp1, body, h1, h2, h3, h4⟩ := dropSpaces_split l0 input
  rcases h4 with rfl | ⟨c, t, rfl, hc⟩
  · right; right
    simp at h1; subst h1
    have hws : (G l0 input sk).ws = { left := input.reverse ++ l0, right := [], eof := true, skipws := sk } := by
      simpa [IStream.ofBytes] using ws_blank l0 input sk h2
    simp only [attrRead, hws] at h
    simp [IStream.peekC, IStream.peek, IStream.sentry, IStream.good, readReal, IStream.ws, checkRemainingInput, realValue] at h
    subst h
    try replace hne := (noErr_sentinelIf _ _ hne).2
    exact ⟨h2, rfl⟩
  · subst h1
    by_cases h36 : c = 36
    · subst h36
      rw [attrRead_dollar_at_sk ops cfg lookup .real nullable l0 sp1 t sk h2] at h
      simp only [Outcome.ok.injEq] at h
      have hch := cri_char cfg { left := 36 :: (sp1.reverse ++ l0), right := t, skipws := sk } Sev.null rfl
      subst h
      try replace hne := (noErr_sentinelIf _ _ hne).2
      cases nullable with
      | false => simp [NoErr] at hne
      | true =>
        simp only [hcfg2, if_true] at hne ⊢
        right; left
        have := hch.2 hne
        simp at this
        obtain ⟨sp2, hs2, ht, _, hat⟩ := this
        exact ⟨by simp, by simp, sp1, 36, t, rfl, h2, Or.inl ⟨rfl, sp2, ht, hs2, hat⟩⟩
    · by_cases hdl : c = 44 ∨ c = 41
      · rw [attrRead_missing_at_sk ops cfg lookup .real nullable l0 sp1 t sk c h2 hdl] at h
        simp only [Outcome.ok.injEq] at h
        subst h
        try replace hne := (noErr_sentinelIf _ _ hne).2
        cases nullable with
        | false => simp [NoErr] at hne
        | true => right; left; exact ⟨rfl, rfl, sp1, c, t, rfl, h2, Or.inr ⟨hdl, rfl⟩⟩
      · have hcond : (c == 36 || c == 44 || c == 41) = false := by
          simp at hdl ⊢; exact ⟨⟨h36, hdl.1⟩, hdl.2⟩
        have hcf := hfirst sp1 c t rfl h2 hc
        have hgar : cfg.realFailUnlessBlank = false → delimAt cfg attrDelims c = false ∧ c ≠ 47 := fun hq =>
          quietFirst_spec hq hcf (by simp at hdl; exact hdl.1) (by simp at hdl; exact hdl.2)
        have hpre : (G l0 (sp1 ++ c :: t) sk).ws = { left := (sp1.reverse ++ l0), right := c :: t, skipws := sk } := by
          simpa [IStream.ofBytes] using ws_good l0 sp1 c t sk h2 hc
        simp only [attrRead, hpre, peekC_good, hcond, readReal, ws_good0 _ _ _ _ hc, IStream.good] at h
        simp only [Bool.false_eq_true, if_false, Bool.not_false, Bool.and_self, Bool.not_true] at h
        have happ := realCollect_append (c :: t)
        have hsevs := realCollect_sev (c :: t)
        have hshape := realCollect_null (c :: t)
        generalize hrc : realCollect (c :: t) = rc at h happ hsevs hshape
        obtain ⟨buf, rest, e⟩ := rc
        simp only at h happ hsevs hshape
        by_cases hov : (cfg.realBuf != 0 && decide (buf.length ≥ cfg.realBuf)) = true
        · simp [hov] at h
        · simp only [hov, Bool.false_eq_true, if_false] at h
          cases hconv : ops.conv (scanFloat [] buf).1 with
          | ok v =>
            left
            simp only [hconv, Outcome.ok.injEq] at h
            subst h
            have hsent := (noErr_sentinelIf _ _ hne).1
            replace hne := (noErr_sentinelIf _ _ hne).2
            simp only [realSentinel] at hsent
            simp only at hne ⊢
            -- the format severity must be null
            have hen : NoErr (Sev.null.greater e) := by
              rcases cri_mono cfg _ (Sev.null.greater e) with hm | hm
              · rw [hm] at hne; exact hne
              · exact absurd hne hm
            have he := null_greater_noerr e hen hsevs
            subst he
            obtain ⟨sg, ip, fp, ex, hbuf, hsg, hip1, hip, hfp, hex⟩ := hshape rfl
            subst hbuf
            have hparse := parse_scanFloat_realText sg ip fp 69 ex hsg hip1 hip hfp (Or.inl rfl) hex
            have hden := parse_realText sg ip fp 69 ex hsg hip1 hip hfp (Or.inl rfl) hex
            -- unfold the conversion
            have hof : ops.ofDecimal ⟨sg == [45], digitsVal (ip ++ fp) 0, exVal ex - (fp.length : Int)⟩ = some v := by
              unfold FloatOps.conv at hconv
              rw [hparse] at hconv
              simp only at hconv
              cases ho : ops.ofDecimal ⟨sg == [45], digitsVal (ip ++ fp) 0, exVal ex - (fp.length : Int)⟩ with
              | none => rw [ho] at hconv; cases hconv
              | some v' => rw [ho] at hconv; simp at hconv; rw [hconv]
            have hch := (cri_char cfg { left := (realText sg ip fp 69 ex).reverse ++ (sp1.reverse ++ l0), right := rest, eof := rest.isEmpty, skipws := sk }
              (Sev.null.greater Sev.null) rfl).2 hne
            generalize checkRemainingInput cfg (some attrDelims)
              { left := (realText sg ip fp 69 ex).reverse ++ (sp1.reverse ++ l0), right := rest, eof := rest.isEmpty, skipws := sk } (Sev.null.greater Sev.null) = X at hne hch ⊢
            rcases hch with ⟨heof, hsame⟩ | ⟨heof, sp2, hsp2, hrr, _, hat⟩
            · simp only at heof
              have hre : rest = [] := by simpa using heof
              subst hre
              refine ⟨sp1, realText sg ip fp 69 ex, [], _, v, ?_, h2, Between.nil cfg, isReal_realText sg ip fp ex hsg hip1 hip hfp hex,
                hden, hof, rfl, hsent, ?_⟩
              · rw [hsame]; simp [← happ]
              · rw [hsame]; exact Or.inl rfl
            · simp only at hrr
              refine ⟨sp1, realText sg ip fp 69 ex, sp2, _, v, ?_, h2, hsp2, isReal_realText sg ip fp ex hsg hip1 hip hfp hex,
                hden, hof, rfl, hsent, hat⟩
              rw [← happ, hrr]; simp
          | invalid =>
            exfalso
            simp only [hconv, Outcome.ok.injEq, hcfg, Bool.true_and] at h
            subst h
            try replace hne := (noErr_sentinelIf _ _ hne).2
            try simp only at hne
            by_cases hrep : (cfg.realFailUnlessBlank || !buf.isEmpty) = true
            · rw [hrep] at hne
              rcases cri_mono cfg _ _ with hm | hm
              · rw [hm] at hne; exact warnIf_true_err Sev.null hne
              · exact hm hne
            · have hrep' : cfg.realFailUnlessBlank = false ∧ buf = [] := by
                cases hq : cfg.realFailUnlessBlank <;> cases buf <;> simp_all
              obtain ⟨hq, hb⟩ := hrep'
              subst hb
              simp only [List.nil_append] at happ
              subst happ
              exact cri_garbage cfg _ c t false sk _ hc (hgar hq).1 (hgar hq).2 hne
          | overflow =>
            exfalso
            simp only [hconv, Outcome.ok.injEq, hcfg, Bool.true_and] at h
            subst h
            try replace hne := (noErr_sentinelIf _ _ hne).2
            try simp only at hne
            by_cases hrep : (cfg.realFailUnlessBlank || !buf.isEmpty) = true
            · rw [hrep] at hne
              rcases cri_mono cfg _ _ with hm | hm
              · rw [hm] at hne; exact warnIf_true_err Sev.null hne
              · exact hm hne
            · have hrep' : cfg.realFailUnlessBlank = false ∧ buf = [] := by
                cases hq : cfg.realFailUnlessBlank <;> cases buf <;> simp_all
              obtain ⟨hq, hb⟩ := hrep'
              subst hb
              simp only [List.nil_append] at happ
              subst happ
              exact cri_garbage cfg _ c t false sk _ hc (hgar hq).1 (hgar hq).2 hne


theorem C09_never_silent_number_anywhere {F} (ops : FloatOps F) (cfg : LexCfg) (hcfg : cfg.numberReportsFail = true)
    (hcfg2 : cfg.dollarKeepsError = true)
    (lookup : Int → RefLookup) (nullable : Bool) (input : List Byte) (l0 : List Byte) (sk : Bool) (r : ReadResult F)
    (h : attrRead ops cfg lookup .number nullable (G l0 input sk) = .ok r) (hne : NoErr r.sev) :
    (∃ sp1 tok sp2 d v, input = sp1 ++ tok ++ sp2 ++ r.s.right ∧ sp1.all isSpace = true ∧ Between cfg sp2 ∧
        denoteReal tok = some d ∧ ops.ofDecimal d = some v ∧
        r.val = realValue ops (some v) ∧ (cfg.numberNullReported && ops.isRealNull v) = false ∧
        AtDelimOrEnd cfg r.s.right) ∨
    (nullable = true ∧ r.val = .unset ∧ ∃ sp1 c t, input = sp1 ++ c :: t ∧ sp1.all isSpace = true ∧
        ((c = 36 ∧ ∃ sp2, t = sp2 ++ r.s.right ∧ Between cfg sp2 ∧ AtDelimOrEnd cfg r.s.right) ∨
         ((c = 44 ∨ c = 41) ∧ r.s.right = c :: t))) ∨
    (input.all isSpace = true ∧ r.val = .unset) := by
  obtain ⟨sp1, body, h1, h2, h3, h4⟩ := dropSpaces_split l0 input
  rcases h4 with rfl | ⟨c, t, rfl, hc⟩
  · right; right
    simp at h1; subst h1
    have hws : (G l0 input sk).ws = { left := input.reverse ++ l0, right := [], eof := true, skipws := sk } := by
      simpa [IStream.ofBytes] using ws_blank l0 input sk h2
    simp only [attrRead, hws] at h
    simp [IStream.peekC, IStream.peek, IStream.sentry, IStream.good, readNumber, IStream.ws, IStream.extractFloatText,
      checkRemainingInput, realValue, IStream.failed, Sev.warnIf] at h
    subst h
    try replace hne := (noErr_sentinelIf _ _ hne).2
    exact ⟨h2, rfl⟩
  · subst h1
    by_cases h36 : c = 36
    · subst h36
      rw [attrRead_dollar_at_sk ops cfg lookup .number nullable l0 sp1 t sk h2] at h
      simp only [Outcome.ok.injEq] at h
      have hch := cri_char cfg { left := 36 :: (sp1.reverse ++ l0), right := t, skipws := sk } Sev.null rfl
      subst h
      try replace hne := (noErr_sentinelIf _ _ hne).2
      cases nullable with
      | false => simp [NoErr] at hne
      | true =>
        simp only [hcfg2, if_true] at hne ⊢
        right; left
        have := hch.2 hne
        simp at this
        obtain ⟨sp2, hs2, ht, _, hat⟩ := this
        exact ⟨by simp, by simp, sp1, 36, t, rfl, h2, Or.inl ⟨rfl, sp2, ht, hs2, hat⟩⟩
    · by_cases hdl : c = 44 ∨ c = 41
      · rw [attrRead_missing_at_sk ops cfg lookup .number nullable l0 sp1 t sk c h2 hdl] at h
        simp only [Outcome.ok.injEq] at h
        subst h
        try replace hne := (noErr_sentinelIf _ _ hne).2
        cases nullable with
        | false => simp [NoErr] at hne
        | true => right; left; exact ⟨rfl, rfl, sp1, c, t, rfl, h2, Or.inr ⟨hdl, rfl⟩⟩
      · have hcond : (c == 36 || c == 44 || c == 41) = false := by
          simp at hdl ⊢; exact ⟨⟨h36, hdl.1⟩, hdl.2⟩
        have hpre : (G l0 (sp1 ++ c :: t) sk).ws = { left := (sp1.reverse ++ l0), right := c :: t, skipws := sk } := by
          simpa [IStream.ofBytes] using ws_good l0 sp1 c t sk h2 hc
        simp only [attrRead, hpre, peekC_good, hcond, readNumber, ws_good0 _ _ _ _ hc, extractFloatText_good_sk _ _ _ _ hc] at h
        simp only [Bool.false_eq_true, if_false, Outcome.ok.injEq] at h
        obtain ⟨hwf, happ, hscan⟩ := numSplit_spec (sp1.reverse ++ l0) (c :: t)
        generalize hns : numSplit (c :: t) = ns at hwf happ hscan
        obtain ⟨f, rest⟩ := ns
        simp only at hwf happ hscan
        rw [hscan] at h
        simp only at h
        cases hconv : ops.conv f.norm.text with
        | ok v =>
          left
          simp only [hconv] at h
          subst h
          have hsent := (noErr_sentinelIf _ _ hne).1
          replace hne := (noErr_sentinelIf _ _ hne).2
          simp only [realSentinel] at hsent
          simp only [IStream.failed, Bool.or_self, Bool.false_and, Sev.warnIf, Bool.false_eq_true, if_false] at hne ⊢
          have hof : ∃ d, parseFloatText f.text = some d ∧ ops.ofDecimal d = some v := by
            unfold FloatOps.conv at hconv
            rw [parse_norm f hwf] at hconv
            cases hp : parseFloatText f.text with
            | none => rw [hp] at hconv; cases hconv
            | some d =>
              rw [hp] at hconv; simp only at hconv
              cases ho : ops.ofDecimal d with
              | none => rw [ho] at hconv; cases hconv
              | some v' => rw [ho] at hconv; simp at hconv; exact ⟨d, rfl, by rw [ho, hconv]⟩
          obtain ⟨d, hd1, hd2⟩ := hof
          have hch := (cri_char cfg { left := f.text.reverse ++ (sp1.reverse ++ l0), right := rest, eof := rest.isEmpty, skipws := sk } Sev.null rfl).2 hne
          generalize checkRemainingInput cfg (some attrDelims)
            { left := f.text.reverse ++ (sp1.reverse ++ l0), right := rest, eof := rest.isEmpty, skipws := sk } Sev.null = X at hne hch ⊢
          rcases hch with ⟨heof, hsame⟩ | ⟨heof, sp2, hsp2, hrr, _, hat⟩
          · simp only at heof
            have hre : rest = [] := by simpa using heof
            subst hre
            refine ⟨sp1, f.text, [], d, v, ?_, h2, Between.nil cfg, hd1, hd2, rfl, hsent, ?_⟩
            · rw [hsame]; simp [happ]
            · rw [hsame]; exact Or.inl rfl
          · simp only at hrr
            refine ⟨sp1, f.text, sp2, d, v, ?_, h2, hsp2, hd1, hd2, rfl, hsent, hat⟩
            rw [happ, hrr]; simp
        | invalid =>
          exfalso
          simp only [hconv, IStream.setFail, IStream.failed, Bool.or_true, Bool.true_or, hcfg, Bool.not_false, Bool.and_self] at h
          subst h
          try replace hne := (noErr_sentinelIf _ _ hne).2
          rcases cri_mono cfg _ _ with hm | hm
          · rw [hm] at hne; exact warnIf_true_err Sev.null hne
          · exact hm hne
        | overflow =>
          exfalso
          simp only [hconv, IStream.setFail, IStream.failed, Bool.or_true, Bool.true_or, hcfg, Bool.not_false, Bool.and_self] at h
          subst h
          try replace hne := (noErr_sentinelIf _ _ hne).2
          rcases cri_mono cfg _ _ with hm | hm
          · rw [hm] at hne; exact warnIf_true_err Sev.null hne
          · exact hm hne



theorem C09_never_silent_ref_anywhere {F} (ops : FloatOps F) (cfg : LexCfg) (hcfg2 : cfg.dollarKeepsError = true)
    (lookup : Int → RefLookup) (nullable : Bool) (input : List Byte) (l0 : List Byte) (sk : Bool) (hfirst : FirstByteNot input (quietFirst cfg.refReportsNonRef cfg)) (r : ReadResult F)
    (h : attrRead ops cfg lookup .ref nullable (G l0 input sk) = .ok r) (hne : NoErr r.sev) :
    (∃ sp1 spx tok sp2, input = sp1 ++ 35 :: (spx ++ tok ++ sp2 ++ r.s.right) ∧ sp1.all isSpace = true ∧ spx.all isSpace = true ∧
        Between cfg sp2 ∧ isInteger tok = true ∧ intMin ≤ denoteInteger tok ∧ denoteInteger tok ≤ intMax ∧
        lookup (denoteInteger tok) = .found ∧ r.val = .ref (denoteInteger tok) ∧ AtDelimOrEnd cfg r.s.right) ∨
    (nullable = true ∧ r.val = .unset ∧ ∃ sp1 c t, input = sp1 ++ c :: t ∧ sp1.all isSpace = true ∧
        ((c = 36 ∧ ∃ sp2, t = sp2 ++ r.s.right ∧ Between cfg sp2 ∧ AtDelimOrEnd cfg r.s.right) ∨
         ((c = 44 ∨ c = 41) ∧ r.s.right = c :: t))) ∨
    (input.all isSpace = true ∧ r.val = .unset) := by
  obtain ⟨sp1, body, h1, h2, h3, h4⟩ := dropSpaces_split l0 input
  rcases h4 with rfl | ⟨c, t, rfl, hc⟩
  · right; right
    simp at h1; subst h1
    have hws : (G l0 input sk).ws = { left := input.reverse ++ l0, right := [], eof := true, skipws := sk } := by
      simpa [IStream.ofBytes] using ws_blank l0 input sk h2
    simp only [attrRead, hws] at h
    simp [IStream.peekC, IStream.peek, IStream.sentry, IStream.good, readEntityRef, IStream.ws, IStream.getChar,
      IStream.putback, checkRemainingInput, IStream.clear, dropSpaces] at h
    subst h
    exact ⟨h2, rfl⟩
  · subst h1
    by_cases h36 : c = 36
    · subst h36
      rw [attrRead_dollar_at_sk ops cfg lookup .ref nullable l0 sp1 t sk h2] at h
      simp only [Outcome.ok.injEq] at h
      have hch := cri_char cfg { left := 36 :: (sp1.reverse ++ l0), right := t, skipws := sk } Sev.null rfl
      subst h
      cases nullable with
      | false => simp [NoErr] at hne
      | true =>
        simp only [hcfg2, if_true] at hne ⊢
        right; left
        have := hch.2 hne
        simp at this
        obtain ⟨sp2, hs2, ht, _, hat⟩ := this
        exact ⟨by simp, by simp, sp1, 36, t, rfl, h2, Or.inl ⟨rfl, sp2, ht, hs2, hat⟩⟩
    · by_cases hdl : c = 44 ∨ c = 41
      · rw [attrRead_missing_at_sk ops cfg lookup .ref nullable l0 sp1 t sk c h2 hdl] at h
        simp only [Outcome.ok.injEq] at h
        subst h
        cases nullable with
        | false => simp [NoErr] at hne
        | true => right; left; exact ⟨rfl, rfl, sp1, c, t, rfl, h2, Or.inr ⟨hdl, rfl⟩⟩
      · have hcond : (c == 36 || c == 44 || c == 41) = false := by
          simp at hdl ⊢; exact ⟨⟨h36, hdl.1⟩, hdl.2⟩
        have hcf := hfirst sp1 c t rfl h2 hc
        have hgar : cfg.refReportsNonRef = false → delimAt cfg attrDelims c = false ∧ c ≠ 47 := fun hq =>
          quietFirst_spec hq hcf (by simp at hdl; exact hdl.1) (by simp at hdl; exact hdl.2)
        have hpre := ws_good l0 sp1 c t sk h2 hc
        simp only [attrRead, hpre, peekC_good, hcond, Bool.false_eq_true, if_false] at h
        generalize hR : readEntityRef cfg lookup (some attrDelims) (G (sp1.reverse ++ l0) (c :: t) sk) .null = R at h
        obtain ⟨o, s', e⟩ := R
        simp only [Outcome.ok.injEq] at h
        subst h
        have h44 : c ≠ 44 := by simp at hdl; exact hdl.1
        have h41 : c ≠ 41 := by simp at hdl; exact hdl.2
        obtain ⟨spx, tok, sp2, hsplit, hsx, hb2, htok, hlo, hhi, hfound, ho, hat⟩ :=
          readEntityRef_sound_any cfg lookup (sp1.reverse ++ l0) c t sk hc h44 h41 hgar o s' e hR hne
        subst ho
        left
        refine ⟨sp1, spx, tok, sp2, ?_, h2, hsx, hb2, htok, hlo, hhi, hfound, rfl, hat⟩
        rw [hsplit]

/-- the hypotheses of the `_anywhere` theorems hold for the scanners as the source has them now -/
theorem C09_source_reports_everything :
    Generated.lexCfg.intReportsFail = true ∧ Generated.lexCfg.realReportsFail = true ∧ Generated.lexCfg.numberReportsFail = true ∧
    Generated.lexCfg.logicalRejectsUnset = true ∧ Generated.lexCfg.binaryRejectsEmpty = true ∧ Generated.lexCfg.dollarKeepsError = true := by
  decide

/-! accept, anywhere in a stream and for either state of `skipws` (configurations whose `CheckRemainingInput` skips comments,
as the regenerated one does; the layout lemmas of the shared reader model are stated for those) -/

theorem C09_accept_integer_anywhere {F} (ops : FloatOps F) (cfg : LexCfg) (hcfg : cfg.criSkipsComments = true)
    (lookup : Int → RefLookup) (nullable : Bool) (tok sp rest l0 : List Byte) (d : Byte) (sk : Bool)
    (htok : isInteger tok = true) (hlo : longMin ≤ denoteInteger tok) (hhi : denoteInteger tok ≤ longMax)
    (hsp : Gap cfg sp) (hd : d = 44 ∨ d = 41) :
    attrRead ops cfg lookup .integer nullable (G l0 (tok ++ (sp ++ d :: rest)) sk) =
      .ok ⟨Sev.null.sentinelIf (intSentinel cfg (some (denoteInteger tok))), intValue (some (denoteInteger tok)),
        G (sp.reverse ++ (tok.reverse ++ l0)) (d :: rest) sk⟩ := by
  have hrd := readInteger_tok cfg hcfg tok htok hlo hhi l0 sk sp (gap_seps hcfg hsp) d rest hd
  obtain ⟨c, u, hcu, hcs, h36, h44, h41⟩ := isInteger_head tok htok
  have hcond : (c == 36 || c == 44 || c == 41) = false := by simp [h36, h44, h41]
  rw [hcu] at hrd ⊢
  simp only [List.cons_append] at hrd ⊢
  simp only [attrRead, ws_good0 _ _ _ _ hcs, peekC_good, hcond, Bool.false_eq_true, if_false, hrd]

theorem C09_accept_real_anywhere {F} (ops : FloatOps F) (cfg : LexCfg) (hcfg : cfg.criSkipsComments = true)
    (lookup : Int → RefLookup) (nullable : Bool) (tok sp rest l0 : List Byte) (d : Byte) (sk : Bool) (dec : Decimal) (v : F)
    (htok : isReal tok = true) (hden : denoteReal tok = some dec) (hv : ops.ofDecimal dec = some v)
    (hbuf : cfg.realBuf = 0 ∨ tok.length < cfg.realBuf) (hsp : Gap cfg sp) (hd : d = 44 ∨ d = 41) :
    attrRead ops cfg lookup .real nullable (G l0 (tok ++ (sp ++ d :: rest)) sk) =
      .ok ⟨Sev.null.sentinelIf (cfg.realNullReported && ops.isRealNull v), realValue ops (some v),
        G (sp.reverse ++ (tok.reverse ++ l0)) (d :: rest) sk⟩ := by
  have hrd := readReal_tok ops cfg hcfg tok dec v htok hden hv hbuf l0 sk sp (gap_seps hcfg hsp) d rest hd
  obtain ⟨c, u, hcu, hcs, _, _⟩ := isReal_head tok htok
  have hne3 : c ≠ 36 ∧ c ≠ 44 ∧ c ≠ 41 := by
    refine ⟨?_, ?_, ?_⟩ <;>
    · intro h; subst h; rw [hcu] at htok; revert htok; simp [isReal, splitSign, takeDigits, isDigit]
  have hcond : (c == 36 || c == 44 || c == 41) = false := by simp [hne3.1, hne3.2.1, hne3.2.2]
  rw [hcu] at hrd ⊢
  simp only [List.cons_append] at hrd ⊢
  simp only [attrRead, ws_good0 _ _ _ _ hcs, peekC_good, hcond, Bool.false_eq_true, if_false, hrd, realSentinel]

theorem C09_accept_number_anywhere {F} (ops : FloatOps F) (cfg : LexCfg) (hcfg : cfg.criSkipsComments = true)
    (lookup : Int → RefLookup) (nullable : Bool) (tok sp rest l0 : List Byte) (d : Byte) (sk : Bool) (dec : Decimal) (v : F)
    (htok : isReal tok = true ∨ isInteger tok = true) (hden : denoteReal tok = some dec) (hv : ops.ofDecimal dec = some v)
    (hsp : Gap cfg sp) (hd : d = 44 ∨ d = 41) :
    attrRead ops cfg lookup .number nullable (G l0 (tok ++ (sp ++ d :: rest)) sk) =
      .ok ⟨Sev.null.sentinelIf (cfg.numberNullReported && ops.isRealNull v), realValue ops (some v),
        G (sp.reverse ++ (tok.reverse ++ l0)) (d :: rest) sk⟩ := by
  have hrd := AggrLemmas.readNumber_tok ops cfg hcfg tok dec v htok hden hv l0 sk sp (gap_seps hcfg hsp) d rest hd
  obtain ⟨c, u, hcu, hcs, hne3⟩ : ∃ c u, tok = c :: u ∧ isSpace c = false ∧ (c ≠ 36 ∧ c ≠ 44 ∧ c ≠ 41) := by
    rcases htok with hr | hi
    · obtain ⟨c, u, hcu, hcs, _, _⟩ := isReal_head tok hr
      refine ⟨c, u, hcu, hcs, ?_, ?_, ?_⟩ <;>
      · intro h; subst h; rw [hcu] at hr; revert hr; simp [isReal, splitSign, takeDigits, isDigit]
    · obtain ⟨c, u, hcu, hcs, h36, h44, h41⟩ := isInteger_head tok hi
      exact ⟨c, u, hcu, hcs, h36, h44, h41⟩
  have hcond : (c == 36 || c == 44 || c == 41) = false := by simp [hne3.1, hne3.2.1, hne3.2.2]
  rw [hcu] at hrd ⊢
  simp only [List.cons_append] at hrd ⊢
  simp only [attrRead, ws_good0 _ _ _ _ hcs, peekC_good, hcond, Bool.false_eq_true, if_false, hrd, realSentinel]

theorem C09_accept_string_anywhere {F} (ops : FloatOps F) (cfg : LexCfg) (hcfg : cfg.criSkipsComments = true)
    (lookup : Int → RefLookup) (nullable : Bool) (b sp rest l0 : List Byte) (d : Byte) (sk : Bool)
    (hb : StringBody b) (hsp : Gap cfg sp) (hd : d = 44 ∨ d = 41) :
    attrRead ops cfg lookup .string nullable (G l0 (39 :: (b ++ 39 :: (sp ++ d :: rest))) sk) =
      .ok ⟨.null, .str (39 :: (b ++ [39])), G (sp.reverse ++ (39 :: (b.reverse ++ 39 :: l0))) (d :: rest) false⟩ := by
  have hs := gap_seps hcfg hsp
  obtain ⟨c, u, hcu, hc39⟩ := seps_head_not_apos sp hs d rest hd
  have hcond : ((39 : Byte) == 36 || (39 : Byte) == 44 || (39 : Byte) == 41) = false := by decide
  have hcri := cri_seps cfg hcfg sp hs (39 :: (b.reverse ++ 39 :: l0)) rest d false false .null hd
  simp only [attrRead, ws_good0 _ _ _ _ (show isSpace 39 = false from by decide), peekC_good, hcond, Bool.false_eq_true, if_false]
  rw [hcu, stringRead_tok b hb l0 sk c u hc39]
  simp only
  rw [← hcu, hcri]
  simp

theorem C09_accept_binary_anywhere {F} (ops : FloatOps F) (cfg : LexCfg) (hcfg : cfg.criSkipsComments = true)
    (lookup : Int → RefLookup) (nullable : Bool) (hex sp rest l0 : List Byte) (d : Byte) (sk : Bool)
    (hne : hex ≠ []) (hhex : hex.all isXDigit = true) (hsp : Gap cfg sp) (hd : d = 44 ∨ d = 41) :
    attrRead ops cfg lookup .binary nullable (G l0 (34 :: (hex ++ 34 :: (sp ++ d :: rest))) sk) =
      .ok ⟨.null, .bin hex, G (sp.reverse ++ (34 :: (hex.reverse ++ 34 :: l0))) (d :: rest) sk⟩ := by
  have hs := gap_seps hcfg hsp
  have hcond : ((34 : Byte) == 36 || (34 : Byte) == 44 || (34 : Byte) == 41) = false := by decide
  have hcri := cri_seps cfg hcfg sp hs (34 :: (hex.reverse ++ 34 :: l0)) rest d false sk .null hd
  have hemp : hex.isEmpty = false := by
    cases hex with
    | nil => exact absurd rfl hne
    | cons _ _ => rfl
  simp only [attrRead, ws_good0 _ _ _ _ (show isSpace 34 = false from by decide), peekC_good, hcond, Bool.false_eq_true, if_false,
    readBinary_tok cfg hex hne hhex l0 sk (sp ++ d :: rest), hcri, hemp]

theorem C09_accept_ref_anywhere {F} (ops : FloatOps F) (cfg : LexCfg) (hcfg : cfg.criSkipsComments = true)
    (lookup : Int → RefLookup) (nullable : Bool) (ds sp rest l0 : List Byte) (d : Byte) (sk : Bool)
    (hne : ds ≠ []) (hds : ds.all isDigit = true) (hhi : ((digitsVal ds 0 : Nat) : Int) ≤ intMax)
    (hfound : lookup ((digitsVal ds 0 : Nat) : Int) = .found) (hsp : Gap cfg sp) (hd : d = 44 ∨ d = 41) :
    attrRead ops cfg lookup .ref nullable (G l0 (35 :: (ds ++ (sp ++ d :: rest))) sk) =
      .ok ⟨.null, .ref ((digitsVal ds 0 : Nat) : Int), G (sp.reverse ++ (ds.reverse ++ 35 :: l0)) (d :: rest) sk⟩ := by
  have hcond : ((35 : Byte) == 36 || (35 : Byte) == 44 || (35 : Byte) == 41) = false := by decide
  simp only [attrRead, ws_good0 _ _ _ _ (show isSpace 35 = false from by decide), peekC_good, hcond, Bool.false_eq_true, if_false,
    readEntityRef_tok cfg hcfg lookup ds hne hds hhi hfound l0 sk sp (gap_seps hcfg hsp) d rest hd]

theorem C09_accept_enum_anywhere {F} (ops : FloatOps F) (cfg : LexCfg) (hcfg : cfg.criSkipsComments = true)
    (lookup : Int → RefLookup) (k : Kind) (hk : EnumLike k) (nullable : Bool) (name sp rest l0 : List Byte) (d : Byte) (sk : Bool)
    (i : Nat) (hne : name ≠ []) (hname : name.all pw = true) (hfind : findName k.enumKind.table (name.map toUpper) = some i)
    (hset : k.enumKind.isUnsetIdx i = false) (hsp : Gap cfg sp) (hd : d = 44 ∨ d = 41) :
    attrRead ops cfg lookup k nullable (G l0 (46 :: (name ++ 46 :: (sp ++ d :: rest))) sk) =
      .ok ⟨.null, .enum i, G (sp.reverse ++ (46 :: (name.reverse ++ 46 :: l0))) (d :: rest) sk⟩ := by
  have hs := gap_seps hcfg hsp
  have hcond : ((46 : Byte) == 36 || (46 : Byte) == 44 || (46 : Byte) == 41) = false := by decide
  have hshape := attrRead_enumlike_at_sk ops cfg lookup k hk nullable l0 [] (name ++ 46 :: (sp ++ d :: rest)) sk 46 (by simp) (by decide) hcond
  simp only [List.nil_append, List.reverse_nil] at hshape
  have hcri := cri_seps cfg hcfg sp hs (46 :: (name.reverse ++ 46 :: l0)) rest d false sk .null hd
  rw [show G l0 (46 :: (name ++ 46 :: (sp ++ d :: rest))) sk =
    ({ left := l0, right := 46 :: (name ++ 46 :: (sp ++ d :: rest)), eof := false, fail := false, bad := false, skipws := sk } : IStream) from rfl, hshape]
  have hrd := enumRead_tok cfg k.enumKind nullable name i hne hname hfind hset l0 sk (sp ++ d :: rest)
  simp only [show ({ left := l0, right := 46 :: (name ++ 46 :: (sp ++ d :: rest)), eof := false, fail := false, bad := false, skipws := sk } : IStream) =
    G l0 (46 :: (name ++ 46 :: (sp ++ d :: rest))) sk from rfl, hrd, hcri]
  simp [enumValue, hset]

end Anywhere

end StepModel.P21.C09

import StepModel.P21SafeLemmas
import StepModel.P21SafeLoopLemmas
import StepModel.P21SafeTermination
import StepModel.P21SafeSteps
import StepModel.P21SafeSteps2
import StepModel.P21SafeOwnLemmas
import StepModel.P21SafeDataLemmas
import StepModel.P21SafeData2Lemmas
import StepModel.P21SafeHeaderLemmas
import StepModel.P21SafePass2Lemmas
import StepModel.P21SafeWhole
import StepModel.Generated.C05Buffers
/-! # C05 — reading and writing Part 21 is memory-safe and terminates (the part Lean can carry)

Memory safety of C++ is not provable here; what *is* proved, for all inputs and with the capacities / guards /
limits regenerated from the source tree (`StepModel.Generated.C05`):

* `C05_no_overflow_<site>` — every index written by the modelled fixed-capacity site is inside the array, for every
  input (no bound on its length).  Each is obtained from a general characterisation (`…_safe_iff`: the site is free of
  overflow for all inputs **iff** a decidable condition on capacity and guard holds) instantiated with the generated
  values by `decide`: a changed array size or a removed guard makes the `decide` — hence the theorem — fail.
* `C05_…_witness` — the concrete overflowing / non-terminating input for the configuration the code had before the
  fixes (`fixes/C05-*.patch`), with the historic constants written out; they are replayed on the real code by the check.
* `C05_terminates_<loop>` — the recovery / skipping loops, run with fuel `|remaining bytes| + c`, never run out of fuel,
  and the number of loop iterations is bounded linearly in the remaining input.

Everything else of C05 (heap lifetime, unmodelled code, real time) is sanitizer testing — see checks/c05.py.
-/
namespace StepModel.P21Safe
open StepModel.Generated

/-! ## ReadReal `buf` -/

theorem realLexLen_surj (n : Nat) : ∃ inp, realLexLen inp = n := by
  cases n with
  | zero => exact ⟨[], by decide⟩
  | succ n => exact ⟨List.replicate (n + 1) 49, realLexLen_digits n⟩

/-- `ReadReal` is free of overflow for every input iff its buffer is growable or every store is guarded below the capacity. -/
theorem C05_readReal_safe_iff (st : Storage) (guard : Option Nat) :
    (∀ inp, NoOverflow (readReal st guard inp)) ↔ copySafe st guard = true := by
  rw [← copy_safe_iff]
  constructor
  · intro h n
    obtain ⟨inp, hi⟩ := realLexLen_surj n
    have := h inp
    simpa [readReal, readRealWrites, hi] using this
  · intro h inp
    exact h (realLexLen inp)

/-- the overflow happens exactly when the number lexeme has at least `cap` characters, at index `cap` -/
theorem C05_readReal_overflow_iff (cap : Nat) (inp : List Byte) :
    readReal (.fixed cap) none inp = .overflow cap cap ↔ cap ≤ realLexLen inp := by
  constructor
  · intro h
    by_cases hc : cap ≤ realLexLen inp
    · exact hc
    · have := copy_unguarded_ok (cap := cap) (n := realLexLen inp) (by omega)
      simp [readReal, readRealWrites, this] at h
  · intro h
    exact copy_unguarded_overflow h

theorem C05_no_overflow_readReal :
    ∀ inp, NoOverflow (readReal C05.readRealStorage C05.readRealGuard inp) :=
  (C05_readReal_safe_iff _ _).mpr (by decide)

/-- before `fixes/C05-1`: `char buf[64]`, unguarded — a REAL of 64 digits writes `buf[64]` -/
theorem C05_readReal_witness :
    readReal (.fixed 64) none (List.replicate 64 49) = .overflow 64 64 :=
  (C05_readReal_overflow_iff 64 _).mpr (by rw [realLexLen_digits 63]; exact Nat.le_refl _)

/-- non-vacuity: 63 characters are fine in the historic configuration -/
example : readReal (.fixed 64) none (List.replicate 63 49) = .ok () :=
  copy_unguarded_ok (by rw [show (63 : Nat) = 62 + 1 from rfl, realLexLen_digits 62]; decide)

/-! ## StrToLower / StrToUpper / StrToConstant scratch `newword` -/

theorem cstr_replicate (n : Nat) : cstr (List.replicate n 97) = List.replicate n 97 := by
  induction n with
  | zero => rfl
  | succ n ih => simp [List.replicate, cstr, ih]

theorem C05_strCopy_safe_iff (st : Storage) (guard : Option Nat) :
    (∀ word, NoOverflow (strCopy st guard word)) ↔ copySafe st guard = true := by
  rw [← copy_safe_iff]
  constructor
  · intro h n
    have := h (List.replicate n 97)
    simpa [strCopy, strCopyWrites, cstr_replicate] using this
  · intro h word
    exact h _

theorem C05_no_overflow_strToLower : ∀ word, NoOverflow (strCopy C05.strToLowerStorage C05.strToLowerGuard word) :=
  (C05_strCopy_safe_iff _ _).mpr (by decide)
theorem C05_no_overflow_strToUpper : ∀ word, NoOverflow (strCopy C05.strToUpperStorage C05.strToUpperGuard word) :=
  (C05_strCopy_safe_iff _ _).mpr (by decide)
theorem C05_no_overflow_strToConstant : ∀ word, NoOverflow (strCopy C05.strToConstantStorage C05.strToConstantGuard word) :=
  (C05_strCopy_safe_iff _ _).mpr (by decide)

/-- before `fixes/C05-4`: `char newword[BUFSIZ+1]`, unguarded — any word of `cap` characters (an enumeration token
of 8193 letters in a file) writes `newword[cap]` -/
theorem C05_strCopy_witness (cap : Nat) : strCopy (.fixed cap) none (List.replicate cap 97) = .overflow cap cap := by
  unfold strCopy strCopyWrites
  rw [cstr_replicate]
  exact copy_unguarded_overflow (by simp)

/-! ## PrettyTmpName `newname` -/

theorem C05_no_overflow_prettyTmpName : ∀ name, NoOverflow (pretty C05.prettyCap C05.prettyGuard name) :=
  pretty_safe (by decide)

/-- before `fixes/C05-5` (`cap = G + 1`, here scaled to `G = 8`): a `_` at index `G-1` of a name longer than `G`
advances `i` to `G + 1 = cap` and the terminator is written one past the array.  The real-size instance
(`G = BUFSIZ = 8192`) is replayed on the code by the check. -/
theorem C05_prettyTmpName_witness :
    pretty 9 8 [97, 97, 97, 97, 97, 97, 97, 95, 97, 97] = .overflow 9 9 := by decide

example : pretty 9 7 [97, 97, 97, 97, 97, 97, 97, 95, 97, 97] = .ok () := by decide

/-- `Registry::FindEntity` copies what `PrettyTmpName` returns (at most `guard + 1` characters) into `schformat`:
safe for every FILE_SCHEMA name when `guard + 2 ≤ capacity` — a second two-site invariant (producer bound × consumer capacity) -/
theorem schformatCopy_safe {cap : Option Nat} {g : Nat} (h : ∀ c, cap = some c → g + 2 ≤ c) (schNm : List Byte) :
    NoOverflow (schformatCopy cap g schNm) := by
  cases cap with
  | none => intro i c hh; simp [schformatCopy] at hh
  | some c =>
    have hc := h c rfl
    apply runWrites_noOverflow_iff.mpr
    intro i hi
    have := mem_copyWrites hi
    have hb := (prettyLoop_bound g 0 (cstr schNm)).2
    simp [prettyOutLen] at this hb ⊢
    omega

theorem C05_no_overflow_schformat :
    ∀ schNm, NoOverflow (schformatCopy C05.schformatCap C05.prettyGuard schNm) :=
  schformatCopy_safe (by decide)

/-! ## EntNode( const char * ) → `name` -/

def entNodeSafe (cap : Nat) : CopyKind → Bool
  | .strncpy n (some t) => decide (n ≤ cap) && decide (t < cap)
  | _ => false

theorem entNodeCtor_safe {cap : Nat} {k : CopyKind} (h : entNodeSafe cap k = true) (nm : List Byte) :
    NoOverflow (entNodeCtor cap k nm) := by
  cases k with
  | unbounded => simp [entNodeSafe] at h
  | strncpy n term =>
    cases term with
    | none => simp [entNodeSafe] at h
    | some t =>
      simp [entNodeSafe] at h
      apply runWrites_noOverflow_iff.mpr
      intro i hi
      simp only [entNodeCtorWrites, strncpyWrites, List.mem_append, mem_idxRange, List.mem_singleton] at hi
      rcases hi with (hi | rfl) | hi
      · omega
      · omega
      · have := mem_copyWrites hi
        simp at this
        split at this <;> omega

theorem C05_no_overflow_entNode : ∀ nm, NoOverflow (entNodeCtor C05.entNodeCap C05.entNodeCtorCopy nm) :=
  fun nm => entNodeCtor_safe (by decide) nm

/-- before `fixes/C05-3`: `StrToLower( nm, name )` copies a part keyword of `cap` letters past `name[cap]` -/
theorem C05_entNode_witness (cap : Nat) :
    entNodeCtor cap .unbounded (List.replicate cap 97) = .overflow cap cap := by
  unfold entNodeCtor entNodeCtorWrites
  simp only [cstr_replicate]
  exact copy_unguarded_overflow (by simp)

/-! ## CreateSubSuperInstance `entNmArr`, STEPcomplex ctor `nms` -/

theorem C05_entNmArr_safe_iff (st : Storage) (guard : Option Nat) :
    (∀ parts, NoOverflow (entNmArr st guard parts)) ↔ copySafe st guard = true := by
  rw [← copy_safe_iff]; rfl

theorem C05_no_overflow_entNmArr : ∀ parts, NoOverflow (entNmArr C05.entNmArrStorage C05.entNmArrGuard parts) :=
  (C05_entNmArr_safe_iff _ _).mpr (by decide)

/-- before `fixes/C05-2`: `entNmArr[64]`, loop guard `enaIndex < 64`, then `entNmArr[enaIndex] = 0`:
64 parts write `entNmArr[64]` -/
theorem C05_entNmArr_witness : entNmArr (.fixed 64) (some 64) 64 = .overflow 64 64 := by
  unfold entNmArr entNmArrWrites copyWrites
  exact runWrites_overflow (pre := idxRange 0 64) (post := [])
    (by intro j hj; simp [mem_idxRange] at hj; omega) (Nat.le_refl _)

example : entNmArr (.fixed 64) (some 64) 63 = .ok () := by
  apply runWrites_ok
  intro i hi
  have := mem_copyWrites hi
  simp at this; omega

/-! ### the two-site invariant `caller's maximum part count ≤ callee capacity − 1`

`STEPcomplex( Registry *, const std::string ** names, … )` copies `names` into `char * nms[cap]` until the NULL entry and
then stores the terminator; nothing in the constructor bounds the index unless its loop has a guard of its own.  Its only
in-tree caller (`CreateSubSuperInstance`) caps the number of names it collects.  Both values are regenerated. -/

/-- the bound that is effective on the number of names `nms` receives -/
def nmsEffectiveBound : Option Nat → Option Nat → Option Nat
  | some g, some m => some (min g m)
  | some g, none => some g
  | none, some m => some m
  | none, none => none

theorem nmsWrites_eq (calleeGuard callerMax : Option Nat) (parts : Nat) :
    nmsWrites calleeGuard callerMax parts = copyWrites (nmsEffectiveBound calleeGuard callerMax) parts := by
  cases calleeGuard <;> cases callerMax <;>
    simp [nmsWrites, copyWrites, entNmArrStored, nmsEffectiveBound, Nat.min_assoc, Nat.min_comm]
  all_goals (rename_i g m; rw [Nat.min_left_comm]; simp)

/-- `nms` is free of overflow for every number of parts **iff** the array is growable or the effective bound —
the callee's own loop guard, else the caller's maximum part count — is at most `capacity − 1`. -/
theorem C05_nms_two_site_iff (st : Storage) (calleeGuard callerMax : Option Nat) :
    (∀ parts, NoOverflow (nms st calleeGuard callerMax parts))
      ↔ copySafe st (nmsEffectiveBound calleeGuard callerMax) = true := by
  rw [← copy_safe_iff]
  simp only [nms, nmsWrites_eq]

/-- the invariant in the form the integrator asked for: with a fixed array and no guard in the constructor, safety for
all inputs is exactly `caller's maximum part count ≤ capacity − 1` (and fails when the caller has no cap) -/
theorem C05_nms_caller_cap_iff (cap : Nat) (callerMax : Option Nat) :
    (∀ parts, NoOverflow (nms (.fixed cap) none callerMax parts))
      ↔ ∃ m, callerMax = some m ∧ 0 < cap ∧ m ≤ cap - 1 := by
  rw [C05_nms_two_site_iff]
  cases callerMax with
  | none => simp [nmsEffectiveBound, copySafe]
  | some m => simp [nmsEffectiveBound, copySafe]; omega

theorem C05_no_overflow_nms :
    ∀ parts, NoOverflow (nms C05.nmsStorage C05.nmsLoopGuard C05.entNmArrGuard parts) :=
  (C05_nms_two_site_iff _ _ _).mpr (by decide)

/-- the cap removed at the caller (seeded regression C05-a1: names collected in a `std::vector`), constructor unchanged:
a complex instance with `cap` parts writes `nms[cap]` — predicted threshold = the callee's capacity (8193) -/
theorem C05_nms_uncapped_witness (cap : Nat) : nms (.fixed cap) none none cap = .overflow cap cap := by
  unfold nms nmsWrites entNmArrStored
  exact copy_unguarded_overflow (Nat.le_refl _)

example : nms (.fixed 8193) none (some 64) 100000 = .ok () := by
  apply runWrites_ok
  intro i hi
  have := mem_copyWrites hi
  simp [entNmArrStored] at this; omega

/-! ## sprintf into fixed arrays -/

/-- assumed bound on the length of a dictionary (schema) name or literal handed to `%s` -/
def nameBound : Nat := 2048
/-- `%d` of a 32-bit int -/
def intBound : Nat := 11
/-- `%.*G` with a precision ≤ 33 -/
def realBound : Nat := 40

def sprintfSiteOk (s : SprintfSite) : Bool :=
  decide (s.literal + intBound * s.ints + nameBound * s.names + realBound * s.reals < s.cap)

theorem sum_le_of_all_le (l : List Nat) (b : Nat) (h : ∀ x ∈ l, x ≤ b) : l.sum ≤ b * l.length := by
  induction l with
  | nil => simp
  | cons x xs ih =>
    have hx := h x (by simp)
    have := ih (fun y hy => h y (by simp [hy]))
    simp [Nat.mul_succ]
    omega

/-- **partial**: file bytes never reach a `%s` (the extractor refuses any `%s` argument that is not a dictionary
name, a literal or the file's name); the remaining assumption, spelled out, is that those names are at most
`nameBound` bytes, ints are 32-bit and the real precision is ≤ 33.  Under it no listed `sprintf` overflows. -/
theorem C05_no_overflow_sprintf_partial :
    ∀ s ∈ C05.sprintfSites, ∀ ints names reals : List Nat,
      ints.length = s.ints → names.length = s.names → reals.length = s.reals →
      (∀ x ∈ ints, x ≤ intBound) → (∀ x ∈ names, x ≤ nameBound) → (∀ x ∈ reals, x ≤ realBound) →
      NoOverflow (sprintf s ints names reals) := by
  have hall : C05.sprintfSites.all sprintfSiteOk = true := by decide
  intro s hs ints names reals hi hn hr bi bn br
  have hok := (List.all_eq_true.mp hall) s hs
  simp [sprintfSiteOk] at hok
  have h1 := sum_le_of_all_le ints intBound bi
  have h2 := sum_le_of_all_le names nameBound bn
  have h3 := sum_le_of_all_le reals realBound br
  rw [hi] at h1; rw [hn] at h2; rw [hr] at h3
  unfold sprintf sprintfWrites
  apply runWrites_noOverflow_iff.mpr
  intro i hmem
  have := mem_copyWrites hmem
  simp [sprintfLen] at this
  omega

example : ∃ s, s ∈ C05.sprintfSites := ⟨_, List.mem_cons_self⟩

/-! ## termination of the modelled loops (fuel = remaining bytes + constant; iteration count linear) -/

theorem IS.meas_le (s : IS) : s.meas ≤ s.rest.length + 1 := by
  unfold IS.meas; split <;> omega

/-- `STEPfile::FindHeaderSection`'s search loop, with the regenerated `getline` count and give-up test: started with
`fuel = |remaining bytes| + 2` it never runs out of fuel, and iterations + bytes stored by `getline` are at most
`2·(|remaining bytes| + 1)`. -/
theorem C05_terminates_findHeaderSection (s : IS) (buf : List Byte) (steps : Nat) :
    ∃ r, headerLoop C05.findHeaderGetlineN C05.findHeaderExit (s.rest.length + 2) s buf steps = .ok r
      ∧ r.steps ≤ steps + 2 * (s.rest.length + 1) := by
  have hx : C05.findHeaderExit = .notGood := by decide
  rw [hx]
  have hm := IS.meas_le s
  obtain ⟨r, hr, hs⟩ := headerLoop_terminates C05.findHeaderGetlineN (s.rest.length + 2) s buf steps (by omega)
  exact ⟨r, hr, by omega⟩

/-- before `fixes/C05-6` (give-up test `in.eof()` only): once `getline` has set failbit without reaching the end
(a run of `n-1` bytes without `;`), the loop never ends — for **every** amount of fuel the answer is out-of-fuel. -/
theorem C05_findHeaderSection_hang_witness (n : Nat) (pre rest : List Byte) :
    ∀ fuel, headerLoop n .eofOnly fuel ⟨pre, rest, false, true, true⟩ [] 0 = .outOfFuel :=
  fun fuel => headerLoop_eofOnly_spins n fuel _ 0 rfl rfl

/-- … and a concrete input that reaches that state (scaled: `getline( buf, 4, ';' )` on `xxxxx`) -/
theorem C05_findHeaderSection_hang_witness_input :
    ∀ fuel, headerLoop 4 .eofOnly fuel (IS.ofBytes [120, 120, 120, 120, 120]) [] 0 = .outOfFuel := by
  intro fuel
  cases fuel with
  | zero => rfl
  | succ f =>
    have h1 : headerLoop 4 .eofOnly (f + 1) (IS.ofBytes [120, 120, 120, 120, 120]) [] 0
        = headerLoop 4 .eofOnly f ⟨[120, 120, 120], [120, 120], false, true, true⟩ [120, 120, 120] 4 := by
      rfl
    rw [h1]
    cases f with
    | zero => rfl
    | succ g =>
      have h2 : headerLoop 4 .eofOnly (g + 1) ⟨[120, 120, 120], [120, 120], false, true, true⟩ [120, 120, 120] 4
          = headerLoop 4 .eofOnly g ⟨[120, 120, 120], [120, 120], false, true, true⟩ [] 5 := by
        rfl
      rw [h2]
      exact headerLoop_eofOnly_spins 4 g _ 5 rfl rfl

theorem IS.m_le (s : IS) : s.m ≤ s.rest.length + 1 := by
  unfold IS.m; split <;> omega

/-- the inner loop of the `);` recovery scan at the end of `SDAI_Application_instance::STEPread`
(`while( in.good() && c != ')' … ) { in.get( c ); … }`, in its regenerated shape): fuel `|remaining| + 2` suffices, its
iterations are linear, and unless it has found the end of the record it ends on a `)` or on a stream that is no longer good. -/
theorem C05_terminates_recoveryScan_inner (s : IS) (c : Byte) (q : Bool) (len steps : Nat) :
    ∃ s' c' q' f' len' steps',
      recoverInner C05.recoveryScanStaysInRecord C05.recoveryScanCountsQuotes (s.rest.length + 2) s c q len steps = .ok (s', c', q', f', len', steps')
      ∧ steps' ≤ steps + 4 * (s.rest.length + 1) + 1 ∧ (f' = false → s'.good = true → c' = chRParen) := by
  have hm := IS.m_le s
  obtain ⟨s', c', q', f', l', st', he, _, h2, h3⟩ := recoverInner_pot 0 C05.recoveryScanStaysInRecord C05.recoveryScanCountsQuotes (s.rest.length + 2) s c q len steps (by omega)
  have hp := pot_le (R := 0) s
  refine ⟨s', c', q', f', l', st', he, ?_, fun hf => (h2 hf).2.1⟩
  cases f' with
  | false => have := (h2 rfl).1; omega
  | true => have := h3 rfl; omega

/-- `ReadComment`'s loop with the regenerated limit (`readCommentIters` = MAX_COMMENT_LENGTH + 1; the counter starts again
while the stream is good, so a comment may have any length): it ends with fuel `|bytes| + readCommentIters + 3`, never
un-reads, and makes at most one step per byte it consumes plus `readCommentIters` spins once the input has ended inside
the comment -/
theorem C05_terminates_readComment_loop (s : IS) (c : Byte) (len steps : Nat) :
    ∃ o s' c' len' st',
      commentLoop C05.readCommentIters (s.rest.length + C05.readCommentIters + 3) C05.readCommentIters s c len steps
        = .ok (o, s', c', len', st') ∧ s'.m ≤ s.m ∧ st' ≤ steps + 4 * (s.rest.length + 1) + C05.readCommentIters := by
  have hm : s.m ≤ s.rest.length + 1 := by unfold IS.m; split <;> omega
  obtain ⟨o, s', c', l', st', he, h1, h2⟩ := commentLoop_pot C05.readCommentIters C05.readCommentIters (Nat.le_refl _)
    (s.rest.length + C05.readCommentIters + 3) C05.readCommentIters s c len steps (Nat.le_refl _) (by split <;> omega)
  refine ⟨o, s', c', l', st', he, h1, ?_⟩
  have := pot_le (R := C05.readCommentIters) s
  split at h2
  · rename_i hz
    rw [pot_zero hz] at h2
    omega
  · omega

/-- `SkipInstance` (with the regenerated comment case and comment limit): fuel `|remaining bytes| + 2` is enough for
every stream state; the stream never gets longer.  (Fuel bounds the iterations of the loop itself; iterations of the
nested string / comment readers are bounded by the bytes they consume resp. by `readCommentIters`.) -/
theorem C05_terminates_skipInstance (s : IS) :
    ∃ r, skipInstance C05.skipInstanceSkipsComments C05.readCommentIters (s.rest.length + 2) s = .ok r ∧ r.s.m ≤ s.m := by
  have := IS.m_le s
  exact scanUntil_terminates chSemi false _ _ (s.rest.length + 2) s 0 0 0 (by omega)

theorem C05_terminates_findStartOfInstance (s : IS) :
    ∃ r, findStartOfInstance (s.rest.length + 2) s = .ok r ∧ r.s.m ≤ s.m := by
  have := IS.m_le s
  exact scanUntil_terminates chHash true false 0 (s.rest.length + 2) s 0 0 0 (by omega)

/-- `ReadTokenSeparator` (white space, comments — each with the `SkipInstance` fallback —, print control directives) -/
theorem C05_terminates_readTokenSeparator (s : IS) :
    ∃ r, readTokenSeparator C05.skipInstanceSkipsComments C05.readCommentIters (s.rest.length + 2) s = .ok r ∧ r.s.m ≤ s.m := by
  have := IS.m_le s
  exact readTokenSeparator_terminates _ _ (s.rest.length + 2) s (by omega)

/-- the whole `);` recovery scan of `SDAI_Application_instance::STEPread` (outer and inner loop, regenerated shape) -/
theorem C05_terminates_recoveryScan (s : IS) (c : Byte) :
    ∃ r, recoveryScan C05.recoveryScanStaysInRecord C05.recoveryScanCountsQuotes C05.recoveryScanPutsBackSemi (s.rest.length + 2) s c = .ok r := by
  have hcl : s.clear.m = s.rest.length + 1 := by simp [IS.clear, IS.m]
  obtain ⟨r, a, _, _⟩ := recoverOuter_pot 0 C05.recoveryScanStaysInRecord C05.recoveryScanCountsQuotes C05.recoveryScanPutsBackSemi (s.rest.length + 2)
    s.clear c false 0 0 (by omega) (by left; simp [IS.clear, IS.good])
  exact ⟨r, a⟩

/-- the export-list loops of Create/ReadScopeInstances, with the regenerated loop condition -/
theorem C05_terminates_exportList (s : IS) (c : Byte) (steps : Nat) :
    (∃ r, exportLoop C05.exportLoopChecksStreamCreate C05.skipInstanceSkipsComments C05.readCommentIters
        (s.rest.length + 2) s c steps = .ok r) ∧
    (∃ r, exportLoop C05.exportLoopChecksStreamRead C05.skipInstanceSkipsComments C05.readCommentIters
        (s.rest.length + 2) s c steps = .ok r) := by
  have h1 : C05.exportLoopChecksStreamCreate = true := by decide
  have h2 : C05.exportLoopChecksStreamRead = true := by decide
  have := IS.m_le s
  rw [h1, h2]
  exact ⟨exportLoop_terminates _ _ _ s c steps (by omega), exportLoop_terminates _ _ _ s c steps (by omega)⟩

/-- before `fixes/C05-7` (`while( c == ',' )` only): at end of input the loop is out of fuel for every fuel -/
theorem C05_exportList_hang_witness (cm : Bool) (iters : Nat) (pre : List Byte) :
    ∀ fuel, exportLoop false cm iters fuel ⟨pre, [], true, true, true⟩ chComma 0 = .outOfFuel :=
  fun fuel => exportLoop_unchecked_spins cm iters pre true fuel 0

/-! ## `GetLiteralStr` reads a string literal in time linear in its length

The loop makes one iteration per character and calls `StrEndsWith( s, "\\S\\" )` for every apostrophe; with the
regenerated shape of `StrEndsWith` (it inspects only the last `|suffix|` characters) the total number of character
operations is at most `4·|remaining bytes| + 1`. -/

theorem litLoopCost_suffixOnly (r acc : List Byte) (esc : Bool) :
    litLoopCost .suffixOnly r acc esc ≤ 4 * r.length + 1 := by
  fun_induction litLoopCost .suffixOnly r acc esc <;> simp_all [endsWithCost] <;> omega

theorem C05_getLiteralStr_linear (r acc : List Byte) (esc : Bool) :
    litLoopCost C05.strEndsWithShape r acc esc ≤ 4 * r.length + 1 := by
  have h : C05.strEndsWithShape = .suffixOnly := by decide
  rw [h]; exact litLoopCost_suffixOnly r acc esc

/-- triangular numbers: `tri n = 0 + 1 + … + (n-1)` -/
def tri : Nat → Nat
  | 0 => 0
  | n + 1 => tri n + n

theorem tri_quadratic (n : Nat) : 2 * tri n + n = n * n := by
  induction n with
  | zero => rfl
  | succ n ih => simp only [tri, Nat.succ_mul, Nat.mul_succ]; omega

/-- a `StrEndsWith` that may scan the whole string (seeded regression C05-b2: `s.rfind( suf ) == sLen - suffixLen`)
makes a literal of `n` doubled apostrophes (the legal escape) cost at least `n·|read so far| + n(n-1)/2`: quadratic -/
theorem C05_getLiteralStr_quadratic_witness (n : Nat) (acc : List Byte) (esc : Bool) :
    n * acc.length + tri n ≤ litLoopCost .wholeString (List.replicate n chQuote) acc esc := by
  induction n generalizing acc esc with
  | zero => simp [tri]
  | succ n ih =>
    have := ih (chQuote :: acc) (if endsSlashS acc then esc else !esc)
    simp only [List.replicate, litLoopCost, endsWithCost, if_true, tri, List.length_cons, Nat.succ_mul, Nat.mul_succ] at this ⊢
    omega

example (n : Nat) : litLoopCost .suffixOnly (List.replicate n chQuote) [chQuote] true ≤ 4 * n + 1 := by
  simpa using litLoopCost_suffixOnly (List.replicate n chQuote) [chQuote] true

/-! ## total step counts, all nesting levels: at most `4·(|remaining bytes| + 1) + readCommentIters + 1`

`steps` counts every iteration of every loop level (the scan loop itself, the comment loop, the nested `SkipInstance`
of an overlong comment, `ReadTokenSeparator`'s loop) plus the bytes of every string literal read (`GetLiteralStr`'s loop,
whose per-iteration cost is bounded by `C05_getLiteralStr_linear`).  `c₁ = 4`, `c₂ = readCommentIters + 5`. -/

theorem C05_steps_skipInstance (s : IS) :
    ∃ r, skipInstance C05.skipInstanceSkipsComments C05.readCommentIters (s.rest.length + 2) s = .ok r ∧
      r.steps ≤ 4 * (s.rest.length + 1) + C05.readCommentIters + 1 := by
  have hm := IS.m_le s
  obtain ⟨r, h1, _, h3⟩ := scanUntil_pot C05.readCommentIters chSemi false C05.skipInstanceSkipsComments C05.readCommentIters
    (Nat.le_refl _) (s.rest.length + 2) s 0 0 0 (by omega)
  have := pot_le (R := C05.readCommentIters) s
  exact ⟨r, h1, by omega⟩

theorem C05_steps_findStartOfInstance (s : IS) :
    ∃ r, findStartOfInstance (s.rest.length + 2) s = .ok r ∧ r.steps ≤ 4 * (s.rest.length + 1) + 1 := by
  have hm := IS.m_le s
  obtain ⟨r, h1, _, h3⟩ := scanUntil_pot 0 chHash true false 0 (Nat.le_refl _) (s.rest.length + 2) s 0 0 0 (by omega)
  have := pot_le (R := 0) s
  exact ⟨r, h1, by omega⟩

theorem C05_steps_readTokenSeparator (s : IS) :
    ∃ r, readTokenSeparator C05.skipInstanceSkipsComments C05.readCommentIters (s.rest.length + 2) s = .ok r ∧
      r.steps ≤ 4 * (s.rest.length + 1) + C05.readCommentIters + 1 := by
  have hm := IS.m_le s
  obtain ⟨r, h1, _, h3⟩ := readTokenSeparator_pot C05.readCommentIters C05.skipInstanceSkipsComments C05.readCommentIters
    (Nat.le_refl _) (s.rest.length + 2) s (by omega)
  have := pot_le (R := C05.readCommentIters) s
  exact ⟨r, h1, by omega⟩

/-! ## the instance loop of pass 1 (`STEPfile::ReadData1`): termination, linear steps, cut-off, resynchronisation

Full for pass 1: exchange and working-session files, every record kind incl. `&SCOPE` (which the code can never recognise:
`GetKeyword` rejects `&` — regenerated fact `getKeywordAcceptsAmp = false`, so `CreateScopeInstances` always takes its first
error exit); what the dictionary and the instance manager answer is an arbitrary oracle.  Pass 2's attribute readers remain a
hypothesis (`C05_readData2_partial`). -/

/-- `CreateSubSuperInstance` with all its inner loops (part loop with the regenerated cap on the number of names, garbage
loop, `SkipSimpleRecord`, `PushPastImbedAggr`, `PushPastString`): for every byte string it ends with fuel `|bytes| + 2`,
never un-reads and makes at most `4·(|bytes| + 1) + readCommentIters + 3` steps -/
theorem C05_steps_createSubSuper (s : IS) :
    ∃ r, createSubSuper C05.imbedAggrStaysInRecord C05.entNmArrGuard (s.rest.length + 2) s = .ok r ∧ r.s.m ≤ s.m ∧
      r.steps ≤ 4 * (s.rest.length + 1) + C05.readCommentIters + 3 := by
  have hm := IS.m_le s
  obtain ⟨r, a, b, c⟩ := createSubSuper_ok C05.readCommentIters C05.imbedAggrStaysInRecord C05.entNmArrGuard (s.rest.length + 2) (by omega) s (by omega)
  have := pot_le (R := C05.readCommentIters) s
  exact ⟨r, a, b, by omega⟩

/-- For every byte string and every oracle, for exchange as well as working-session files (state letters `C I N D`,
deleted instances skipped): `ReadData1` — with the concrete `CreateSubSuperInstance` — ends (fuel `|bytes| + 2`), never
un-reads, makes at most `54·(|bytes| + 1) + readCommentIters + 23` steps over all nesting levels (instance loop,
resynchronisation loop, `CreateInstance` skeleton, external-mapping part loop, `SkipSimpleRecord`, `PushPastImbedAggr`,
token separators, comments, `SkipInstance`, `FindStartOfInstance`, string literals), never counts more than
`_maxErrorCount + 1` instances it could not create, and aborts exactly when it has counted that many. -/
theorem C05_readData1 (o : Oracle) (wsMode : Bool) (s : IS) :
    ∃ r, readData1 o C05.imbedAggrStaysInRecord C05.entNmArrGuard C05.skipInstanceSkipsComments wsMode C05.readCommentIters C05.maxErrorCount
        (s.rest.length + 2) s = .ok r ∧
      r.s.m ≤ s.m ∧
      r.steps ≤ 54 * (s.rest.length + 1) + C05.readCommentIters + 23 ∧
      r.notCreated ≤ C05.maxErrorCount + 1 ∧ (r.aborted = true ↔ r.notCreated = C05.maxErrorCount + 1) :=
  readData1_ok o _ _ _ wsMode _ _ s

/-- Pass 2 (`ReadData2`) is the same loop around `ReadInstance`.  For **every** per-instance reader `ri` that is a stage
— it returns, never un-reads, and its steps are paid by what it consumes up to a constant `K` (the attribute readers
behind `ReadInstance` are C01/C09's models; here they are this hypothesis) — pass 2 ends with fuel `|bytes| + 2`, makes at
most `(39 + K)·(|bytes| + 1) + readCommentIters + K + 8` steps, never counts more than `_maxErrorCount + 1` invalid
instances (`_entsInvalid`) and aborts exactly when it has. -/
theorem C05_readData2_partial (ri : IS → Out LoopRes) (K : Nat) (hK : 1 ≤ K) (wsMode : Bool) (s : IS)
    (hri : StageOk C05.readCommentIters ri K (s.rest.length + 1)) :
    ∃ r, readData2 ri C05.skipInstanceSkipsComments wsMode C05.readCommentIters C05.maxErrorCount (s.rest.length + 2) s = .ok r ∧
      r.s.m ≤ s.m ∧
      r.steps ≤ (39 + K) * (s.rest.length + 1) + C05.readCommentIters + K + 8 ∧
      r.notCreated ≤ C05.maxErrorCount + 1 ∧ (r.aborted = true ↔ r.notCreated = C05.maxErrorCount + 1) :=
  readData2_ok ri K hK _ wsMode _ _ s hri

/-- Pass 2 with the concrete `ReadInstance` skeleton (`ReadComment`, the id, the look-up of the instance pass 1 created —
any oracle —, `=`, the record, and after a mis-read value the second scan of the record from its start:
`in.clear(); in.seekg( recStart ); SkipInstance`).  For every record reader `rd` (the keyword and `STEPread` with the token
separator behind it) that (1) is a stage with constant `K` and (2) **stays in the record** — never goes beyond the place
where `SkipInstance`, started at the beginning of the record, ends it — pass 2 ends with fuel `|bytes| + 2`, never un-reads,
makes at most `(K + 47)·(|bytes| + 1) + 2·readCommentIters + K + 16` steps, and keeps the `_maxErrorCount` cut-off.
Hypothesis (2) is what `fixes/C05-14 … C05-19` establish for the scans behind `STEPread` (`C05_recoveryScan_stays_in_record`);
without it every damaged record pays for the rest of the file again (`C05_recoveryScan_leaves_record_witness`,
`C05_recoveryScan_parity_witness`) and no such bound exists. -/
theorem C05_readData2_skeleton_partial (lookup : IS → Nat) (rd : IS → Out LoopRes) (K : Nat) (wsMode : Bool) (s : IS)
    (hrd : StageOk C05.readCommentIters rd K (s.rest.length + 1))
    (hstay : ∀ x r rs sk, x.m ≤ s.rest.length + 1 → rd x = .ok r →
      skipInstance C05.skipInstanceSkipsComments C05.readCommentIters (s.rest.length + 2) { x with skipws := sk } = .ok rs →
      rs.s.m ≤ r.s.m) :
    ∃ r, readData2 (readInstanceSkel lookup rd
          (readComment C05.skipInstanceSkipsComments C05.readCommentIters (s.rest.length + 2))
          (readTokenSeparator C05.skipInstanceSkipsComments C05.readCommentIters (s.rest.length + 2))
          (skipInstance C05.skipInstanceSkipsComments C05.readCommentIters (s.rest.length + 2)))
        C05.skipInstanceSkipsComments wsMode C05.readCommentIters C05.maxErrorCount (s.rest.length + 2) s = .ok r ∧
      r.s.m ≤ s.m ∧
      r.steps ≤ (K + 47) * (s.rest.length + 1) + 2 * C05.readCommentIters + K + 16 ∧
      r.notCreated ≤ C05.maxErrorCount + 1 ∧ (r.aborted = true ↔ r.notCreated = C05.maxErrorCount + 1) := by
  have hm := IS.m_le s
  obtain ⟨r, a, b, c, d, f⟩ := readData2_skel_okF lookup rd K C05.skipInstanceSkipsComments wsMode C05.readCommentIters
    C05.maxErrorCount s (s.rest.length + 2) (by omega) hrd hstay
  refine ⟨r, a, b, ?_, d, f⟩
  have h1 := dataPot_le (D := K + 15) (R := C05.readCommentIters) s
  have h2 : (32 + (K + 15)) * s.m ≤ (K + 47) * (s.rest.length + 1) := by
    have : 32 + (K + 15) = K + 47 := by omega
    rw [this]
    exact Nat.mul_le_mul_left _ (by omega)
  omega

/-- The one-record slip as a stated bound.  After `fixes/C05-14 … C05-19` a scan that starts behind a record's own `;`
(the `;` was the character `STEPread` gave up on: `#k=BARE;`) ends at the *next* `;` (`C05_recoveryScan_stays_in_record` with
`c = ';'`): the record reader may pass the end of its record, but never the end of the next one.  For every record reader
that is a stage and obeys that weaker rule (`SkipInstance` twice from the record's start), one `ReadInstance` — with the
concrete `ReadComment`, `ReadTokenSeparator`, `SkipInstance` — ends, never un-reads, and costs at most what the instance
loop's potential pays for its own record plus `K + 8`, plus four steps per byte of the **next** record, plus the comment
reserve once when the input ends there: cost ≤ 2 records. -/
theorem C05_readInstance_slip_partial (lookup : IS → Nat) (rd : IS → Out LoopRes) (K D : Nat) (s : IS)
    (hrd : StageOk C05.readCommentIters rd K (s.rest.length + 1))
    (hstay2 : ∀ x r rs rs2 sk, x.m ≤ s.rest.length + 1 → rd x = .ok r →
      skipInstance C05.skipInstanceSkipsComments C05.readCommentIters (s.rest.length + 2) { x with skipws := sk } = .ok rs →
      skipInstance C05.skipInstanceSkipsComments C05.readCommentIters (s.rest.length + 2) rs.s = .ok rs2 → rs2.s.m ≤ r.s.m) :
    ∃ r, readInstanceSkel lookup rd
          (readComment C05.skipInstanceSkipsComments C05.readCommentIters (s.rest.length + 2))
          (readTokenSeparator C05.skipInstanceSkipsComments C05.readCommentIters (s.rest.length + 2))
          (skipInstance C05.skipInstanceSkipsComments C05.readCommentIters (s.rest.length + 2)) s = .ok r ∧
      r.s.m ≤ s.m ∧
      ∀ nx, skipInstance C05.skipInstanceSkipsComments C05.readCommentIters (s.rest.length + 2) r.s = .ok nx →
        r.steps + dataPot D C05.readCommentIters r.s ≤
          dataPot D C05.readCommentIters s + (K + 8) + 4 * (r.s.m - nx.s.m) + (if nx.s.m = 0 then C05.readCommentIters else 0) := by
  have hm := IS.m_le s
  generalize hF : s.rest.length + 2 = F at *
  have hF1 : s.rest.length + 1 = F - 1 := by omega
  rw [hF1] at hrd hstay2
  obtain ⟨ht, hs, _⟩ := stages C05.skipInstanceSkipsComments C05.readCommentIters F (by omega)
  have hrc : StageOk C05.readCommentIters (readComment C05.skipInstanceSkipsComments C05.readCommentIters F) 1 (F - 1) := by
    intro t htB
    exact readComment_stage C05.readCommentIters _ C05.readCommentIters (Nat.le_refl _) F t (by omega)
  exact readInstanceSkel_slip (lookup := lookup) hrc ht hs hrd hstay2 s (by omega)

/-- `ReadComment` on any stream (called by `ReadInstance` in front of the instance id): ends with fuel `|bytes| + 2`, never
un-reads, its steps paid by what it consumes — a character that does not start a comment is put back -/
theorem C05_steps_readComment (s : IS) :
    ∃ r, readComment C05.skipInstanceSkipsComments C05.readCommentIters (s.rest.length + 2) s = .ok r ∧ r.s.m ≤ s.m ∧
      r.steps ≤ 4 * (s.rest.length + 1) + C05.readCommentIters + 1 := by
  have hm := IS.m_le s
  obtain ⟨r, a, b, c⟩ := readComment_stage C05.readCommentIters C05.skipInstanceSkipsComments C05.readCommentIters (Nat.le_refl _)
    (s.rest.length + 2) s (by omega)
  have := pot_le (R := C05.readCommentIters) s
  exact ⟨r, a, b, by omega⟩

/-- resynchronisation: whenever `FindStartOfInstance` reports success, the stream is good and its next byte is `#` -/
theorem C05_findStartOfInstance_resync (fuel : Nat) (s : IS) (r : LoopRes)
    (h : findStartOfInstance fuel s = .ok r) (hsev : r.sev = sevNull) :
    ∃ t, r.s.rest = chHash :: t ∧ r.s.good = true :=
  scanUntil_resync chHash false 0 fuel s 0 0 0 r (by decide) h hsev

/-- … and the resynchronisation loop of `ReadData1` ends with `ENDSEC;` found, with `c == '#'`, or on a stream that
is no longer good — for every input -/
theorem C05_recoverLoop_exit (s : IS) (c : Byte) (steps : Nat) :
    ∃ s' c' e st,
      recoverLoop (findStartOfInstance (s.rest.length + 2))
        (readTokenSeparator C05.skipInstanceSkipsComments C05.readCommentIters (s.rest.length + 2)) (s.rest.length + 2) s c steps
        = .ok (s', c', e, st) ∧ (e = false → c' = chHash ∨ s'.good = false) := by
  have hm : s.m ≤ s.rest.length + 1 := IS.m_le s
  generalize hF : s.rest.length + 2 = F at *
  have ht : StageOk C05.readCommentIters (readTokenSeparator C05.skipInstanceSkipsComments C05.readCommentIters F) 1 (F - 1) := by
    intro t htB
    exact readTokenSeparator_pot _ _ _ (Nat.le_refl _) F t (by omega)
  have hfs : StageOk C05.readCommentIters (findStartOfInstance F) 1 (F - 1) := by
    intro t htB
    obtain ⟨r, a, b, c⟩ := scanUntil_pot C05.readCommentIters chHash true false 0 (Nat.zero_le _) F t 0 0 0 (by omega)
    exact ⟨r, a, b, by omega⟩
  obtain ⟨s', c', e, st, h1, _, _, h4⟩ := recoverLoop_ok hfs ht F s c steps (by omega) (by omega)
  exact ⟨s', c', e, st, h1, h4⟩

/-- the whole `);` recovery scan (`in.clear()` first, then both loops, regenerated shape): at most `4·(|bytes| + 1) + 1`
steps, and it never un-reads beyond where it started -/
theorem C05_steps_recoveryScan (s : IS) (c : Byte) :
    ∃ r, recoveryScan C05.recoveryScanStaysInRecord C05.recoveryScanCountsQuotes C05.recoveryScanPutsBackSemi (s.rest.length + 2) s c = .ok r ∧
      r.s.m ≤ s.rest.length + 1 ∧ r.steps ≤ 4 * (s.rest.length + 1) + 1 := by
  have hcl : s.clear.m = s.rest.length + 1 := by simp [IS.clear, IS.m]
  obtain ⟨r, a, b', b⟩ := recoverOuter_pot 0 C05.recoveryScanStaysInRecord C05.recoveryScanCountsQuotes C05.recoveryScanPutsBackSemi (s.rest.length + 2)
    s.clear c false 0 0 (by omega) (by left; simp [IS.clear, IS.good])
  have := pot_le (R := 0) s.clear
  exact ⟨r, a, by omega, by omega⟩

/-- The scan that ends at the first `;` (`fixes/C05-19`) stays in the record: on a record tail `a ;` without `)` — apostrophes
or not — it stops at the `;`, leaves it on the stream, and its cost — fuel and steps `|a| + 1` — does not depend on what follows. -/
theorem C05_recoveryScan_stays_in_record (pb : Bool) (pre a b : List Byte) (eof fail sk : Bool) (c : Byte)
    (ha : ∀ x ∈ a, x ≠ chRParen ∧ x ≠ chSemi) (hc : c ≠ chRParen) :
    recoveryScan true false pb (a.length + 2) ⟨pre, a ++ chSemi :: b, eof, fail, sk⟩ c =
      .ok ⟨⟨a.reverse ++ pre, chSemi :: b, false, false, sk⟩, 1, a.length + 1, a.length + 1⟩ := by
  unfold recoveryScan
  show recoverOuter true false pb (a.length + 1 + 1) _ c false 0 0 = _
  unfold recoverOuter
  have h := recoverInner_stays a pre b sk c 0 0 (a.length + 1 + 1) ha hc (by omega)
  simp only [IS.clear, IS.good, Bool.not_false, Bool.and_self, Bool.not_true, Bool.false_eq_true, if_false, h, if_true,
    Nat.zero_add]

/-- … and in full generality: the scan in the shape /repo has since `fixes/C05-19` (first `;`, put back) **never reads past the
first `;`** — for any bytes `a` before it (parentheses, apostrophes, white space, comments), any character `c` the read gave up
on and any stream state, fuel `|a| + 2` suffices and it ends with that `;` next on a good stream.  This is "stays in the
record" for the scan itself: the first `;` is never behind the end of the record; when `c` was the record's own `;` the first
`;` of what follows is the end of the next record at the latest (the one-record slip). -/
theorem C05_recoveryScan_never_passes_semicolon (pre a b : List Byte) (eof fail sk : Bool) (c : Byte)
    (ha : ∀ x ∈ a, x ≠ chSemi) :
    ∃ p' l' st', recoveryScan true false true (a.length + 2) ⟨pre, a ++ chSemi :: b, eof, fail, sk⟩ c =
      .ok ⟨⟨p', chSemi :: b, false, false, sk⟩, 1, l', st'⟩ := by
  unfold recoveryScan
  exact recoverOuter_first_semi b sk (a.length + 2) a pre c false 0 0 ha (Nat.le_refl _)

/-- … and what it costs: at most one step per byte up to and including the first `;` — `|a| + 1` steps of both loops together
(white space after a `)` is skipped at no step), for any bytes `a`, any give-up character and any stream state, and whatever
follows the `;`.  The cost of finding the end of a damaged record is a function of that record alone: this is the statement
whose failure (cost = the rest of the file, once per record) was the quadratic pass 2. -/
theorem C05_recoveryScan_cost_to_first_semicolon (pre a b : List Byte) (eof fail sk : Bool) (c : Byte)
    (ha : ∀ x ∈ a, x ≠ chSemi) :
    ∃ p' l' st', recoveryScan true false true (a.length + 2) ⟨pre, a ++ chSemi :: b, eof, fail, sk⟩ c =
      .ok ⟨⟨p', chSemi :: b, false, false, sk⟩, 1, l', st'⟩ ∧ st' ≤ a.length + 1 := by
  unfold recoveryScan
  obtain ⟨p', l', st', h, hst⟩ := recoverOuter_first_semi_cost b sk (a.length + 2) a pre c false 0 0 ha (Nat.le_refl _)
  exact ⟨p', l', st', h, by omega⟩

/-- Without the end-of-record test (the scan as it stood before `fixes/C05-14`): when no `)` follows, the scan reads to the
end of the input — `|rest| + 2` steps for every record that ends this way, however short the record is.  With pass 2
resuming behind the record's `;` (`STEPfile::ReadInstance`), `n` such records cost `~ n²/2` record lengths. -/
theorem C05_recoveryScan_leaves_record_witness (pb : Bool) (pre rest : List Byte) (eof fail sk : Bool) (c : Byte)
    (hr : ∀ x ∈ rest, x ≠ chRParen) (hc : c ≠ chRParen) :
    recoveryScan false false pb (rest.length + 3) ⟨pre, rest, eof, fail, sk⟩ c =
      .ok ⟨⟨rest.reverse ++ pre, [], true, true, sk⟩, 0, rest.length + 1, rest.length + 2⟩ := by
  unfold recoveryScan
  show recoverOuter false false pb (rest.length + 2 + 1) _ c false 0 0 = _
  unfold recoverOuter
  obtain ⟨c', h⟩ := recoverInner_runs_on rest pre sk c false 0 0 (rest.length + 2 + 1) hr hc (by omega)
  simp only [IS.clear, IS.good, Bool.not_false, Bool.and_self, Bool.not_true, Bool.false_eq_true, if_false, h,
    Nat.zero_add, Bool.and_false, Bool.false_and, Bool.not_eq_true]
  show recoverOuter false false pb (rest.length + 1 + 1) _ _ _ _ _ = _
  unfold recoverOuter
  simp [IS.good]

/-- With the end-of-record test *outside string literals* (`fixes/C05-14`, apostrophes counted from where the scan starts): a
scan that starts inside a literal — here the apostrophe was the character that made `STEPread` give up — takes the closing
apostrophe for an opening one and runs past the record's `;` (`'';#2=B;` is read to its end): the test has to ignore
apostrophes to stay in the record (`fixes/C05-19`). -/
theorem C05_recoveryScan_parity_witness :
    (recoveryScan true true true 20 (IS.ofBytes [39, 59, 35, 50, 61, 66, 59]) 39) =
      .ok ⟨⟨[59, 66, 61, 50, 35, 59, 39], [], true, true, true⟩, 0, 8, 9⟩ ∧
    (recoveryScan true false true 20 (IS.ofBytes [39, 59, 35, 50, 61, 66, 59]) 39) =
      .ok ⟨⟨[39], [59, 35, 50, 61, 66, 59], false, false, true⟩, 1, 2, 2⟩ := by decide

/-- the export-list loops with the regenerated condition: at most `4·(|bytes| + 1) + readCommentIters + 3` steps over all
levels (two token separators with their comments per entry) -/
theorem C05_steps_exportList (s : IS) (c : Byte) (steps : Nat) :
    ∃ r, exportLoop C05.exportLoopChecksStreamCreate C05.skipInstanceSkipsComments C05.readCommentIters
        (s.rest.length + 2) s c steps = .ok r ∧ r.steps ≤ steps + 4 * (s.rest.length + 1) + C05.readCommentIters + 3 := by
  have h1 : C05.exportLoopChecksStreamCreate = true := by decide
  have hm := IS.m_le s
  rw [h1]
  obtain ⟨r, a, _, b⟩ := exportLoop_pot C05.readCommentIters C05.skipInstanceSkipsComments C05.readCommentIters (Nat.le_refl _)
    (s.rest.length + 2) s c steps (by omega)
  have := pot_le (R := C05.readCommentIters) s
  exact ⟨r, a, by omega⟩

/-! ## who owns the node a reader hands to an aggregate (`ReadValue` of STEPaggregate / EntityAggregate / SelectAggregate)

Ownership-transfer invariant over the element loop: a node is the loop's own (`item`) until `AddNode( item )` hands it to
the list; from then on only the list may free it.  The `delete item;` statements (position and guard) are regenerated. -/

/-- for the regenerated `delete` sites of all three `ReadValue` functions: whatever the number of elements, the mode
(assigning / validating) and the way out (closing parenthesis, missing one, giving up on a bad delimiter), no node is
freed while the list holds it and none is freed twice -/
theorem C05_aggr_ownership (assign scratch : Bool) (k : Nat) (exit : AggrExit) :
    (aggrRun C05.aggrDeletes assign scratch k exit).isOk = true ∧
    (aggrRun C05.entityAggrDeletes assign scratch k exit).isOk = true ∧
    (aggrRun C05.selectAggrDeletes assign scratch k exit).isOk = true :=
  ⟨aggrRun_safe _ (by decide) _ _ _ _, aggrRun_safe _ (by decide) _ _ _ _, aggrRun_safe _ (by decide) _ _ _ _⟩

/-- seeded regression C05-d1 (an unguarded `delete item` on the give-up path, after `AddNode( item )`): one element,
bad delimiter — the element node is freed while the list holds it (use after free when the list is destroyed) -/
theorem C05_aggr_ownership_witness :
    aggrRun ⟨some .always, some .ifNotAssign, none, none⟩ true true 1 .giveUp = .danglingInList 0 := by decide

/-- … and a second `delete` on one way out frees the scratch node twice -/
theorem C05_aggr_doubleFree_witness :
    aggrRun ⟨none, some .ifNotAssign, some .ifNotAssign, none⟩ false true 3 .missingClose = .doubleFree 0 := by decide

/-- not a safety matter but visible in the model: a `ReadValue` without any `delete item` (as `STEPaggregate::ReadValue` and
`SelectAggregate::ReadValue` stand) never frees the scratch node of a validation-only read (API path `AggrValidLevel`; not reachable from file bytes) -/
theorem C05_aggr_scratch_leak_witness : aggrRun ⟨none, none, none, none⟩ false true 2 .closed = .ok 1 := by decide

/-- `STEPfile::FindDataSection` (strings and comments skipped, `DATA` + white space + `;` matched): ends with fuel
`|bytes| + 2`, never un-reads, at most `4·(|bytes| + 1) + readCommentIters + 1` steps over all nesting levels -/
theorem C05_steps_findDataSection (s : IS) :
    ∃ r, findDataSection C05.skipInstanceSkipsComments C05.readCommentIters (s.rest.length + 2) s = .ok r ∧ r.s.m ≤ s.m ∧
      r.steps ≤ 4 * (s.rest.length + 1) + C05.readCommentIters + 1 := by
  have hm := IS.m_le s
  obtain ⟨r, a, b, c⟩ := dataSecLoop_pot C05.readCommentIters C05.skipInstanceSkipsComments C05.readCommentIters
    (s.rest.length + 2) (Nat.le_refl _) (s.rest.length + 2) (Nat.le_refl _) s 0 (by omega)
  have := pot_le (R := C05.readCommentIters) s
  exact ⟨r, a, b, by omega⟩

/-- `GetKeyword` (for any delimiter set): ends with fuel `|bytes| + 2`, never un-reads, at most `4·(|bytes| + 1) + 1` steps -/
theorem C05_steps_getKeyword (delims : List Byte) (s : IS) :
    ∃ r, getKeyword delims (s.rest.length + 2) s = .ok r ∧ r.s.m ≤ s.m ∧ r.steps ≤ 4 * (s.rest.length + 1) + 1 := by
  have hm := IS.m_le s
  obtain ⟨r, a, b, c⟩ := getKeyword_ok 0 delims (s.rest.length + 2) (by omega) s (by omega)
  have := pot_le (R := 0) s
  exact ⟨r, a, b, by omega⟩

/-- `SkipInstance` makes progress: on a good stream it consumes at least one byte or leaves the stream failed (this is
what makes the header loop and the instance loops advance past a record they cannot read) -/
theorem C05_skipInstance_consumes (s : IS) (r : LoopRes) (hg : s.good = true)
    (h : skipInstance C05.skipInstanceSkipsComments C05.readCommentIters (s.rest.length + 2) s = .ok r) :
    r.s.m + 1 ≤ s.m ∨ r.s.m = 0 := by
  have hm := IS.m_le s
  exact skipInstance_strict _ _ _ s r (by omega) hg h

/-- `STEPfile::ReadHeader` — `ReadTokenSeparator`, `FindHeaderSection` with the regenerated `getline` count and give-up
test, and the loop over the header instances (`!` user-defined entities skipped, unknown keywords skipped with
`SkipInstance`, `ENDSEC`, end of file).  For **every** dictionary answer `known` that does not create an entity for the empty
keyword and every header-entity reader `rdh` that is a stage with constant `Kh` (the attribute readers behind
`SDAI_Application_instance::STEPread` are C01/C09's models; here they are this hypothesis): it ends with fuel
`|bytes| + 2`, never un-reads, and makes at most `(Kh + 9)·(|bytes| + 1) + readCommentIters + Kh + 9` steps. -/
theorem C05_readHeader_partial (known : List Byte → Bool) (hk : known [] = false) (rdh : List Byte → IS → Out LoopRes)
    (Kh : Nat) (hKh : 1 ≤ Kh) (s : IS) (hrd : ∀ kw, StageOk C05.readCommentIters (rdh kw) Kh (s.rest.length + 1)) :
    ∃ r, readHeader known rdh C05.skipInstanceSkipsComments C05.readCommentIters C05.findHeaderGetlineN C05.findHeaderExit
        (s.rest.length + 2) s = .ok r ∧ r.s.m ≤ s.m ∧
      r.steps ≤ (Kh + 9) * (s.rest.length + 1) + C05.readCommentIters + Kh + 9 := by
  have hx : C05.findHeaderExit = .notGood := by decide
  rw [hx]
  exact readHeader_ok known rdh Kh hKh hk _ _ _ s hrd

/-- Pass 1 of `STEPfile::AppendFile` as a whole — the start keyword (`ISO-10303-21` / `STEP_WORKING_SESSION` or a prefix),
`ReadHeader`, `FindDataSection`, `ReadData1` with the concrete `CreateInstance` skeleton — for every byte string, every
oracle, either outcome of the header severity test, and every header-entity reader that is a stage with constant `Kh`:
it ends with fuel `|bytes| + 2`, never un-reads, and makes at most `(Kh + 54)·(|bytes| + 1) + readCommentIters + Kh + 36`
steps over all nesting levels. -/
theorem C05_appendFile_pass1_partial (o : Oracle) (known : List Byte → Bool) (hk : known [] = false)
    (rdh : List Byte → IS → Out LoopRes) (Kh : Nat) (hKh : 1 ≤ Kh) (goOn : Bool) (s : IS)
    (hrd : ∀ kw, StageOk C05.readCommentIters (rdh kw) Kh (s.rest.length + 1)) :
    ∃ r, appendFile1 o known rdh C05.imbedAggrStaysInRecord C05.entNmArrGuard C05.skipInstanceSkipsComments goOn C05.readCommentIters C05.findHeaderGetlineN
        C05.findHeaderExit C05.maxErrorCount (s.rest.length + 2) s = .ok r ∧ r.s.m ≤ s.m ∧
      r.steps ≤ (Kh + 54) * (s.rest.length + 1) + C05.readCommentIters + Kh + 36 := by
  have hx : C05.findHeaderExit = .notGood := by decide
  rw [hx]
  exact appendFile1_ok o known rdh Kh hKh hk _ _ _ goOn _ _ _ s hrd

/-- Pass 2 of `AppendFile` — `FindDataSection`, `ReadData2`, the comparison of the two instance counts, the end-of-file
keyword — for every per-instance reader `ri` that is a stage with constant `K`: it ends with fuel `|bytes| + 2`, never
un-reads, and makes at most `(K + 39)·(|bytes| + 1) + readCommentIters + K + 13` steps. -/
theorem C05_appendFile_pass2_partial (ri : IS → Out LoopRes) (K : Nat) (hK : 1 ≤ K) (ws : Bool) (total : Nat) (s : IS)
    (hri : StageOk C05.readCommentIters ri K (s.rest.length + 1)) :
    ∃ r, appendFile2 ri C05.skipInstanceSkipsComments ws C05.readCommentIters C05.maxErrorCount total (s.rest.length + 2) s = .ok r ∧
      r.s.m ≤ s.m ∧ r.steps ≤ (K + 39) * (s.rest.length + 1) + C05.readCommentIters + K + 13 :=
  appendFile2_ok ri K hK _ ws _ _ total s hri

/-! ### the readers only move the get pointer

`IS.whole s` = the bytes already passed (in order) followed by the bytes still to come.  Every modelled primitive (`>> ws`, `peek`,
`get`, `>> c`, `putback`, `ignore`, `clear`, the string-literal reader, `ReadPcd`) and every loop below leaves it unchanged: the
model never invents, drops or reorders an input byte — whatever a reader returns, what it left on the stream is the original
input from some offset on.  (Basis of any argument about *where* a reader stops, such as "stays in the record".) -/

theorem C05_input_preserved_skipInstance (cm : Bool) (iters fuel : Nat) (s : IS) (r : LoopRes)
    (h : skipInstance cm iters fuel s = .ok r) : r.s.whole = s.whole := skipInstance_keeps cm iters fuel s r h

theorem C05_input_preserved_findStartOfInstance (fuel : Nat) (s : IS) (r : LoopRes)
    (h : findStartOfInstance fuel s = .ok r) : r.s.whole = s.whole := findStartOfInstance_keeps fuel s r h

theorem C05_input_preserved_readComment (cm : Bool) (iters fuel : Nat) (s : IS) (r : LoopRes)
    (h : readComment cm iters fuel s = .ok r) : r.s.whole = s.whole := readComment_keeps cm iters fuel s r h

theorem C05_input_preserved_readTokenSeparator (cm : Bool) (iters fuel : Nat) (s : IS) (r : LoopRes)
    (h : readTokenSeparator cm iters fuel s = .ok r) : r.s.whole = s.whole := readTokenSeparator_keeps cm iters fuel s r h

theorem C05_input_preserved_findHeaderSection (cm : Bool) (iters n : Nat) (ex : ExitCond) (fuel : Nat) (s : IS) (r : LoopRes)
    (h : findHeaderSectionWith cm iters n ex fuel s = .ok r) : r.s.whole = s.whole := findHeaderSection_keeps cm iters n ex fuel s r h

theorem C05_input_preserved_getKeyword (delims : List Byte) (fuel : Nat) (s : IS) (r : LoopRes)
    (h : getKeyword delims fuel s = .ok r) : r.s.whole = s.whole := getKeyword_keeps delims fuel s r h

theorem C05_input_preserved_findDataSection (cm : Bool) (iters fuel : Nat) (s : IS) (r : LoopRes)
    (h : findDataSection cm iters fuel s = .ok r) : r.s.whole = s.whole := findDataSection_keeps cm iters fuel s r h

/-- the `);` recovery scan in any of its three shapes (`in.clear()` included) -/
theorem C05_input_preserved_recoveryScan (stay quotes pb : Bool) (fuel : Nat) (s : IS) (c : Byte) (r : LoopRes)
    (h : recoveryScan stay quotes pb fuel s c = .ok r) : r.s.whole = s.whole := recoveryScan_keeps stay quotes pb fuel c s r h

/-- … hence what `SkipInstance` leaves on a stream that has not failed is a suffix of what was there: it ends the record at an
offset of the original input, never on bytes of its own making -/
theorem C05_skipInstance_suffix (s : IS) (r : LoopRes)
    (h : skipInstance C05.skipInstanceSkipsComments C05.readCommentIters (s.rest.length + 2) s = .ok r) (hf : r.s.fail = false) :
    ∃ k, r.s.rest = s.rest.drop k := by
  obtain ⟨r', h', hm⟩ := C05_terminates_skipInstance s
  rw [h] at h'
  cases h'
  have hs := IS.m_le s
  have hr : r.s.m = r.s.rest.length + 1 := by simp [IS.m, hf]
  exact suffix_of_whole (skipInstance_keeps _ _ _ s r h) (by omega)

/-- … and *which* offset: when `SkipInstance` reports success (`SEVERITY_NULL`), the stream is good and the byte right before the
get pointer is a `;` of the original input — the input is `(bytes passed) ; (what is left)` — for any fuel, comment flag and
stream state.  (The end of a record, as pass 1 and `ReadInstance`'s second scan find it, is a position behind a `;` of the file.) -/
theorem C05_skipInstance_ends_behind_semicolon (cm : Bool) (iters fuel : Nat) (s : IS) (r : LoopRes)
    (h : skipInstance cm iters fuel s = .ok r) (hsev : r.sev = sevNull) :
    r.s.good = true ∧ ∃ ps : List Byte, s.whole = ps.reverse ++ chSemi :: r.s.rest := by
  obtain ⟨ps, hp, hg⟩ := scanUntil_endsBehind chSemi cm iters fuel s 0 0 0 r (by decide) h hsev
  refine ⟨hg, ps, ?_⟩
  rw [← skipInstance_keeps cm iters fuel s r h]
  simp [IS.whole, hp]

/-- "Stays in the record" for the scan, as an instance of hypothesis (2) of `C05_readData2_skeleton_partial`: from the same good
position — whose first `;` comes after the bytes `a` — the repaired scan (any give-up character `c`) ends with that first `;`
next on the stream, and `SkipInstance`, when it finds an end of the record at all, has left no more than what follows that
`;`: the scan never ends behind the place where `SkipInstance` ends the record (`rs.s.m ≤` the scan's measure). -/
theorem C05_recoveryScan_not_behind_skipInstance (pre a b : List Byte) (sk : Bool) (c : Byte) (rs : LoopRes)
    (ha : ∀ x ∈ a, x ≠ chSemi)
    (h : skipInstance C05.skipInstanceSkipsComments C05.readCommentIters ((a ++ chSemi :: b).length + 2)
          ⟨pre, a ++ chSemi :: b, false, false, sk⟩ = .ok rs) (hsev : rs.sev = sevNull) :
    ∃ r, recoveryScan true false true (a.length + 2) ⟨pre, a ++ chSemi :: b, false, false, sk⟩ c = .ok r ∧
      r.s.rest = chSemi :: b ∧ r.s.good = true ∧ rs.s.m ≤ r.s.m := by
  obtain ⟨p', l', st', hr⟩ := C05_recoveryScan_never_passes_semicolon pre a b false false sk c ha
  have hlen := skipInstance_not_before_first_semi pre a b sk _ _ rs ha h hsev
  refine ⟨_, hr, rfl, by simp [IS.good], ?_⟩
  have : rs.s.m ≤ rs.s.rest.length + 1 := IS.m_le rs.s
  have hm2 : (⟨p', chSemi :: b, false, false, sk⟩ : IS).m = b.length + 2 := by simp [IS.m]
  show rs.s.m ≤ (⟨p', chSemi :: b, false, false, sk⟩ : IS).m
  rw [hm2]
  omega

/-- The one-record slip, hypothesis of `C05_readInstance_slip_partial`, proved for the scan: when the give-up character was the
record's own `;` the scan starts right behind it (`a ;` already passed) and ends with the **next** `;` on the stream — and two
successful `SkipInstance`s from the record's start (its end, then the end of the next record) have left no more than what
follows that second `;`: the scan never ends behind the end of the next record. -/
theorem C05_recoveryScan_slip_within_next_record (pre a a2 b : List Byte) (sk : Bool) (F : Nat) (rs rs2 : LoopRes)
    (ha : ∀ x ∈ a, x ≠ chSemi) (ha2 : ∀ x ∈ a2, x ≠ chSemi) (hF : (a ++ chSemi :: (a2 ++ chSemi :: b)).length + 2 ≤ F)
    (h1 : skipInstance C05.skipInstanceSkipsComments C05.readCommentIters F
            ⟨pre, a ++ chSemi :: (a2 ++ chSemi :: b), false, false, sk⟩ = .ok rs) (hs1 : rs.sev = sevNull)
    (h2 : skipInstance C05.skipInstanceSkipsComments C05.readCommentIters F rs.s = .ok rs2) (hs2 : rs2.sev = sevNull) :
    ∃ r, recoveryScan true false true (a2.length + 2) ⟨chSemi :: (a.reverse ++ pre), a2 ++ chSemi :: b, false, false, sk⟩ chSemi = .ok r ∧
      r.s.rest = chSemi :: b ∧ r.s.good = true ∧ rs2.s.m ≤ r.s.m := by
  obtain ⟨p', l', st', hr⟩ := C05_recoveryScan_never_passes_semicolon (chSemi :: (a.reverse ++ pre)) a2 b false false sk chSemi ha2
  obtain ⟨_, hlen⟩ := skipInstance_twice pre a a2 b sk _ _ F rs rs2 ha ha2 hF h1 hs1 h2 hs2
  refine ⟨_, hr, rfl, by simp [IS.good], ?_⟩
  have : rs2.s.m ≤ rs2.s.rest.length + 1 := IS.m_le rs2.s
  have hm2 : (⟨p', chSemi :: b, false, false, sk⟩ : IS).m = b.length + 2 := by simp [IS.m]
  show rs2.s.m ≤ (⟨p', chSemi :: b, false, false, sk⟩ : IS).m
  rw [hm2]
  omega

/-- the same for `ReadTokenSeparator` (white space, comments, print control directives) -/
theorem C05_readTokenSeparator_suffix (s : IS) (r : LoopRes)
    (h : readTokenSeparator C05.skipInstanceSkipsComments C05.readCommentIters (s.rest.length + 2) s = .ok r) (hf : r.s.fail = false) :
    ∃ k, r.s.rest = s.rest.drop k := by
  obtain ⟨r', h', hm⟩ := C05_terminates_readTokenSeparator s
  rw [h] at h'
  cases h'
  have hs := IS.m_le s
  have hr : r.s.m = r.s.rest.length + 1 := by simp [IS.m, hf]
  exact suffix_of_whole (readTokenSeparator_keeps _ _ _ s r h) (by omega)

/-- regenerated facts the file-level budget relies on (not modelled proofs): the comment limit and the error cut-off
are finite constants of the size the constant `c₂` of the linear bound absorbs, and `PushPastImbedAggr` does not
recurse on the nesting depth of the input -/
theorem C05_limits_regenerated :
    C05.readCommentIters = C05.maxCommentLength + 1 ∧ C05.maxErrorCount ≤ 100000 ∧ C05.imbedAggrRecursive = false
      ∧ C05.exportLoopChecksStreamCreate = true ∧ C05.exportLoopChecksStreamRead = true
      ∧ C05.nmsCopyExactAlloc = true ∧ C05.getKeywordAcceptsAmp = false := by decide

end StepModel.P21Safe

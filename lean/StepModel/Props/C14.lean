import StepModel.SessionLemmas
import StepModel.SessionProto
import StepModel.Props.C15
/-!
C14 — appending a file keeps both populations whole and their references separate.

`fill` is what the attribute-level reader may substitute for an unset required value (property C15); it never touches
ids or references (`FillOk`).  In strict mode, or when no required INTEGER/REAL/NUMBER/STRING is unset, it is the
identity, and the theorems read `result = p₁ ++ shift k p₂`.
-/
namespace StepModel.Session
open StepModel StepModel.P21 StepModel.Generated

/-- what is known about the instance manager between operations (proved to be preserved) -/
structure Inv (s : Sess) : Prop where
  nodup : (ids s.nodes).Nodup
  pos : ∀ i ∈ ids s.nodes, 1 ≤ i
  le_max : ∀ i ∈ ids s.nodes, i ≤ s.maxId

/-- a conforming population: distinct positive ids, every reference (at every depth) names an instance of the file -/
structure Conf (f : List Inst) : Prop where
  nodup : (f.map (·.id)).Nodup
  pos : ∀ i ∈ f, 1 ≤ i.id
  closed : ∀ i ∈ f, ∀ r ∈ i.refs, r ∈ f.map (·.id)

/-- the attribute-level substitution leaves the id alone and neither adds nor changes references -/
structure FillOk (fill : Inst → Inst) : Prop where
  id_eq : ∀ i, (fill i).id = i.id
  refs_eq : ∀ i, (fill i).refs = i.refs

theorem fillOk_id : FillOk id := ⟨fun _ => rfl, fun _ => rfl⟩

/-- the one shape the reader of the code at hand does not renumber (`Generated.threading.aggrNested`, see
    `C14_nested_site`): references inside an aggregate that is an element of an aggregate.  `NestedOk f` excludes it:
    either the reader applies the increment to those text elements, or no instance of `f` has a reference there -/
def NestedOk (f : List Inst) : Prop := threading.aggrNested = true ∨ ∀ i ∈ f, FlatInst i

/-- the attribute-level reader reports nothing on the instances of the file (what `C15_conforming_clean` says of a
    conforming instance; here a hypothesis, the two models are not composed) -/
def Quiet (asev : Inst → Sev) (f : List Inst) : Prop := ∀ i ∈ f, asev i = .null

/-! ### the offset -/

/-- an empty manager (`MaxFileId()` below 0) reads ids unchanged -/
theorem C14_offset_empty (m : Int) (h : m < 0) : fileIdIncrOf m = 0 := by
  unfold fileIdIncrOf; rw [if_pos (by omega)]

/-- the offset is larger than every id the manager has handed out or seen (for the regenerated expression, whatever
    its constants are: the proof is re-done by `omega` on what the source says now) -/
theorem C14_offset_above (m : Int) (h : 0 ≤ m) : m < fileIdIncrOf m := by
  unfold fileIdIncrOf; rw [if_neg (by omega)]; omega

theorem C14_offset_nonneg (m : Int) : 0 ≤ fileIdIncrOf m := by
  by_cases h : m < 0
  · rw [C14_offset_empty m h]; exact Int.le_refl 0
  · have := C14_offset_above m (by omega); omega

/-- a fresh manager (`ReadExchangeFile` clears it first) reads ids unchanged -/
theorem C14_offset_cleared : fileIdIncrOf cleared.maxId = 0 := by decide

/-! ### 32-bit `int` arithmetic: where the Int model and the C code part ways

`_fileIdIncr` is an `int`, computed in `double` and cast back; `IncrementFileId` and `ReadEntityRef` add it to `int` ids.
The model uses unbounded `Int`.  The two agree exactly when every intermediate value fits `int`: -/

def int32Max : Int := 2147483647

/-- the offset itself fits `int` iff the manager's maximum id is at most 2147481901 (the first multiple of 1000 above
    `max + 99`, plus 1000, must not exceed 2^31 − 1; the double arithmetic is exact far beyond that) -/
theorem C14_offset_fits_int32 (m : Int) (h : 0 ≤ m) : fileIdIncrOf m ≤ int32Max ↔ m ≤ 2147481901 := by
  unfold fileIdIncrOf int32Max; rw [if_neg (by omega)]; omega

/-- … and at that boundary the offset is 2147483000, leaving room for appended ids up to 647 -/
theorem C14_offset_boundary : fileIdIncrOf 2147481901 = 2147483000 ∧ fileIdIncrOf 2147481902 = 2147484000 := by decide

/-- how much room an append has: the offset is at most `max + 2098`, so every id `i` of the appended file with
    `max + 2098 + i ≤ 2^31 − 1` (and every reference, which is such an id) is shifted without overflow -/
theorem C14_offset_le (m : Int) (h : 0 ≤ m) : fileIdIncrOf m ≤ m + 2098 := by
  unfold fileIdIncrOf; rw [if_neg (by omega)]; omega

theorem C14_shift_fits_int32 (m i : Int) (hm : 0 ≤ m) (hi : 1 ≤ i) (hroom : m + 2098 + i ≤ int32Max) :
    1 ≤ i + fileIdIncrOf m ∧ i + fileIdIncrOf m ≤ int32Max := by
  have := C14_offset_le m hm
  have := C14_offset_above m hm
  unfold int32Max at *
  omega

/-! ### one append -/

theorem kept_exchange (es : List Entry) : kept .exchange es = es := by
  simp [kept, skipped]

/-- an exchange file has no entries that are skipped on purpose: the abort rule of pass 1 is out of reach for conforming files -/
theorem cntSkipped_exchange (es : List Entry) : cntSkipped .exchange es = 0 := by
  unfold cntSkipped; split <;> simp [skipped]

theorem nodup_map_add (k : Int) (l : List Int) (h : l.Nodup) : (l.map (· + k)).Nodup := by
  induction l with
  | nil => exact List.nodup_nil
  | cons x xs ih =>
    rw [List.nodup_cons] at h
    simp only [List.map_cons, List.nodup_cons, List.mem_map, not_exists, not_and]
    refine ⟨?_, ih h.2⟩
    intro y hy he
    have : y = x := by omega
    exact h.1 (this ▸ hy)

theorem fids_exchange (k : Int) (f : List Inst) : fids k (exchangeEntries f) = (f.map (·.id)).map (· + k) := by
  simp [fids, exchangeEntries, incrementFileId, Function.comp_def]

/-- ids moved by the offset are above everything already in the manager -/
theorem above_all {s : Sess} (hs : Inv s) {x : Int} (hx : 1 ≤ x) :
    ∀ e ∈ ids s.nodes, e < x + fileIdIncrOf s.maxId := by
  intro e he
  have h1 := hs.pos e he
  have h2 := hs.le_max e he
  have := C14_offset_above s.maxId (by omega)
  omega

theorem appendExchange_spec (fill : Inst → Inst) (hfill : FillOk fill) (asev : Inst → Sev) (s : Sess) (f : List Inst)
    (hs : Inv s) (hf : Conf f)
    (hn : threading.aggrNested = true ∨ fileIdIncrOf s.maxId = 0 ∨ ∀ i ∈ f, FlatInst i) :
    (appendExchange fill asev s f).nodes =
      s.nodes ++ f.map (fun i => ⟨fill (i.shift (fileIdIncrOf s.maxId)), exchangeStateOf (asev i)⟩) ∧
    (appendExchange fill asev s f).maxId = maxWith s.maxId ((f.map (·.id)).map (· + fileIdIncrOf s.maxId)) := by
  have hk0 := C14_offset_nonneg s.maxId
  have hfresh : ∀ x ∈ (f.map (·.id)).map (· + fileIdIncrOf s.maxId), x ∉ ids s.nodes := by
    intro x hx hmem
    simp only [List.mem_map] at hx
    obtain ⟨y, ⟨i, hi, rfl⟩, rfl⟩ := hx
    have := above_all hs (hf.pos i hi) _ hmem
    omega
  have hnd : ((f.map (·.id)).map (· + fileIdIncrOf s.maxId)).Nodup := nodup_map_add _ _ hf.nodup
  have hnz : ∀ x ∈ (f.map (·.id)).map (· + fileIdIncrOf s.maxId), x ≠ unassignedFileId := by
    intro x hx
    simp only [List.mem_map] at hx
    obtain ⟨y, ⟨i, hi, rfl⟩, rfl⟩ := hx
    have := hf.pos i hi
    show i.id + fileIdIncrOf s.maxId ≠ 0
    omega
  have h1 := pass1_spec .exchange (fileIdIncrOf s.maxId) (exchangeEntries f) s
    (by rw [kept_exchange, fids_exchange]; exact hfresh) (by rw [kept_exchange, fids_exchange]; exact hnd)
    (by rw [kept_exchange, fids_exchange]; exact hnz) (by rw [cntSkipped_exchange]; exact Nat.zero_le _)
  rw [kept_exchange, fids_exchange] at h1
  have h2 := pass2_spec .exchange fill asev (fileIdIncrOf s.maxId) (pass1 .exchange (fileIdIncrOf s.maxId) s (exchangeEntries f)).maxId
    hfill.id_eq rfl rfl (exchangeEntries f) s.nodes
    (by
      rw [kept_exchange, fids_exchange, List.nodup_append]
      exact ⟨hs.nodup, hnd, fun a ha b hb he => hfresh b hb (he ▸ ha)⟩)
    (by
      rw [kept_exchange, fids_exchange]
      intro e he r hr
      simp only [exchangeEntries, List.mem_map] at he
      obtain ⟨i, hi, rfl⟩ := he
      have := hf.closed i hi r hr
      simp only [List.mem_append, List.mem_map]
      right
      simp only [List.mem_map] at this
      obtain ⟨j, hj, rfl⟩ := this
      exact ⟨j.id, ⟨j, hj, rfl⟩, rfl⟩)
    (by
      rw [kept_exchange]
      rcases hn with h | h | h
      · exact Or.inl h
      · exact Or.inr (Or.inl h)
      · refine Or.inr (Or.inr ?_)
        intro e he
        simp only [exchangeEntries, List.mem_map] at he
        obtain ⟨i, hi, rfl⟩ := he
        exact h i hi)
  rw [kept_exchange] at h2
  constructor
  · unfold appendExchange appendFile
    simp only []
    have hs1 : pass1 .exchange (fileIdIncrOf s.maxId) s (exchangeEntries f) =
        ⟨s.nodes ++ (exchangeEntries f).map (stubNode .exchange (fileIdIncrOf s.maxId)),
         (pass1 .exchange (fileIdIncrOf s.maxId) s (exchangeEntries f)).maxId⟩ := by
      rw [← h1.1]
    rw [hs1, h2]
    simp [exchangeEntries, filledNode, finalState, Function.comp_def]
  · unfold appendExchange appendFile
    simp only []
    rw [pass2_maxId, h1.2]

/-- the invariant survives an append: what was proved about one append holds after any history -/
theorem appendExchange_inv (fill : Inst → Inst) (hfill : FillOk fill) (asev : Inst → Sev) (s : Sess) (f : List Inst)
    (hs : Inv s) (hf : Conf f)
    (hn : threading.aggrNested = true ∨ fileIdIncrOf s.maxId = 0 ∨ ∀ i ∈ f, FlatInst i) : Inv (appendExchange fill asev s f) := by
  obtain ⟨hn, hm⟩ := appendExchange_spec fill hfill asev s f hs hf hn
  have hk0 := C14_offset_nonneg s.maxId
  have hids : ids (appendExchange fill asev s f).nodes = ids s.nodes ++ (f.map (·.id)).map (· + fileIdIncrOf s.maxId) := by
    rw [hn]; simp [ids, hfill.id_eq, Inst.shift, Function.comp_def]
  constructor
  · rw [hids, List.nodup_append]
    refine ⟨hs.nodup, nodup_map_add _ _ hf.nodup, ?_⟩
    intro a ha b hb he
    simp only [List.mem_map] at hb
    obtain ⟨y, ⟨i, hi, rfl⟩, rfl⟩ := hb
    have := above_all hs (hf.pos i hi) a ha
    omega
  · intro x hx
    rw [hids, List.mem_append] at hx
    rcases hx with hx | hx
    · exact hs.pos x hx
    · simp only [List.mem_map] at hx
      obtain ⟨y, ⟨i, hi, rfl⟩, rfl⟩ := hx
      have := hf.pos i hi
      omega
  · intro x hx
    rw [hids, List.mem_append] at hx
    rw [hm]
    rcases hx with hx | hx
    · exact Int.le_trans (hs.le_max x hx) (le_maxWith_init _ _)
    · exact le_maxWith_mem _ _ x hx

theorem inv_cleared : Inv cleared :=
  ⟨List.nodup_nil, fun _ h => by simp [cleared, ids] at h, fun _ h => by simp [cleared, ids] at h⟩

/-! ### the property -/

theorem nestedOk_weaken {s : Sess} {f : List Inst} (hn : NestedOk f) :
    threading.aggrNested = true ∨ fileIdIncrOf s.maxId = 0 ∨ ∀ i ∈ f, FlatInst i := by
  rcases hn with h | h
  · exact Or.inl h
  · exact Or.inr (Or.inr h)

/-- `ReadExchangeFile` of a conforming file (ANY conforming file: with offset 0 nothing has to be renumbered): the population
    itself, ids and references unchanged; complete where the attribute-level reader reports nothing. -/
theorem C14_read (asev : Inst → Sev) (f : List Inst) (hf : Conf f) (hq : Quiet asev f) :
    (readExchange id asev f).nodes = f.map (fun i => ⟨i, .complete⟩) ∧ Inv (readExchange id asev f) := by
  have hn : threading.aggrNested = true ∨ fileIdIncrOf cleared.maxId = 0 ∨ ∀ i ∈ f, FlatInst i :=
    Or.inr (Or.inl C14_offset_cleared)
  have h := appendExchange_spec id fillOk_id asev cleared f inv_cleared hf hn
  refine ⟨?_, appendExchange_inv id fillOk_id asev cleared f inv_cleared hf hn⟩
  show (appendExchange id asev cleared f).nodes = _
  rw [h.1, C14_offset_cleared]
  simp only [cleared, List.nil_append, shift_zero, id]
  apply List.map_congr_left
  intro i hi
  rw [hq i hi]; rfl

/-- Appending a conforming file to a session in any reachable state: every earlier instance is still there, unchanged
    and in place; every instance of the appended file is there, its id **and every reference at every depth** moved
    by the one offset `k = fileIdIncrOf maxFileId`; `k` is above every earlier id; the result is again a state in
    which the same holds for the next append.
    The form with the side condition `NestedOk` (a file with a reference inside an aggregate that is an element of an
    aggregate needs the reader to renumber the text elements of such aggregates); the code at hand does (`C14_nested_site`), see
    `C14_both_present` below for the statement without it; kept because it names exactly what the unrepaired reader got wrong.
    "complete" holds where the attribute-level reader reports nothing (`Quiet`). -/
theorem both_present_of_nestedOk (asev : Inst → Sev) (s : Sess) (f : List Inst) (hs : Inv s) (hf : Conf f)
    (hn : NestedOk f) (hq : Quiet asev f) :
    (appendExchange id asev s f).nodes = s.nodes ++ f.map (fun i => ⟨i.shift (fileIdIncrOf s.maxId), .complete⟩) ∧
    (∀ e ∈ ids s.nodes, e < fileIdIncrOf s.maxId) ∧
    Inv (appendExchange id asev s f) := by
  refine ⟨?_, ?_, appendExchange_inv id fillOk_id asev s f hs hf (nestedOk_weaken hn)⟩
  · rw [(appendExchange_spec id fillOk_id asev s f hs hf (nestedOk_weaken hn)).1]
    congr 1
    apply List.map_congr_left
    intro i hi
    rw [hq i hi]; rfl
  · intro e he
    have h1 := hs.pos e he
    have h2 := hs.le_max e he
    have := C14_offset_above s.maxId (by omega)
    omega

/-- the same with the lenient-mode substitution of C15 in place (`fill` may replace unset required values only); the state of
    each instance is what the severity the attribute-level reader reports for it maps to -/
theorem both_present_fill_of_nestedOk (fill : Inst → Inst) (hfill : FillOk fill) (asev : Inst → Sev) (s : Sess) (f : List Inst)
    (hs : Inv s) (hf : Conf f) (hn : NestedOk f) :
    (appendExchange fill asev s f).nodes =
      s.nodes ++ f.map (fun i => ⟨fill (i.shift (fileIdIncrOf s.maxId)), exchangeStateOf (asev i)⟩) ∧
    Inv (appendExchange fill asev s f) :=
  ⟨(appendExchange_spec fill hfill asev s f hs hf (nestedOk_weaken hn)).1,
   appendExchange_inv fill hfill asev s f hs hf (nestedOk_weaken hn)⟩

theorem refs_shift (k : Int) (i : Inst) : (i.shift k).refs = i.refs.map (· + k) := by
  have hv : ∀ v : Val, (v.mapRefs (· + k)).refs = v.refs.map (· + k) := by
    intro v
    induction v with
    | null => rfl | derived => rfl | tok _ => rfl | ref _ => rfl
    | typed n v ih => simpa [Val.mapRefs, Val.refs] using ih
    | aggr e ih => simpa [Val.mapRefs, Val.refs] using ih
    | nil => rfl
    | cons a b iha ihb => simp [Val.mapRefs, Val.refs, iha, ihb]
    | via p v ih => simpa [Val.mapRefs, Val.refs] using ih
  have hvs : ∀ vs : List Val, (vs.map (Val.mapRefs (· + k))).flatMap Val.refs = (vs.flatMap Val.refs).map (· + k) := by
    intro vs
    induction vs with
    | nil => rfl
    | cons v vs ih => simp [List.flatMap_cons, hv, ih]
  cases i with | mk id parts =>
  simp only [Inst.shift, Inst.mapRefs, Inst.refs]
  induction parts with
  | nil => rfl
  | cons p ps ih => simp [List.flatMap_cons, hvs, ih]

theorem no_capture_shift (s : Sess) (f : List Inst) (hs : Inv s) (hf : Conf f) :
    ∀ i ∈ f, ∀ r ∈ (i.shift (fileIdIncrOf s.maxId)).refs,
      r ∉ ids s.nodes ∧ ∃ j ∈ f, r = (j.shift (fileIdIncrOf s.maxId)).id := by
  intro i hi r hr
  rw [refs_shift] at hr
  simp only [List.mem_map] at hr
  obtain ⟨r0, hr0, rfl⟩ := hr
  have hc := hf.closed i hi r0 hr0
  simp only [List.mem_map] at hc
  obtain ⟨j, hj, rfl⟩ := hc
  refine ⟨?_, j, hj, rfl⟩
  intro hmem
  have := above_all hs (hf.pos j hj) _ hmem
  omega

/-- No capture: in the session the append produces, no reference held by a node behind the earlier ones names an earlier
    instance — even when the file used the very same numbers — and every such reference names a node that came with the
    appended file.  `_partial`: same exclusion as `both_present_of_nestedOk`. -/
theorem no_capture_of_nestedOk (asev : Inst → Sev) (s : Sess) (f : List Inst) (hs : Inv s) (hf : Conf f)
    (hn : NestedOk f) (hq : Quiet asev f) :
    ∀ n ∈ (appendExchange id asev s f).nodes.drop s.nodes.length, ∀ r ∈ n.inst.refs,
      r ∉ ids s.nodes ∧ r ∈ ids ((appendExchange id asev s f).nodes.drop s.nodes.length) := by
  rw [(both_present_of_nestedOk asev s f hs hf hn hq).1]
  simp only [List.drop_left]
  intro n hnm r hr
  simp only [List.mem_map] at hnm
  obtain ⟨i, hi, rfl⟩ := hnm
  obtain ⟨h1, j, hj, rfl⟩ := no_capture_shift s f hs hf i hi r hr
  refine ⟨h1, ?_⟩
  simp only [ids, List.map_map, List.mem_map]
  exact ⟨j, hj, rfl⟩

/-- one `ReadExchangeFile` followed by any number of `AppendExchangeFile`s -/
def appendAll (asev : Inst → Sev) (s : Sess) (fs : List (List Inst)) : Sess := fs.foldl (appendExchange id asev) s

/-- … every file's instances are present, earlier ones are never touched again (the session only grows at the end),
    and the invariant — hence `both_present_of_nestedOk` and `no_capture_of_nestedOk` for the next append — holds throughout.
    Form with the side condition `NestedOk` for every file. -/
theorem history_of_nestedOk (asev : Inst → Sev) (s : Sess) (fs : List (List Inst)) (hs : Inv s) (hfs : ∀ f ∈ fs, Conf f)
    (hns : ∀ f ∈ fs, NestedOk f) (hqs : ∀ f ∈ fs, Quiet asev f) :
    Inv (appendAll asev s fs) ∧ s.nodes <+: (appendAll asev s fs).nodes ∧
    (appendAll asev s fs).nodes.length = s.nodes.length + (fs.map List.length).sum := by
  induction fs generalizing s with
  | nil => exact ⟨hs, List.prefix_refl _, by simp [appendAll]⟩
  | cons f fs ih =>
    have hf := hfs f (by simp)
    have h1 := both_present_of_nestedOk asev s f hs hf (hns f (by simp)) (hqs f (by simp))
    have := ih (appendExchange id asev s f) h1.2.2 (fun g hg => hfs g (by simp [hg])) (fun g hg => hns g (by simp [hg]))
      (fun g hg => hqs g (by simp [hg]))
    simp only [appendAll, List.foldl_cons] at this ⊢
    refine ⟨this.1, ?_, ?_⟩
    · exact List.IsPrefix.trans (by rw [h1.1]; exact List.prefix_append _ _) this.2.1
    · rw [this.2.2, h1.1]; simp; omega

/-! ### the increment must be handed on at EVERY call site

`Generated.threading` records, site by site, whether the code hands `addFileId` on (tools/extract.d/threading.py).
`C14_threading_complete` is the fact all the theorems above rest on; the theorems after it say what happens to a reference
when one site drops the increment: it keeps its number as written and binds to the EARLIER instance bearing that number
(capture).  Each is the predicted failing input of the corresponding source change. -/

/-- the 14 call sites between the instance reader and `ReadEntityRef` hand the increment on … -/
theorem C14_threading_complete : threading = allOnN threading.aggrNested := rfl

/-- … and so does the 15th place a reference can stand in: `STEPaggregate::ReadValue`, the reader of GenericAggregate (what
    exp2cxx makes of an aggregate of aggregates), keeps its elements as text and since repair C14-1 (3b478371) adds the increment
    to every `#<digits>` of that text.  Before, it dropped it (`(void) addFileId;`, flag false); reverting the repair makes this fail. -/
theorem C14_nested_site : threading.aggrNested = true := rfl

/-- hence no file is excluded -/
theorem nestedOk_all (f : List Inst) : NestedOk f := Or.inl C14_nested_site

/-- what the code did before the repair (the audit's finding), stated for the reader with that one flag off: a reference inside an
    aggregate that is an element of an aggregate keeps its number as written, whatever the offset and whatever the manager holds —
    it names the EARLIER instance of that number -/
theorem C14_nested_aggregate_captures_witness (ns : List Node) (k r : Int) (t : Val) :
    resolveValT (allOnN false) ns .top k (.aggr (.cons (.aggr (.cons (.ref r) t)) .nil)) =
      (.aggr (.cons (.aggr (.cons (.ref r) (t.mapRefs (· + 0)))) .nil), true) := by
  simp [resolveValT, thr, Val.mapRefs, allOnN]

/-- the audit's input on the code at hand: `#1=PT(11); #2=PT(12); #3=SURF(((#1,#2)),(#1,#2))` read and then appended to itself —
    the appended SURF's nested list names #2001/#2002 like its flat list (before the repair: `((#1,#2))`) -/
theorem C14_nested_aggregate_file_example :
    let fA : List Inst := [⟨1, [⟨"PT", [.tok "11"]⟩], ""⟩, ⟨2, [⟨"PT", [.tok "12"]⟩], ""⟩,
      ⟨3, [⟨"SURF", [.aggr (.cons (.aggr (.cons (.ref 1) (.cons (.ref 2) .nil))) .nil), .aggr (.cons (.ref 1) (.cons (.ref 2) .nil))]⟩], ""⟩]
    ((appendExchange id noSev (readExchange id noSev fA) fA).nodes.map (·.inst)).drop 5 =
      [⟨2003, [⟨"SURF", [.aggr (.cons (.aggr (.cons (.ref 2001) (.cons (.ref 2002) .nil))) .nil),
                         .aggr (.cons (.ref 2001) (.cons (.ref 2002) .nil))]⟩], ""⟩] := by
  decide

/-- with the increment applied to the text elements (repair C14-1) the same value is renumbered like every other reference —
    without a look-up, the element stays text -/
theorem C14_nested_repaired_shape (ns : List Node) (k r : Int) :
    resolveValT (allOnN true) ns .top k (.aggr (.cons (.aggr (.cons (.ref r) .nil)) .nil)) =
      (.aggr (.cons (.aggr (.cons (.ref (r + k)) .nil)) .nil), true) := by
  simp [resolveValT, thr, Val.mapRefs, allOnN]

/-- a reference read with an increment that was dropped to 0 on the way binds to the earlier instance of that number -/
theorem capture_ref (T : Threading) (ns : List Node) (c : Ctx) (r : Int) (h : r ∈ ids ns) :
    resolveValT T ns c 0 (.ref r) = (.ref r, true) := by
  have : (find ns r).isSome = true := find_isSome.mpr h
  cases c <;> simp [resolveValT, thr, this]

/-- redeclared attribute (`SELF\super.attr : narrower`), forwarding without the increment: `#r` stays `#r` -/
theorem C14_dropping_redef_captures (ns : List Node) (k r : Int) (h : r ∈ ids ns) :
    resolveValT { allOn with redef := false } ns .top k (.via .redecl (.ref r)) = (.via .redecl (.ref r), true) := by
  have hf : (find ns r).isSome = true := find_isSome.mpr h
  simp [resolveValT, resolvePartsT, resolveValsT, thr, allOn, allOnN, hf]

/-- typed select value carrying references (`ENT_LIST((#r))`), `SDAI_Select::STEPread` not handing the increment to the content -/
theorem C14_dropping_selectContent_captures (ns : List Node) (k r : Int) (n : String) (h : r ∈ ids ns) :
    resolveValT { allOn with selectContent := false } ns .top k (.via .select (.typed n (.aggr (.cons (.ref r) .nil)))) =
      (.via .select (.typed n (.aggr (.cons (.ref r) .nil))), true) := by
  have hf : (find ns r).isSome = true := find_isSome.mpr h
  simp [resolveValT, resolvePartsT, resolveValsT, thr, allOn, allOnN, hf]

/-- element of an aggregate of selects, the select node read without the increment -/
theorem C14_dropping_aggrSelectElem_captures (ns : List Node) (k r : Int) (h : r ∈ ids ns) :
    resolveValT { allOn with aggrSelectElem := false } ns .top k (.aggr (.cons (.via .select (.ref r)) .nil)) =
      (.aggr (.cons (.via .select (.ref r)) .nil), true) := by
  have hf : (find ns r).isSome = true := find_isSome.mpr h
  simp [resolveValT, resolvePartsT, resolveValsT, thr, allOn, allOnN, hf]

/-- part of a complex instance read without the increment -/
theorem C14_dropping_complexPart_captures (ns : List Node) (k r : Int) (nm : String) (h : r ∈ ids ns) :
    resolvePartsT { allOn with complexPart := false } ns true k [⟨nm, [.ref r]⟩] = ([⟨nm, [.ref r]⟩], true) := by
  have hf : (find ns r).isSome = true := find_isSome.mpr h
  simp [resolveValT, resolvePartsT, resolveValsT, thr, allOn, allOnN, hf]

/-- the reader exp2cxx emits for a select with an aggregate member (`ENT_LIST((#r))`) not handing the increment to the aggregate -/
theorem C14_dropping_genSelectAggr_captures (ns : List Node) (k r : Int) (n : String) (h : r ∈ ids ns) :
    resolveValT { allOn with genSelectAggr := false } ns .top k (.via .select (.typed n (.aggr (.cons (.ref r) .nil)))) =
      (.via .select (.typed n (.aggr (.cons (.ref r) .nil))), true) := by
  have hf : (find ns r).isSome = true := find_isSome.mpr h
  simp [resolveValT, resolvePartsT, resolveValsT, thr, allOn, allOnN, hf]

/-- the emitted reader of a select whose member is itself a select not handing the increment to that member -/
theorem C14_dropping_genSelectNested_captures (ns : List Node) (k r : Int) (n : String) (h : r ∈ ids ns) :
    resolveValT { allOn with genSelectNested := false } ns .top k
        (.via .select (.typed n (.via .nested (.aggr (.cons (.ref r) .nil))))) =
      (.via .select (.typed n (.via .nested (.aggr (.cons (.ref r) .nil)))), true) := by
  have hf : (find ns r).isSome = true := find_isSome.mpr h
  simp [resolveValT, resolvePartsT, resolveValsT, thr, allOn, allOnN, hf]

/-- `ReadEntityRef` not adding the increment: every reference everywhere is captured -/
theorem C14_dropping_refAdd_captures (ns : List Node) (c : Ctx) (k r : Int) (h : r ∈ ids ns) :
    resolveValT { allOn with refAdd := false } ns c k (.ref r) = (.ref r, true) := by
  have : (find ns r).isSome = true := find_isSome.mpr h
  cases c <;> simp [resolveValT, thr, this]

/-! ### no reader keeps state between references

In the model the resolution of a reference is a function of the manager, the place of the reference and the file's offset
(`resolveValT T ns ctx k`): nothing is carried from one reference to the next or from one file to the next.  For the code
this is the regenerated fact that no function of the reference-reading path has a non-const `static` local or uses a
file-scope mutable static (`Generated.readerState`, tools/extract.d/threading.py). -/

theorem C14_reader_state_free : readerState = [] := rfl

/-- what such state does (seed C14-a1's class): a reader that remembers the last reference by its number as written answers the
    first reference of an appended file from that memo — the file's offset `k` plays no part, the reference is bound to the
    instance `t` of the earlier file -/
theorem C14_memo_reader_ignores_offset (ns : List Node) (k r t : Int) :
    (resolveRefMemo ns k (some (r, t)) r).1 = some t := by
  simp [resolveRefMemo]

/-- … whereas without a memo (and the reader of the code has none) the same reference is bound to `r + k` -/
theorem C14_memoless_reader_uses_offset (ns : List Node) (k r : Int) (h : r + k ∈ ids ns) :
    (resolveRefMemo ns k none r).1 = some (r + k) ∧ resolveValT allOn ns .top k (.ref r) = (.ref (r + k), true) := by
  have hf : (find ns (r + k)).isSome = true := find_isSome.mpr h
  constructor
  · simp [resolveRefMemo, hf]
  · simp [resolveValT, thr, allOn, allOnN, hf]

/-- … and the increment a reader works with is the one it was handed: no function of the path assigns its `addFileId` /
    `idIncr` parameter or takes its address, and the id `ReadEntityRef` looks up is written exactly three times — initialised,
    read from the stream in this very call, `+= addFileId` (regenerated; the extractor raises on any other shape) -/
theorem C14_increment_not_reassigned :
    incrementReassigned = [] ∧ refIdWrites = ["intid=-1;", "in>>id;", "id+=addFileId;"] := by decide

/-- the increment is a function of the file-level offset only: what an appended file becomes depends on the session it is
    appended to through `maxFileId` alone — two sessions with the same `maxFileId`, whatever they hold and whatever was read
    into them before, turn the same file into the same instances (ids and every reference at every depth) -/
theorem increment_function_of_max_of_nestedOk (asev : Inst → Sev) (s₁ s₂ : Sess) (f : List Inst) (h₁ : Inv s₁) (h₂ : Inv s₂)
    (hf : Conf f) (hn : NestedOk f) (hq : Quiet asev f) (h : s₁.maxId = s₂.maxId) :
    (appendExchange id asev s₁ f).nodes.drop s₁.nodes.length = (appendExchange id asev s₂ f).nodes.drop s₂.nodes.length := by
  rw [(both_present_of_nestedOk asev s₁ f h₁ hf hn hq).1, (both_present_of_nestedOk asev s₂ f h₂ hf hn hq).1, h]
  simp

/-! ### the property for the code at hand: no file excluded (`C14_nested_site`) -/

/-- Appending ANY conforming file to a session in any reachable state: every earlier instance is still there, unchanged and in
    place; every instance of the appended file is there, its id and every reference at every depth — inside aggregates of
    aggregates too — moved by the one offset `k = fileIdIncrOf maxFileId`; `k` is above every earlier id; the invariant holds
    again.  Complete where the attribute-level reader reports nothing (`Quiet`). -/
theorem C14_both_present (asev : Inst → Sev) (s : Sess) (f : List Inst) (hs : Inv s) (hf : Conf f) (hq : Quiet asev f) :
    (appendExchange id asev s f).nodes = s.nodes ++ f.map (fun i => ⟨i.shift (fileIdIncrOf s.maxId), .complete⟩) ∧
    (∀ e ∈ ids s.nodes, e < fileIdIncrOf s.maxId) ∧
    Inv (appendExchange id asev s f) :=
  both_present_of_nestedOk asev s f hs hf (nestedOk_all f) hq

theorem C14_both_present_fill (fill : Inst → Inst) (hfill : FillOk fill) (asev : Inst → Sev) (s : Sess) (f : List Inst)
    (hs : Inv s) (hf : Conf f) :
    (appendExchange fill asev s f).nodes =
      s.nodes ++ f.map (fun i => ⟨fill (i.shift (fileIdIncrOf s.maxId)), exchangeStateOf (asev i)⟩) ∧
    Inv (appendExchange fill asev s f) :=
  both_present_fill_of_nestedOk fill hfill asev s f hs hf (nestedOk_all f)

/-- No capture, any conforming file: in the session the append produces no reference held by a node behind the earlier ones
    names an earlier instance, and every such reference names a node that came with the appended file. -/
theorem C14_no_capture (asev : Inst → Sev) (s : Sess) (f : List Inst) (hs : Inv s) (hf : Conf f) (hq : Quiet asev f) :
    ∀ n ∈ (appendExchange id asev s f).nodes.drop s.nodes.length, ∀ r ∈ n.inst.refs,
      r ∉ ids s.nodes ∧ r ∈ ids ((appendExchange id asev s f).nodes.drop s.nodes.length) :=
  no_capture_of_nestedOk asev s f hs hf (nestedOk_all f) hq

theorem C14_history (asev : Inst → Sev) (s : Sess) (fs : List (List Inst)) (hs : Inv s) (hfs : ∀ f ∈ fs, Conf f)
    (hqs : ∀ f ∈ fs, Quiet asev f) :
    Inv (appendAll asev s fs) ∧ s.nodes <+: (appendAll asev s fs).nodes ∧
    (appendAll asev s fs).nodes.length = s.nodes.length + (fs.map List.length).sum :=
  history_of_nestedOk asev s fs hs hfs (fun f _ => nestedOk_all f) hqs

theorem C14_increment_function_of_max (asev : Inst → Sev) (s₁ s₂ : Sess) (f : List Inst) (h₁ : Inv s₁) (h₂ : Inv s₂)
    (hf : Conf f) (hq : Quiet asev f) (h : s₁.maxId = s₂.maxId) :
    (appendExchange id asev s₁ f).nodes.drop s₁.nodes.length = (appendExchange id asev s₂ f).nodes.drop s₂.nodes.length :=
  increment_function_of_max_of_nestedOk asev s₁ s₂ f h₁ h₂ hf (nestedOk_all f) hq h

/-! ### "all complete" derived: the attribute-level reader of C15 plugged in

`asevC15` is the severity the C15 model (`AttrNull.instRead` / `complexRead`) reports for the top-level values of an instance,
given the attribute lists of the schema (`sch`: entity or part name ↦ its attributes) — the function the drivers m_c14 / m_c16 plug
into the session model.  For a file whose instances are conforming in C15's sense (`AttrNull.CleanL`: every attribute reads without
complaint) it reports nothing (`C15`'s `instRead_sev_clean`, `complexReadS_sev_clean`, `C15_strict_plumbing`), so `Quiet` holds and
the instances of an appended file end complete — in either mode. -/

open StepModel.AttrNull in
def asevC15 (strict : Bool) (sch : String → List AttrD) (i : Inst) : Sev :=
  match i.parts with
  | [p] => (instRead (fileStrictFor false strict) (sch p.name) (SessionProto.toksOf p.vals)).1
  | ps => (complexRead (fileStrictFor true strict) (ps.map (fun p => (sch p.name, SessionProto.toksOf p.vals)))).1

open StepModel.AttrNull in
/-- every part of the instance is a conforming parameter list for its entity's attributes, in the mode at hand -/
def TypedOk (strict : Bool) (sch : String → List AttrD) (i : Inst) : Prop :=
  ∀ p ∈ i.parts, CleanL strict (sch p.name) (SessionProto.toksOf p.vals)

open StepModel.AttrNull in
theorem quiet_of_typed (strict : Bool) (sch : String → List AttrD) (f : List Inst) (h : ∀ i ∈ f, TypedOk strict sch i) :
    Quiet (asevC15 strict sch) f := by
  intro i hi
  have ht := h i hi
  unfold asevC15
  split
  · rename_i p hp
    exact instRead_sev_clean (C15_strict_plumbing strict).1 (ht p (by rw [hp]; simp))
  · apply complexReadS_sev_clean codeShape (C15_strict_plumbing strict).2.1
    intro q hq
    simp only [List.mem_map] at hq
    obtain ⟨p, hp, rfl⟩ := hq
    exact ht p hp

/-- C14 with C15's reader in place of the hypothesis `Quiet`: appending any conforming, well-typed file leaves both populations
    whole, every reference of the appended one moved by the one offset, and EVERY appended instance complete -/
theorem C14_both_present_typed (strict : Bool) (sch : String → List AttrNull.AttrD) (s : Sess) (f : List Inst) (hs : Inv s) (hf : Conf f)
    (ht : ∀ i ∈ f, TypedOk strict sch i) :
    (appendExchange id (asevC15 strict sch) s f).nodes =
      s.nodes ++ f.map (fun i => ⟨i.shift (fileIdIncrOf s.maxId), .complete⟩) ∧
    Inv (appendExchange id (asevC15 strict sch) s f) := by
  have h := C14_both_present (asevC15 strict sch) s f hs hf (quiet_of_typed strict sch f ht)
  exact ⟨h.1, h.2.2⟩

/-! ### hypotheses are satisfiable; the interesting case (identical ids in both files) is covered -/

def exA : List Inst := [⟨1, [⟨"T0", [.tok "5", .ref 2]⟩], ""⟩, ⟨2, [⟨"T1", [.aggr (.cons (.ref 1) .nil)]⟩], ""⟩]

example : Conf exA := ⟨by decide, by decide, by decide⟩
example : NestedOk exA := nestedOk_all exA
example : (appendExchange id noSev (readExchange id noSev exA) exA).nodes.map (·.inst) =
    exA ++ [⟨2001, [⟨"T0", [.tok "5", .ref 2002]⟩], ""⟩, ⟨2002, [⟨"T1", [.aggr (.cons (.ref 2001) .nil)]⟩], ""⟩] := by decide

end StepModel.Session

import StepModel.GenDeterm
import StepModel.ExpressHashLemmas
import StepModel.ExpressHashComplete
import StepModel.ExpressHashExpand
import StepModel.GenCollectLemmas
import StepModel.AlphaOrderLemmas
import StepModel.StrcmpOrder
import StepModel.GenSelectOrder
import StepModel.GenPyModule
import StepModel.GenPyModuleLemmas
import StepModel.GenPyModuleEntityLemmas
import StepModel.GenPyModuleEntityTermination
import StepModel.Generated.GenInitGen
/-!
# C12 — generators and the pretty printer are deterministic functions of their input

Determinism is stated as non-interference: the modelled output is the same under any two `Ambient`s.
**Partial by nature**: the theorems cover the modelled data paths (the union read of `AGGRprint_bound`, the iteration
order of the hash tables, the scanner's file set and stdout); that no *other* path of the C code consults the ambient
is established only by the differential runs of checks/c12.py (testing, labelled as testing).
-/
namespace StepModel.Props.C12
open StepModel.GenDeterm StepModel.Generated.GenBound StepModel

/-! ## aggregate bounds -/

/-- With the literal-only rule the emitted line is independent of the ambient for **every** bound. -/
theorem C12_bound_literalOnly (α β : Ambient) (var : String) (nr : Nat) (cname aggr : String) (b : BoundExpr) :
    printBound .literalOnly α var nr cname aggr b = printBound .literalOnly β var nr cname aggr b := by
  cases b <;> rfl

/-- Likewise when a negated integer literal is additionally printed as a number. -/
theorem C12_bound_literalOrNegated (α β : Ambient) (var : String) (nr : Nat) (cname aggr : String) (b : BoundExpr) :
    printBound .literalOrNegated α var nr cname aggr b = printBound .literalOrNegated β var nr cname aggr b := by
  cases b <;> rfl

/-- With the legacy rule it is independent only for bounds that are literals, function calls, operator expressions
    or unresolved group references — not for constants / attributes / derived attributes. -/
theorem C12_bound_legacy_partial (α β : Ambient) (var : String) (nr : Nat) (cname aggr : String) (b : BoundExpr)
    (h : ∀ obj t, b ≠ .ident obj t) :
    printBound .legacy α var nr cname aggr b = printBound .legacy β var nr cname aggr b := by
  cases b with
  | ident obj t => exact absurd rfl (h obj t)
  | _ => rfl

/-- … and for those the legacy rule does leak an address: two ambients, two different generated lines
    (`ARRAY [0:n]`, `LIST [1:kk]`; replayed on the real exp2cxx by checks/c12.py). -/
theorem C12_bound_legacy_witness :
    ∃ (α β : Ambient) (b : BoundExpr),
      printBound .legacy α "t_1" 2 "SdaiE1" "a" b ≠ printBound .legacy β "t_1" 2 "SdaiE1" "a" b :=
  ⟨{ addr := fun _ => 863442808, cwd := "", env := [], locale := "C", earlierRuns := 0 },
   { addr := fun _ => 1031247736, cwd := "", env := [], locale := "C", earlierRuns := 0 },
   .ident 0 "n", by decide⟩

/-- The rule found in the tree being checked (`currentRule`, regenerated): independent of the ambient on every
    bound that is safe for that rule; `safeFor .literalOnly` is everything. -/
theorem C12_bound_current (α β : Ambient) (var : String) (nr : Nat) (cname aggr : String) (b : BoundExpr)
    (h : safeFor currentRule b = true) :
    printBound currentRule α var nr cname aggr b = printBound currentRule β var nr cname aggr b := by
  cases hr : currentRule with
  | literalOnly => exact C12_bound_literalOnly α β var nr cname aggr b
  | literalOrNegated => exact C12_bound_literalOrNegated α β var nr cname aggr b
  | legacy =>
    rw [hr] at h
    apply C12_bound_legacy_partial
    intro obj t e
    subst e
    simp [safeFor] at h

theorem C12_safe_literalOnly (b : BoundExpr) : safeFor .literalOnly b = true := rfl
theorem C12_safe_literalOrNegated (b : BoundExpr) : safeFor .literalOrNegated b = true := rfl

/-! ## hash-table iteration order -/

/-- `DICTdo` order is a function of the **key strings** (and their definition order) only: the payload pointers
    stored in the elements — whatever addresses the allocator handed out — do not influence it. -/
theorem C12_hash_order_keys_only (α β : Ambient) (base base' : Nat) (keys : List String) :
    dictOrderUnder α base keys = dictOrderUnder β base' keys := by
  have key : ∀ (γ : Ambient) (b : Nat),
      dictOrderUnder γ b keys = (ExpressHash.dictOrder (keys.map fun k => (k, ()))).map (·.1) := by
    intro γ b
    unfold dictOrderUnder
    have h := ExpressHash.dictOrder_mapP (fun _ : Nat => ()) (keys.zipIdx.map fun (k, i) => (k, γ.addr (b + i))) (fun _ => true)
    have hm : (keys.zipIdx.map fun (k, i) => (k, γ.addr (b + i))).map (ExpressHash.mapE fun _ : Nat => ()) = keys.map fun k => (k, ()) := by
      rw [List.map_map]
      have : ∀ (l : List String) (n : Nat), (l.zipIdx n).map ((ExpressHash.mapE fun _ : Nat => ()) ∘ fun (x : String × Nat) => (x.1, γ.addr (b + x.2))) = l.map fun k => (k, ()) := by
        intro l
        induction l with
        | nil => intro n; rfl
        | cons a r ih => intro n; simp only [List.zipIdx_cons, List.map_cons, ih]; rfl
      exact this keys 0
    rw [hm] at h
    rw [h, List.map_map]
    rfl
  rw [key α base, key β base']

/-- the class filter (`DICTdo_type_init`) may look at the class character but nothing else of the payload: relabelling
    payloads commutes with the filtered iteration -/
theorem C12_hash_order_filtered {π ρ : Type} (f : π → ρ) (kvs : List (String × π)) (sel : ρ → Bool) :
    (ExpressHash.dictOrder (kvs.map (ExpressHash.mapE f)) sel).map (·.1) = (ExpressHash.dictOrder kvs (sel ∘ f)).map (·.1) := by
  rw [ExpressHash.dictOrder_mapP, List.map_map]
  rfl

/-- **Every dictionary iteration visits each entry exactly once, whatever expansions the table went through** — no bound on
    the number of definitions (the symbol tables of the large shipped APs are expanded several times): `DICTdo` /
    `HASHlist`, with or without a class filter (`DICTdo_type_init`), yields a permutation of the entries `DICTdefine` kept (the
    first definition of each key) that the filter accepts, so no entity / type / rule / function / interface item is skipped
    or emitted twice by any printer loop, and (with `C12_hash_order_keys_only`) in an order that is a function of the key strings
    and their definition order only.  Via the linear-hashing invariant `ExpressHash.GInv` (every bucket = the kept entries
    whose address under the CURRENT `p`, `maxp` it is; a split moves records of bucket `p` only, to `p` or `maxp + p`). -/
theorem C12_iter_complete {π : Type} (kvs : List (String × π)) (sel : π → Bool) :
    (ExpressHash.dictOrder kvs sel).Perm ((ExpressHash.firsts kvs).filter (fun e => sel e.2)) ∧
    ((ExpressHash.dictOrder kvs sel).map (·.1)).Nodup := by
  have hp := ExpressHash.dictOrder_perm_firsts_all kvs sel
  refine ⟨hp, (hp.map (·.1)).nodup_iff.mpr ?_⟩
  exact List.Nodup.sublist (List.Sublist.map _ List.filter_sublist) (ExpressHash.firsts_keys_nodup kvs)

/-- **The walk of `HASHlist` stays inside `Directory[]` and reaches every allocated segment** — for the walk bound found in the
    tree (regenerated): `SegmentCount` is incremented by every split (not per segment), the directory has `DIRECTORY_SIZE` slots.
    With the clamped bound (fix C12-3) for every dictionary; with `he->i < SegmentCount` only for dictionaries of fewer than
    `(MAX_LOAD_FACTOR + 1) * SEGMENT_SIZE * DIRECTORY_SIZE` = 393216 definitions (the k-th split happens at 1536·k keys).
    **Excluded** under the unclamped bound: dictionaries of 393216 and more entries — there the real `HASHlist` reads
    `Directory[256]`: reproduced (400000 entities: SIGSEGV in HASHlist ← DICTdo ← SCOPEresolve_subsupers; 380000: exit 0). -/
theorem C12_iter_walk_in_bounds_partial {π : Type} (kvs : List (String × π))
    (h : Generated.Hash.walkBound = .clampedToDirectory ∨
         kvs.length < (ExpressHash.maxLoadFactor + 1) * ExpressHash.segmentSize * ExpressHash.directorySize) :
    ExpressHash.walkSlots Generated.Hash.walkBound (ExpressHash.insertAll (ExpressHash.create : ExpressHash.Table π) kvs) ≤ ExpressHash.directorySize ∧
    (ExpressHash.insertAll (ExpressHash.create : ExpressHash.Table π) kvs).buckets.size
      ≤ ExpressHash.walkSlots Generated.Hash.walkBound (ExpressHash.insertAll (ExpressHash.create : ExpressHash.Table π) kvs) * ExpressHash.segmentSize :=
  ExpressHash.walk_in_bounds _ kvs h

/-! ## exppp: order of the item-wise USE / REFERENCE groups -/

/-- With the grouping key found in the tree (`refoutKey`, regenerated from pretty_ref.c: the supplier schema's NAME) the
    order of the `USE FROM s ( … )` / `REFERENCE FROM s ( … )` groups is a function of the names only: neither the addresses of
    the Schema objects nor those of the freshly allocated per-supplier lists influence it. -/
theorem C12_refout_group_order_names_only (α β : Ambient) (b b' : Nat) (entries : List RefEntry) :
    refoutGroupOrder Generated.RefOut.refoutKey α b entries = refoutGroupOrder Generated.RefOut.refoutKey β b' entries := by
  have hk : Generated.RefOut.refoutKey = .schemaName := by decide
  rw [hk]
  have key : ∀ (γ : Ambient) (c : Nat), refoutGroupOrder .schemaName γ c entries =
      ((ExpressHash.dictOrder ((((ExpressHash.dictOrder (entries.map fun e => (e.item, e))).map (·.2)).zipIdx.map
          fun (p : RefEntry × Nat) => (p.1.supplier, p.1.supplier)))).map (·.2)) := by
    intro γ c
    unfold refoutGroupOrder
    simp only [refKeyOf]
    have h := ExpressHash.dictOrder_mapP (fun (p : String × Nat) => p.1)
      ((((ExpressHash.dictOrder (entries.map fun e => (e.item, e))).map (·.2)).zipIdx).map
        fun (p : RefEntry × Nat) => (p.1.supplier, (p.1.supplier, γ.addr (c + p.2)))) (fun _ => true)
    simp only [List.map_map] at h
    have e1 : ((ExpressHash.mapE fun (p : String × Nat) => p.1) ∘ fun (p : RefEntry × Nat) => (p.1.supplier, (p.1.supplier, γ.addr (c + p.2))))
            = fun (p : RefEntry × Nat) => (p.1.supplier, p.1.supplier) := rfl
    rw [e1] at h
    rw [h, List.map_map]
    rfl
  rw [key α b, key β b']

/-- The whole interface block exppp prints for a schema — which supplier groups, in which order, and within each group which
    items in which order — is a function of the item keys, their definition order and the supplier names only: no address
    enters (grouping key regenerated from pretty_ref.c).  Within a group the items come in the DICTdo (hash) order of the
    schema's `usedict`/`refdict`, restricted to that supplier. -/
theorem C12_refout_groups_names_only (α β : Ambient) (b b' : Nat) (entries : List RefEntry) :
    refoutGroups Generated.RefOut.refoutKey α b entries = refoutGroups Generated.RefOut.refoutKey β b' entries := by
  have hk : Generated.RefOut.refoutKey = .schemaName := by decide
  rw [hk]
  have key : ∀ (γ : Ambient) (c : Nat), refoutGroups .schemaName γ c entries =
      (ExpressHash.dictOrder ((((ExpressHash.dictOrder (entries.map fun e => (e.item, e))).map (·.2)).zipIdx.map
          fun (p : RefEntry × Nat) => (p.1.supplier, p.1.supplier)))).map
        fun g => (g.2, ((((ExpressHash.dictOrder (entries.map fun e => (e.item, e))).map (·.2)).filter
          fun e => e.supplier == g.1).map (·.printed))) := by
    intro γ c
    unfold refoutGroups
    simp only [refKeyOf]
    have h := ExpressHash.dictOrder_mapP (fun (p : String × Nat) => p.1)
      ((((ExpressHash.dictOrder (entries.map fun e => (e.item, e))).map (·.2)).zipIdx).map
        fun (p : RefEntry × Nat) => (p.1.supplier, (p.1.supplier, γ.addr (c + p.2)))) (fun _ => true)
    simp only [List.map_map] at h
    have e1 : ((ExpressHash.mapE fun (p : String × Nat) => p.1) ∘ fun (p : RefEntry × Nat) => (p.1.supplier, (p.1.supplier, γ.addr (c + p.2))))
            = fun (p : RefEntry × Nat) => (p.1.supplier, p.1.supplier) := rfl
    rw [e1] at h
    rw [h, List.map_map]
    rfl
  rw [key α b, key β b']

/- (Keyed by the Schema object's address printed with `%p` instead — `RefKey.address`, the seeded variant — the model gives
   `["supplier_b", "supplier_a", "supplier_c"]` under one heap layout and `["supplier_c", "supplier_b", "supplier_a"]` under
   another (`#eval refoutGroupOrder .address …`); not stated as a theorem because the kernel cannot evaluate the UTF-8 byte
   view of strings that `rawHash` uses, and `native_decide` is not allowed.) -/

/-! ## exppp: order of the declarations inside a section -/

/-- The order in which exppp prints the types / entities / rules / functions / procedures of a scope does not depend on the
    ambient, with or without `exppp_alphabetize`. -/
theorem C12_section_order_noninterference (alpha : Bool) (α β : Ambient) (b b' : Nat) (names : List String) :
    sectionOrder alpha α b names = sectionOrder alpha β b' names := by
  unfold sectionOrder
  rw [C12_hash_order_keys_only α β b b' names]

/-- With `exppp_alphabetize` (the default, regenerated) the printed order does not even depend on the ORDER in which the
    dictionary delivers the objects — hence not on the hash function, its constants, the table size or the definition
    order: any two walks over the same duplicate-free set of names are printed identically, namely strictly increasing.
    Assumption, stated as hypothesis: the comparison is a strict total order (`strcmp`). -/
theorem C12_alphabetical_order_walk_independent {α : Type} (lt : α → α → Bool) (h : AlphaOrder.StrictTotal lt)
    (w₁ w₂ : List α) (n₁ : w₁.Nodup) (n₂ : w₂.Nodup) (hp : w₁.Perm w₂) :
    AlphaOrder.alphaOrder lt w₁ = AlphaOrder.alphaOrder lt w₂ ∧
    AlphaOrder.Sorted lt (AlphaOrder.alphaOrder lt w₁) ∧ (AlphaOrder.alphaOrder lt w₁).Perm w₁ :=
  ⟨AlphaOrder.alphaOrder_walk_independent lt h w₁ w₂ n₁ n₂ hp, AlphaOrder.alphaOrder_sorted lt h w₁ n₁, AlphaOrder.alphaOrder_perm lt w₁⟩

/-- **The hypothesis holds for the comparison the tools use**: `strcmp` over the bytes of the identifiers (unsigned bytes, first
    difference decides, a proper prefix is smaller) is a strict total order — on byte strings and on identifiers through their
    UTF-8 bytes.  (Lean's `String.<` compares code points: the same on ASCII identifiers only.) -/
theorem C12_strcmp_is_a_strict_total_order :
    AlphaOrder.StrictTotal AlphaOrder.strcmpLt ∧ AlphaOrder.StrictTotal AlphaOrder.nameStrcmpLt :=
  ⟨AlphaOrder.strcmpLt_strictTotal, AlphaOrder.nameStrcmpLt_strictTotal⟩

/-- … so, without any assumption left: exppp's alphabetized sections are independent of the dictionary walk under `strcmp` -/
theorem C12_alphabetical_order_walk_independent_strcmp (w₁ w₂ : List String) (n₁ : w₁.Nodup) (n₂ : w₂.Nodup) (hp : w₁.Perm w₂) :
    AlphaOrder.alphaOrder AlphaOrder.nameStrcmpLt w₁ = AlphaOrder.alphaOrder AlphaOrder.nameStrcmpLt w₂ :=
  (C12_alphabetical_order_walk_independent _ AlphaOrder.nameStrcmpLt_strictTotal w₁ w₂ n₁ n₂ hp).1

/-! ## order of the select types in the generated C++ -/

/-- The order in which exp2cxx emits the select classes and the typedef blocks of renamed selects of a schema (list level, not
    only the set) is a function of the key strings of the schema's dictionary in definition order and of the item structure
    only: under any two ambients (payload addresses) the select loop produces the same event list.
    BY PURITY OF THE MODEL: a congruence over `C12_hash_order_keys_only` — `SelOrder.visitAll` is a pure function of the walk; that
    it IS what exp2cxx does is the list-level correspondence with every generated Sdai<SCHEMA>.h (checks/c17.py). -/
theorem C12_select_emission_order_names_only (α β : Ambient) (base base' : Nat) (keys : List String) (isSel : String → Bool)
    (G : String → Option SelOrder.Sel) (fuel : Nat) (st : SelOrder.St) :
    (SelOrder.visitAll G fuel ((dictOrderUnder α base keys).filter isSel) st).out
      = (SelOrder.visitAll G fuel ((dictOrderUnder β base' keys).filter isSel) st).out := by
  rw [C12_hash_order_keys_only α β base base' keys]

/-! ## order of the definitions in the generated Python module -/

/-- The order in which exp2python defines the classes of the defined types and entities, the ENUMERATION / SELECT / aggregate
    objects, the functions and the rules of a schema at module level (`PyModule.order`: rename-after-original scans, dictionary
    walks per kind, `SCOPEget_entities_superclass_order`) is a function of the key strings of the schema's dictionary in
    definition order and of the declarations only — `decls` stands for any way of reading kinds, heads and supertypes off the
    dictionary walk: under any two ambients the module defines the same names in the same order.
    BY PURITY OF THE MODEL: true of any pure function of the walk (`decls` is arbitrary), so it says nothing about `SCOPEPrint` by
    itself; the content is `PyModule.order` + its correspondence with every generated <schema>.py (checks/c12.py) +
    `C12_python_types_defined_exactly_once`. -/
theorem C12_python_module_order_names_only (α β : Ambient) (base base' : Nat) (keys : List String) (fuel : Nat)
    (decls : List String → List PyModule.T × List GenPy.Entity × List String × List String) :
    (let d := decls (dictOrderUnder α base keys); PyModule.order d.1 d.2.1 (d.2.1.map (·.name)) fuel d.2.2.1 d.2.2.2)
      = (let d := decls (dictOrderUnder β base' keys); PyModule.order d.1 d.2.1 (d.2.1.map (·.name)) fuel d.2.2.1 d.2.2.2) := by
  rw [C12_hash_order_keys_only α β base base' keys]

/-- … and that order is complete and duplicate-free for the defined types: whatever the dictionary order, the kinds and the
    rename chains, the names a module defines before and after the entity classes are a permutation of the schema's defined
    types — no type is skipped by the rename-after-original scans and the later dictionary walks, none is defined twice. -/
theorem C12_python_types_defined_exactly_once (types : List PyModule.T) (hnd : (types.map (·.name)).Nodup) :
    (PyModule.typesBeforeEntities types ++ PyModule.typesAfterEntities types).Perm (types.map (·.name)) :=
  PyModule.types_order_perm types hnd

/-- … the same for the entity classes: when `SCOPEget_entities_superclass_order` returns — whatever the dictionary order of the
    roots, the supertype graph (circles included: "marked" covers the recursion stack) and the recursion bound — the classes it
    lists are a permutation of the entities of the scope (distinct names): every entity class is defined exactly once. -/
theorem C12_python_entities_defined_exactly_once (es : List GenPy.Entity) (hnd : (es.map (·.name)).Nodup) (fuel : Nat)
    (out : List String) (h : GenPy.EntityOrder.order es fuel (es.map (·.name)) = some out) : out.Perm (es.map (·.name)) :=
  GenPy.EntityOrder.order_perm es hnd fuel out h

/-- **A Python module defines every name of its schema exactly once**: the definition sequence `PyModule.order` produces — defined
    types before and after the entity classes, entity classes, functions, rules — is a permutation of the schema's defined types,
    entities, functions and rules (the roots of the entity walk = the entities of the scope; names of types and of entities
    distinct).  With `C12_python_module_order_names_only`: the same names, each once, in an order that depends on names and
    declarations only. -/
theorem C12_python_module_defines_each_name_once (types : List PyModule.T) (es : List GenPy.Entity) (funcs rules : List String)
    (ht : (types.map (·.name)).Nodup) (he : (es.map (·.name)).Nodup) (fuel : Nat) (l : List String)
    (h : PyModule.order types es (es.map (·.name)) fuel funcs rules = some l) :
    l.Perm (types.map (·.name) ++ es.map (·.name) ++ funcs ++ rules) := by
  unfold PyModule.order at h
  cases ho : GenPy.EntityOrder.order es fuel (es.map (·.name)) with
  | none => rw [ho] at h; cases h
  | some ents =>
    rw [ho] at h
    have hl := Option.some.inj h
    subst hl
    have pe := GenPy.EntityOrder.order_perm es he fuel ents ho
    have pt := PyModule.types_order_perm types ht
    -- move the types written after the entities next to those written before
    have h1 : (PyModule.typesBeforeEntities types ++ ents ++ funcs ++ rules ++ PyModule.typesAfterEntities types).Perm
        ((PyModule.typesBeforeEntities types ++ PyModule.typesAfterEntities types) ++ (ents ++ funcs ++ rules)) := by
      have a : PyModule.typesBeforeEntities types ++ ents ++ funcs ++ rules ++ PyModule.typesAfterEntities types
          = PyModule.typesBeforeEntities types ++ ((ents ++ funcs ++ rules) ++ PyModule.typesAfterEntities types) := by
        simp only [List.append_assoc]
      have b : (PyModule.typesBeforeEntities types ++ PyModule.typesAfterEntities types) ++ (ents ++ funcs ++ rules)
          = PyModule.typesBeforeEntities types ++ (PyModule.typesAfterEntities types ++ (ents ++ funcs ++ rules)) := by
        simp only [List.append_assoc]
      rw [a, b]
      exact List.Perm.append_left _ List.perm_append_comm
    refine h1.trans ?_
    have h2 : (ents ++ funcs ++ rules).Perm (es.map (·.name) ++ funcs ++ rules) :=
      List.Perm.append_right _ (List.Perm.append_right _ pe)
    have h3 := List.Perm.append pt h2
    have c : types.map (·.name) ++ (es.map (·.name) ++ funcs ++ rules) = types.map (·.name) ++ es.map (·.name) ++ funcs ++ rules := by
      simp only [List.append_assoc]
    rw [← c]
    exact h3

/-- **… and the walk does return**: with `|entities| + 1` levels of recursion `SCOPEget_entities_superclass_order` never runs out of
    depth, for any supertype graph (circles included) and any roots — so for every schema with distinct type names and distinct
    entity names the module's definition sequence EXISTS and is a permutation of its defined types, entities, functions and
    rules: no hypothesis "when it returns" is left. -/
theorem C12_python_module_order_total (types : List PyModule.T) (es : List GenPy.Entity) (funcs rules : List String)
    (ht : (types.map (·.name)).Nodup) (he : (es.map (·.name)).Nodup) :
    ∃ l, PyModule.order types es (es.map (·.name)) (es.length + 1) funcs rules = some l ∧
         l.Perm (types.map (·.name) ++ es.map (·.name) ++ funcs ++ rules) := by
  obtain ⟨ents, ho⟩ := GenPy.EntityOrder.order_returns es (es.map (·.name))
  have hsome : PyModule.order types es (es.map (·.name)) (es.length + 1) funcs rules
      = some (PyModule.typesBeforeEntities types ++ ents ++ funcs ++ rules ++ PyModule.typesAfterEntities types) := by
    unfold PyModule.order
    rw [ho]
    rfl
  exact ⟨_, hsome, C12_python_module_defines_each_name_once types es funcs rules ht he _ _ hsome⟩

/-- the hypothesis is satisfiable: a diamond (`d` under `b` and `c`, both under `a`) plus an entity with a supertype outside the
    scope; the module order is returned and is the permutation the theorem speaks of -/
example :
    PyModule.order [{ name := "t", kind := .simple, head := none }]
      [{ name := "d", supers := ["b", "c"], attrs := [] }, { name := "b", supers := ["a"], attrs := [] },
       { name := "c", supers := ["a"], attrs := [] }, { name := "a", supers := [], attrs := [] },
       { name := "x", supers := ["elsewhere"], attrs := [] }]
      ["d", "b", "c", "a", "x"] 7 ["f"] ["r"] = some ["t", "a", "b", "c", "d", "x", "f", "r"] := by
  decide

/-! ## memory the generators allocate and read -/

/-- A regenerated tie, not an analysis: every struct the generators `malloc` (the select and entity tags hung on `clientData`) has
    each field that is read anywhere assigned in the statements that directly follow the allocation — no decision of exp2cxx,
    exp2python or exppp is taken on what a recycled heap chunk happened to hold (a value that changes with the heap layout, hence
    between two identical runs).  `uninitialisedFields` is computed by tools/extract.d/geninit.py from the sources; seed C12-e2
    (`tag -> complete = 0;` dropped in TYPEselect_print) puts `("selects.c", "TYPEselect_print", "SelectTag_", "complete")` there. -/
theorem C12_malloced_structs_initialised :
    Generated.GenInit.uninitialisedFields = [] ∧ Generated.GenInit.mallocSites.length ≥ 1 := by
  decide

/-! ## compstructs.cc -/

/-- The `// ComplexList with supertype "…":` blocks of compstructs.cc come in an order that depends on the NAMES of the entities
    only: not on the order in which the constructor met them (dictionary walk, recursion into sub-hierarchies), nor on addresses —
    for any two insertion orders of the same lists the written sequence of names is the same (`strcmp` a strict total order). -/
theorem C12_compstructs_order_names_only (lt : String → String → Bool) (h : AlphaOrder.StrictTotal lt) (cs₁ cs₂ : List Collect.CL)
    (hp : cs₁.Perm cs₂) :
    Collect.written ((cs₁.foldl (fun l c => Collect.insert lt c l) []).filter (fun c => !c.dependent))
      = Collect.written ((cs₂.foldl (fun l c => Collect.insert lt c l) []).filter (fun c => !c.dependent)) :=
  Collect.written_order_independent lt h cs₁ cs₂ hp

/-! ## files left in the working directory by earlier runs -/

/-- **The bytes of every file a tool writes are a function of the text it writes alone** — whatever an earlier run, or
    anything else, left in the working directory under that name: holds for the opening discipline found in the tree for
    each of the four tools (regenerated: exppp's self-named `<schema>.exp`, exp2cxx's and exp2python's `FILEcreate` and the
    other opens of the generators, the scanner's `ofstream`), all of which empty or replace an existing file. -/
theorem C12_written_bytes_function_of_text (d d' : Dir) (name : String) (bytes : List UInt8) :
    ∀ mode ∈ [Generated.OutOpen.expppOpen, Generated.OutOpen.exp2cxxOpen, Generated.OutOpen.exp2pythonOpen, Generated.OutOpen.scannerOpen],
      writeOut mode d name bytes name = some bytes ∧ writeOut mode d' name bytes name = some bytes := by
  have hm : ∀ mode ∈ [Generated.OutOpen.expppOpen, Generated.OutOpen.exp2cxxOpen, Generated.OutOpen.exp2pythonOpen, Generated.OutOpen.scannerOpen],
      mode ≠ .updateInPlace := by decide
  intro mode hmem
  have hne := hm mode hmem
  have key : ∀ dd : Dir, writeOut mode dd name bytes name = some bytes := by
    intro dd
    unfold writeOut
    simp only [if_true]
    cases mode with
    | truncate => rfl
    | unlinkThenCreate => rfl
    | updateInPlace => exact absurd rfl hne
  exact ⟨key d, key d'⟩

/-- … and files the tool does not write are left alone. -/
theorem C12_write_leaves_other_files (mode : Generated.OutOpen.OpenMode) (d : Dir) (name other : String) (bytes : List UInt8)
    (h : other ≠ name) : writeOut mode d name bytes other = d other := by
  simp [writeOut, h]

/-- Writing through a handle opened "r+" on an earlier output (no truncation) keeps the tail of a longer earlier file:
    the same text gives different bytes depending on what the directory held — `exppp -l 40 x.exp; exppp x.exp`. -/
theorem C12_update_in_place_witness :
    writeOut .updateInPlace (fun _ => some [1, 2, 3, 4, 5]) "s.exp" [9, 9] "s.exp" = some [9, 9, 3, 4, 5] ∧
    writeOut .updateInPlace (fun _ => none) "s.exp" [9, 9] "s.exp" = some [9, 9] := by
  decide

/-! ## the scanner -/

/-- The CMakeLists.txt files the scanner writes do not depend on the ambient at all; its stdout depends on it only
    through the working-directory prefix. -/
theorem C12_scanner_stdout (α β : Ambient) (f : GenFiles.SchemaFile) :
    (scannerStdout α f).length = (scannerStdout β f).length ∧
    ∀ i (h : i < (GenFiles.Scanner.run f).2.length),
      (scannerStdout α f)[i]? = some (α.cwd ++ "/" ++ (GenFiles.Scanner.run f).2[i]) ∧
      (scannerStdout β f)[i]? = some (β.cwd ++ "/" ++ (GenFiles.Scanner.run f).2[i]) := by
  refine ⟨by simp [scannerStdout], ?_⟩
  intro i h
  simp [scannerStdout, h]

end StepModel.Props.C12

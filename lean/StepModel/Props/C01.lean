import StepModel.P21.Writer
import StepModel.P21.ReaderLemmas11
import StepModel.P21.ReaderLemmas14
import StepModel.P21.ReaderLemmas17
import StepModel.P21.ReaderLemmas18
import StepModel.P21.ReaderLemmas19
import StepModel.P21.ReaderLemmas24
import StepModel.P21.ReaderLemmas28
import StepModel.Generated.P21RWGen
/-! # C01 — exchange files survive read-then-write: property theorems

What is proved here, for all inputs of the stated shape (no size bounds):

* writer: an aggregate of any element type and any length is written as its elements' own texts separated by commas
  (`C01_aggregate_written_elementwise`), unconditionally for the source as it is now
  (`C01_aggregate_written_elementwise_in_source`, through the regenerated switch `Generated.rwCfg.stringNodeAppends`);
  the unrepaired writer's counterexample is `C01_string_list_witness`;
* layout: `ReadTokenSeparator` consumes *every* sequence of blanks and complete comments in front of a token, at any
  position of the file, and leaves a good stream at the token (`C01_token_separators_skipped`); an entity without
  attributes is read without error in every layout (`C01_read_empty_record`);
* the two comment defects and their repair, on the minimal inputs, as evaluated by the model
  (`C01_comment_after_value_*`, `C01_comment_in_aggregate_*`).

* records: `SDAI_Application_instance::STEPread` reads `( p₁ , … , pₙ )` in any layout to the values of its tokens
  (`C01_read_record_of_params`; `C01_read_record_partial` for the kinds of `Covered`: `$`, `*`, INTEGER, REAL, NUMBER,
  STRING, ENUMERATION/BOOLEAN/LOGICAL, BINARY, references, aggregates of any of these element kinds);
* files: both passes over a whole data section — `ReadData1` creates one instance per record, `ReadData2` reads every
  parameter, forward references included, severity NULL, every layout (`C01_read_file_partial`); what
  `STEPfile::WriteData` emits is read back to the instances written and writing again gives the same bytes
  (`C01_file_write_read_partial`).

* the halves composed: `C01_read_write_read_partial` (read, write, read again: the same instances, the same bytes) for
  files in the intersection of `Covered` and `Storable`; `C01_file_hypotheses_witness` / `C01_read_write_read_witness`
  instantiate every hypothesis on a two-record file with a forward reference.

What is *not* proved (tied by correspondence on generated files only, see notes/C01.md): **redeclared attributes**
(`redefining = false` in every constructor of `Covered` / `Storable`: entities that redeclare an inherited attribute are
outside every headline theorem), selects whose member is a select or an aggregate, subtype/supertype records in external
mapping at file level, entities without attributes at file level, the header section, REAL / NUMBER values at which
`%.15G` does not read back (`RealStable`) and aggregates of aggregates / of selects on the write side, record ids above
INT_MAX, comments longer than MAX_COMMENT_LENGTH while the source abandons them (regenerated switch
`commentsOfAnyLength`, fixes/C01-9), print control directives between tokens (`Seps` has blanks and comments only).
-/
namespace StepModel.P21.C01
open StepModel StepModel.P21 StepModel.P21.RLemmas StepModel.P21.Lemmas StepModel.P21.Grammar

/-- the text one aggregate element stands for, independent of any scratch string -/
def nodeText {F} (ops : FloatOps F) (cfg : RWCfg) (d : Dict) (ty : ElemTy) (e : Elem F) : List Byte :=
  nodeWrite ops { cfg with stringNodeAppends := false } d ty [] e

/-- elements separated by commas -/
def commaSep : List (List Byte) → List Byte
  | [] => []
  | [t] => t
  | t :: ts => t ++ [44] ++ commaSep ts

theorem nodeWrite_assign {F} (ops : FloatOps F) (cfg : RWCfg) (d : Dict) (ty : ElemTy) (sc : List Byte) (e : Elem F)
    (h : cfg.stringNodeAppends = false ∨ ty ≠ .string) :
    nodeWrite ops cfg d ty sc e = nodeText ops cfg d ty e := by
  unfold nodeText
  cases e with
  | sel m a => simp [nodeWrite]
  | atom a =>
    cases ty <;> simp_all [nodeWrite]

/-- **aggregate writer**: for every element type and every list of elements the writer emits the elements' own texts
    separated by commas — provided the string node writer assigns (the repaired source) or the aggregate is not an
    aggregate of strings.  No bound on the length. -/
theorem C01_aggregate_written_elementwise {F} (ops : FloatOps F) (cfg : RWCfg) (d : Dict) (ty : ElemTy)
    (es : List (Elem F)) (h : cfg.stringNodeAppends = false ∨ ty ≠ .string) :
    writeAggr ops cfg d ty es = [40] ++ commaSep (es.map (nodeText ops cfg d ty)) ++ [41] := by
  unfold writeAggr
  congr 2
  suffices ∀ sc, writeNodes ops cfg d ty sc es = commaSep (es.map (nodeText ops cfg d ty)) from this []
  induction es with
  | nil => intro sc; simp [writeNodes, commaSep]
  | cons e rest ih =>
    intro sc
    cases rest with
    | nil => simp [writeNodes, commaSep, nodeWrite_assign ops cfg d ty sc e h]
    | cons e2 rest2 =>
      simp only [writeNodes, List.map_cons, commaSep]
      rw [nodeWrite_assign ops cfg d ty sc e h]
      congr 1
      exact ih _

/-- the source as it is now: `SDAI_String::STEPwrite( std::string & )` assigns (regenerated on every run; this is the
    statement that fails to check on a tree whose string node writer appends) -/
theorem C01_string_node_writer_assigns : Generated.rwCfg.stringNodeAppends = false := by decide

/-- **aggregate writer, current source**: every aggregate, strings included -/
theorem C01_aggregate_written_elementwise_in_source {F} (ops : FloatOps F) (d : Dict) (ty : ElemTy) (es : List (Elem F)) :
    writeAggr ops Generated.rwCfg d ty es =
      [40] ++ commaSep (es.map (nodeText ops Generated.rwCfg d ty)) ++ [41] :=
  C01_aggregate_written_elementwise ops Generated.rwCfg d ty es (Or.inl C01_string_node_writer_assigns)

def emptyDict : Dict := { entities := [], selects := [], complexSets := [] }
def q (s : String) : List Byte := stringToBytes s

/-- the unrepaired writer (string node appends to the shared scratch string): `('x','y')` is written `('x','x''y')` -/
theorem C01_string_list_witness :
    writeAggr dblOps { Generated.rwCfg with stringNodeAppends := true } emptyDict .string
        [.atom (.str (q "'x'")), .atom (.str (q "'y'"))] = q "('x','x''y')" := by decide

/-- **every layout is skipped**: blanks and complete comments, in any number and order, in front of any token (a token
    starts with neither a blank, nor `/`, nor the backslash of a print control directive) -/
theorem C01_token_separators_skipped (seps : List Byte) (hs : Seps seps) (l : List Byte) (c : Byte) (rest : List Byte)
    (sk : Bool) (hc : isSpace c = false) (h47 : c ≠ 47) (h92 : c ≠ 92) :
    readTokenSeparator (G l (seps ++ c :: rest) sk) = G (seps.reverse ++ l) (c :: rest) sk :=
  readTokenSeparator_seps seps hs l c rest sk hc h47 h92

/-- the hypothesis is satisfiable: ` /* c */ /**/\n` is a separator sequence -/
example : Seps (q " /* c */ /**/\n") :=
  Seps.comment (q " ") (q " c ") (q " /**/\n") (by decide) (by decide)
    (Seps.comment (q " ") [] (q "\n") (by decide) (by decide) (Seps.blanks (q "\n") (by decide)))

/-- **an entity without attributes, every layout**: `( seps )` is read without error and the stream rests right after
    the closing parenthesis -/
theorem C01_read_empty_record {F} (env : Env F) (strict : Bool) (seps : List Byte) (hs : Seps seps)
    (l rest : List Byte) (sk : Bool) :
    instSTEPread env strict [] (G l (40 :: (seps ++ 41 :: rest)) sk) =
      .ok ⟨.null, [], G (41 :: (seps.reverse ++ 40 :: l)) rest sk, .null⟩ := by
  unfold instSTEPread
  rw [show (G l (40 :: (seps ++ 41 :: rest)) sk).ws = G l (40 :: (seps ++ 41 :: rest)) sk from ws_good0 l 40 _ sk (by decide)]
  simp only [bind, Except.bind, pure, Except.pure]
  rw [shiftInto_good 0 l 40 _ sk (by decide)]
  simp only [bne_self_eq_false, Bool.false_eq_true, if_false, List.isEmpty_nil, if_true]
  rw [readTokenSeparator_seps seps hs (40 :: l) 41 rest sk (by decide) (by decide)]
  rw [shiftInto_good 40 _ 41 rest sk (by decide)]
  simp

/-! ### reading a record: every layout, parameter kinds layer by layer -/

/-- the source as it is now: `CheckRemainingInput` skips comments (regenerated on every run) -/
theorem C01_source_skips_comments_after_values : Generated.rwLexCfg.criSkipsComments = true := by decide

/-- the source as it is now: the aggregate element loops skip token separators (regenerated on every run) -/
theorem C01_source_skips_comments_in_aggregates : Generated.rwCfg.aggrSkipsComments = true := by decide

/-- **composition**: if `STEPattribute::STEPread` reads each parameter's token to its value wherever it stands
    (`ParamOK`), then `SDAI_Application_instance::STEPread` reads the whole record `( p₁ , … , pₙ )` — with any layout
    of blanks and comments before and after every parameter — to exactly those values, with severity NULL, and rests
    right after the closing parenthesis.  Any number of parameters, any attribute kinds. -/
theorem C01_read_record_of_params {F} (env : Env F) (strict : Bool) (ps : List (Param F)) (hne : ps ≠ [])
    (hok : ∀ p ∈ ps, ParamOK env strict p) (l : List Byte) (sk : Bool) (rest : List Byte) :
    ∃ sk', instSTEPread env strict (ps.map (·.a)) (G l (40 :: (renderParams ps ++ rest)) sk) =
      .ok ⟨.null, ps.map (·.v), G ((40 :: renderParams ps).reverse ++ l) rest sk', .null⟩ :=
  instSTEPread_params env strict ps hne hok l sk rest

/-- the values that may stand between the parentheses of a typed SELECT value `KEYWORD(value)`: INTEGER, REAL (also for
    a NUMBER member), STRING, ENUMERATION / BOOLEAN / LOGICAL, BINARY — under the provisos of the attribute of that kind -/
inductive LeafCovered {F} (env : Env F) (m : SelMember) : List Byte → Atom F → Prop where
  | integer (hm : m.ty = .integer) (tok : List Byte) (htok : isInteger tok = true) (hlo : IStream.longMin ≤ denoteInteger tok)
      (hhi : denoteInteger tok < IStream.longMax) : LeafCovered env m tok (.int (denoteInteger tok))
  | real (hm : m.ty = .real ∨ m.ty = .number) (tok : List Byte) (dec : Decimal) (v : F) (htok : isReal tok = true)
      (hden : denoteReal tok = some dec) (hv : env.ops.ofDecimal dec = some v) (hnn : env.ops.isRealNull v = false)
      (hbuf : env.lex.realBuf = 0 ∨ tok.length < env.lex.realBuf) : LeafCovered env m tok (.real v)
  | string (hm : m.ty = .string) (b : List Byte) (hsb : StringBody b) :
      LeafCovered env m (39 :: (b ++ [39])) (.str (39 :: (b ++ [39])))
  | enum (het : EnumTy m.ty) (name : List Byte) (i : Nat) (hne : name ≠ []) (hname : name.all pw = true)
      (hfind : findName (enumKindOf m.ty).table (name.map toUpper) = some i) (hset : (enumKindOf m.ty).isUnsetIdx i = false) :
      LeafCovered env m (46 :: (name ++ [46])) (.enum i)
  | binary (hm : m.ty = .binary) (hex : List Byte) (hne : hex ≠ []) (hhex : hex.all isXDigit = true) :
      LeafCovered env m (34 :: (hex ++ [34])) (.bin hex)

theorem leafCovered_rd {F} (env : Env F) (hcfg : env.lex.criSkipsComments = true) (m : SelMember) (tok : List Byte) (a : Atom F)
    (h : LeafCovered env m tok a) : LeafRd env m tok a := by
  cases h with
  | integer hm tok htok hlo hhi => exact LeafRd.integer env hcfg m hm tok htok hlo hhi
  | real hm tok dec v htok hden hv hnn hbuf => exact LeafRd.real env hcfg m hm tok dec v htok hden hv hnn hbuf
  | string hm b hsb => exact LeafRd.string env m hm b hsb
  | enum het name i hne hname hfind hset => exact LeafRd.enum env m het name i hne hname hfind hset
  | binary hm hex hne hhex => exact LeafRd.binary env m hm hex hne hhex

theorem leafCovered_scan {F} (env : Env F) (m : SelMember) (tok : List Byte) (a : Atom F) (h : LeafCovered env m tok a) :
    PassesS tok := by
  cases h with
  | integer hm tok htok hlo hhi => exact (Passes.all_plain _ (isInteger_plain _ htok)).toS
  | real hm tok dec v htok hden hv hnn hbuf => exact (Passes.all_plain _ (isReal_plain _ htok)).toS
  | string hm b hsb => exact PassesS.string b hsb
  | enum het name i hne hname hfind hset =>
    exact (Passes.append (a := [46]) (Passes.plain 46 (by decide))
      (Passes.append (Passes.all_plain _ (all_imp (fun c => pw_plain) _ hname)) (Passes.plain 46 (by decide)))).toS
  | binary hm hex hne hhex =>
    exact (Passes.append (a := [34]) (Passes.plain 34 (by decide))
      (Passes.append (Passes.all_plain _ (all_imp (fun c => xdigit_plain) _ hhex)) (Passes.plain 34 (by decide)))).toS

theorem kwc_selc {c : Byte} (h : kwc c = true) : selc c = true := by
  simp [kwc, selc, isAlnum, isAlpha, isUpper, isLower, isDigit, isSpace] at *; bomega

/-- `SkipInstance` gets over a typed select value -/
theorem selText_scan {F} (env : Env F) (m : SelMember) (n0 : Byte) (ns : List Byte) (hn0 : isAlpha n0 = true) (hns : ns.all kwc = true)
    (tok : List Byte) (a : Atom F) (hleaf : LeafCovered env m tok a) (sA sB sC : List Byte) (hsA : sA.all isSpace = true)
    (hsB : sB.all isSpace = true) (hsC : sC.all isSpace = true) : Passes (selText n0 ns sA sB tok sC) := by
  obtain ⟨_, _, _, _, _, _, _, hn0k, _⟩ := alpha_facts hn0
  have hname : Passes (n0 :: ns) :=
    Passes.all_plain _ (all_imp (fun c => kwc_plain) _ (by simp only [List.all_cons, hn0k, Bool.true_and]; exact hns))
  have hC : Passes (sC ++ [41]) := Passes.append (Passes.seps (Seps.blanks sC hsC)) (Passes.plain 41 (by decide))
  obtain ⟨y, ys, hy, hy39⟩ : ∃ y ys, sC ++ [41] = y :: ys ∧ y ≠ 39 :=
    seps_then sC (Seps.blanks sC hsC) 41 [] (fun c => c ≠ 39) (fun c hc h => by rw [h] at hc; exact absurd hc (by decide)) (by decide) (by decide)
  rw [hy] at hC
  have hT : Passes (tok ++ (sC ++ [41])) := by rw [hy]; exact PassesS.append_cons (leafCovered_scan env m tok a hleaf) hC hy39
  have e : selText n0 ns sA sB tok sC = (n0 :: ns) ++ (sA ++ ([40] ++ (sB ++ (tok ++ (sC ++ [41]))))) := by simp [selText]
  rw [e]
  exact Passes.append hname (Passes.append (Passes.seps (Seps.blanks sA hsA))
    (Passes.append (Passes.plain 40 (by decide)) (Passes.append (Passes.seps (Seps.blanks sB hsB)) hT)))

/-- the element kinds of aggregates for which the element loop is proved: INTEGER, REAL, NUMBER, STRING, ENUMERATION /
    BOOLEAN / LOGICAL, BINARY, entity references, typed SELECT values and references, each under the same provisos as
    the attribute of that kind, with any layout before and after the element; and — for aggregates of aggregates, which
    the reader keeps as raw text — any `( balanced text )` (`Bal`: nested parentheses, string literals, any other
    characters but `;` `/` NUL) with any layout before it -/
inductive ElemCovered {F} (env : Env F) : ElemTy → ElemG F → Prop where
  | integer (tok : List Byte) (htok : isInteger tok = true) (hlo : IStream.longMin ≤ denoteInteger tok)
      (hhi : denoteInteger tok < IStream.longMax) (before after : List Byte) (hb : Seps before) (ha : Seps after) :
      ElemCovered env .integer { tok := tok, before := before, after := after, v := .atom (.int (denoteInteger tok)) }
  | real (tok : List Byte) (dec : Decimal) (v : F) (htok : isReal tok = true) (hden : denoteReal tok = some dec)
      (hv : env.ops.ofDecimal dec = some v) (hnn : env.ops.isRealNull v = false)
      (hbuf : env.lex.realBuf = 0 ∨ tok.length < env.lex.realBuf) (before after : List Byte) (hb : Seps before) (ha : Seps after) :
      ElemCovered env .real { tok := tok, before := before, after := after, v := .atom (.real v) }
  | string (b : List Byte) (hsb : StringBody b) (before after : List Byte) (hb : Seps before) (ha : Seps after) :
      ElemCovered env .string { tok := 39 :: (b ++ [39]), before := before, after := after, v := .atom (.str (39 :: (b ++ [39]))) }
  | enum (ty : ElemTy) (het : EnumTy ty) (name : List Byte) (i : Nat) (hne : name ≠ []) (hname : name.all pw = true)
      (hfind : findName (enumKindOf ty).table (name.map toUpper) = some i) (hset : (enumKindOf ty).isUnsetIdx i = false)
      (before after : List Byte) (hb : Seps before) (ha : Seps after) :
      ElemCovered env ty { tok := 46 :: (name ++ [46]), before := before, after := after, v := .atom (.enum i) }
  | binary (hex : List Byte) (hne : hex ≠ []) (hhex : hex.all isXDigit = true)
      (before after : List Byte) (hb : Seps before) (ha : Seps after) :
      ElemCovered env .binary { tok := 34 :: (hex ++ [34]), before := before, after := after, v := .atom (.bin hex) }
  | ref (tg : String) (ds : List Byte) (hne : ds ≠ []) (hds : ds.all isDigit = true)
      (hhi : ((digitsVal ds 0 : Nat) : Int) ≤ IStream.intMax)
      (hfound : refLookup env.lookup tg ((digitsVal ds 0 : Nat) : Int) = .found)
      (before after : List Byte) (hb : Seps before) (ha : Seps after) :
      ElemCovered env (.entity tg) { tok := 35 :: ds, before := before, after := after,
                                     v := .atom (.ref ((digitsVal ds 0 : Nat) : Int)) }
  | generic (body : List Byte) (hb : Bal body) (before : List Byte) (hbf : Seps before) :
      ElemCovered env .generic { tok := 40 :: (body ++ [41]), before := before, after := [],
                                 v := .atom (.undef (40 :: (body ++ [41]))) }
  | number (hnum : env.cfg.numberElemReadsNumber = true) (tok : List Byte) (dec : Decimal) (v : F)
      (htok : isReal tok = true ∨ isInteger tok = true) (hden : denoteReal tok = some dec)
      (hv : env.ops.ofDecimal dec = some v) (hnn : env.ops.isRealNull v = false)
      (before after : List Byte) (hb : Seps before) (ha : Seps after) :
      ElemCovered env .number { tok := tok, before := before, after := after, v := .atom (.real v) }
  | selTyped (n : String) (sd : SelectD) (hsd : env.dict.select? n = some sd) (m : SelMember) (n0 : Byte) (ns : List Byte)
      (hn0 : isAlpha n0 = true) (hns : ns.all kwc = true)
      (hfind : sd.members.find? (fun x => x.name == bytesToString (upperBytes (n0 :: ns)) && !x.ty.isEntity) = some m)
      (tok : List Byte) (av : Atom F) (hleaf : LeafCovered env m tok av) (sA sB sC : List Byte) (hsA : sA.all isSpace = true)
      (hsB : sB.all isSpace = true) (hsC : sC.all isSpace = true) (before after : List Byte) (hb : Seps before) (ha : Seps after) :
      ElemCovered env (.select n) { tok := selText n0 ns sA sB tok sC, before := before, after := after, v := .sel m.name av }
  | selRef (n : String) (sd : SelectD) (hsd : env.dict.select? n = some sd) (m : SelMember)
      (ds : List Byte) (hne : ds ≠ []) (hds : ds.all isDigit = true) (hhi : ((digitsVal ds 0 : Nat) : Int) ≤ IStream.intMax)
      (hasg : assignEntity env sd ((digitsVal ds 0 : Nat) : Int) = some m)
      (before after : List Byte) (hb : Seps before) (ha : Seps after) :
      ElemCovered env (.select n) { tok := 35 :: ds, before := before, after := after,
                                    v := .sel m.name (.ref ((digitsVal ds 0 : Nat) : Int)) }

theorem elemCovered_rd {F} (env : Env F) (hcfg : env.lex.criSkipsComments = true) (hagg : env.cfg.aggrSkipsComments = true)
    (ety : ElemTy) (e : ElemG F) (h : ElemCovered env ety e) : ElemRd env ety e := by
  cases h with
  | integer tok htok hlo hhi before after hb ha => exact ElemRd.integer env hcfg hagg tok htok hlo hhi before after hb ha
  | real tok dec v htok hden hv hnn hbuf before after hb ha =>
    exact ElemRd.real env hcfg hagg tok dec v htok hden hv hnn hbuf before after hb ha
  | string b hsb before after hb ha => exact ElemRd.string env hcfg hagg b hsb before after hb ha
  | enum ty het name i hne hname hfind hset before after hb ha =>
    exact ElemRd.enum env hcfg hagg _ het name i hne hname hfind hset before after hb ha
  | binary hex hne hhex before after hb ha => exact ElemRd.binary env hcfg hagg hex hne hhex before after hb ha
  | ref tg ds hne hds hhi hfound before after hb ha =>
    exact ElemRd.ref env hcfg hagg tg ds hne hds hhi hfound before after hb ha
  | generic body hb before hbf => exact ElemRd.generic env hcfg hagg body hb before hbf
  | number hnum tok dec v htok hden hv hnn before after hb ha =>
    exact ElemRd.number env hcfg hagg hnum tok dec v htok hden hv hnn before after hb ha
  | selTyped n sd hsd m n0 ns hn0 hns hfind tok av hleaf sA sB sC hsA hsB hsC before after hb ha =>
    exact ElemRd.selTyped env hcfg hagg n sd hsd m n0 ns hn0 (all_imp (fun c => kwc_selc) _ hns) hfind tok av
      (leafCovered_rd env hcfg m tok av hleaf) sA sB sC hsA hsB hsC before after hb ha
  | selRef n sd hsd m ds hne hds hhi hasg before after hb ha =>
    exact ElemRd.selRef env hcfg hagg n sd hsd m ds hne hds hhi hasg before after hb ha

theorem elemCovered_scan {F} (env : Env F) (ety : ElemTy) (e : ElemG F) (h : ElemCovered env ety e) : ElemScan e := by
  cases h with
  | integer tok htok hlo hhi before after hb ha => exact ⟨(Passes.all_plain _ (isInteger_plain _ htok)).toS, hb, ha⟩
  | real tok dec v htok hden hv hnn hbuf before after hb ha => exact ⟨(Passes.all_plain _ (isReal_plain _ htok)).toS, hb, ha⟩
  | string b hsb before after hb ha => exact ⟨PassesS.string b hsb, hb, ha⟩
  | enum ty het name i hne hname hfind hset before after hb ha =>
    exact ⟨(Passes.append (a := [46]) (Passes.plain 46 (by decide))
      (Passes.append (Passes.all_plain _ (all_imp (fun c => pw_plain) _ hname)) (Passes.plain 46 (by decide)))).toS, hb, ha⟩
  | binary hex hne hhex before after hb ha =>
    exact ⟨(Passes.append (a := [34]) (Passes.plain 34 (by decide))
      (Passes.append (Passes.all_plain _ (all_imp (fun c => xdigit_plain) _ hhex)) (Passes.plain 34 (by decide)))).toS, hb, ha⟩
  | ref tg ds hne hds hhi hfound before after hb ha =>
    exact ⟨(Passes.append (a := [35]) (Passes.plain 35 (by decide))
      (Passes.all_plain _ (all_imp (fun c => digit_plain) _ hds))).toS, hb, ha⟩
  | generic body hb before hbf => exact ⟨hb.passes_paren.toS, hbf, Seps.blanks [] (by simp)⟩
  | number hnum tok dec v htok hden hv hnn before after hb ha =>
    exact ⟨(Passes.all_plain _ (by rcases htok with h | h; exact isReal_plain _ h; exact isInteger_plain _ h)).toS, hb, ha⟩
  | selTyped n sd hsd m n0 ns hn0 hns hfind tok av hleaf sA sB sC hsA hsB hsC before after hb ha =>
    exact ⟨(selText_scan env m n0 ns hn0 hns tok av hleaf sA sB sC hsA hsB hsC).toS, hb, ha⟩
  | selRef n sd hsd m ds hne hds hhi hasg before after hb ha =>
    exact ⟨(Passes.append (a := [35]) (Passes.plain 35 (by decide))
      (Passes.all_plain _ (all_imp (fun c => digit_plain) _ hds))).toS, hb, ha⟩

/-- the parameter kinds for which `ParamOK` is proved: `$` for an OPTIONAL attribute of any type, `*` for a derived
    attribute, an INTEGER token of the grammar (optional sign, digits) whose value fits `long` and is not the in-band
    null `LONG_MAX`, an entity reference `#digits` (forward or backward) to an instance the manager holds and whose type
    conforms to the attribute's entity type, an aggregate (LIST/SET/BAG/ARRAY) of INTEGER with any number of elements
    (including none) and any layout around every element, a STRING literal of the grammar (every control directive in
    any position, e.g. `'see \S\''`), `.ITEM.` of an ENUMERATION / BOOLEAN / LOGICAL attribute for a declared item (either
    letter case), a BINARY `"hex"`, a REAL token of the grammar whose denotation converts (`FloatOps.ofDecimal`) to a double
    other than the in-band null, a NUMBER token of the `real` or of the `integer` grammar with the same proviso, an
    aggregate of any number of elements (including none) of any of the kinds of `ElemCovered` with any layout around
    every element — each with any layout before and after -/
inductive Covered {F} (env : Env F) : Param F → Prop where
  | dollar (a : AttrD) (hopt : a.optional = true) (hder : a.derived = false) (hred : a.redefining = false)
      (before after : List Byte) (hb : Seps before) (ha : Seps after) :
      Covered env { a := a, v := nullOf a, tok := [36], before := before, after := after }
  | star (a : AttrD) (hder : a.derived = true) (hred : a.redefining = false)
      (before after : List Byte) (hb : Seps before) (ha : Seps after) :
      Covered env { a := a, v := .derived, tok := [42], before := before, after := after }
  | integer (a : AttrD) (hty : a.ty = .one .integer) (hder : a.derived = false) (hred : a.redefining = false)
      (tok : List Byte) (htok : isInteger tok = true) (hlo : IStream.longMin ≤ denoteInteger tok)
      (hhi : denoteInteger tok < IStream.longMax)
      (before after : List Byte) (hb : Seps before) (ha : Seps after) :
      Covered env { a := a, v := .one (.atom (.int (denoteInteger tok))), tok := tok, before := before, after := after }
  | ref (a : AttrD) (tg : String) (hty : a.ty = .one (.entity tg)) (hder : a.derived = false) (hred : a.redefining = false)
      (ds : List Byte) (hne : ds ≠ []) (hds : ds.all isDigit = true) (hhi : ((digitsVal ds 0 : Nat) : Int) ≤ IStream.intMax)
      (hfound : refLookup env.lookup tg ((digitsVal ds 0 : Nat) : Int) = .found)
      (before after : List Byte) (hb : Seps before) (ha : Seps after) :
      Covered env { a := a, v := .one (.atom (.ref ((digitsVal ds 0 : Nat) : Int))), tok := 35 :: ds,
                    before := before, after := after }
  | aggrInt (a : AttrD) (hty : a.ty = .aggr .integer) (hder : a.derived = false) (hred : a.redefining = false)
      (es : List ElemP) (inner : List Byte) (hok : ∀ e ∈ es, ElemOK e) (hin : Seps inner)
      (before after : List Byte) (hb : Seps before) (ha : Seps after) :
      Covered env { a := a, v := .aggr (es.map elemVal), tok := aggrText es inner, before := before, after := after }
  | string (a : AttrD) (hty : a.ty = .one .string) (hder : a.derived = false) (hred : a.redefining = false)
      (b : List Byte) (hb : StringBody b) (before after : List Byte) (hbf : Seps before) (ha : Seps after) :
      Covered env { a := a, v := .one (.atom (.str (39 :: (b ++ [39])))), tok := 39 :: (b ++ [39]),
                    before := before, after := after }
  | enum (a : AttrD) (ty : ElemTy) (hty : a.ty = .one ty) (het : EnumTy ty) (hder : a.derived = false)
      (hred : a.redefining = false) (name : List Byte) (i : Nat) (hne : name ≠ []) (hname : name.all pw = true)
      (hfind : findName (enumKindOf ty).table (name.map toUpper) = some i) (hset : (enumKindOf ty).isUnsetIdx i = false)
      (before after : List Byte) (hbf : Seps before) (ha : Seps after) :
      Covered env { a := a, v := .one (.atom (.enum i)), tok := 46 :: (name ++ [46]), before := before, after := after }
  | binary (a : AttrD) (hty : a.ty = .one .binary) (hder : a.derived = false) (hred : a.redefining = false)
      (hex : List Byte) (hne : hex ≠ []) (hhex : hex.all isXDigit = true)
      (before after : List Byte) (hbf : Seps before) (ha : Seps after) :
      Covered env { a := a, v := .one (.atom (.bin hex)), tok := 34 :: (hex ++ [34]), before := before, after := after }
  | real (a : AttrD) (hty : a.ty = .one .real) (hder : a.derived = false) (hred : a.redefining = false)
      (tok : List Byte) (dec : Decimal) (v : F) (htok : isReal tok = true) (hden : denoteReal tok = some dec)
      (hv : env.ops.ofDecimal dec = some v) (hnn : env.ops.isRealNull v = false)
      (hbuf : env.lex.realBuf = 0 ∨ tok.length < env.lex.realBuf)
      (before after : List Byte) (hbf : Seps before) (ha : Seps after) :
      Covered env { a := a, v := .one (.atom (.real v)), tok := tok, before := before, after := after }
  | aggr (a : AttrD) (ety : ElemTy) (hty : a.ty = .aggr ety) (hder : a.derived = false) (hred : a.redefining = false)
      (es : List (ElemG F)) (inner : List Byte) (hok : ∀ e ∈ es, ElemCovered env ety e) (hin : Seps inner)
      (before after : List Byte) (hb : Seps before) (ha : Seps after) :
      Covered env { a := a, v := .aggr (es.map (·.v)), tok := aggrTextG es inner, before := before, after := after }
  | selTyped (a : AttrD) (n : String) (hty : a.ty = .one (.select n)) (hder : a.derived = false) (hred : a.redefining = false)
      (sd : SelectD) (hsd : env.dict.select? n = some sd) (m : SelMember) (n0 : Byte) (ns : List Byte)
      (hn0 : isAlpha n0 = true) (hns : ns.all kwc = true)
      (hfind : sd.members.find? (fun x => x.name == bytesToString (upperBytes (n0 :: ns)) && !x.ty.isEntity) = some m)
      (tok : List Byte) (av : Atom F) (hleaf : LeafCovered env m tok av) (sA sB sC : List Byte) (hsA : sA.all isSpace = true)
      (hsB : sB.all isSpace = true) (hsC : sC.all isSpace = true) (before after : List Byte) (hb : Seps before) (ha : Seps after) :
      Covered env { a := a, v := .one (.sel m.name av), tok := selText n0 ns sA sB tok sC, before := before, after := after }
  | selRef (a : AttrD) (n : String) (hty : a.ty = .one (.select n)) (hder : a.derived = false) (hred : a.redefining = false)
      (sd : SelectD) (hsd : env.dict.select? n = some sd) (m : SelMember)
      (ds : List Byte) (hne : ds ≠ []) (hds : ds.all isDigit = true) (hhi : ((digitsVal ds 0 : Nat) : Int) ≤ IStream.intMax)
      (hasg : assignEntity env sd ((digitsVal ds 0 : Nat) : Int) = some m)
      (before after : List Byte) (hb : Seps before) (ha : Seps after) :
      Covered env { a := a, v := .one (.sel m.name (.ref ((digitsVal ds 0 : Nat) : Int))), tok := 35 :: ds,
                    before := before, after := after }
  | number (a : AttrD) (hty : a.ty = .one .number) (hder : a.derived = false) (hred : a.redefining = false)
      (tok : List Byte) (dec : Decimal) (v : F) (htok : isReal tok = true ∨ isInteger tok = true)
      (hden : denoteReal tok = some dec) (hv : env.ops.ofDecimal dec = some v) (hnn : env.ops.isRealNull v = false)
      (before after : List Byte) (hbf : Seps before) (ha : Seps after) :
      Covered env { a := a, v := .one (.atom (.real v)), tok := tok, before := before, after := after }

/-- every covered parameter is read to its value wherever it stands -/
theorem covered_ok {F} (env : Env F) (strict : Bool) (hcfg : env.lex.criSkipsComments = true)
    (hagg : env.cfg.aggrSkipsComments = true) (p : Param F) (hc : Covered env p) : ParamOK env strict p := by
  cases hc with
  | dollar a hopt hder hred before after hb ha => exact ParamOK.dollar env strict hcfg a hopt hder hred before after hb ha
  | star a hder hred before after hb ha => exact ParamOK.star env strict hcfg a hder hred before after hb ha
  | integer a hty hder hred tok htok hlo hhi before after hb ha =>
    exact ParamOK.integer env strict hcfg a hty hder hred tok htok hlo hhi before after hb ha
  | ref a tg hty hder hred ds hne hds hhi hfound before after hb ha =>
    exact ParamOK.ref env strict hcfg a tg hty hder hred ds hne hds hhi hfound before after hb ha
  | aggrInt a hty hder hred es inner hok hin before after hb ha =>
    exact ParamOK.aggrInt env strict hcfg hagg a hty hder hred es inner hok hin before after hb ha
  | string a hty hder hred b hb before after hbf ha =>
    exact ParamOK.string env strict hcfg a hty hder hred b hb before after hbf ha
  | enum a ty hty het hder hred name i hne hname hfind hset before after hbf ha =>
    exact ParamOK.enum env strict hcfg a ty hty het hder hred name i hne hname hfind hset before after hbf ha
  | binary a hty hder hred hex hne hhex before after hbf ha =>
    exact ParamOK.binary env strict hcfg a hty hder hred hex hne hhex before after hbf ha
  | real a hty hder hred tok dec v htok hden hv hnn hbuf before after hbf ha =>
    exact ParamOK.real env strict hcfg a hty hder hred tok dec v htok hden hv hnn hbuf before after hbf ha
  | aggr a ety hty hder hred es inner hok hin before after hb ha =>
    refine ⟨hred, ⟨40, (aggrTextG es inner).tail, by cases es <;> rfl, by decide, by decide, by decide⟩, hb, fun l sk d rest hd => ?_⟩
    obtain ⟨sk', _, h⟩ := attr_aggr env strict a ety hty hder hcfg hagg es inner
      (fun e he => elemCovered_rd env hcfg hagg ety e (hok e he)) hin l sk after ha d rest hd
    exact ⟨sk', h⟩
  | selTyped a n hty hder hred sd hsd m n0 ns hn0 hns hfind tok av hleaf sA sB sC hsA hsB hsC before after hb ha =>
    obtain ⟨hn0s, hn047, _, _, _, _, _, _, hn092⟩ := alpha_facts hn0
    refine ⟨hred, ⟨n0, _, rfl, hn0s, hn047, hn092⟩, hb, fun l sk d rest hd => ?_⟩
    obtain ⟨sk', _, h⟩ := attr_select_typed env strict a n hty hder hcfg sd hsd m n0 ns hn0 (all_imp (fun c => kwc_selc) _ hns) hfind
      tok av (leafCovered_rd env hcfg m tok av hleaf) sA sB sC hsA hsB hsC l sk after ha d rest hd
    exact ⟨sk', h⟩
  | selRef a n hty hder hred sd hsd m ds hne hds hhi hasg before after hb ha =>
    exact ⟨hred, ⟨35, ds, rfl, by decide, by decide, by decide⟩, hb, fun l sk d rest hd =>
      ⟨sk, attr_select_ref env strict a n hty hder hcfg sd hsd m ds hne hds hhi hasg l sk after ha d rest hd⟩⟩
  | number a hty hder hred tok dec v htok hden hv hnn before after hbf ha =>
    obtain ⟨c, u, hcu, hcs, _, _, _, h47, h92⟩ := number_head tok htok
    exact ⟨hred, ⟨c, u, hcu, hcs, h47, h92⟩, hbf, fun l sk d rest hd =>
      ⟨sk, attr_number env strict a hty hder hcfg tok dec v htok hden hv hnn l sk after ha d rest hd⟩⟩

/-- the same with the format flag tracked: a covered parameter is read without a message and leaves `skipws` as it was
    or off (STRING) -/
theorem covered_rd {F} (env : Env F) (strict : Bool) (hcfg : env.lex.criSkipsComments = true)
    (hagg : env.cfg.aggrSkipsComments = true) (p : Param F) (hc : Covered env p) : ParamRd env strict p .null := by
  obtain ⟨hred, hhead, hbef, _⟩ := covered_ok env strict hcfg hagg p hc
  refine ⟨hred, hhead, hbef, ?_⟩
  intro l sk d rest hd
  cases hc with
  | dollar a hopt hder hred before after hb ha =>
    exact ⟨sk, Or.inl rfl, by simpa using attr_dollar env strict a hopt hder hcfg l sk after ha d rest hd⟩
  | star a hder hred before after hb ha =>
    exact ⟨sk, Or.inl rfl, by simpa using attr_star env strict a hder hcfg l sk after ha d rest hd⟩
  | integer a hty hder hred tok htok hlo hhi before after hb ha =>
    exact ⟨sk, Or.inl rfl, attr_integer env strict a hty hder hcfg tok htok hlo hhi l sk after ha d rest hd⟩
  | ref a tg hty hder hred ds hne hds hhi hfound before after hb ha =>
    exact ⟨sk, Or.inl rfl, by simpa using attr_ref env strict a tg hty hder hcfg ds hne hds hhi hfound l sk after ha d rest hd⟩
  | aggrInt a hty hder hred es inner hok hin before after hb ha =>
    exact ⟨sk, Or.inl rfl, attr_aggr_int env strict a hty hder hcfg hagg es inner hok hin l sk after ha d rest hd⟩
  | string a hty hder hred b hsb before after hbf ha =>
    exact ⟨false, Or.inr rfl, attr_string env strict a hty hder hcfg b hsb l sk after ha d rest hd⟩
  | enum a ty hty het hder hred name i hne hname hfind hset before after hbf ha =>
    exact ⟨sk, Or.inl rfl, attr_enum env strict a ty hty het hder hcfg name i hne hname hfind hset l sk after ha d rest hd⟩
  | binary a hty hder hred hex hne hhex before after hbf ha =>
    exact ⟨sk, Or.inl rfl, attr_binary env strict a hty hder hcfg hex hne hhex l sk after ha d rest hd⟩
  | real a hty hder hred tok dec v htok hden hv hnn hbuf before after hbf ha =>
    exact ⟨sk, Or.inl rfl, attr_real env strict a hty hder hcfg tok dec v htok hden hv hnn hbuf l sk after ha d rest hd⟩
  | aggr a ety hty hder hred es inner hok hin before after hb ha =>
    exact attr_aggr env strict a ety hty hder hcfg hagg es inner
      (fun e he => elemCovered_rd env hcfg hagg ety e (hok e he)) hin l sk after ha d rest hd
  | selTyped a n hty hder hred sd hsd m n0 ns hn0 hns hfind tok av hleaf sA sB sC hsA hsB hsC before after hb ha =>
    exact attr_select_typed env strict a n hty hder hcfg sd hsd m n0 ns hn0 (all_imp (fun c => kwc_selc) _ hns) hfind
      tok av (leafCovered_rd env hcfg m tok av hleaf) sA sB sC hsA hsB hsC l sk after ha d rest hd
  | selRef a n hty hder hred sd hsd m ds hne hds hhi hasg before after hb ha =>
    exact ⟨sk, Or.inl rfl, attr_select_ref env strict a n hty hder hcfg sd hsd m ds hne hds hhi hasg l sk after ha d rest hd⟩
  | number a hty hder hred tok dec v htok hden hv hnn before after hbf ha =>
    exact ⟨sk, Or.inl rfl, attr_number env strict a hty hder hcfg tok dec v htok hden hv hnn l sk after ha d rest hd⟩

/-- **read (render p ℓ) = p for records over the covered kinds** (`_partial`: redeclared attributes, selects whose member is a
    select or an aggregate and comments inside typed selects are *not* covered by this theorem — for them `ParamOK` is a
    hypothesis of `C01_read_record_of_params`; they are tied by correspondence only).  Every dictionary, every reader
    configuration in which `CheckRemainingInput` and the aggregate element loops skip comments, every layout, any number of parameters. -/
theorem C01_read_record_partial {F} (env : Env F) (strict : Bool) (hcfg : env.lex.criSkipsComments = true)
    (hagg : env.cfg.aggrSkipsComments = true) (ps : List (Param F)) (hne : ps ≠ []) (hc : ∀ p ∈ ps, Covered env p) (l : List Byte) (sk : Bool) (rest : List Byte) :
    ∃ sk', instSTEPread env strict (ps.map (·.a)) (G l (40 :: (renderParams ps ++ rest)) sk) =
      .ok ⟨.null, ps.map (·.v), G ((40 :: renderParams ps).reverse ++ l) rest sk', .null⟩ := by
  exact instSTEPread_params env strict ps hne (fun p hp => covered_ok env strict hcfg hagg p (hc p hp)) l sk rest

/-- the hypotheses are satisfiable: `( /* c */ -17 /**/ , $ )` for (INTEGER, OPTIONAL REAL) -/
def exI : AttrD := { name := "i", ty := .one .integer, optional := false }
def exR : AttrD := { name := "r", ty := .one .real, optional := true }
def exP1 : Param Nat :=
  { a := exI, v := .one (.atom (.int (-17))), tok := q "-17", before := q " /* c */ ", after := q " /**/ " }
def exP2 : Param Nat := { a := exR, v := .one (.atom .unset), tok := [36], before := [], after := q " " }

example (env : Env Nat) : ∀ p ∈ [exP1, exP2], Covered env p := by
  intro p hp
  simp only [List.mem_cons, List.mem_nil_iff, or_false] at hp
  rcases hp with rfl | rfl
  · exact Covered.integer (env := env) exI rfl rfl rfl (q "-17") (by decide) (by decide) (by decide) _ _
      (Seps.comment (q " ") (q " c ") (q " ") (by decide) (by decide) (Seps.blanks _ (by decide)))
      (Seps.comment (q " ") [] (q " ") (by decide) (by decide) (Seps.blanks _ (by decide)))
  · exact Covered.dollar (env := env) exR rfl rfl rfl [] (q " ") (Seps.blanks _ (by decide)) (Seps.blanks _ (by decide))

/-! ### what the writer emits is read back (record level) -/

/-- the two laws of C09 about the executable double arithmetic at `v` (`Props/C09.lean: FloatLaws`, restated here so that
    this file does not depend on C09's property file): `%.15G` of `v` has the shape of a decimal numeral, and the
    decimal it prints converts back to `v` -/
def RealStable {F} (ops : FloatOps F) (v : F) : Prop :=
  G15Shape (ops.fmtG15 v) ∧ ∃ dec, parseFloatText (ops.fmtG15 v) = some dec ∧ ops.ofDecimal dec = some v

theorem writeReal_token {F} (ops : FloatOps F) (v : F) (h : RealStable ops v) :
    isReal (writeReal ops v) = true ∧ ∃ dec, denoteReal (writeReal ops v) = some dec ∧ ops.ofDecimal dec = some v := by
  obtain ⟨hshape, dec, hp, hv⟩ := h
  obtain ⟨sg, ip, fp, ex, hw, hsg, hip1, hip, hfp, hex, hparse⟩ := writeReal_shape ops v hshape
  refine ⟨by rw [hw]; exact isReal_realText sg ip fp ex hsg hip1 hip hfp hex, dec, ?_, hv⟩
  unfold denoteReal
  rw [hw, parse_realText sg ip fp 69 ex hsg hip1 hip hfp (Or.inl rfl) hex, ← hparse, hp]

/-- an entity keyword as the writer emits it: upper-case letters, digits and `_`, starting with a letter -/
def KeywordName (n : String) : Prop :=
  ∃ n0 ns, stringToBytes n = n0 :: ns ∧ isUpper n0 = true ∧ ns.all (fun c => isUpper c || isDigit c || c == 95) = true ∧
    bytesToString (n0 :: ns) = n

theorem upper_keeps {c : Byte} (h : (isUpper c || isDigit c || c == 95) = true) : toUpper c = c := by
  have : isLower c = false := by simp [isUpper, isDigit, isLower] at *; bomega
  simp [toUpper, this]

theorem upper_kwc {c : Byte} (h : (isUpper c || isDigit c || c == 95) = true) : kwc c = true := by
  simp [kwc, isAlnum, isAlpha, isUpper, isLower, isDigit] at *; bomega

theorem keyword_bytes {n : String} (h : KeywordName n) :
    ∃ n0 ns, stringToBytes n = n0 :: ns ∧ isAlpha n0 = true ∧ ns.all kwc = true ∧ bytesToString (upperBytes (n0 :: ns)) = n := by
  obtain ⟨n0, ns, hnb, hn0, hns, hback⟩ := h
  refine ⟨n0, ns, hnb, by simp [isAlpha, hn0], all_imp (fun c hc => upper_kwc hc) _ hns, ?_⟩
  have : upperBytes (n0 :: ns) = n0 :: ns := by
    unfold upperBytes
    conv => rhs; rw [← List.map_id (n0 :: ns)]
    apply List.map_congr_left
    intro c hc
    rcases List.mem_cons.mp hc with rfl | hc
    · exact upper_keeps (by simp [hn0])
    · exact upper_keeps (List.all_eq_true.mp hns c hc)
  rw [this, hback]

/-- the value inside a typed select as it sits in memory, with the text `writeAtomCore` gives it -/
inductive StorableLeaf {F} (env : Env F) (m : SelMember) : Atom F → List Byte → Prop where
  | int (hm : m.ty = .integer) (i : Int) (hlo : IStream.longMin ≤ i) (hhi : i < IStream.longMax) : StorableLeaf env m (.int i) (showInt i)
  | real (hm : m.ty = .real ∨ m.ty = .number) (v : F) (hst : RealStable env.ops v) (hnn : env.ops.isRealNull v = false)
      (hbuf : env.lex.realBuf = 0 ∨ (writeReal env.ops v).length < env.lex.realBuf) : StorableLeaf env m (.real v) (writeReal env.ops v)
  | str (hm : m.ty = .string) (b : List Byte) (hb : StringBody b) : StorableLeaf env m (.str (39 :: (b ++ [39]))) (39 :: (b ++ [39]))
  | bin (hm : m.ty = .binary) (hex : List Byte) (hne : hex ≠ []) (hhex : hex.all isXDigit = true) :
      StorableLeaf env m (.bin hex) (34 :: (hex ++ [34]))
  | enum (het : EnumTy m.ty) (i : Nat) (name : List Byte) (hget : (enumKindOf m.ty).table[i]? = some name)
      (hne : name ≠ []) (hname : name.all pw = true)
      (hfind : findName (enumKindOf m.ty).table (name.map toUpper) = some i) (hset : (enumKindOf m.ty).isUnsetIdx i = false) :
      StorableLeaf env m (.enum i) (46 :: (name ++ [46]))

theorem storableLeaf_spec {F} (env : Env F) (m : SelMember) (a : Atom F) (tok : List Byte) (h : StorableLeaf env m a tok) :
    writeAtomCore env.ops m.ty a = tok ∧ LeafCovered env m tok a := by
  cases h with
  | int hm i hlo hhi =>
    have hs := showInt_spec i
    refine ⟨by simp [writeAtomCore], ?_⟩
    have hc := LeafCovered.integer (env := env) (m := m) hm (showInt i) hs.1 (by rw [hs.2]; exact hlo) (by rw [hs.2]; exact hhi)
    rw [hs.2] at hc; exact hc
  | real hm v hst hnn hbuf =>
    obtain ⟨hreal, dec, hden, hv⟩ := writeReal_token env.ops v hst
    exact ⟨by simp [writeAtomCore], LeafCovered.real hm _ dec v hreal hden hv hnn hbuf⟩
  | str hm b hb => exact ⟨by simp [writeAtomCore], LeafCovered.string hm b hb⟩
  | bin hm hex hne hhex =>
    have he : hex.isEmpty = false := by cases hex <;> simp_all
    exact ⟨by simp [writeAtomCore, writeBinary, he], LeafCovered.binary hm hex hne hhex⟩
  | enum het i name hget hne hname hfind hset =>
    refine ⟨?_, LeafCovered.enum het name i hne hname hfind hset⟩
    rcases het with h | h | ⟨items, h⟩ <;> rw [h] at hget <;> simp only [enumKindOf, EnumKind.table] at hget <;>
      simp [writeAtomCore, h, enumTable, EnumKind.table, List.getD, hget]

/-- aggregate elements as they sit in memory (the scalar kinds of `Storable`, never unset) -/
inductive StorableElem {F} (env : Env F) : ElemTy → Elem F → Prop where
  | int (i : Int) (hlo : IStream.longMin ≤ i) (hhi : i < IStream.longMax) : StorableElem env .integer (.atom (.int i))
  | real (v : F) (hst : RealStable env.ops v) (hnn : env.ops.isRealNull v = false)
      (hbuf : env.lex.realBuf = 0 ∨ (writeReal env.ops v).length < env.lex.realBuf) : StorableElem env .real (.atom (.real v))
  | str (b : List Byte) (hb : StringBody b) : StorableElem env .string (.atom (.str (39 :: (b ++ [39]))))
  | bin (hex : List Byte) (hne : hex ≠ []) (hhex : hex.all isXDigit = true) : StorableElem env .binary (.atom (.bin hex))
  | enum (ty : ElemTy) (het : EnumTy ty) (i : Nat) (name : List Byte) (hget : (enumKindOf ty).table[i]? = some name)
      (hne : name ≠ []) (hname : name.all pw = true)
      (hfind : findName (enumKindOf ty).table (name.map toUpper) = some i) (hset : (enumKindOf ty).isUnsetIdx i = false) :
      StorableElem env ty (.atom (.enum i))
  | ref (tg : String) (id : Int) (h0 : 0 ≤ id) (hhi : id ≤ IStream.intMax) (hfound : refLookup env.lookup tg id = .found) :
      StorableElem env (.entity tg) (.atom (.ref id))

/-- the element as the node writer emits it (no layout) -/
def elemOf {F} (ops : FloatOps F) (cfg : RWCfg) (d : Dict) (ety : ElemTy) (e : Elem F) : ElemG F :=
  { tok := nodeText ops cfg d ety e, before := [], after := [], v := e }

theorem showInt_nonneg' (i : Int) (h0 : 0 ≤ i) :
    ∃ ds, showInt i = ds ∧ ds ≠ [] ∧ ds.all isDigit = true ∧ ((digitsVal ds 0 : Nat) : Int) = i := by
  obtain ⟨h1, h2, h3⟩ := toDigits_spec i.natAbs
  refine ⟨_, rfl, ?_, ?_, ?_⟩ <;> unfold showInt <;> simp only [show ¬ i < 0 from by omega, if_false]
  · exact h3
  · exact h2
  · rw [h1]; omega

theorem storableElem_covered {F} (env : Env F) (cfg : RWCfg) (d : Dict) (ety : ElemTy) (e : Elem F) (h : StorableElem env ety e) :
    ElemCovered env ety (elemOf env.ops cfg d ety e) := by
  have nb : Seps ([] : List Byte) := Seps.blanks [] (by simp)
  cases h with
  | int i hlo hhi =>
    have hs := showInt_spec i
    have ht : nodeText env.ops cfg d .integer (.atom (.int i) : Elem F) = showInt i := by simp [nodeText, nodeWrite, writeAtomCore]
    unfold elemOf; rw [ht]
    have hc := ElemCovered.integer (env := env) (showInt i) hs.1 (by rw [hs.2]; exact hlo) (by rw [hs.2]; exact hhi) [] [] nb nb
    rw [hs.2] at hc; exact hc
  | real v hst hnn hbuf =>
    obtain ⟨hreal, dec, hden, hv⟩ := writeReal_token env.ops v hst
    have ht : nodeText env.ops cfg d .real (.atom (.real v) : Elem F) = writeReal env.ops v := by simp [nodeText, nodeWrite, writeAtomCore]
    unfold elemOf; rw [ht]
    exact ElemCovered.real _ dec v hreal hden hv hnn hbuf [] [] nb nb
  | str b hb =>
    have ht : nodeText env.ops cfg d .string (.atom (.str (39 :: (b ++ [39]))) : Elem F) = 39 :: (b ++ [39]) := by simp [nodeText, nodeWrite]
    unfold elemOf; rw [ht]
    exact ElemCovered.string b hb [] [] nb nb
  | bin hex hne hhex =>
    have he : hex.isEmpty = false := by cases hex <;> simp_all
    have ht : nodeText env.ops cfg d .binary (.atom (.bin hex) : Elem F) = 34 :: (hex ++ [34]) := by
      simp [nodeText, nodeWrite, writeAtomCore, writeBinary, he]
    unfold elemOf; rw [ht]
    exact ElemCovered.binary hex hne hhex [] [] nb nb
  | enum ty het i name hget hne hname hfind hset =>
    have htab : enumTable ety = (enumKindOf ety).table := by
      rcases het with rfl | rfl | ⟨items, rfl⟩ <;> rfl
    have ht : nodeText env.ops cfg d ety (.atom (.enum i) : Elem F) = 46 :: (name ++ [46]) := by
      rcases het with rfl | rfl | ⟨items, rfl⟩ <;> simp only [enumKindOf, EnumKind.table] at hget <;>
        simp [nodeText, nodeWrite, writeAtomCore, enumTable, EnumKind.table, List.getD, hget]
    unfold elemOf; rw [ht]
    exact ElemCovered.enum ety het name i hne hname hfind hset [] [] nb nb
  | ref tg id h0 hhi hfound =>
    obtain ⟨ds, hds, hne, hdig, hval⟩ := showInt_nonneg' id h0
    have ht : nodeText env.ops cfg d (.entity tg) (.atom (.ref id) : Elem F) = 35 :: ds := by
      simp [nodeText, nodeWrite, writeAtomCore, hds]
    unfold elemOf; rw [ht]
    have hc := ElemCovered.ref (env := env) tg ds hne hdig (by rw [hval]; exact hhi) (by rw [hval]; exact hfound) [] [] nb nb
    rw [hval] at hc; exact hc

/-- elements separated by commas between parentheses is the aggregate text without layout -/
theorem aggrTextG_plain {F} (ops : FloatOps F) (cfg : RWCfg) (d : Dict) (ety : ElemTy) (es : List (Elem F)) :
    [40] ++ commaSep (es.map (nodeText ops cfg d ety)) ++ [41] = aggrTextG (es.map (elemOf ops cfg d ety)) [] := by
  cases es with
  | nil => rfl
  | cons e t =>
    simp only [aggrTextG, List.map_cons, List.cons_append, List.nil_append]
    congr 1
    induction t generalizing e with
    | nil => simp [commaSep, renderElemsG, elemOf]
    | cons f u ih =>
      have := ih f
      simp only [List.map_cons, commaSep, renderElemsG] at this ⊢
      simp only [elemOf, List.nil_append, List.append_assoc, List.cons_append] at this ⊢
      rw [← this]

/-- attribute/value pairs of the covered kinds as they sit in memory: unset for an OPTIONAL attribute, derived, an
    INTEGER within `long` minus the in-band null, a STRING in its encoded form `'…'` (what stepcode keeps), a non-empty
    BINARY, a reference to an instance the manager holds and whose type conforms, a REAL / NUMBER at which the double
    arithmetic is stable (`RealStable`) and which is not the in-band null, an ENUMERATION / BOOLEAN / LOGICAL item whose
    name is found at its own index in the table (item names distinct, upper case) -/
inductive Storable {F} (env : Env F) : AttrD → MVal F → Prop where
  | null (a : AttrD) (hopt : a.optional = true) (hder : a.derived = false) (hred : a.redefining = false) : Storable env a (nullOf a)
  | derived (a : AttrD) (hder : a.derived = true) (hred : a.redefining = false) : Storable env a .derived
  | int (a : AttrD) (hty : a.ty = .one .integer) (hder : a.derived = false) (hred : a.redefining = false)
      (i : Int) (hlo : IStream.longMin ≤ i) (hhi : i < IStream.longMax) : Storable env a (.one (.atom (.int i)))
  | str (a : AttrD) (hty : a.ty = .one .string) (hder : a.derived = false) (hred : a.redefining = false)
      (b : List Byte) (hb : StringBody b) : Storable env a (.one (.atom (.str (39 :: (b ++ [39])))))
  | bin (a : AttrD) (hty : a.ty = .one .binary) (hder : a.derived = false) (hred : a.redefining = false)
      (hex : List Byte) (hne : hex ≠ []) (hhex : hex.all isXDigit = true) : Storable env a (.one (.atom (.bin hex)))
  | ref (a : AttrD) (tg : String) (hty : a.ty = .one (.entity tg)) (hder : a.derived = false) (hred : a.redefining = false)
      (id : Int) (h0 : 0 ≤ id) (hhi : id ≤ IStream.intMax) (hfound : refLookup env.lookup tg id = .found) :
      Storable env a (.one (.atom (.ref id)))
  | real (a : AttrD) (hty : a.ty = .one .real ∨ a.ty = .one .number) (hder : a.derived = false) (hred : a.redefining = false)
      (v : F) (hst : RealStable env.ops v) (hnn : env.ops.isRealNull v = false)
      (hbuf : env.lex.realBuf = 0 ∨ (writeReal env.ops v).length < env.lex.realBuf) : Storable env a (.one (.atom (.real v)))
  | enum (a : AttrD) (ty : ElemTy) (hty : a.ty = .one ty) (het : EnumTy ty) (hder : a.derived = false) (hred : a.redefining = false)
      (i : Nat) (name : List Byte) (hget : (enumKindOf ty).table[i]? = some name) (hne : name ≠ []) (hname : name.all pw = true)
      (hfind : findName (enumKindOf ty).table (name.map toUpper) = some i) (hset : (enumKindOf ty).isUnsetIdx i = false) :
      Storable env a (.one (.atom (.enum i)))
  | aggr (a : AttrD) (ety : ElemTy) (hty : a.ty = .aggr ety) (hder : a.derived = false) (hred : a.redefining = false)
      (es : List (Elem F)) (hes : ∀ e ∈ es, StorableElem env ety e) : Storable env a (.aggr es)
  | selTyped (a : AttrD) (n : String) (hty : a.ty = .one (.select n)) (hder : a.derived = false) (hred : a.redefining = false)
      (sd : SelectD) (hsd : env.dict.select? n = some sd) (m : SelMember)
      (hmem : sd.members.find? (·.name == m.name) = some m) (hne : m.ty.isEntity = false)
      (hfind : sd.members.find? (fun x => x.name == m.name && !x.ty.isEntity) = some m) (hkw : KeywordName m.name)
      (av : Atom F) (tok : List Byte) (hleaf : StorableLeaf env m av tok) : Storable env a (.one (.sel m.name av))
  | selRef (a : AttrD) (n : String) (hty : a.ty = .one (.select n)) (hder : a.derived = false) (hred : a.redefining = false)
      (sd : SelectD) (hsd : env.dict.select? n = some sd) (m : SelMember)
      (hmem : sd.members.find? (·.name == m.name) = some m) (tg : String) (hent : m.ty = .entity tg)
      (id : Int) (h0 : 0 ≤ id) (hhi : id ≤ IStream.intMax) (hasg : assignEntity env sd id = some m) :
      Storable env a (.one (.sel m.name (.ref id)))

/-- the parameter a stored value is written as (no layout) -/
def paramOf {F} (ops : FloatOps F) (cfg : RWCfg) (d : Dict) (a : AttrD) (v : MVal F) : Param F :=
  { a := a, v := v, tok := writeAttr ops cfg d a v, before := [], after := [] }

theorem showInt_nonneg (i : Int) (h0 : 0 ≤ i) :
    ∃ ds, showInt i = ds ∧ ds ≠ [] ∧ ds.all isDigit = true ∧ ((digitsVal ds 0 : Nat) : Int) = i := by
  obtain ⟨h1, h2, h3⟩ := toDigits_spec i.natAbs
  refine ⟨_, rfl, ?_, ?_, ?_⟩ <;> unfold showInt <;> simp only [show ¬ i < 0 from by omega, if_false]
  · exact h3
  · exact h2
  · rw [h1]; omega

theorem storable_covered {F} (env : Env F) (cfg : RWCfg) (hsa : cfg.stringNodeAppends = false) (d : Dict) (hd : d = env.dict)
    (a : AttrD) (v : MVal F) (h : Storable env a v) :
    Covered env (paramOf env.ops cfg d a v) := by
  subst hd
  cases h with
  | null hopt hder hred =>
    have : writeAttr env.ops cfg env.dict a (nullOf a : MVal F) = [36] := by
      unfold nullOf; rw [hder]; simp only [Bool.false_eq_true, if_false]
      cases hty : a.ty <;> simp [writeAttr, writeElemAttr, hty]
    unfold paramOf; rw [this]
    exact Covered.dollar a hopt hder hred [] [] (Seps.blanks [] (by simp)) (Seps.blanks [] (by simp))
  | derived hder hred =>
    exact Covered.star a hder hred [] [] (Seps.blanks [] (by simp)) (Seps.blanks [] (by simp))
  | int hty hder hred i hlo hhi =>
    have hs := showInt_spec i
    have : writeAttr env.ops cfg env.dict a (.one (.atom (.int i)) : MVal F) = showInt i := by
      simp [writeAttr, hty, writeElemAttr, writeAtomCore]
    unfold paramOf; rw [this]
    have hc := Covered.integer (env := env) a hty hder hred (showInt i) hs.1 (by rw [hs.2]; exact hlo) (by rw [hs.2]; exact hhi)
      [] [] (Seps.blanks [] (by simp)) (Seps.blanks [] (by simp))
    rw [hs.2] at hc
    exact hc
  | str hty hder hred b hb =>
    have : writeAttr env.ops cfg env.dict a (.one (.atom (.str (39 :: (b ++ [39])))) : MVal F) = 39 :: (b ++ [39]) := by
      simp [writeAttr, hty, writeElemAttr, writeAtomCore]
    unfold paramOf; rw [this]
    exact Covered.string a hty hder hred b hb [] [] (Seps.blanks [] (by simp)) (Seps.blanks [] (by simp))
  | bin hty hder hred hex hne hhex =>
    have he : hex.isEmpty = false := by cases hex <;> simp_all
    have : writeAttr env.ops cfg env.dict a (.one (.atom (.bin hex)) : MVal F) = 34 :: (hex ++ [34]) := by
      simp [writeAttr, hty, writeElemAttr, writeAtomCore, writeBinary, he]
    unfold paramOf; rw [this]
    exact Covered.binary a hty hder hred hex hne hhex [] [] (Seps.blanks [] (by simp)) (Seps.blanks [] (by simp))
  | real hty hder hred v hst hnn hbuf =>
    obtain ⟨hreal, dec, hden, hv⟩ := writeReal_token env.ops v hst
    rcases hty with hty | hty
    · have : writeAttr env.ops cfg env.dict a (.one (.atom (.real v)) : MVal F) = writeReal env.ops v := by
        simp [writeAttr, hty, writeElemAttr, writeAtomCore]
      unfold paramOf; rw [this]
      exact Covered.real a hty hder hred _ dec v hreal hden hv hnn hbuf [] [] (Seps.blanks [] (by simp)) (Seps.blanks [] (by simp))
    · have : writeAttr env.ops cfg env.dict a (.one (.atom (.real v)) : MVal F) = writeReal env.ops v := by
        simp [writeAttr, hty, writeElemAttr, writeAtomCore]
      unfold paramOf; rw [this]
      exact Covered.number a hty hder hred _ dec v (Or.inl hreal) hden hv hnn [] [] (Seps.blanks [] (by simp)) (Seps.blanks [] (by simp))
  | enum ty hty het hder hred i name hget hne hname hfind hset =>
    have htab : enumTable ty = (enumKindOf ty).table := by
      rcases het with rfl | rfl | ⟨items, rfl⟩ <;> rfl
    have : writeAttr env.ops cfg env.dict a (.one (.atom (.enum i)) : MVal F) = 46 :: (name ++ [46]) := by
      simp [writeAttr, hty, writeElemAttr, writeAtomCore, htab, List.getD, hget]
    unfold paramOf; rw [this]
    exact Covered.enum a ty hty het hder hred name i hne hname hfind hset [] [] (Seps.blanks [] (by simp)) (Seps.blanks [] (by simp))
  | aggr ety hty hder hred es hes =>
    have : writeAttr env.ops cfg env.dict a (.aggr es : MVal F) = aggrTextG (es.map (elemOf env.ops cfg env.dict ety)) [] := by
      simp only [writeAttr, hty]
      rw [C01_aggregate_written_elementwise env.ops cfg env.dict ety es (Or.inl hsa), aggrTextG_plain]
    unfold paramOf; rw [this]
    have hc := Covered.aggr (env := env) a ety hty hder hred (es.map (elemOf env.ops cfg env.dict ety)) []
      (by intro e he; obtain ⟨x, hx, rfl⟩ := List.mem_map.mp he; exact storableElem_covered env cfg env.dict ety x (hes x hx))
      (Seps.blanks [] (by simp)) [] [] (Seps.blanks [] (by simp)) (Seps.blanks [] (by simp))
    have hv : (es.map (elemOf env.ops cfg env.dict ety)).map (·.v) = es := by simp [List.map_map, Function.comp_def, elemOf]
    rw [hv] at hc
    exact hc
  | selTyped n hty hder hred sd hsd m hmem hne hfind hkw av tok hleaf =>
    obtain ⟨n0, ns, hnb, hn0, hns, hback⟩ := keyword_bytes hkw
    obtain ⟨hw, hlc⟩ := storableLeaf_spec env m av tok hleaf
    have hmt : memberTy env.dict (.select n) m.name = m.ty := by simp [memberTy, hsd, hmem]
    have : writeAttr env.ops cfg env.dict a (.one (.sel m.name av) : MVal F) = selText n0 ns [] [] tok [] := by
      simp only [writeAttr, hty, writeElemAttr, writeSelect, hmt]
      cases hmty : m.ty <;> simp_all [ElemTy.isEntity, selText]
    unfold paramOf; rw [this]
    exact Covered.selTyped a n hty hder hred sd hsd m n0 ns hn0 hns (by rw [hback]; exact hfind) tok av hlc [] [] [] (by simp) (by simp) (by simp)
      [] [] (Seps.blanks [] (by simp)) (Seps.blanks [] (by simp))
  | selRef n hty hder hred sd hsd m hmem tg hent id h0 hhi hasg =>
    obtain ⟨ds, hds, hne, hdig, hval⟩ := showInt_nonneg id h0
    have hmt : memberTy env.dict (.select n) m.name = m.ty := by simp [memberTy, hsd, hmem]
    have : writeAttr env.ops cfg env.dict a (.one (.sel m.name (.ref id)) : MVal F) = 35 :: ds := by
      simp [writeAttr, hty, writeElemAttr, writeSelect, hmt, hent, writeAtomCore, hds]
    unfold paramOf; rw [this]
    have hc := Covered.selRef (env := env) a n hty hder hred sd hsd m ds hne hdig (by rw [hval]; exact hhi) (by rw [hval]; exact hasg)
      [] [] (Seps.blanks [] (by simp)) (Seps.blanks [] (by simp))
    rw [hval] at hc
    exact hc
  | ref tg hty hder hred id h0 hhi hfound =>
    obtain ⟨ds, hds, hne, hdig, hval⟩ := showInt_nonneg id h0
    have : writeAttr env.ops cfg env.dict a (.one (.atom (.ref id)) : MVal F) = 35 :: ds := by
      simp [writeAttr, hty, writeElemAttr, writeAtomCore, hds]
    unfold paramOf; rw [this]
    have hc := Covered.ref (env := env) a tg hty hder hred ds hne hdig (by rw [hval]; exact hhi) (by rw [hval]; exact hfound)
      [] [] (Seps.blanks [] (by simp)) (Seps.blanks [] (by simp))
    rw [hval] at hc
    exact hc

/-- attribute list and value list of a record whose every pair is storable -/
inductive StorableRec {F} (env : Env F) : List AttrD → List (MVal F) → Prop where
  | one (a : AttrD) (v : MVal F) (h : Storable env a v) : StorableRec env [a] [v]
  | cons (a : AttrD) (v : MVal F) (as : List AttrD) (vs : List (MVal F)) (h : Storable env a v) (ht : StorableRec env as vs) :
      StorableRec env (a :: as) (v :: vs)

def paramsOf {F} (ops : FloatOps F) (cfg : RWCfg) (d : Dict) : List AttrD → List (MVal F) → List (Param F)
  | a :: as, v :: vs => paramOf ops cfg d a v :: paramsOf ops cfg d as vs
  | _, _ => []

theorem storable_red {F} {env : Env F} {a : AttrD} {v : MVal F} (h : Storable env a v) : a.redefining = false := by
  cases h <;> assumption

theorem paramsOf_spec {F} (env : Env F) (cfg : RWCfg) (hsa : cfg.stringNodeAppends = false) (d : Dict) (hd : d = env.dict)
    (as : List AttrD) (vs : List (MVal F)) (h : StorableRec env as vs) :
    paramsOf env.ops cfg d as vs ≠ [] ∧ (paramsOf env.ops cfg d as vs).map (·.a) = as ∧ (paramsOf env.ops cfg d as vs).map (·.v) = vs ∧
    (∀ p ∈ paramsOf env.ops cfg d as vs, Covered env p) ∧
    (∀ i, writeAttrsSimple env.ops cfg d (i + 1) as vs ++ [41] = 44 :: renderParams (paramsOf env.ops cfg d as vs)) ∧
    writeAttrsSimple env.ops cfg d 0 as vs ++ [41] = renderParams (paramsOf env.ops cfg d as vs) := by
  induction h with
  | one a v h =>
    have hr := storable_red h
    refine ⟨by simp [paramsOf], by simp [paramsOf, paramOf], by simp [paramsOf, paramOf], ?_, ?_, ?_⟩
    · intro p hp
      simp only [paramsOf, List.mem_cons, List.mem_nil_iff, or_false] at hp
      subst hp
      exact storable_covered env cfg hsa d hd a v h
    · intro i
      simp [writeAttrsSimple, hr, paramsOf, renderParams, paramOf]
    · simp [writeAttrsSimple, hr, paramsOf, renderParams, paramOf]
  | cons a v as vs h ht ih =>
    have hr := storable_red h
    obtain ⟨h1, h2, h3, h4, h5, _⟩ := ih
    refine ⟨by simp [paramsOf], by simp [paramsOf, paramOf, h2], by simp [paramsOf, paramOf, h3], ?_, ?_, ?_⟩
    · intro p hp
      simp only [paramsOf, List.mem_cons] at hp
      rcases hp with rfl | hp
      · exact storable_covered env cfg hsa d hd a v h
      · exact h4 p hp
    · intro i
      have hne : ∃ q qs, paramsOf env.ops cfg d as vs = q :: qs := by
        cases hq : paramsOf env.ops cfg d as vs with
        | nil => exact absurd hq h1
        | cons q qs => exact ⟨q, qs, rfl⟩
      obtain ⟨q, qs, hq⟩ := hne
      have := h5 (i + 1)
      simp only [writeAttrsSimple, hr, Bool.false_eq_true, if_false, paramsOf, hq, renderParams, paramOf] at this ⊢
      simp [List.append_assoc, this, hq]
    · have hne : ∃ q qs, paramsOf env.ops cfg d as vs = q :: qs := by
        cases hq : paramsOf env.ops cfg d as vs with
        | nil => exact absurd hq h1
        | cons q qs => exact ⟨q, qs, rfl⟩
      obtain ⟨q, qs, hq⟩ := hne
      have := h5 0
      simp only [writeAttrsSimple, hr, Bool.false_eq_true, if_false, paramsOf, hq, renderParams, paramOf] at this ⊢
      simp [List.append_assoc, this, hq]

/-- **read ∘ write at record level** (`_partial`: the kinds of `Storable` — `$` on OPTIONAL attributes, `*` on derived ones,
    INTEGER values within `long` minus the sentinel, STRINGs, BINARYs, references): what `SDAI_Application_instance::STEPwrite` emits for the parameter
    list of a record is read back by `SDAI_Application_instance::STEPread` to exactly the stored values with severity
    NULL, wherever the record stands in a file; hence writing again reproduces the same bytes. -/
theorem C01_record_write_read_partial {F} (env : Env F) (strict : Bool) (hcfg : env.lex.criSkipsComments = true)
    (hagg : env.cfg.aggrSkipsComments = true) (cfg : RWCfg) (hsa : cfg.stringNodeAppends = false) (as : List AttrD) (vs : List (MVal F)) (h : StorableRec env as vs) (l : List Byte) (sk : Bool) (rest : List Byte) :
    ∃ s', instSTEPread env strict as
        (G l (40 :: (writeAttrsSimple env.ops cfg env.dict 0 as vs ++ 41 :: rest)) sk) = .ok ⟨.null, vs, s', .null⟩ := by
  obtain ⟨hne, hma, hmv, hcov, _, h0⟩ := paramsOf_spec env cfg hsa env.dict rfl as vs h
  obtain ⟨sk', hr⟩ := C01_read_record_partial env strict hcfg hagg (paramsOf env.ops cfg env.dict as vs) hne hcov l sk rest
  rw [hma, hmv] at hr
  have e : writeAttrsSimple env.ops cfg env.dict 0 as vs ++ 41 :: rest =
      renderParams (paramsOf env.ops cfg env.dict as vs) ++ rest := by
    rw [← h0]; simp
  rw [e]
  exact ⟨_, hr⟩


/-! ### the whole data section: two passes, every layout -/

/-- `SkipInstance` of pass 1 gets over the token of every covered kind -/
theorem covered_scan {F} (env : Env F) (p : Param F) (h : Covered env p) : ParamScan p := by
  cases h with
  | dollar a hopt hder hred before after hb ha => exact ⟨(Passes.plain 36 (by decide)).toS, hb, ha⟩
  | star a hder hred before after hb ha => exact ⟨(Passes.plain 42 (by decide)).toS, hb, ha⟩
  | integer a hty hder hred tok htok hlo hhi before after hb ha =>
    exact ⟨(Passes.all_plain _ (isInteger_plain _ htok)).toS, hb, ha⟩
  | ref a tg hty hder hred ds hne hds hhi hfound before after hb ha =>
    exact ⟨(Passes.append (a := [35]) (Passes.plain 35 (by decide))
      (Passes.all_plain _ (all_imp (fun c => digit_plain) _ hds))).toS, hb, ha⟩
  | aggrInt a hty hder hred es inner hok hin before after hb ha => exact ⟨(Passes.aggrText es inner hok hin).toS, hb, ha⟩
  | string a hty hder hred b hb before after hbf ha => exact ⟨PassesS.string b hb, hbf, ha⟩
  | enum a ty hty het hder hred name i hne hname hfind hset before after hbf ha =>
    exact ⟨(Passes.append (a := [46]) (Passes.plain 46 (by decide))
      (Passes.append (Passes.all_plain _ (all_imp (fun c => pw_plain) _ hname)) (Passes.plain 46 (by decide)))).toS, hbf, ha⟩
  | binary a hty hder hred hex hne hhex before after hbf ha =>
    exact ⟨(Passes.append (a := [34]) (Passes.plain 34 (by decide))
      (Passes.append (Passes.all_plain _ (all_imp (fun c => xdigit_plain) _ hhex)) (Passes.plain 34 (by decide)))).toS, hbf, ha⟩
  | real a hty hder hred tok dec v htok hden hv hnn hbuf before after hbf ha =>
    exact ⟨(Passes.all_plain _ (isReal_plain _ htok)).toS, hbf, ha⟩
  | aggr a ety hty hder hred es inner hok hin before after hb ha =>
    exact ⟨(Passes.aggrTextG es inner (fun e he => elemCovered_scan env ety e (hok e he)) hin).toS, hb, ha⟩
  | selTyped a n hty hder hred sd hsd m n0 ns hn0 hns hfind tok av hleaf sA sB sC hsA hsB hsC before after hb ha =>
    exact ⟨(selText_scan env m n0 ns hn0 hns tok av hleaf sA sB sC hsA hsB hsC).toS, hb, ha⟩
  | selRef a n hty hder hred sd hsd m ds hne hds hhi hasg before after hb ha =>
    exact ⟨(Passes.append (a := [35]) (Passes.plain 35 (by decide))
      (Passes.all_plain _ (all_imp (fun c => digit_plain) _ hds))).toS, hb, ha⟩
  | number a hty hder hred tok dec v htok hden hv hnn before after hbf ha =>
    exact ⟨(Passes.all_plain _ (by rcases htok with h | h; exact isReal_plain _ h; exact isInteger_plain _ h)).toS, hbf, ha⟩

/-- one record `#id = NAME ( parameters ) ;` of the fragment, with the layout that follows its `;`: the id is a
    non-empty digit string whose value fits `int`; the keyword (either letter case) names a non-abstract entity of the
    dictionary; the parameters are, in order, those of the entity's attributes (inherited ones first), each of a covered
    kind; between any two tokens stands any sequence of blanks and comments -/
def RecCovered {F} (env : Env F) (rg : Rec F × List Byte) : Prop :=
  rg.1.Lex ∧ Seps rg.2 ∧ ∃ e, env.dict.entity? rg.1.name = some e ∧ e.abstract = false ∧ e.attrs = rg.1.ps.map (·.a) ∧
    ∀ q ∈ rg.1.ps, Covered env q

/-- **read (render p ℓ) = p at file level** (`_partial`, see `Covered` for the parameter kinds and `RecCovered` for the
    records; not covered: redeclared attributes, selects whose member is a select or an aggregate, subtype/supertype
    records in external mapping, entities without attributes, user-defined entities, scopes, record ids above INT_MAX,
    layout between `#` and the id).  For every dictionary,
    every reader configuration in which the comment repairs are present (they are in the source: see the
    `C01_source_*` theorems), either strictness, every number of records with pairwise different ids, every layout
    between any two tokens of the section, forward and backward references alike (the lookup is the manager pass 1
    has built from *all* records):  `ReadData1` creates one instance per record, `ReadData2` reads every parameter
    to the value its token denotes, the file's severity is NULL (p21read exits 0), nothing is reported, and every
    instance is counted valid. -/
theorem C01_read_file_partial {F} (ops : FloatOps F) (lex : LexCfg) (cfg : RWCfg) (d : Dict) (strict : Bool)
    (hskip : cfg.skipInstanceSkipsComments = true) (hcri : lex.criSkipsComments = true) (hagg : cfg.aggrSkipsComments = true)
    (rs : List (Rec F × List Byte)) (g0 sp gE after : List Byte) (hg0 : Seps g0) (hsp : sp.all isSpace = true) (hgE : Seps gE)
    (hnd : (rs.map (·.1.id)).Nodup)
    (hrec : ∀ rg ∈ rs, RecCovered { ops := ops, lex := lex, cfg := cfg, dict := d,
                                    lookup := Mgr.lookup d ({ insts := rs.map (mkInst d) } : Mgr F) } rg) :
    ∃ res, readDataSection ops lex cfg d strict false
        (g0 ++ renderRecs rs (endsec sp (gE ++ (endIso ++ 59 :: after)))) = .ok res ∧
      res.mgr.insts = rs.map finInst ∧ res.sev = .null ∧ res.ret = .null ∧ exitStatus res.sev = 0 ∧
      res.created = rs.length ∧ res.notCreated = 0 ∧ res.valid = rs.length ∧ res.invalid = 0 ∧ res.incomplete = 0 ∧
      ∀ x ∈ res.reported, x = .null := by
  obtain ⟨res, h, h1, h2, h3, h4, h5, h6, h7, h8, h9⟩ :=
    readDataSection_recs ops lex cfg hskip d strict sp _ hsp (tailOK_endIso gE hgE after) rs g0 hg0
      (by
        intro rg hrg
        obtain ⟨hl, hg, e, he, habs, _, hcov⟩ := hrec rg hrg
        exact ⟨hl, hg, fun q hq => covered_scan _ q (hcov q hq), e, he, habs⟩)
      hnd
      (by
        intro rg hrg
        obtain ⟨hl, hg, e, he, _, hat, hcov⟩ := hrec rg hrg
        refine ⟨hl, hg, e, he, hat, ?_⟩
        exact fun q hq => covered_ok _ strict hcri hagg q (hcov q hq))
  exact ⟨res, h, h1, h2, h3, by rw [h2]; rfl, h4, h5, h6, h7, h8, h9⟩

/-- in the source as it is now the three repairs are present -/
theorem C01_source_skip_instance_skips_comments : Generated.rwCfg.skipInstanceSkipsComments = true := by decide

/-- … `ReadComment` reads comments of any length (repair C01-9): the model's `readComment`, which has no length bound, is the
    code's reader, and "any comment" in `Seps` needs no bound -/
theorem C01_source_comments_of_any_length : Generated.rwCfg.commentsOfAnyLength = true := by decide

/-- … and the elements of aggregates of NUMBER are read as NUMBERs (repair C01-6) -/
theorem C01_source_number_elements_read_as_numbers : Generated.rwCfg.numberElemReadsNumber = true := by decide

/-! ### externally mapped (subtype/supertype) records: `STEPcomplex::STEPread` -/

/-- a part `KEYWORD blanks ( parameters ) blanks` of an externally mapped record over the covered kinds: the keyword (either
    letter case) names an entity of the dictionary, the parameters are those of the entity's *own* attributes — or the
    entity has none and the parentheses hold layout only -/
inductive CPartCovered {F} (env : Env F) : CPart F → Prop where
  | params (n0 : Byte) (ns sA sB : List Byte) (hn0 : isAlpha n0 = true) (hns : ns.all kwc = true)
      (hsA : sA.all isSpace = true) (hsB : sB.all isSpace = true) (ed : EntityD)
      (hent : env.dict.entity? (bytesToString (upperBytes (n0 :: ns))) = some ed) (ps : List (Param F)) (hne : ps ≠ [])
      (hattrs : ed.ownAttrs = ps.map (·.a)) (hcov : ∀ p ∈ ps, Covered env p) :
      CPartCovered env { n0 := n0, ns := ns, sA := sA, body := renderParams ps, sB := sB, vals := ps.map (·.v) }
  | empty (n0 : Byte) (ns sA sB : List Byte) (hn0 : isAlpha n0 = true) (hns : ns.all kwc = true)
      (hsA : sA.all isSpace = true) (hsB : sB.all isSpace = true) (ed : EntityD)
      (hent : env.dict.entity? (bytesToString (upperBytes (n0 :: ns))) = some ed) (hattrs : ed.ownAttrs = [])
      (inner : List Byte) (hin : Seps inner) :
      CPartCovered env { n0 := n0, ns := ns, sA := sA, body := inner ++ [41], sB := sB, vals := [] }

/-- **an externally mapped record is read part by part** (`_partial`, record level: pass 2 only; blanks — not comments, see
    the finding `layout:comment@cx` — between the parts and around their parentheses; any layout inside the parentheses;
    parameter kinds of `Covered`).  `STEPcomplex::STEPread` on `( PART(…) PART(…) … )`, the parts in any order and any
    number, each naming a part the instance has: every part's own attributes are read to the values of their tokens,
    severity NULL, the stream rests after the closing parenthesis.  Not proved: pass 1 for such records
    (`CreateSubSuperInstance`: the sorted part list and the table of legal combinations) and hence the file level. -/
theorem C01_read_complex_record_partial {F} (env : Env F) (strict : Bool) (hcfg : env.lex.criSkipsComments = true)
    (hagg : env.cfg.aggrSkipsComments = true) (parts : List (MPart F)) (cs : List (CPart F))
    (hcov : ∀ c ∈ cs, CPartCovered env c) (hnames : ∀ c ∈ cs, c.name ∈ parts.map (·.name))
    (sp0 : List Byte) (hsp0 : sp0.all isSpace = true) (l : List Byte) (sk : Bool) (rest : List Byte) :
    ∃ l' sk', complexSTEPread env strict parts (G l (40 :: (sp0 ++ (renderCParts cs ++ 41 :: rest))) sk) =
      .ok ⟨.null, cs.foldl (fun ps c => setPart ps c.name c.vals) parts, G l' rest sk'⟩ := by
  apply complexSTEPread_parts env strict parts cs _ hnames sp0 hsp0
  intro c hc
  cases hcov c hc with
  | params n0 ns sA sB hn0 hns hsA hsB ed hent ps hne hattrs hcv =>
    refine ⟨hn0, hns, hsA, hsB, ed, hent, ?_⟩
    intro l sk rest
    rw [hattrs]
    exact C01_read_record_partial env strict hcfg hagg ps hne hcv l sk rest
  | empty n0 ns sA sB hn0 hns hsA hsB ed hent hattrs inner hin =>
    refine ⟨hn0, hns, hsA, hsB, ed, hent, ?_⟩
    intro l sk rest
    refine ⟨sk, ?_⟩
    rw [hattrs]
    have := C01_read_empty_record env strict inner hin l rest sk
    simpa using this

/-- `CPartCovered` gives what `STEPcomplex::STEPread` needs of a part -/
theorem cpartCovered_ok {F} (env : Env F) (strict : Bool) (hcfg : env.lex.criSkipsComments = true)
    (hagg : env.cfg.aggrSkipsComments = true) (c : CPart F) (h : CPartCovered env c) : CPartOK env strict c := by
  cases h with
  | params n0 ns sA sB hn0 hns hsA hsB ed hent ps hne hattrs hcv =>
    refine ⟨hn0, hns, hsA, hsB, ed, hent, ?_⟩
    intro l sk rest
    rw [hattrs]
    exact C01_read_record_partial env strict hcfg hagg ps hne hcv l sk rest
  | empty n0 ns sA sB hn0 hns hsA hsB ed hent hattrs inner hin =>
    refine ⟨hn0, hns, hsA, hsB, ed, hent, ?_⟩
    intro l sk rest
    refine ⟨sk, ?_⟩
    rw [hattrs]
    have := C01_read_empty_record env strict inner hin l rest sk
    simpa using this

/-- **an externally mapped record through both passes** (`_partial`, record level): for a record
    `#id = ( PART(…) PART(…) … ) ;` - any layout around `=` and before `;`, blanks between the parts and around their
    parentheses, every part's parameter list balanced text without comments (`CPartScan`: what `SkipSimpleRecord` steps over)
    over the parameter kinds of `Covered` (`CPartCovered`), no layout between the outer `(` and the first part - whose sorted
    set of known part names is a legal combination of the dictionary: (1) `CreateInstance` (pass 1, any manager that does not
    hold the id) creates the complex instance with the parts sorted by name and every attribute unset, and leaves the stream
    at the token behind the record's `;`; (2) `ReadInstance` (pass 2, any state whose manager holds that instance) reads
    every part to the values of its tokens, severity NULL, the instance complete.  Not proved: the composition with the
    loops of both passes over a whole data section (the loop lemmas are stated for internally mapped records). -/
theorem C01_complex_record_both_passes_partial {F} (ops : FloatOps F) (lex : LexCfg) (cfg : RWCfg) (d : Dict) (strict : Bool)
    (hskip : cfg.skipInstanceSkipsComments = true) (hcri : lex.criSkipsComments = true) (hagg : cfg.aggrSkipsComments = true)
    (hrep : cfg.complexReportsError = true) (r : CRec F) (hlex : r.Lex)
    (hlegal : d.complexSets.contains (sortNames ((r.parts.map (·.name)).filter (fun n => (d.entity? n).isSome))) = true)
    (hknown : ∀ c ∈ r.parts, (d.entity? c.name).isSome = true) :
    (∀ (m : Mgr F), m.find? r.id = none → ∀ (l g : List Byte), Seps g → ∀ (c : Byte) (k : List Byte),
        isSpace c = false → c ≠ 47 → c ≠ 92 →
        ∃ l', createInstance cfg d m (G l (r.text (g ++ c :: k)) false) = .ok (some (mkCInst d r), G l' (c :: k) false)) ∧
    (∀ (st : P2 F), st.mgr.find? r.id = some (mkCInst d r) →
        (∀ c ∈ r.parts, CPartCovered { ops := ops, lex := lex, cfg := cfg, dict := d, lookup := Mgr.lookup d st.mgr } c) →
        ∀ (l rest : List Byte) (sk : Bool), st.s = G l (r.text rest) sk →
        ∃ l' sk', readInstance ops lex cfg d strict st =
          .ok { s := G l' rest sk',
                inst := some { mkCInst d r with parts := r.parts.foldl (fun ps c => setPart ps c.name c.vals) (mkCInst d r).parts,
                                                state := .complete },
                reported := some .null, left := some .null }) := by
  refine ⟨fun m hnone l g hg c k hc h47 h92 => createInstance_crec cfg hskip d m r hlex hnone hlegal l g hg c k hc h47 h92, ?_⟩
  intro st hfind hcov l rest sk hs
  refine readInstance_crec ops lex cfg d strict st hrep r hlex l rest sk hs (mkCInst d r) hfind rfl rfl
    (fun c hc => cpartCovered_ok _ _ hcri hagg c (hcov c hc)) ?_
  intro c hc
  simp only [mkCInst, List.map_map, Function.comp_def, List.map_id']
  -- the part's name is known, so it survives the filter, and sorting keeps it
  have hmem : c.name ∈ (r.parts.map (·.name)).filter (fun n => (d.entity? n).isSome) :=
    List.mem_filter.mpr ⟨List.mem_map_of_mem (f := fun x : CPart F => x.name) hc, hknown c hc⟩
  have hsort : ∀ (ns : List String) (n : String), n ∈ ns → n ∈ sortNames ns := by
    intro ns
    induction ns with
    | nil => intro n h; cases h
    | cons x t ih =>
      intro n h
      have hins : ∀ (a : String) (l : List String) (b : String), b = a ∨ b ∈ l → b ∈ insertSorted a l := by
        intro a l
        induction l with
        | nil => intro b hb; rcases hb with rfl | hb <;> simp_all [insertSorted]
        | cons y u ihu =>
          intro b hb
          unfold insertSorted
          split
          · rcases hb with rfl | hb
            · simp
            · exact List.mem_cons_of_mem _ hb
          · rcases hb with rfl | hb
            · exact List.mem_cons_of_mem _ (ihu _ (Or.inl rfl))
            · rcases List.mem_cons.mp hb with rfl | hb
              · simp
              · exact List.mem_cons_of_mem _ (ihu _ (Or.inr hb))
      show n ∈ insertSorted x (sortNames t)
      rcases List.mem_cons.mp h with rfl | h
      · exact hins _ _ _ (Or.inl rfl)
      · exact hins _ _ _ (Or.inr (ih n h))
  exact hsort _ _ hmem

/-! ### write ∘ read at file level -/

/-- an instance of the fragment as it sits in memory: internal mapping, a file id within `int`, a non-abstract entity
    with at least one attribute, every value `Storable` -/
def StorableInst {F} (env : Env F) (i : MInst F) : Prop :=
  0 ≤ i.id ∧ i.id ≤ IStream.intMax ∧ i.complex = false ∧
  ∃ p e, i.parts = [p] ∧ env.dict.entity? p.name = some e ∧ e.abstract = false ∧ KeywordName p.name ∧
    StorableRec env e.attrs p.vals

/-- the record `SDAI_Application_instance::STEPwrite` emits for an instance, and the new-line after its `;` -/
def recOf {F} (ops : FloatOps F) (cfg : RWCfg) (d : Dict) (i : MInst F) : Rec F × List Byte :=
  match i.parts with
  | p :: _ =>
    ({ ds := showInt i.id, s1 := [], s2 := [], n0 := (stringToBytes p.name).headD 0, ns := (stringToBytes p.name).tail, s3 := [],
       ps := paramsOf ops cfg d (match d.entity? p.name with | some e => e.attrs | none => []) p.vals, s4 := [] }, [10])
  | [] => ({ ds := [], s1 := [], s2 := [], n0 := 0, ns := [], s3 := [], ps := [], s4 := [] }, [])

theorem recOf_spec {F} (env : Env F) (cfg : RWCfg) (hsa : cfg.stringNodeAppends = false) (i : MInst F) (h : StorableInst env i) :
    (recOf env.ops cfg env.dict i).1.Lex ∧ Seps (recOf env.ops cfg env.dict i).2 ∧ (recOf env.ops cfg env.dict i).1.id = i.id ∧
    (∃ p e, i.parts = [p] ∧ (recOf env.ops cfg env.dict i).1.name = p.name ∧ env.dict.entity? p.name = some e ∧ e.abstract = false ∧
      e.attrs = (recOf env.ops cfg env.dict i).1.ps.map (·.a) ∧ (recOf env.ops cfg env.dict i).1.ps.map (·.v) = p.vals ∧
      ∀ q ∈ (recOf env.ops cfg env.dict i).1.ps, Covered env q) ∧
    ∀ K, 35 :: (recOf env.ops cfg env.dict i).1.text ((recOf env.ops cfg env.dict i).2 ++ K) = writeInst env.ops cfg env.dict i ++ K := by
  obtain ⟨h0, hhi, hcx, p, e, hparts, hent, habs, ⟨n0, ns, hnb, hn0, hns, hback⟩, hrec⟩ := h
  obtain ⟨ds, hds, hne, hdig, hval⟩ := showInt_nonneg i.id h0
  obtain ⟨hp1, hpa, hpv, hpc, _, hp0⟩ := paramsOf_spec env cfg hsa env.dict rfl e.attrs p.vals hrec
  have hrec' : recOf env.ops cfg env.dict i =
      ({ ds := ds, s1 := [], s2 := [], n0 := n0, ns := ns, s3 := [], ps := paramsOf env.ops cfg env.dict e.attrs p.vals, s4 := [] }, [10]) := by
    simp [recOf, hparts, hent, hnb, hds]
  rw [hrec']
  refine ⟨⟨hne, hdig, by show ((digitsVal ds 0 : Nat) : Int) ≤ _; rw [hval]; exact hhi, Seps.blanks [] (by simp),
    Seps.blanks [] (by simp), Seps.blanks [] (by simp), Seps.blanks [] (by simp),
    by simp [isAlpha, hn0], all_imp (fun c hc => upper_kwc hc) _ hns, hp1⟩, Seps.blanks [10] (by decide), hval, ?_, ?_⟩
  · refine ⟨p, e, hparts, ?_, hent, habs, hpa.symm, hpv, hpc⟩
    show bytesToString (upperBytes (n0 :: ns)) = p.name
    have : upperBytes (n0 :: ns) = n0 :: ns := by
      unfold upperBytes
      conv => rhs; rw [← List.map_id (n0 :: ns)]
      apply List.map_congr_left
      intro c hc
      rcases List.mem_cons.mp hc with rfl | hc
      · exact upper_keeps (by simp [hn0])
      · exact upper_keeps (List.all_eq_true.mp hns c hc)
    rw [this, hback]
  · intro K
    have hw : writeInst env.ops cfg env.dict i = 35 :: (ds ++ 61 :: (n0 :: (ns ++ 40 ::
        (writeAttrsSimple env.ops cfg env.dict 0 e.attrs p.vals ++ [41, 59, 10])))) := by
      have e3 : stringToBytes ");\n" = [41, 59, 10] := by decide
      simp [writeInst, hcx, hparts, hent, hnb, hds, e3]
    rw [hw]
    have hp0' : renderParams (paramsOf env.ops cfg env.dict e.attrs p.vals) = writeAttrsSimple env.ops cfg env.dict 0 e.attrs p.vals ++ [41] := hp0.symm
    simp [Rec.text, Rec.t1, Rec.t2, Rec.t3, Rec.t4, hp0']

theorem renderRecs_write {F} (env : Env F) (cfg : RWCfg) (hsa : cfg.stringNodeAppends = false) (is : List (MInst F))
    (h : ∀ i ∈ is, StorableInst env i) (fin : List Byte) :
    renderRecs (is.map (recOf env.ops cfg env.dict)) fin = is.flatMap (writeInst env.ops cfg env.dict) ++ fin := by
  induction is with
  | nil => rfl
  | cons i t ih =>
    obtain ⟨_, _, _, _, hw⟩ := recOf_spec env cfg hsa i (h i (by simp))
    have := hw (renderRecs (t.map (recOf env.ops cfg env.dict)) fin)
    simp only [List.map_cons, List.flatMap_cons, List.append_assoc]
    rw [← ih (fun x hx => h x (by simp [hx])), ← this]
    cases hr : recOf env.ops cfg env.dict i
    rfl

/-- **read ∘ write and write ∘ read ∘ write at file level** (`_partial`: instances of `StorableInst` — internal mapping,
    the value kinds of `Storable`: unset, derived, INTEGER, REAL / NUMBER where `%.15G` reads back (`RealStable`), STRING,
    ENUMERATION / BOOLEAN / LOGICAL, BINARY, references, typed selects and select references, aggregates of the scalar
    kinds; redeclared attributes, aggregates of aggregates / of selects and externally mapped instances as they sit in
    memory are not covered by this theorem, see the notes).  For every dictionary, every
    configuration with the comment repairs, either strictness, every manager whose instances have pairwise different
    ids and refer only to instances it holds: the data section `STEPfile::WriteData` emits (followed by the end
    keyword) is read back by the two passes with severity NULL to exactly the instances that were written — every
    value identical, every instance complete — and writing what was read gives the same bytes again. -/
theorem C01_file_write_read_partial {F} (ops : FloatOps F) (lex : LexCfg) (cfg : RWCfg) (d : Dict) (strict : Bool)
    (hskip : cfg.skipInstanceSkipsComments = true) (hcri : lex.criSkipsComments = true) (hagg : cfg.aggrSkipsComments = true)
    (hsa : cfg.stringNodeAppends = false) (m : Mgr F) (hnd : (m.insts.map (·.id)).Nodup)
    (hst : ∀ i ∈ m.insts, StorableInst { ops := ops, lex := lex, cfg := cfg, dict := d, lookup := Mgr.lookup d m } i) :
    ∃ res, readDataSection ops lex cfg d strict false
        (10 :: (m.insts.flatMap (writeInst ops cfg d) ++ (stringToBytes "ENDSEC;\n" ++ (endIso ++ [59, 10])))) = .ok res ∧
      res.sev = .null ∧ exitStatus res.sev = 0 ∧
      res.mgr.insts = m.insts.map (fun i => { i with state := .complete }) ∧
      res.mgr.insts.flatMap (writeInst ops cfg d) = m.insts.flatMap (writeInst ops cfg d) := by
  let env : Env F := { ops := ops, lex := lex, cfg := cfg, dict := d, lookup := Mgr.lookup d m }
  let rs := m.insts.map (recOf ops cfg d)
  have hspec : ∀ i, i ∈ m.insts →
      (recOf ops cfg d i).1.Lex ∧ Seps (recOf ops cfg d i).2 ∧ (recOf ops cfg d i).1.id = i.id ∧
      (∃ p e, i.parts = [p] ∧ (recOf ops cfg d i).1.name = p.name ∧ d.entity? p.name = some e ∧ e.abstract = false ∧
        e.attrs = (recOf ops cfg d i).1.ps.map (·.a) ∧ (recOf ops cfg d i).1.ps.map (·.v) = p.vals ∧
        ∀ q ∈ (recOf ops cfg d i).1.ps, Covered env q) ∧
      ∀ K, 35 :: (recOf ops cfg d i).1.text ((recOf ops cfg d i).2 ++ K) = writeInst ops cfg d i ++ K :=
    fun i hi => recOf_spec env cfg hsa i (hst i hi)
  -- the lookup pass 1 builds is the manager's own
  have hkeys : (rs.map (mkInst d)).map keyOf = m.insts.map keyOf := by
    simp only [rs, List.map_map]
    apply List.map_congr_left
    intro i hi
    obtain ⟨_, _, hid, ⟨p, e, hparts, hname, _⟩, _⟩ := hspec i hi
    simp [keyOf, mkInst, hid, hname, hparts]
  have hlk : Mgr.lookup d ({ insts := rs.map (mkInst d) } : Mgr F) = Mgr.lookup d m :=
    lookup_congr d _ m hkeys
  have hids : rs.map (·.1.id) = m.insts.map (·.id) := by
    simp only [rs, List.map_map]
    apply List.map_congr_left
    intro i hi
    exact (hspec i hi).2.2.1
  have hfile : (10 : Byte) :: (m.insts.flatMap (writeInst ops cfg d) ++ (stringToBytes "ENDSEC;\n" ++ (endIso ++ [59, 10]))) =
      [10] ++ renderRecs rs (endsec [] ([10] ++ (endIso ++ 59 :: [10]))) := by
    have e1 : stringToBytes "ENDSEC;\n" = [69, 78, 68, 83, 69, 67, 59, 10] := by decide
    have hw : ∀ fin, renderRecs rs fin = m.insts.flatMap (writeInst ops cfg d) ++ fin :=
      renderRecs_write env cfg hsa m.insts hst
    rw [hw, e1]
    simp [endsec]
  obtain ⟨res, hr, hinsts, hsev, _, hex, _⟩ := C01_read_file_partial ops lex cfg d strict hskip hcri hagg rs [10] [] [10] [10]
    (Seps.blanks _ (by decide)) (by simp) (Seps.blanks _ (by decide)) (by rw [hids]; exact hnd)
    (by
      intro rg hrg
      obtain ⟨i, hi, rfl⟩ := List.mem_map.mp hrg
      obtain ⟨hlex, hg, _, ⟨p, e, _, hname, hent, habs, hattrs, _, hcov⟩, _⟩ := hspec i hi
      rw [hlk]
      exact ⟨hlex, hg, e, by rw [hname]; exact hent, habs, hattrs, hcov⟩)
  have hres : res.mgr.insts = m.insts.map (fun i => { i with state := .complete }) := by
    rw [hinsts]
    simp only [rs, List.map_map]
    apply List.map_congr_left
    intro i hi
    obtain ⟨_, _, hid, ⟨p, e, hparts, hname, _, _, _, hvals, _⟩, _⟩ := hspec i hi
    obtain ⟨_, _, hcx, _⟩ := hst i hi
    cases i with
    | mk id parts complex state =>
      simp only at hid hparts hcx hname hvals
      subst hparts; subst hcx
      simp [finInst, hid, hname, hvals]
  refine ⟨res, by rw [hfile]; exact hr, hsev, hex, hres, ?_⟩
  rw [hres, List.flatMap_map]
  have : (fun i : MInst F => writeInst ops cfg d { i with state := .complete }) = writeInst ops cfg d :=
    funext (fun i => by simp [writeInst])
  simp only [Function.comp_def, this]

/-! ### the comment defects and their repair on the minimal inputs (model level; the check replays them on the code) -/

/-! ### entities with redeclared (redefining) attributes at file level -/

/-- no covered token starts with `)` -/
theorem covered_head_ne41 {F} (env : Env F) (p : Param F) (h : Covered env p) : ∀ c u, p.tok = c :: u → c ≠ 41 := by
  intro c u hcu
  cases h with
  | integer a hty hder hred tok htok hlo hhi before after hb ha =>
    obtain ⟨c', u', h', _, _, h41, _⟩ := isInteger_head47 tok htok
    simp only [] at hcu; rw [h'] at hcu; cases hcu; exact h41
  | real a hty hder hred tok dec v htok hden hv hnn hbuf before after hbf ha =>
    obtain ⟨c', u', h', _, _, _, h41, _, _⟩ := number_head tok (Or.inl htok)
    simp only [] at hcu; rw [h'] at hcu; cases hcu; exact h41
  | number a hty hder hred tok dec v htok hden hv hnn before after hbf ha =>
    obtain ⟨c', u', h', _, _, _, h41, _, _⟩ := number_head tok htok
    simp only [] at hcu; rw [h'] at hcu; cases hcu; exact h41
  | aggrInt a hty hder hred es inner hok hin before after hb ha =>
    simp only [] at hcu
    cases es <;> (simp only [aggrText, List.cons.injEq] at hcu; obtain ⟨rfl, _⟩ := hcu; decide)
  | aggr a ety hty hder hred es inner hok hin before after hb ha =>
    simp only [] at hcu
    cases es <;> (simp only [aggrTextG, List.cons.injEq] at hcu; obtain ⟨rfl, _⟩ := hcu; decide)
  | selTyped a n hty hder hred sd hsd m n0 ns hn0 hns hfind tok av hleaf sA sB sC hsA hsB hsC before after hb ha =>
    simp only [selText, List.cons.injEq] at hcu
    obtain ⟨rfl, _⟩ := hcu
    intro h; rw [h] at hn0; exact absurd hn0 (by decide)
  | _ => simp only [List.cons.injEq] at hcu; obtain ⟨rfl, _⟩ := hcu; decide

/-- a record over the covered kinds for an entity whose attribute list holds redeclared (redefining) attributes anywhere:
    the parameters are those of the other attributes, in order -/
def RecCoveredR {F} (env : Env F) (rg : Rec F × List Byte) : Prop :=
  rg.1.Lex ∧ Seps rg.2 ∧ ∃ e, env.dict.entity? rg.1.name = some e ∧ e.abstract = false ∧
    AlignedA e.attrs (rg.1.ps.map (·.a)) ∧ ∀ q ∈ rg.1.ps, Covered env q

/-- **read (render p ℓ) = p at file level for entities with redeclared attributes** (`_partial`): `C01_read_file_partial`
    with `e.attrs = ps.map a` weakened to "`e.attrs` is the parameters' attributes with redefining attributes put in
    anywhere" - `SDAI_Application_instance::STEPread` steps over a redefining attribute without consuming a parameter
    (technical-corrigendum encoding: the redeclared attribute has no value of its own), and the instance stores values for
    the other attributes only.  Source whose look-ahead after the closing parenthesis examines every remaining attribute
    (tie in Props/C03). -/
theorem C01_read_file_redeclared_partial {F} (ops : FloatOps F) (lex : LexCfg) (cfg : RWCfg) (d : Dict) (strict : Bool)
    (hskip : cfg.skipInstanceSkipsComments = true) (hcri : lex.criSkipsComments = true) (hagg : cfg.aggrSkipsComments = true)
    (hmc : cfg.missingCheckEverySecond = false)
    (rs : List (Rec F × List Byte)) (g0 sp gE after : List Byte) (hg0 : Seps g0) (hsp : sp.all isSpace = true) (hgE : Seps gE)
    (hnd : (rs.map (·.1.id)).Nodup)
    (hrec : ∀ rg ∈ rs, RecCoveredR { ops := ops, lex := lex, cfg := cfg, dict := d,
                                     lookup := Mgr.lookup d ({ insts := rs.map (mkInst d) } : Mgr F) } rg) :
    ∃ res, readDataSection ops lex cfg d strict false
        (g0 ++ renderRecs rs (endsec sp (gE ++ (endIso ++ 59 :: after)))) = .ok res ∧
      res.mgr.insts = rs.map finInst ∧ res.sev = .null ∧ exitStatus res.sev = 0 ∧
      res.created = rs.length ∧ res.notCreated = 0 ∧ res.valid = rs.length ∧ res.invalid = 0 := by
  let xs : List (Step F) := rs.map (fun rg => { r := rg.1, g := rg.2, out := finInst rg, sev := .null })
  have hrg : xs.map Step.rg = rs := by simp [xs, List.map_map, Function.comp_def, Step.rg]
  have hmk : xs.map (fun x => mkInst d x.rg) = rs.map (mkInst d) := by simp [xs, List.map_map, Function.comp_def, Step.rg]
  obtain ⟨res, hr, hm, hsev, hc, hnc, hv, hinv, _⟩ :=
    readDataSection_steps ops lex cfg hskip d strict sp _ hsp (tailOK_endIso gE hgE after) xs g0 hg0
      (by
        intro x hx
        obtain ⟨rg, hrgm, rfl⟩ := List.mem_map.mp hx
        obtain ⟨hl, hg, e, he, habs, _, hcov⟩ := hrec rg hrgm
        exact ⟨hl, hg, fun q hq => covered_scan _ q (hcov q hq), e, he, habs⟩)
      (by simpa [xs, List.map_map, Function.comp_def] using hnd)
      (by
        intro x hx
        obtain ⟨rg, hrgm, rfl⟩ := List.mem_map.mp hx
        obtain ⟨hl, hg, e, he, habs, hal, hcov⟩ := hrec rg hrgm
        have hent' : d.entity? rg.1.name = some e := he
        refine ⟨hg, rfl, by simp [keyOf, finInst, mkInst, Step.rg], ?_⟩
        intro st l rest hfind hlk hs
        rw [hmk] at hlk
        have hrd : ∀ L, instSTEPread { ops := ops, lex := lex, cfg := cfg, dict := d, lookup := Mgr.lookup d st.mgr } strict
            e.attrs (G L (40 :: (renderParams rg.1.ps ++ rg.1.t4 rest)) false) =
              .ok ⟨.null, rg.1.ps.map (·.v), G ((40 :: renderParams rg.1.ps).reverse ++ L) (rg.1.t4 rest) false, .null⟩ := by
          intro L
          obtain ⟨sk', hsk, h⟩ := instSTEPread_aligned { ops := ops, lex := lex, cfg := cfg, dict := d, lookup := Mgr.lookup d st.mgr }
            strict hmc e.attrs rg.1.ps hal hl.pne
            (fun q hq => covered_rd _ strict hcri hagg q (by rw [hlk]; exact hcov q hq))
            (fun q hq => covered_head_ne41 _ q (hcov q hq)) L false (rg.1.t4 rest)
          have : sk' = false := by rcases hsk with h | h <;> exact h
          subst this
          exact h
        obtain ⟨l', h⟩ := readInstance_semi ops lex cfg d strict st rg.1 hl l rest false hs (mkInst d (rg.1, rg.2)) hfind rfl rfl
          { name := rg.1.name, vals := match d.entity? rg.1.name with | some e => defaults e.attrs | none => [] } rfl e hent'
          .null (rg.1.ps.map (·.v)) false .null hrd (by
            have : decide (Sev.null.toInt ≤ Sev.warning.toInt) = false := by decide
            rw [this, Bool.and_false])
        refine ⟨l', ?_⟩
        rw [h]
        simp [finInst, mkInst, stateOf])
  rw [hrg] at hr
  have hall : errAfter .null xs = .null := by
    have : ∀ (ys : List (Step F)), (∀ y ∈ ys, y.sev = .null) → errAfter .null ys = .null := by
      intro ys
      induction ys with
      | nil => intro _; rfl
      | cons y t ih =>
        intro h
        have hy := h y (by simp)
        simp only [errAfter, List.foldl_cons, hy] at ih ⊢
        exact ih (fun z hz => h z (by simp [hz]))
    exact this xs (by intro y hy; obtain ⟨rg, _, rfl⟩ := List.mem_map.mp hy; rfl)
  refine ⟨res, hr, ?_, ?_, ?_, ?_, hnc, ?_, hinv⟩
  · rw [hm]; simp [xs, List.map_map, Function.comp_def]
  · rw [hsev, hall]
  · rw [hsev, hall]; rfl
  · rw [hc]; simp [xs]
  · rw [hv]; simp [xs]

theorem alignedA_self {F} (ps : List (Param F)) (h : ∀ p ∈ ps, p.a.redefining = false) :
    AlignedA (ps.map (·.a)) (ps.map (·.a)) := by
  induction ps with
  | nil => exact AlignedA.nil
  | cons p t ih => exact AlignedA.keep p.a _ _ (h p (by simp)) (ih (fun q hq => h q (by simp [hq])))

/-- `CPartCovered` gives `CPartOKF`: a covered part is read without a message and the `skipws` flag is kept or cleared
    (what C03's mixed confinement theorem asks of the externally mapped records) -/
theorem cpartCovered_okF {F} (env : Env F) (strict : Bool) (hcfg : env.lex.criSkipsComments = true)
    (hagg : env.cfg.aggrSkipsComments = true) (hmc : env.cfg.missingCheckEverySecond = false)
    (c : CPart F) (h : CPartCovered env c) : CPartOKF env strict c := by
  cases h with
  | params n0 ns sA sB hn0 hns hsA hsB ed hent ps hne hattrs hcv =>
    refine ⟨hn0, hns, hsA, hsB, ed, hent, ?_⟩
    intro l sk rest
    rw [hattrs]
    exact instSTEPread_aligned env strict hmc _ ps
      (alignedA_self ps (fun p hp => (covered_rd env strict hcfg hagg p (hcv p hp)).1)) hne
      (fun p hp => covered_rd env strict hcfg hagg p (hcv p hp)) (fun p hp => covered_head_ne41 env p (hcv p hp)) l sk rest
  | empty n0 ns sA sB hn0 hns hsA hsB ed hent hattrs inner hin =>
    refine ⟨hn0, hns, hsA, hsB, ed, hent, ?_⟩
    intro l sk rest
    refine ⟨sk, Or.inl rfl, ?_⟩
    rw [hattrs]
    have := C01_read_empty_record env strict inner hin l rest sk
    simpa using this

/-! ### data sections that mix internally and externally mapped records -/

/-- a record of a data section with the layout behind it: internally mapped `#id = NAME(…);` or externally mapped
    `#id = ( PART(…) PART(…) … );` -/
inductive AnyRec (F : Type) where
  | simple (rg : Rec F × List Byte)
  | complex (r : CRec F) (g : List Byte)

/-- the instance pass 2 leaves for an externally mapped record: the parts pass 1 made, each with the values of its tokens -/
def finCInst {F} (d : Dict) (r : CRec F) : MInst F :=
  { mkCInst d r with parts := r.parts.foldl (fun ps c => setPart ps c.name c.vals) (mkCInst d r).parts, state := .complete }

/-- the record as the loops of the two passes see it -/
def AnyRec.item {F} (d : Dict) : AnyRec F → Item F
  | .simple rg => { body := rg.1.text [], g := rg.2, id := rg.1.id, mkI := mkInst d rg, out := finInst rg, sev := .null }
  | .complex r g => { body := r.text [], g := g, id := r.id, mkI := mkCInst d r, out := finCInst d r, sev := .null }

/-- the records of the mixed file-level theorem: internally mapped ones as in `RecCoveredR` (redeclared attributes
    allowed), externally mapped ones as in `C01_complex_record_both_passes_partial` -/
def AnyRecCovered {F} (env : Env F) : AnyRec F → Prop
  | .simple rg => RecCoveredR env rg
  | .complex r g => r.Lex ∧ Seps g ∧
      env.dict.complexSets.contains (sortNames ((r.parts.map (·.name)).filter (fun n => (env.dict.entity? n).isSome))) = true ∧
      (∀ c ∈ r.parts, (env.dict.entity? c.name).isSome = true) ∧ ∀ c ∈ r.parts, CPartCovered env c

theorem rec_text_append {F} (r : Rec F) (rest : List Byte) : r.text [] ++ rest = r.text rest := by
  simp [Rec.text, Rec.t1, Rec.t2, Rec.t3, Rec.t4, List.append_assoc]

theorem crec_text_append {F} (r : CRec F) (rest : List Byte) : r.text [] ++ rest = r.text rest := by
  simp [CRec.text, List.append_assoc]

theorem foldl_setPart_names {F} (cs : List (CPart F)) : ∀ ps : List (MPart F),
    (cs.foldl (fun ps c => setPart ps c.name c.vals) ps).map (·.name) = ps.map (·.name) := by
  induction cs with
  | nil => intro ps; rfl
  | cons c cs ih => intro ps; simp only [List.foldl_cons]; rw [ih, setPart_names]

theorem errAfterI_null {F} : ∀ (ys : List (Item F)), (∀ y ∈ ys, y.sev = .null) → errAfterI .null ys = .null := by
  intro ys
  induction ys with
  | nil => intro _; rfl
  | cons y t ih =>
    intro h
    have hy := h y (by simp)
    simp only [errAfterI, List.foldl_cons, hy] at ih ⊢
    exact ih (fun z hz => h z (by simp [hz]))

/-- **read (render p ℓ) = p at file level, internally and externally mapped records mixed** (`_partial`): the data
    section is any sequence of records with pairwise different ids, each either an internally mapped record over the
    kinds of `Covered` (redeclared attributes allowed, `RecCoveredR`) or an externally mapped record
    `#id = ( PART(…) PART(…) … );` whose parts are known entities, whose sorted part names are a legal combination and
    whose parts' parameter lists are over the kinds of `Covered` (`CPartCovered`; blanks - not comments - between the
    parts), with any layout between the records; references go forward and backward and may name records of either
    mapping (the lookup is the manager pass 1 has built from *all* records).  `ReadData1` creates one instance per
    record (`CreateInstance` / `CreateSubSuperInstance`), `ReadData2` reads every parameter of every record and of every
    part to the value its token denotes, the file's severity is NULL (p21read exits 0) and every instance is counted
    valid.  The loops of both passes are proved over abstract records (ReaderLemmas18: `readDataSection_items`), so any
    further record shape needs only its two record-level facts. -/
theorem C01_read_file_mixed_partial {F} (ops : FloatOps F) (lex : LexCfg) (cfg : RWCfg) (d : Dict) (strict : Bool)
    (hskip : cfg.skipInstanceSkipsComments = true) (hcri : lex.criSkipsComments = true) (hagg : cfg.aggrSkipsComments = true)
    (hmc : cfg.missingCheckEverySecond = false) (hrep : cfg.complexReportsError = true)
    (rs : List (AnyRec F)) (g0 sp gE after : List Byte) (hg0 : Seps g0) (hsp : sp.all isSpace = true) (hgE : Seps gE)
    (hnd : (rs.map (fun r => (r.item d).id)).Nodup)
    (hrec : ∀ r ∈ rs, AnyRecCovered { ops := ops, lex := lex, cfg := cfg, dict := d,
                                       lookup := Mgr.lookup d ({ insts := rs.map (fun r => (r.item d).mkI) } : Mgr F) } r) :
    ∃ res, readDataSection ops lex cfg d strict false
        (g0 ++ renderItems (rs.map (AnyRec.item d)) (endsec sp (gE ++ (endIso ++ 59 :: after)))) = .ok res ∧
      res.mgr.insts = rs.map (fun r => (r.item d).out) ∧ res.sev = .null ∧ exitStatus res.sev = 0 ∧
      res.created = rs.length ∧ res.notCreated = 0 ∧ res.valid = rs.length ∧ res.invalid = 0 := by
  let xs : List (Item F) := rs.map (AnyRec.item d)
  have hmk : xs.map (·.mkI) = rs.map (fun r => (r.item d).mkI) := by simp [xs, List.map_map, Function.comp_def]
  obtain ⟨res, hr, hm, hsev, hc, hnc, hv, hinv, _⟩ :=
    readDataSection_items ops lex cfg hskip d strict sp _ hsp (tailOK_endIso gE hgE after) xs g0 hg0
      (by
        intro x hx
        obtain ⟨r, hrm, rfl⟩ := List.mem_map.mp hx
        cases r with
        | simple rg =>
          obtain ⟨hl, hg, e, he, habs, _, hcov⟩ := hrec _ hrm
          have he' : d.entity? rg.1.name = some e := he
          refine ⟨hg, rfl, ?_⟩
          intro m hnone l c k hc h47 h92
          obtain ⟨l', h⟩ := createInstance_rec cfg hskip d m rg.1 hl (fun q hq => covered_scan _ q (hcov q hq)) hnone e he' habs
            l rg.2 hg c k hc h47 h92
          refine ⟨l', ?_⟩
          show createInstance cfg d m (G l (rg.1.text [] ++ (rg.2 ++ c :: k)) false) = _
          rw [rec_text_append, h]
          simp [AnyRec.item, mkInst, he']
        | complex r g =>
          obtain ⟨hl, hg, hlegal, _, _⟩ := hrec _ hrm
          refine ⟨hg, rfl, ?_⟩
          intro m hnone l c k hc h47 h92
          obtain ⟨l', h⟩ := createInstance_crec cfg hskip d m r hl hnone hlegal l g hg c k hc h47 h92
          refine ⟨l', ?_⟩
          show createInstance cfg d m (G l (r.text [] ++ (g ++ c :: k)) false) = _
          rw [crec_text_append]
          exact h)
      (by simpa [xs, List.map_map, Function.comp_def] using hnd)
      (by
        intro x hx
        obtain ⟨r, hrm, rfl⟩ := List.mem_map.mp hx
        rw [hmk]
        cases r with
        | simple rg =>
          obtain ⟨hl, hg, e, he, habs, hal, hcov⟩ := hrec _ hrm
          have hent' : d.entity? rg.1.name = some e := he
          refine ⟨hg, rfl, rfl, by simp [keyOf, finInst, mkInst, AnyRec.item], ?_⟩
          intro st l rest sk hfind hlk hs
          have hs' : st.s = G l (rg.1.text rest) sk := by rw [← rec_text_append]; exact hs
          have hrd : ∀ L, ∃ sk1, instSTEPread { ops := ops, lex := lex, cfg := cfg, dict := d, lookup := Mgr.lookup d st.mgr } strict
              e.attrs (G L (40 :: (renderParams rg.1.ps ++ rg.1.t4 rest)) sk) =
                .ok ⟨.null, rg.1.ps.map (·.v), G ((40 :: renderParams rg.1.ps).reverse ++ L) (rg.1.t4 rest) sk1, .null⟩ := by
            intro L
            obtain ⟨sk2, _, h⟩ := instSTEPread_aligned { ops := ops, lex := lex, cfg := cfg, dict := d, lookup := Mgr.lookup d st.mgr }
              strict hmc e.attrs rg.1.ps hal hl.pne
              (fun q hq => covered_rd _ strict hcri hagg q (by rw [hlk]; exact hcov q hq))
              (fun q hq => covered_head_ne41 _ q (hcov q hq)) L sk (rg.1.t4 rest)
            exact ⟨sk2, h⟩
          obtain ⟨l', sk', h⟩ := readInstance_semi_anyflag ops lex cfg d strict st rg.1 hl l rest sk hs' (mkInst d (rg.1, rg.2)) hfind rfl rfl
            { name := rg.1.name, vals := match d.entity? rg.1.name with | some e => defaults e.attrs | none => [] } rfl e hent'
            .null (rg.1.ps.map (·.v)) .null hrd (by
              have : decide (Sev.null.toInt ≤ Sev.warning.toInt) = false := by decide
              rw [this, Bool.and_false])
          refine ⟨l', sk', ?_⟩
          rw [h]
          simp [finInst, mkInst, stateOf, AnyRec.item]
        | complex r g =>
          obtain ⟨hl, hg, hlegal, hknown, hcov⟩ := hrec _ hrm
          refine ⟨hg, rfl, rfl, ?_, ?_⟩
          · show keyOf (finCInst d r) = keyOf (mkCInst d r)
            simp only [keyOf, finCInst, foldl_setPart_names]
          · intro st l rest sk hfind hlk hs
            have hs' : st.s = G l (r.text rest) sk := by rw [← crec_text_append]; exact hs
            exact (C01_complex_record_both_passes_partial ops lex cfg d strict hskip hcri hagg hrep r hl hlegal hknown).2 st hfind
              (fun c hc => by rw [hlk]; exact hcov c hc) l rest sk hs')
  have hall : errAfterI .null xs = .null :=
    errAfterI_null xs (by
      intro y hy
      obtain ⟨r, _, rfl⟩ := List.mem_map.mp hy
      cases r <;> rfl)
  refine ⟨res, hr, ?_, ?_, ?_, ?_, hnc, ?_, hinv⟩
  · rw [hm]; simp [xs, List.map_map, Function.comp_def]
  · rw [hsev, hall]
  · rw [hsev, hall]; rfl
  · rw [hc]; simp [xs]
  · rw [hv]; simp [xs]

/-! ### … and records without parameters -/

/-- pass 1 on a record of `AnyRecCovered` -/
theorem anyRec_item1 {F} (ops : FloatOps F) (lex : LexCfg) (cfg : RWCfg) (d : Dict)
    (hskip : cfg.skipInstanceSkipsComments = true) (lk : Lookup) (r : AnyRec F)
    (h : AnyRecCovered { ops := ops, lex := lex, cfg := cfg, dict := d, lookup := lk } r) : Item1OK cfg d (r.item d) := by
  cases r with
  | simple rg =>
    obtain ⟨hl, hg, e, he, habs, _, hcov⟩ := h
    have he' : d.entity? rg.1.name = some e := he
    refine ⟨hg, rfl, ?_⟩
    intro m hnone l c k hc h47 h92
    obtain ⟨l', h⟩ := createInstance_rec cfg hskip d m rg.1 hl (fun q hq => covered_scan _ q (hcov q hq)) hnone e he' habs
      l rg.2 hg c k hc h47 h92
    refine ⟨l', ?_⟩
    show createInstance cfg d m (G l (rg.1.text [] ++ (rg.2 ++ c :: k)) false) = _
    rw [rec_text_append, h]
    simp [AnyRec.item, mkInst, he']
  | complex r g =>
    obtain ⟨hl, hg, hlegal, _, _⟩ := h
    refine ⟨hg, rfl, ?_⟩
    intro m hnone l c k hc h47 h92
    obtain ⟨l', h⟩ := createInstance_crec cfg hskip d m r hl hnone hlegal l g hg c k hc h47 h92
    refine ⟨l', ?_⟩
    show createInstance cfg d m (G l (r.text [] ++ (g ++ c :: k)) false) = _
    rw [crec_text_append]
    exact h
/-- pass 2 on a record of `AnyRecCovered`, whatever the `skipws` flag -/
theorem anyRec_item2 {F} (ops : FloatOps F) (lex : LexCfg) (cfg : RWCfg) (d : Dict) (strict : Bool)
    (hskip : cfg.skipInstanceSkipsComments = true) (hcri : lex.criSkipsComments = true) (hagg : cfg.aggrSkipsComments = true)
    (hmc : cfg.missingCheckEverySecond = false) (hrep : cfg.complexReportsError = true) (lk : Lookup) (r : AnyRec F)
    (h : AnyRecCovered { ops := ops, lex := lex, cfg := cfg, dict := d, lookup := lk } r) :
    Item2OK ops lex cfg d strict lk (r.item d) := by
  cases r with
  | simple rg =>
    obtain ⟨hl, hg, e, he, habs, hal, hcov⟩ := h
    have hent' : d.entity? rg.1.name = some e := he
    refine ⟨hg, rfl, rfl, by simp [keyOf, finInst, mkInst, AnyRec.item], ?_⟩
    intro st l rest sk hfind hlk hs
    have hs' : st.s = G l (rg.1.text rest) sk := by rw [← rec_text_append]; exact hs
    have hrd : ∀ L, ∃ sk1, instSTEPread { ops := ops, lex := lex, cfg := cfg, dict := d, lookup := Mgr.lookup d st.mgr } strict
        e.attrs (G L (40 :: (renderParams rg.1.ps ++ rg.1.t4 rest)) sk) =
          .ok ⟨.null, rg.1.ps.map (·.v), G ((40 :: renderParams rg.1.ps).reverse ++ L) (rg.1.t4 rest) sk1, .null⟩ := by
      intro L
      obtain ⟨sk2, _, h⟩ := instSTEPread_aligned { ops := ops, lex := lex, cfg := cfg, dict := d, lookup := Mgr.lookup d st.mgr }
        strict hmc e.attrs rg.1.ps hal hl.pne
        (fun q hq => covered_rd _ strict hcri hagg q (by rw [hlk]; exact hcov q hq))
        (fun q hq => covered_head_ne41 _ q (hcov q hq)) L sk (rg.1.t4 rest)
      exact ⟨sk2, h⟩
    obtain ⟨l', sk', h⟩ := readInstance_semi_anyflag ops lex cfg d strict st rg.1 hl l rest sk hs' (mkInst d (rg.1, rg.2)) hfind rfl rfl
      { name := rg.1.name, vals := match d.entity? rg.1.name with | some e => defaults e.attrs | none => [] } rfl e hent'
      .null (rg.1.ps.map (·.v)) .null hrd (by
        have : decide (Sev.null.toInt ≤ Sev.warning.toInt) = false := by decide
        rw [this, Bool.and_false])
    refine ⟨l', sk', ?_⟩
    rw [h]
    simp [finInst, mkInst, stateOf, AnyRec.item]
  | complex r g =>
    obtain ⟨hl, hg, hlegal, hknown, hcov⟩ := h
    refine ⟨hg, rfl, rfl, ?_, ?_⟩
    · show keyOf (finCInst d r) = keyOf (mkCInst d r)
      simp only [keyOf, finCInst, foldl_setPart_names]
    · intro st l rest sk hfind hlk hs
      have hs' : st.s = G l (r.text rest) sk := by rw [← crec_text_append]; exact hs
      exact (C01_complex_record_both_passes_partial ops lex cfg d strict hskip hcri hagg hrep r hl hlegal hknown).2 st hfind
        (fun c hc => by rw [hlk]; exact hcov c hc) l rest sk hs'
/-- a record of a data section: one of `AnyRec`, or an internally mapped record without parameters `#id = NAME ( ) ;`
    (any layout between the parentheses) -/
inductive AnyRecE (F : Type) where
  | base (r : AnyRec F)
  | empty (r : BRec) (g : List Byte)

def AnyRecE.item {F} (d : Dict) : AnyRecE F → Item F
  | .base r => r.item d
  | .empty r g =>
    { body := r.text [], g := g, id := r.id,
      mkI := { id := r.id, parts := [{ name := r.name,
                                       vals := match d.entity? r.name with | some e => defaults e.attrs | none => [] }] },
      out := { id := r.id, parts := [{ name := r.name, vals := [] }], state := .complete }, sev := .null }

def AnyRecECovered {F} (env : Env F) : AnyRecE F → Prop
  | .base r => AnyRecCovered env r
  | .empty r g => r.Lex ∧ Seps g ∧ (∃ e, env.dict.entity? r.name = some e ∧ e.abstract = false ∧ e.attrs = []) ∧
      ∃ inner, r.body = inner ++ [41] ∧ Seps inner

theorem brec_text_append (r : BRec) (rest : List Byte) : r.text [] ++ rest = r.text rest := by
  simp [BRec.text, BRec.t1, BRec.t2, BRec.t3, BRec.t4, List.append_assoc]

/-- **read (render p ℓ) = p at file level, every record shape proved so far** (`_partial`): `C01_read_file_mixed_partial`
    with records of entities without attributes, `#id = NAME ( ) ;` with any layout between the parentheses, among the
    internally mapped (redeclared attributes allowed) and externally mapped records, in any order: one instance per
    record - an instance without values for a record without parameters -, severity NULL, exit status 0, every instance
    counted valid.  The record-level facts for such records come from the lemmas over `BRec` (ReaderLemmas24: an
    internally mapped record with *any* text between its parentheses that `SkipInstance` gets over and `STEPread` reads). -/
theorem C01_read_file_all_shapes_partial {F} (ops : FloatOps F) (lex : LexCfg) (cfg : RWCfg) (d : Dict) (strict : Bool)
    (hskip : cfg.skipInstanceSkipsComments = true) (hcri : lex.criSkipsComments = true) (hagg : cfg.aggrSkipsComments = true)
    (hmc : cfg.missingCheckEverySecond = false) (hrep : cfg.complexReportsError = true)
    (rs : List (AnyRecE F)) (g0 sp gE after : List Byte) (hg0 : Seps g0) (hsp : sp.all isSpace = true) (hgE : Seps gE)
    (hnd : (rs.map (fun r => (r.item d).id)).Nodup)
    (hrec : ∀ r ∈ rs, AnyRecECovered { ops := ops, lex := lex, cfg := cfg, dict := d,
                                        lookup := Mgr.lookup d ({ insts := rs.map (fun r => (r.item d).mkI) } : Mgr F) } r) :
    ∃ res, readDataSection ops lex cfg d strict false
        (g0 ++ renderItems (rs.map (AnyRecE.item d)) (endsec sp (gE ++ (endIso ++ 59 :: after)))) = .ok res ∧
      res.mgr.insts = rs.map (fun r => (r.item d).out) ∧ res.sev = .null ∧ exitStatus res.sev = 0 ∧
      res.created = rs.length ∧ res.notCreated = 0 ∧ res.valid = rs.length ∧ res.invalid = 0 := by
  let xs : List (Item F) := rs.map (AnyRecE.item d)
  have hmk : xs.map (·.mkI) = rs.map (fun r => (r.item d).mkI) := by simp [xs, List.map_map, Function.comp_def]
  obtain ⟨res, hr, hm, hsev, hc, hnc, hv, hinv, _⟩ :=
    readDataSection_items ops lex cfg hskip d strict sp _ hsp (tailOK_endIso gE hgE after) xs g0 hg0
      (by
        intro x hx
        obtain ⟨r, hrm, rfl⟩ := List.mem_map.mp hx
        cases r with
        | base r => exact anyRec_item1 ops lex cfg d hskip _ r (hrec _ hrm)
        | empty r g =>
          obtain ⟨hl, hg, ⟨e, he, habs, _⟩, inner, hbody, hin⟩ := hrec _ hrm
          have he' : d.entity? r.name = some e := he
          refine ⟨hg, rfl, ?_⟩
          intro m hnone l c k hc h47 h92
          have hpass : Passes r.body := by
            rw [hbody]; exact Passes.append (Passes.seps hin) (Passes.plain 41 (by decide))
          obtain ⟨l', h⟩ := createInstance_brec cfg hskip d m r hl hpass hnone e he' habs l g hg c k hc h47 h92
          refine ⟨l', ?_⟩
          show createInstance cfg d m (G l (r.text [] ++ (g ++ c :: k)) false) = _
          rw [brec_text_append, h]
          simp [AnyRecE.item, he'])
      (by simpa [xs, List.map_map, Function.comp_def] using hnd)
      (by
        intro x hx
        obtain ⟨r, hrm, rfl⟩ := List.mem_map.mp hx
        rw [hmk]
        cases r with
        | base r => exact anyRec_item2 ops lex cfg d strict hskip hcri hagg hmc hrep _ r (hrec _ hrm)
        | empty r g =>
          obtain ⟨hl, hg, ⟨e, he, habs, hattrs⟩, inner, hbody, hin⟩ := hrec _ hrm
          have he' : d.entity? r.name = some e := he
          refine ⟨hg, rfl, rfl, rfl, ?_⟩
          intro st l rest sk hfind hlk hs
          have hs' : st.s = G l (r.text rest) sk := by rw [← brec_text_append]; exact hs
          obtain ⟨l', sk', h⟩ := readInstance_brec ops lex cfg d strict st r hl l rest sk hs' _ hfind rfl rfl
            { name := r.name, vals := match d.entity? r.name with | some e => defaults e.attrs | none => [] } rfl e he'
            .null [] .null
            (by
              intro L
              refine ⟨sk, ?_⟩
              rw [hattrs, hbody]
              have := C01_read_empty_record { ops := ops, lex := lex, cfg := cfg, dict := d, lookup := Mgr.lookup d st.mgr }
                strict inner hin L (r.t4 rest) sk
              simpa using this)
            (by
              have : decide (Sev.null.toInt ≤ Sev.warning.toInt) = false := by decide
              rw [this, Bool.and_false])
          refine ⟨l', sk', ?_⟩
          rw [h]
          simp [AnyRecE.item, stateOf])
  have hall : errAfterI .null xs = .null :=
    errAfterI_null xs (by
      intro y hy
      obtain ⟨r, _, rfl⟩ := List.mem_map.mp hy
      cases r with
      | base r => cases r <;> rfl
      | empty r g => rfl)
  refine ⟨res, hr, ?_, ?_, ?_, ?_, hnc, ?_, hinv⟩
  · rw [hm]; simp [xs, List.map_map, Function.comp_def]
  · rw [hsev, hall]
  · rw [hsev, hall]; rfl
  · rw [hc]; simp [xs]
  · rw [hv]; simp [xs]

/-! ### the composition principle, and externally mapped records laid out as the writer lays them out -/

/-- **read = denote, the composition principle** (`_partial`): for *any* records - given by their text, the instance
    pass 1 makes and the instance pass 2 leaves (`Item`) - that satisfy the two record-level facts `Item1OK` / `Item2OK`
    with severity NULL, in any order, number and layout, with pairwise different ids: one instance per record as its
    record-level fact says, severity NULL, exit status 0, every instance counted valid.  Every record-level theorem
    (`anyRec_item1/2`, `C01_complex_record_blanks_item`, …) composes to the file level through this theorem. -/
theorem C01_read_items_partial {F} (ops : FloatOps F) (lex : LexCfg) (cfg : RWCfg) (d : Dict) (strict : Bool)
    (hskip : cfg.skipInstanceSkipsComments = true)
    (xs : List (Item F)) (g0 sp gE after : List Byte) (hg0 : Seps g0) (hsp : sp.all isSpace = true) (hgE : Seps gE)
    (hnd : (xs.map (·.id)).Nodup) (hnull : ∀ x ∈ xs, x.sev = .null)
    (h1 : ∀ x ∈ xs, Item1OK cfg d x)
    (h2 : ∀ x ∈ xs, Item2OK ops lex cfg d strict (Mgr.lookup d ({ insts := xs.map (·.mkI) } : Mgr F)) x) :
    ∃ res, readDataSection ops lex cfg d strict false
        (g0 ++ renderItems xs (endsec sp (gE ++ (endIso ++ 59 :: after)))) = .ok res ∧
      res.mgr.insts = xs.map (·.out) ∧ res.sev = .null ∧ exitStatus res.sev = 0 ∧
      res.created = xs.length ∧ res.notCreated = 0 ∧ res.valid = xs.length ∧ res.invalid = 0 := by
  obtain ⟨res, hr, hm, hsev, hc, hnc, hv, hinv, _⟩ :=
    readDataSection_items ops lex cfg hskip d strict sp _ hsp (tailOK_endIso gE hgE after) xs g0 hg0 h1 hnd h2
  have hall : errAfterI .null xs = .null := errAfterI_null xs hnull
  exact ⟨res, hr, hm, by rw [hsev, hall], by rw [hsev, hall]; rfl, hc, hnc, hv, hinv⟩

/-- an externally mapped record with blanks `sp0` between the outer `(` and the first part, as the loops see it -/
def cxItemS {F} (d : Dict) (r : CRec F) (sp0 g : List Byte) : Item F :=
  { body := r.textS sp0 [], g := g, id := r.id, mkI := mkCInst d r, out := finCInst d r, sev := .null }

theorem crec_textS_append {F} (r : CRec F) (sp0 rest : List Byte) : r.textS sp0 [] ++ rest = r.textS sp0 rest := by
  simp [CRec.textS, List.append_assoc]

/-- **an externally mapped record laid out as `STEPcomplex::STEPwrite` lays it out** (record level, both passes;
    `#id=(⏎PART(…)⏎PART(…)⏎);`): `C01_complex_record_both_passes_partial` with blanks between the outer `(` and the first
    part - `ReadStdKeyword` in `CreateSubSuperInstance`'s loop and `STEPcomplex::STEPread` both step over them.  The record
    satisfies `Item1OK` and `Item2OK`, so `C01_read_items_partial` puts it into a file among records of any other shape. -/
theorem C01_complex_record_blanks_item {F} (ops : FloatOps F) (lex : LexCfg) (cfg : RWCfg) (d : Dict) (strict : Bool)
    (hskip : cfg.skipInstanceSkipsComments = true) (hcri : lex.criSkipsComments = true) (hagg : cfg.aggrSkipsComments = true)
    (hmc : cfg.missingCheckEverySecond = false) (hrep : cfg.complexReportsError = true) (lk : Lookup)
    (r : CRec F) (sp0 g : List Byte) (hl : r.Lex) (hsp0 : sp0.all isSpace = true) (hg : Seps g)
    (hlegal : d.complexSets.contains (sortNames ((r.parts.map (·.name)).filter (fun n => (d.entity? n).isSome))) = true)
    (hknown : ∀ c ∈ r.parts, (d.entity? c.name).isSome = true)
    (hcov : ∀ c ∈ r.parts, CPartCovered { ops := ops, lex := lex, cfg := cfg, dict := d, lookup := lk } c) :
    Item1OK cfg d (cxItemS d r sp0 g) ∧ Item2OK ops lex cfg d strict lk (cxItemS d r sp0 g) := by
  refine ⟨⟨hg, rfl, ?_⟩, ⟨hg, rfl, rfl, ?_, ?_⟩⟩
  · intro m hnone l c k hc h47 h92
    obtain ⟨l', h⟩ := createInstance_crecS cfg hskip d m r hl sp0 hsp0 hnone hlegal l g hg c k hc h47 h92
    refine ⟨l', ?_⟩
    show createInstance cfg d m (G l (r.textS sp0 [] ++ (g ++ c :: k)) false) = _
    rw [crec_textS_append]
    exact h
  · show keyOf (finCInst d r) = keyOf (mkCInst d r)
    simp only [keyOf, finCInst, foldl_setPart_names]
  · intro st l rest sk hfind hlk hs
    have hs' : st.s = G l (r.textS sp0 rest) sk := by rw [← crec_textS_append]; exact hs
    obtain ⟨l', sk', _, h⟩ := readInstance_crecS ops lex cfg d strict st hrep r hl sp0 hsp0 l rest sk hs' (mkCInst d r) hfind rfl rfl
      (fun c hc => cpartCovered_okF _ _ hcri hagg hmc c (by rw [hlk]; exact hcov c hc)) (mkCInst_names d r hknown)
    exact ⟨l', sk', h⟩

/-! ### read ∘ write, the composition principle; instances without values -/

/-- **read ∘ write and write ∘ read ∘ write at file level, the composition principle** (`_partial`): for a manager each of
    whose instances comes with a record (`it i`: an `Item` with the two record-level facts, severity NULL) that *is* the text
    `writeInst` emits for it, has the instance's id and part names, and is read back to the instance itself: the data
    section `STEPfile::WriteData` emits is read back with severity NULL to exactly the instances that were written, every
    instance complete, and writing what was read gives the same bytes again.  Instances of the fragment of
    `C01_file_write_read_partial` satisfy this (`storableInst_item`), and so do instances of entities without attributes
    (`emptyInst_item`). -/
theorem C01_file_write_read_items_partial {F} (ops : FloatOps F) (lex : LexCfg) (cfg : RWCfg) (d : Dict) (strict : Bool)
    (hskip : cfg.skipInstanceSkipsComments = true) (m : Mgr F) (hnd : (m.insts.map (·.id)).Nodup) (it : MInst F → Item F)
    (hid : ∀ i ∈ m.insts, (it i).id = i.id) (hkey : ∀ i ∈ m.insts, keyOf (it i).mkI = keyOf i)
    (hnull : ∀ i ∈ m.insts, (it i).sev = .null) (hout : ∀ i ∈ m.insts, (it i).out = { i with state := .complete })
    (htxt : ∀ i ∈ m.insts, ∀ K, 35 :: ((it i).body ++ ((it i).g ++ K)) = writeInst ops cfg d i ++ K)
    (h1 : ∀ i ∈ m.insts, Item1OK cfg d (it i))
    (h2 : ∀ i ∈ m.insts, Item2OK ops lex cfg d strict (Mgr.lookup d m) (it i)) :
    ∃ res, readDataSection ops lex cfg d strict false
        (10 :: (m.insts.flatMap (writeInst ops cfg d) ++ (stringToBytes "ENDSEC;\n" ++ (endIso ++ [59, 10])))) = .ok res ∧
      res.sev = .null ∧ exitStatus res.sev = 0 ∧
      res.mgr.insts = m.insts.map (fun i => { i with state := .complete }) ∧
      res.mgr.insts.flatMap (writeInst ops cfg d) = m.insts.flatMap (writeInst ops cfg d) := by
  have hw : ∀ (is : List (MInst F)), (∀ i ∈ is, i ∈ m.insts) → ∀ fin,
      renderItems (is.map it) fin = is.flatMap (writeInst ops cfg d) ++ fin := by
    intro is
    induction is with
    | nil => intro _ fin; rfl
    | cons i t ih =>
      intro hsub fin
      simp only [List.map_cons, renderItems, List.flatMap_cons, List.append_assoc]
      rw [ih (fun x hx => hsub x (by simp [hx])) fin, htxt i (hsub i (by simp))]
  have hfile : (10 : Byte) :: (m.insts.flatMap (writeInst ops cfg d) ++ (stringToBytes "ENDSEC;\n" ++ (endIso ++ [59, 10]))) =
      [10] ++ renderItems (m.insts.map it) (endsec [] ([10] ++ (endIso ++ 59 :: [10]))) := by
    have e1 : stringToBytes "ENDSEC;\n" = [69, 78, 68, 83, 69, 67, 59, 10] := by decide
    rw [hw m.insts (fun _ h => h), e1]
    simp [endsec]
  have hkeys : ((m.insts.map it).map (·.mkI)).map keyOf = m.insts.map keyOf := by
    simp only [List.map_map]
    apply List.map_congr_left
    intro i hi
    exact hkey i hi
  have hlk : Mgr.lookup d ({ insts := (m.insts.map it).map (·.mkI) } : Mgr F) = Mgr.lookup d m := lookup_congr d _ m hkeys
  obtain ⟨res, hr, hinsts, hsev, hex, _⟩ := C01_read_items_partial ops lex cfg d strict hskip (m.insts.map it) [10] [] [10] [10]
    (Seps.blanks _ (by decide)) (by simp) (Seps.blanks _ (by decide))
    (by
      have : (m.insts.map it).map (·.id) = m.insts.map (·.id) := by
        simp only [List.map_map]
        apply List.map_congr_left
        intro i hi
        exact hid i hi
      rw [this]; exact hnd)
    (by intro x hx; obtain ⟨i, hi, rfl⟩ := List.mem_map.mp hx; exact hnull i hi)
    (by intro x hx; obtain ⟨i, hi, rfl⟩ := List.mem_map.mp hx; exact h1 i hi)
    (by intro x hx; obtain ⟨i, hi, rfl⟩ := List.mem_map.mp hx; rw [hlk]; exact h2 i hi)
  have hres : res.mgr.insts = m.insts.map (fun i => { i with state := .complete }) := by
    rw [hinsts, List.map_map]
    apply List.map_congr_left
    intro i hi
    exact hout i hi
  refine ⟨res, by rw [hfile]; exact hr, hsev, hex, hres, ?_⟩
  rw [hres, List.flatMap_map]
  have : (fun i : MInst F => writeInst ops cfg d { i with state := .complete }) = writeInst ops cfg d :=
    funext (fun i => by simp [writeInst])
  simp only [Function.comp_def, this]

/-- an instance of the fragment of `C01_file_write_read_partial`, with the record `STEPwrite` emits for it, satisfies the
    hypotheses of `C01_file_write_read_items_partial` -/
theorem storableInst_item {F} (ops : FloatOps F) (lex : LexCfg) (cfg : RWCfg) (d : Dict) (strict : Bool)
    (hskip : cfg.skipInstanceSkipsComments = true) (hcri : lex.criSkipsComments = true) (hagg : cfg.aggrSkipsComments = true)
    (hmc : cfg.missingCheckEverySecond = false) (hrep : cfg.complexReportsError = true)
    (hsa : cfg.stringNodeAppends = false) (lk : Lookup) (i : MInst F)
    (h : StorableInst { ops := ops, lex := lex, cfg := cfg, dict := d, lookup := lk } i) :
    let x := (AnyRec.simple (recOf ops cfg d i)).item d
    x.id = i.id ∧ keyOf x.mkI = keyOf i ∧ x.sev = .null ∧ x.out = { i with state := .complete } ∧
    (∀ K, 35 :: (x.body ++ (x.g ++ K)) = writeInst ops cfg d i ++ K) ∧
    Item1OK cfg d x ∧ Item2OK ops lex cfg d strict lk x := by
  intro x
  let env : Env F := { ops := ops, lex := lex, cfg := cfg, dict := d, lookup := lk }
  obtain ⟨hlex, hg, hid, ⟨p, e, hparts, hname, hent, habs, hattrs, hvals, hcov⟩, hw⟩ := recOf_spec env cfg hsa i h
  obtain ⟨_, _, hcx, _⟩ := h
  have hid : (recOf ops cfg d i).1.id = i.id := hid
  have hname : (recOf ops cfg d i).1.name = p.name := hname
  have hvals : (recOf ops cfg d i).1.ps.map (·.v) = p.vals := hvals
  have hcovd : AnyRecCovered env (.simple (recOf ops cfg d i)) :=
    ⟨hlex, hg, e, by rw [hname]; exact hent, habs,
      by rw [hattrs]; exact alignedA_self _ (fun q hq => (covered_rd env strict hcri hagg q (hcov q hq)).1), hcov⟩
  refine ⟨hid, ?_, rfl, ?_, ?_, anyRec_item1 ops lex cfg d hskip lk _ hcovd,
    anyRec_item2 ops lex cfg d strict hskip hcri hagg hmc hrep lk _ hcovd⟩
  · show keyOf (mkInst d (recOf ops cfg d i)) = keyOf i
    simp [keyOf, mkInst, hid, hname, hparts]
  · show finInst (recOf ops cfg d i) = { i with state := .complete }
    cases i with
    | mk id parts complex state =>
      simp only at hid hparts hcx hname hvals
      subst hparts; subst hcx
      simp [finInst, hid, hname, hvals]
  · intro K
    show 35 :: ((recOf ops cfg d i).1.text [] ++ ((recOf ops cfg d i).2 ++ K)) = _
    rw [rec_text_append]
    exact hw K

/-- an instance of an entity without attributes as it sits in memory -/
def EmptyInst {F} (d : Dict) (i : MInst F) : Prop :=
  0 ≤ i.id ∧ i.id ≤ IStream.intMax ∧ i.complex = false ∧
  ∃ p e, i.parts = [p] ∧ p.vals = [] ∧ d.entity? p.name = some e ∧ e.abstract = false ∧ e.attrs = [] ∧ KeywordName p.name

/-- the record `STEPwrite` emits for it: `#id=NAME();` -/
def brecOf {F} (i : MInst F) : BRec :=
  match i.parts with
  | p :: _ => { ds := showInt i.id, s1 := [], s2 := [], n0 := (stringToBytes p.name).headD 0, ns := (stringToBytes p.name).tail,
                s3 := [], body := [41], s4 := [] }
  | [] => { ds := [], s1 := [], s2 := [], n0 := 0, ns := [], s3 := [], body := [], s4 := [] }

/-- … it satisfies the hypotheses of `C01_file_write_read_items_partial` too -/
theorem emptyInst_item {F} (ops : FloatOps F) (lex : LexCfg) (cfg : RWCfg) (d : Dict) (strict : Bool)
    (hskip : cfg.skipInstanceSkipsComments = true) (lk : Lookup) (i : MInst F) (h : EmptyInst d i) :
    let x := (AnyRecE.empty (F := F) (brecOf i) [10]).item d
    x.id = i.id ∧ keyOf x.mkI = keyOf i ∧ x.sev = .null ∧ x.out = { i with state := .complete } ∧
    (∀ K, 35 :: (x.body ++ (x.g ++ K)) = writeInst ops cfg d i ++ K) ∧
    Item1OK cfg d x ∧ Item2OK ops lex cfg d strict lk x := by
  intro x
  obtain ⟨h0, hhi, hcx, p, e, hparts, hvals, hent, habs, hattrs, ⟨n0, ns, hnb, hn0, hns, hback⟩⟩ := h
  obtain ⟨ds, hds, hne, hdig, hval⟩ := showInt_nonneg i.id h0
  have hb : brecOf i = { ds := ds, s1 := [], s2 := [], n0 := n0, ns := ns, s3 := [], body := [41], s4 := [] } := by
    simp [brecOf, hparts, hnb, hds]
  have hup : upperBytes (n0 :: ns) = n0 :: ns := by
    unfold upperBytes
    conv => rhs; rw [← List.map_id (n0 :: ns)]
    apply List.map_congr_left
    intro c hc
    rcases List.mem_cons.mp hc with rfl | hc
    · exact upper_keeps (by simp [hn0])
    · exact upper_keeps (List.all_eq_true.mp hns c hc)
  have hname : (brecOf i).name = p.name := by
    rw [hb]; show bytesToString (upperBytes (n0 :: ns)) = p.name; rw [hup, hback]
  have hidb : (brecOf i).id = i.id := by rw [hb]; exact hval
  have sepsNil : Seps ([] : List Byte) := Seps.blanks [] (by simp)
  have hl : (brecOf i).Lex := by
    rw [hb]
    exact ⟨hne, hdig, by show ((digitsVal ds 0 : Nat) : Int) ≤ _; rw [hval]; exact hhi, sepsNil, sepsNil, sepsNil, sepsNil,
      by simp [isAlpha, hn0], all_imp (fun c hc => upper_kwc hc) _ hns⟩
  have hent' : d.entity? (brecOf i).name = some e := by rw [hname]; exact hent
  have hbody : (brecOf i).body = [] ++ [41] := by rw [hb]; rfl
  have hg : Seps ([10] : List Byte) := Seps.blanks [10] (by decide)
  refine ⟨hidb, ?_, rfl, ?_, ?_, ⟨hg, rfl, ?_⟩, ⟨hg, rfl, rfl, rfl, ?_⟩⟩
  · show keyOf ({ id := (brecOf i).id, parts := [{ name := (brecOf i).name, vals := _ }] } : MInst F) = keyOf i
    simp [keyOf, hidb, hname, hparts]
  · show ({ id := (brecOf i).id, parts := [{ name := (brecOf i).name, vals := [] }], state := .complete } : MInst F) = _
    cases i with
    | mk id parts complex state =>
      simp only at hidb hparts hcx hname
      subst hparts; subst hcx
      cases p with
      | mk pn pv =>
        simp only at hvals hname
        subst hvals
        simp [hidb, hname]
  · intro K
    show 35 :: ((brecOf i).text [] ++ ([10] ++ K)) = _
    rw [brec_text_append]
    have e3 : stringToBytes ");\n" = [41, 59, 10] := by decide
    have hwa : writeAttrsSimple ops cfg d 0 ([] : List AttrD) p.vals = [] := by simp [writeAttrsSimple]
    simp [hb, BRec.text, BRec.t1, BRec.t2, BRec.t3, BRec.t4, writeInst, hcx, hparts, hent, hattrs, hnb, hds, e3, hwa]
  · intro m hnone l c k hc h47 h92
    have hpass : Passes (brecOf i).body := by
      rw [hbody]; exact Passes.append (Passes.seps sepsNil) (Passes.plain 41 (by decide))
    obtain ⟨l', hh⟩ := createInstance_brec cfg hskip d m (brecOf i) hl hpass hnone e hent' habs l [10] hg c k hc h47 h92
    refine ⟨l', ?_⟩
    show createInstance cfg d m (G l ((brecOf i).text [] ++ ([10] ++ c :: k)) false) = _
    rw [brec_text_append, hh]
    simp [x, AnyRecE.item, hent']
  · intro st l rest sk hfind hlk hs
    have hs' : st.s = G l ((brecOf i).text rest) sk := by rw [← brec_text_append]; exact hs
    obtain ⟨l', sk', hh⟩ := readInstance_brec ops lex cfg d strict st (brecOf i) hl l rest sk hs' _ hfind rfl rfl
      { name := (brecOf i).name, vals := match d.entity? (brecOf i).name with | some e => defaults e.attrs | none => [] } rfl e hent'
      .null [] .null
      (by
        intro L
        refine ⟨sk, ?_⟩
        rw [hattrs, hbody]
        have := C01_read_empty_record { ops := ops, lex := lex, cfg := cfg, dict := d, lookup := Mgr.lookup d st.mgr }
          strict [] sepsNil L ((brecOf i).t4 rest) sk
        simpa using this)
      (by
        have : decide (Sev.null.toInt ≤ Sev.warning.toInt) = false := by decide
        rw [this, Bool.and_false])
    refine ⟨l', sk', ?_⟩
    rw [hh]
    simp [x, AnyRecE.item, stateOf]

/-- **the property, composed, as a composition principle** (`_partial`): `read (write (read f)) = read f` and
    `write (read (write (read f))) = write (read f)` for a data section `f` of *any* records given by their record-level
    facts (`C01_read_items_partial`) whose denoted instances - complete - come with records that are the text `writeInst`
    emits for them and satisfy the record-level facts again (`C01_file_write_read_items_partial`).  With
    `anyRec_item1/2`, `storableInst_item` and `emptyInst_item` this is `C01_read_write_read_partial` extended to files with
    records of entities without attributes, in any layout. -/
theorem C01_read_write_read_items_partial {F} (ops : FloatOps F) (lex : LexCfg) (cfg : RWCfg) (d : Dict) (strict : Bool)
    (hskip : cfg.skipInstanceSkipsComments = true)
    (xs : List (Item F)) (g0 sp gE after : List Byte) (hg0 : Seps g0) (hsp : sp.all isSpace = true) (hgE : Seps gE)
    (hnd : (xs.map (·.id)).Nodup) (hnull : ∀ x ∈ xs, x.sev = .null)
    (h1 : ∀ x ∈ xs, Item1OK cfg d x)
    (h2 : ∀ x ∈ xs, Item2OK ops lex cfg d strict (Mgr.lookup d ({ insts := xs.map (·.mkI) } : Mgr F)) x)
    (hcomp : ∀ x ∈ xs, x.out.state = .complete)
    (it : MInst F → Item F)
    (wid : ∀ x ∈ xs, (it x.out).id = x.out.id) (wkey : ∀ x ∈ xs, keyOf (it x.out).mkI = keyOf x.out)
    (wnull : ∀ x ∈ xs, (it x.out).sev = .null) (wout : ∀ x ∈ xs, (it x.out).out = { x.out with state := .complete })
    (wtxt : ∀ x ∈ xs, ∀ K, 35 :: ((it x.out).body ++ ((it x.out).g ++ K)) = writeInst ops cfg d x.out ++ K)
    (w1 : ∀ x ∈ xs, Item1OK cfg d (it x.out))
    (w2 : ∀ x ∈ xs, Item2OK ops lex cfg d strict (Mgr.lookup d ({ insts := xs.map (·.out) } : Mgr F)) (it x.out)) :
    ∃ res res2, readDataSection ops lex cfg d strict false
        (g0 ++ renderItems xs (endsec sp (gE ++ (endIso ++ 59 :: after)))) = .ok res ∧
      res.mgr.insts = xs.map (·.out) ∧ res.sev = .null ∧
      readDataSection ops lex cfg d strict false
        (10 :: (res.mgr.insts.flatMap (writeInst ops cfg d) ++ (stringToBytes "ENDSEC;\n" ++ (endIso ++ [59, 10])))) = .ok res2 ∧
      res2.sev = .null ∧ res2.mgr.insts = res.mgr.insts ∧
      res2.mgr.insts.flatMap (writeInst ops cfg d) = res.mgr.insts.flatMap (writeInst ops cfg d) := by
  obtain ⟨res, hr, hinsts, hsev, _⟩ := C01_read_items_partial ops lex cfg d strict hskip xs g0 sp gE after hg0 hsp hgE hnd hnull h1 h2
  have hm : res.mgr = { insts := xs.map (·.out) } := by
    cases hmg : res.mgr with
    | mk insts => rw [hmg] at hinsts; simp only at hinsts; rw [hinsts]
  have hmem : ∀ i ∈ res.mgr.insts, ∃ x ∈ xs, x.out = i := by
    intro i hi
    rw [hinsts] at hi
    obtain ⟨x, hx, rfl⟩ := List.mem_map.mp hi
    exact ⟨x, hx, rfl⟩
  have hnd2 : (res.mgr.insts.map (·.id)).Nodup := by
    have : res.mgr.insts.map (·.id) = xs.map (·.id) := by
      rw [hinsts, List.map_map]
      apply List.map_congr_left
      intro x hx
      exact (h2 x hx).2.2.1
    rw [this]; exact hnd
  obtain ⟨res2, hr2, hsev2, _, hin2, hw2⟩ := C01_file_write_read_items_partial ops lex cfg d strict hskip res.mgr hnd2 it
    (by intro i hi; obtain ⟨x, hx, rfl⟩ := hmem i hi; exact wid x hx)
    (by intro i hi; obtain ⟨x, hx, rfl⟩ := hmem i hi; exact wkey x hx)
    (by intro i hi; obtain ⟨x, hx, rfl⟩ := hmem i hi; exact wnull x hx)
    (by intro i hi; obtain ⟨x, hx, rfl⟩ := hmem i hi; exact wout x hx)
    (by intro i hi; obtain ⟨x, hx, rfl⟩ := hmem i hi; exact wtxt x hx)
    (by intro i hi; obtain ⟨x, hx, rfl⟩ := hmem i hi; exact w1 x hx)
    (by intro i hi; obtain ⟨x, hx, rfl⟩ := hmem i hi; rw [hm]; exact w2 x hx)
  refine ⟨res, res2, hr, hinsts, hsev, hr2, hsev2, ?_, hw2⟩
  rw [hin2]
  conv => rhs; rw [← List.map_id res.mgr.insts]
  apply List.map_congr_left
  intro i hi
  obtain ⟨x, hx, rfl⟩ := hmem i hi
  have := hcomp x hx
  cases hxo : x.out with
  | mk id parts complex state =>
    rw [hxo] at this
    simp only at this
    subst this
    rfl

/-! ### read ∘ write for externally mapped instances -/

/-- `STEPcomplex::WriteExtMapEntities` writes a part's attribute list as the parameters `paramsOf` - a `,` between them -/
theorem paramsOf_part {F} (env : Env F) (cfg : RWCfg) (as : List AttrD) (vs : List (MVal F)) (h : StorableRec env as vs) :
    writeAttrsPart env.ops cfg env.dict as vs ++ [41] = renderParams (paramsOf env.ops cfg env.dict as vs) := by
  induction h with
  | one a v h => simp [writeAttrsPart, paramsOf, renderParams, paramOf]
  | cons a v as vs h ht ih =>
    cases ht with
    | one a' v' h' =>
      simp only [writeAttrsPart, paramsOf, renderParams, paramOf, List.append_assoc] at ih ⊢
      simp
    | cons a' v' as' vs' h' ht' =>
      simp only [writeAttrsPart, paramsOf, renderParams, paramOf, List.append_assoc] at ih ⊢
      rw [ih]
      simp

theorem storableRec_filter {F} (env : Env F) (as : List AttrD) (vs : List (MVal F)) (h : StorableRec env as vs) :
    as.filter (!·.redefining) = as := by
  induction h with
  | one a v h => simp [storable_red h]
  | cons a v as vs h ht ih => simp [storable_red h, ih]

theorem setPart_nomatch {F} (ps : List (MPart F)) (n : String) (v : List (MVal F)) (h : ∀ p ∈ ps, p.name ≠ n) :
    setPart ps n v = ps := by
  unfold setPart
  conv => rhs; rw [← List.map_id ps]
  apply List.map_congr_left
  intro p hp
  have : (p.name == n) = false := by simpa using h p hp
  simp [this]

/-- setting every part's values in turn, on the list of those parts with other values, gives the parts themselves -/
theorem foldl_setPart_all {F} : ∀ (todo done defs : List (MPart F)),
    ((done ++ todo).map (·.name)).Nodup → defs.map (·.name) = todo.map (·.name) →
    todo.foldl (fun ps q => setPart ps q.name q.vals) (done ++ defs) = done ++ todo := by
  intro todo
  induction todo with
  | nil =>
    intro done defs _ hd
    have : defs = [] := by simpa using hd
    subst this
    rfl
  | cons q t ih =>
    intro done defs hnd hd
    cases defs with
    | nil => simp at hd
    | cons dq dt =>
      simp only [List.map_cons, List.cons.injEq] at hd
      obtain ⟨hdq, hdt⟩ := hd
      rw [List.map_append, List.map_cons] at hnd
      have hnd' := List.nodup_append.mp hnd
      have hq_done : ∀ p ∈ done, p.name ≠ q.name := by
        intro p hp heq
        exact hnd'.2.2 _ (List.mem_map_of_mem (f := fun x : MPart F => x.name) hp) _ (by simp) heq
      have hq_t : ∀ p ∈ dt, p.name ≠ q.name := by
        intro p hp heq
        have h1 := (List.nodup_cons.mp hnd'.2.1).1
        apply h1
        rw [← hdt, ← heq]
        exact List.mem_map_of_mem (f := fun x : MPart F => x.name) hp
      have hstep : setPart (done ++ dq :: dt) q.name q.vals = (done ++ [q]) ++ dt := by
        have e1 : setPart (done ++ dq :: dt) q.name q.vals = setPart done q.name q.vals ++ setPart (dq :: dt) q.name q.vals := by
          simp [setPart]
        have e2 : setPart (dq :: dt) q.name q.vals = q :: setPart dt q.name q.vals := by
          have : (dq.name == q.name) = true := by simp [hdq]
          cases q with
          | mk qn qv => simp only at hdq this ⊢; simp [setPart, this, hdq]
        rw [e1, e2, setPart_nomatch done _ _ hq_done, setPart_nomatch dt _ _ hq_t]
        simp
      simp only [List.foldl_cons]
      rw [hstep, ih (done ++ [q]) dt (by simpa [List.map_append] using hnd) hdt]
      simp

/-- a part of an externally mapped instance as it sits in memory: no own attributes, or values of the kinds of `Storable`
    whose written text is balanced (`Bal` - what pass 1's `SkipSimpleRecord` lemma asks for; it holds for every text the
    writer emits, but is proved here only where it is used, see the witness) -/
def StorablePart {F} (env : Env F) (cfg : RWCfg) (p : MPart F) : Prop :=
  KeywordName p.name ∧ ∃ ed, env.dict.entity? p.name = some ed ∧
    ((ed.ownAttrs = [] ∧ p.vals = []) ∨
     (StorableRec env ed.ownAttrs p.vals ∧
      ∃ inner, renderParams (paramsOf env.ops cfg env.dict ed.ownAttrs p.vals) = inner ++ [41] ∧ Bal inner))

/-- the part as `STEPcomplex::STEPwrite` emits it: `NAME(…)⏎` -/
def cpartOf {F} (ops : FloatOps F) (cfg : RWCfg) (d : Dict) (p : MPart F) : CPart F :=
  { n0 := (stringToBytes p.name).headD 0, ns := (stringToBytes p.name).tail, sA := [],
    body := (match d.entity? p.name with
             | some e => (match e.ownAttrs with | [] => [41] | _ :: _ => renderParams (paramsOf ops cfg d e.ownAttrs p.vals))
             | none => [41]),
    sB := [10], vals := p.vals }

theorem cpartOf_spec {F} (env : Env F) (cfg : RWCfg) (hsa : cfg.stringNodeAppends = false) (p : MPart F)
    (h : StorablePart env cfg p) :
    (cpartOf env.ops cfg env.dict p).name = p.name ∧ (cpartOf env.ops cfg env.dict p).vals = p.vals ∧
    CPartCovered env (cpartOf env.ops cfg env.dict p) ∧ CPartScan (cpartOf env.ops cfg env.dict p) ∧
    (env.dict.entity? p.name).isSome = true ∧
    stringToBytes p.name ++ [40] ++ writeAttrsPart env.ops cfg env.dict
        (match env.dict.entity? p.name with | some e => e.ownAttrs.filter (!·.redefining) | none => []) p.vals ++ stringToBytes ")\n" =
      (cpartOf env.ops cfg env.dict p).text := by
  obtain ⟨⟨n0, ns, hnb, hn0, hns, hback⟩, ed, hent, hcase⟩ := h
  have hup : upperBytes (n0 :: ns) = n0 :: ns := by
    unfold upperBytes
    conv => rhs; rw [← List.map_id (n0 :: ns)]
    apply List.map_congr_left
    intro c hc
    rcases List.mem_cons.mp hc with rfl | hc
    · exact upper_keeps (by simp [hn0])
    · exact upper_keeps (List.all_eq_true.mp hns c hc)
  have hent' : env.dict.entity? (bytesToString (upperBytes (n0 :: ns))) = some ed := by rw [hup, hback]; exact hent
  have hal : isAlpha n0 = true := by simp [isAlpha, hn0]
  have hkw : ns.all kwc = true := all_imp (fun c hc => upper_kwc hc) _ hns
  have e3 : stringToBytes ")\n" = [41, 10] := by decide
  rcases hcase with ⟨hown, hvals⟩ | ⟨hrec, inner, hin, hbal⟩
  · have hc : cpartOf env.ops cfg env.dict p = { n0 := n0, ns := ns, sA := [], body := [] ++ [41], sB := [10], vals := [] } := by
      simp [cpartOf, hent, hown, hnb, hvals]
    rw [hc]
    refine ⟨by show bytesToString (upperBytes (n0 :: ns)) = p.name; rw [hup, hback], hvals.symm,
      CPartCovered.empty n0 ns [] [10] hal hkw (by decide) (by decide) ed hent' hown [] (Seps.blanks [] (by simp)),
      ⟨hal, hkw, (by show ([] : List Byte).all isSpace = true; decide), (by show ([10] : List Byte).all isSpace = true; decide), [], rfl, Bal.nil⟩,
      by simp [hent], ?_⟩
    simp [hent, hown, hvals, writeAttrsPart, e3, hnb, CPart.text]
  · obtain ⟨hp1, hpa, hpv, hpc, _, _⟩ := paramsOf_spec env cfg hsa env.dict rfl ed.ownAttrs p.vals hrec
    have hne : ed.ownAttrs ≠ [] := by
      intro h0
      have : (paramsOf env.ops cfg env.dict ed.ownAttrs p.vals).map (·.a) = [] := by rw [hpa, h0]
      exact hp1 (by simpa using this)
    have hc : cpartOf env.ops cfg env.dict p =
        { n0 := n0, ns := ns, sA := [], body := renderParams (paramsOf env.ops cfg env.dict ed.ownAttrs p.vals), sB := [10],
          vals := (paramsOf env.ops cfg env.dict ed.ownAttrs p.vals).map (·.v) } := by
      simp only [cpartOf, hent, hnb, List.headD_cons, List.tail_cons, hpv]
      cases ho : ed.ownAttrs with
      | nil => exact absurd ho hne
      | cons a0 at0 => rfl
    rw [hc]
    refine ⟨by show bytesToString (upperBytes (n0 :: ns)) = p.name; rw [hup, hback], hpv,
      CPartCovered.params n0 ns [] [10] hal hkw (by decide) (by decide) ed hent' _ hp1 hpa.symm hpc,
      ⟨hal, hkw, (by show ([] : List Byte).all isSpace = true; decide), (by show ([10] : List Byte).all isSpace = true; decide), inner, hin, hbal⟩,
      by simp [hent], ?_⟩
    have hw := paramsOf_part env cfg ed.ownAttrs p.vals hrec
    simp only [hent, storableRec_filter env _ _ hrec, e3, hnb, CPart.text]
    rw [← hw]
    simp

/-- an externally mapped instance as it sits in memory: parts sorted by name as `CreateSubSuperInstance` leaves them, a legal
    combination, every part storable -/
def StorableCInst {F} (env : Env F) (cfg : RWCfg) (i : MInst F) : Prop :=
  0 ≤ i.id ∧ i.id ≤ IStream.intMax ∧ i.complex = true ∧ i.parts ≠ [] ∧ (∀ p ∈ i.parts, StorablePart env cfg p) ∧
  (i.parts.map (·.name)).Nodup ∧ sortNames (i.parts.map (·.name)) = i.parts.map (·.name) ∧
  env.dict.complexSets.contains (i.parts.map (·.name)) = true

/-- the record `STEPcomplex::STEPwrite` emits for it: `#id=(⏎PART(…)⏎…);` -/
def crecOf {F} (ops : FloatOps F) (cfg : RWCfg) (d : Dict) (i : MInst F) : CRec F :=
  { ds := showInt i.id, s1 := [], s2 := [], parts := i.parts.map (cpartOf ops cfg d), s4 := [] }

/-- **read ∘ write for an externally mapped instance** (record level; the parts of the kinds of `StorablePart`): the text
    `STEPcomplex::STEPwrite` emits for the instance is a record both passes read back to the instance itself - it satisfies
    the hypotheses of `C01_file_write_read_items_partial`, so such instances mix with the others in one manager. -/
theorem complexInst_item {F} (ops : FloatOps F) (lex : LexCfg) (cfg : RWCfg) (d : Dict) (strict : Bool)
    (hskip : cfg.skipInstanceSkipsComments = true) (hcri : lex.criSkipsComments = true) (hagg : cfg.aggrSkipsComments = true)
    (hmc : cfg.missingCheckEverySecond = false) (hrep : cfg.complexReportsError = true)
    (hsa : cfg.stringNodeAppends = false) (lk : Lookup) (i : MInst F)
    (h : StorableCInst { ops := ops, lex := lex, cfg := cfg, dict := d, lookup := lk } cfg i) :
    let x := cxItemS d (crecOf ops cfg d i) [10] [10]
    x.id = i.id ∧ keyOf x.mkI = keyOf i ∧ x.sev = .null ∧ x.out = { i with state := .complete } ∧
    (∀ K, 35 :: (x.body ++ (x.g ++ K)) = writeInst ops cfg d i ++ K) ∧
    Item1OK cfg d x ∧ Item2OK ops lex cfg d strict lk x := by
  intro x
  let env : Env F := { ops := ops, lex := lex, cfg := cfg, dict := d, lookup := lk }
  obtain ⟨h0, hhi, hcx, hpne, hparts, hnd, hsorted, hlegal⟩ := h
  obtain ⟨ds, hds, hne, hdig, hval⟩ := showInt_nonneg i.id h0
  have hspec : ∀ p ∈ i.parts, _ := fun p hp => cpartOf_spec env cfg hsa p (hparts p hp)
  have hnames : (crecOf ops cfg d i).parts.map (·.name) = i.parts.map (·.name) := by
    simp only [crecOf, List.map_map]
    apply List.map_congr_left
    intro p hp
    exact (hspec p hp).1
  have hknownN : ∀ n ∈ i.parts.map (·.name), (d.entity? n).isSome = true := by
    intro n hn
    obtain ⟨p, hp, rfl⟩ := List.mem_map.mp hn
    exact (hspec p hp).2.2.2.2.1
  have hfilter : ((crecOf ops cfg d i).parts.map (·.name)).filter (fun n => (d.entity? n).isSome) = i.parts.map (·.name) := by
    rw [hnames]
    exact List.filter_eq_self.mpr hknownN
  have hidr : (crecOf ops cfg d i).id = i.id := by show ((digitsVal (showInt i.id) 0 : Nat) : Int) = _; rw [hds]; exact hval
  have sepsNil : Seps ([] : List Byte) := Seps.blanks [] (by simp)
  have hl : (crecOf ops cfg d i).Lex := by
    refine ⟨by show showInt i.id ≠ []; rw [hds]; exact hne, by show (showInt i.id).all isDigit = true; rw [hds]; exact hdig,
      by rw [hidr]; exact hhi, sepsNil, sepsNil, sepsNil, by simpa [crecOf] using hpne, ?_⟩
    intro c hc
    simp only [crecOf, List.mem_map] at hc
    obtain ⟨p, hp, rfl⟩ := hc
    exact (hspec p hp).2.2.2.1
  have hC := C01_complex_record_blanks_item ops lex cfg d strict hskip hcri hagg hmc hrep lk (crecOf ops cfg d i) [10] [10] hl
    (by decide) (Seps.blanks [10] (by decide)) (by rw [hfilter, hsorted]; exact hlegal)
    (by
      intro c hc
      simp only [crecOf, List.mem_map] at hc
      obtain ⟨p, hp, rfl⟩ := hc
      rw [(hspec p hp).1]; exact (hspec p hp).2.2.2.2.1)
    (by
      intro c hc
      simp only [crecOf, List.mem_map] at hc
      obtain ⟨p, hp, rfl⟩ := hc
      exact (hspec p hp).2.2.1)
  have hmkparts : (mkCInst d (crecOf ops cfg d i) : MInst F).parts =
      (i.parts.map (·.name)).map (fun n => ({ name := n, vals := match d.entity? n with | some e => defaults e.ownAttrs | none => [] } : MPart F)) := by
    simp only [mkCInst]
    rw [hfilter, hsorted]
    rfl
  refine ⟨hidr, ?_, rfl, ?_, ?_, hC.1, hC.2⟩
  · show keyOf (mkCInst d (crecOf ops cfg d i)) = keyOf i
    simp only [keyOf, hmkparts, List.map_map, Function.comp_def, List.map_id']
    show (((mkCInst d (crecOf ops cfg d i) : MInst F).id), _) = _
    rw [show (mkCInst d (crecOf ops cfg d i) : MInst F).id = i.id from hidr]
  · show finCInst d (crecOf ops cfg d i) = { i with state := .complete }
    have hfold : (crecOf ops cfg d i).parts.foldl (fun ps c => setPart ps c.name c.vals) (mkCInst d (crecOf ops cfg d i) : MInst F).parts = i.parts := by
      have e1 : (crecOf ops cfg d i).parts.foldl (fun ps c => setPart ps c.name c.vals) (mkCInst d (crecOf ops cfg d i) : MInst F).parts =
          i.parts.foldl (fun ps q => setPart ps q.name q.vals) (mkCInst d (crecOf ops cfg d i) : MInst F).parts := by
        have hext : ∀ (qs : List (MPart F)) (ps0 : List (MPart F)), (∀ q ∈ qs, q ∈ i.parts) →
            qs.foldl (fun ps q => setPart ps (cpartOf ops cfg d q).name (cpartOf ops cfg d q).vals) ps0 =
              qs.foldl (fun ps q => setPart ps q.name q.vals) ps0 := by
          intro qs
          induction qs with
          | nil => intro _ _; rfl
          | cons q t ih =>
            intro ps0 hsub
            simp only [List.foldl_cons]
            rw [(hspec q (hsub q (by simp))).1, (hspec q (hsub q (by simp))).2.1]
            exact ih _ (fun y hy => hsub y (by simp [hy]))
        simp only [crecOf, List.foldl_map]
        exact hext i.parts _ (fun _ h => h)
      rw [e1, hmkparts]
      have := foldl_setPart_all i.parts [] ((i.parts.map (·.name)).map (fun n => ({ name := n, vals := match d.entity? n with | some e => defaults e.ownAttrs | none => [] } : MPart F)))
        (by simpa using hnd) (by simp [List.map_map, Function.comp_def])
      simpa using this
    cases i with
    | mk id parts complex state =>
      simp only at hcx hidr hfold
      subst hcx
      simp only [finCInst, hfold]
      simp [mkCInst, CRec.id] at hidr ⊢
      exact hidr
  · intro K
    show 35 :: ((crecOf ops cfg d i).textS [10] [] ++ ([10] ++ K)) = _
    rw [crec_textS_append]
    have hrender : ∀ (ps : List (MPart F)), (∀ p ∈ ps, p ∈ i.parts) →
        ps.flatMap (fun p => stringToBytes p.name ++ [40] ++ writeAttrsPart ops cfg d
          (match d.entity? p.name with | some e => e.ownAttrs.filter (!·.redefining) | none => []) p.vals ++ stringToBytes ")\n") =
        renderCParts (ps.map (cpartOf ops cfg d)) := by
      intro ps
      induction ps with
      | nil => intro _; rfl
      | cons p t ih =>
        intro hsub
        simp only [List.flatMap_cons, List.map_cons, renderCParts]
        rw [ih (fun q hq => hsub q (by simp [hq])), (hspec p (hsub p (by simp))).2.2.2.2.2]
    have e1 : stringToBytes "=(\n" = [61, 40, 10] := by decide
    have e2 : stringToBytes ");\n" = [41, 59, 10] := by decide
    simp only [writeInst, hcx, if_true, e1, e2]
    generalize hFL : List.flatMap _ i.parts = FL
    have hFL' : FL = renderCParts (i.parts.map (cpartOf ops cfg d)) := by
      rw [← hFL]; exact hrender i.parts (fun _ h => h)
    rw [hFL']
    simp [crecOf, CRec.textS, List.append_assoc]

/-- **read ∘ write for externally mapped instances** (`_partial`; `complexInst_item` exported): for every instance of
    `StorableCInst` - parts sorted by name in a legal combination, each part without own attributes or with values of the
    kinds of `Storable` whose written text is balanced - the text `STEPcomplex::STEPwrite` emits,
    `#id=(⏎PART(…)⏎PART(…)⏎);⏎`, is a record with the instance's id and part names that pass 1 creates
    (`CreateSubSuperInstance`) and pass 2 reads back (`STEPcomplex::STEPread`) to the instance itself, severity NULL.  By
    `C01_file_write_read_items_partial` such instances stand in one manager with internally mapped ones
    (`C01_complex_instance_write_read_witness`), and the second write reproduces the bytes. -/
theorem C01_complex_instance_write_read_partial {F} (ops : FloatOps F) (lex : LexCfg) (cfg : RWCfg) (d : Dict) (strict : Bool)
    (hskip : cfg.skipInstanceSkipsComments = true) (hcri : lex.criSkipsComments = true) (hagg : cfg.aggrSkipsComments = true)
    (hmc : cfg.missingCheckEverySecond = false) (hrep : cfg.complexReportsError = true)
    (hsa : cfg.stringNodeAppends = false) (lk : Lookup) (i : MInst F)
    (h : StorableCInst { ops := ops, lex := lex, cfg := cfg, dict := d, lookup := lk } cfg i) :
    (cxItemS d (crecOf ops cfg d i) [10] [10]).id = i.id ∧
    (cxItemS d (crecOf ops cfg d i) [10] [10]).out = { i with state := .complete } ∧
    (∀ K, 35 :: ((cxItemS d (crecOf ops cfg d i) [10] [10]).body ++ ((cxItemS d (crecOf ops cfg d i) [10] [10]).g ++ K)) =
      writeInst ops cfg d i ++ K) ∧
    Item1OK cfg d (cxItemS d (crecOf ops cfg d i) [10] [10]) ∧
    Item2OK ops lex cfg d strict lk (cxItemS d (crecOf ops cfg d i) [10] [10]) := by
  obtain ⟨h1, _, _, h4, h5, h6, h7⟩ := complexInst_item ops lex cfg d strict hskip hcri hagg hmc hrep hsa lk i h
  exact ⟨h1, h4, h5, h6, h7⟩

/-! #### the `Bal` side condition discharged for the scalar kinds that hold no parentheses -/

/-- characters that balanced text may hold outside strings and parentheses -/
def balc (c : Byte) : Bool := plainc c && c != 40 && c != 41

theorem bal_of_balc : ∀ (t : List Byte), t.all balc = true → Bal t := by
  intro t
  induction t with
  | nil => intro _; exact Bal.nil
  | cons c t ih =>
    intro h
    simp only [List.all_cons, Bool.and_eq_true, balc, bne_iff_ne, ne_eq] at h
    exact Bal.plain c t h.1.1.2 h.1.2 h.1.1.1 (ih h.2)

theorem Bal.append_comma {a b : List Byte} (ha : Bal a) (hb : Bal b) : Bal (a ++ 44 :: b) := by
  induction ha with
  | nil => exact Bal.plain 44 b (by decide) (by decide) (by decide) hb
  | plain c t h40 h41 hp ht ih => exact Bal.plain c _ h40 h41 hp ih
  | str b0 t hb0 ht hnq ih =>
    have e : 39 :: (b0 ++ 39 :: t) ++ 44 :: b = 39 :: (b0 ++ 39 :: (t ++ 44 :: b)) := by simp
    rw [e]
    refine Bal.str b0 _ hb0 ih ?_
    cases t with
    | nil => simp
    | cons x xs => simpa using hnq
  | nest inner t hi ht ihi iht =>
    have e : 40 :: (inner ++ 41 :: t) ++ 44 :: b = 40 :: (inner ++ 41 :: (t ++ 44 :: b)) := by simp
    rw [e]
    exact Bal.nest inner _ hi iht

theorem digit_balc {c : Byte} (h : isDigit c = true) : balc c = true := by
  simp only [balc, plainc, Bool.and_eq_true, bne_iff_ne, ne_eq]
  repeat' constructor
  all_goals (intro hc; subst hc; revert h; decide)

/-- values written without parentheses: everything of `Storable` but aggregates and select values -/
def PlainVal {F} : MVal F → Prop
  | .aggr _ => False
  | .one (.sel _ _) => False
  | _ => True

theorem sign_balc (sg : List Byte) (h : IsSign sg) : sg.all balc = true := by
  rcases h with rfl | rfl | rfl <;> decide

/-- an integer token holds digits and at most a sign -/
theorem isInteger_balc (t : List Byte) (h : isInteger t = true) : t.all balc = true := by
  unfold isInteger at h
  simp only [Bool.and_eq_true, Bool.not_eq_true', allDigits] at h
  rcases splitSign_cases t with ⟨r, rfl, hs⟩ | ⟨r, rfl, hs⟩ | ⟨_, _, hs⟩
  · rw [hs] at h
    simp only [List.all_cons, Bool.and_eq_true]
    exact ⟨by decide, all_imp (fun c => digit_balc) _ h.2⟩
  · rw [hs] at h
    simp only [List.all_cons, Bool.and_eq_true]
    exact ⟨by decide, all_imp (fun c => digit_balc) _ h.2⟩
  · rw [hs] at h
    exact all_imp (fun c => digit_balc) _ h.2

/-- a real token holds digits, signs, `.` and `E` -/
theorem isReal_balc (t : List Byte) (h : isReal t = true) : t.all balc = true := by
  obtain ⟨sg, ip, fp, ex, rfl, hsg, _, hip, hfp, hex⟩ := isReal_shape t h
  have hexb : (exText 69 ex).all balc = true := by
    cases ex with
    | none => simp [exText]
    | some e =>
      obtain ⟨esg, ed⟩ := e
      obtain ⟨h1, _, h3⟩ := hex
      simp only [exText, List.all_cons, List.all_append, Bool.and_eq_true]
      exact ⟨by decide, sign_balc esg h1, all_imp (fun c => digit_balc) _ h3⟩
  simp only [realText, List.all_append, List.all_cons, Bool.and_eq_true]
  exact ⟨sign_balc sg hsg, all_imp (fun c => digit_balc) _ hip, by decide, all_imp (fun c => digit_balc) _ hfp, hexb⟩

theorem xdigit_balc {c : Byte} (h : isXDigit c = true) : balc c = true := by
  simp only [balc, plainc, Bool.and_eq_true, bne_iff_ne, ne_eq]
  repeat' constructor
  all_goals (intro hc; subst hc; revert h; decide)

theorem pw_balc {c : Byte} (h : pw c = true) : balc c = true := by
  simp only [balc, plainc, Bool.and_eq_true, bne_iff_ne, ne_eq]
  repeat' constructor
  all_goals (intro hc; subst hc; revert h; decide)

/-- the text written for a stored value of a plain kind is balanced -/
theorem storable_bal {F} (env : Env F) (cfg : RWCfg) (a : AttrD) (v : MVal F) (h : Storable env a v) (hp : PlainVal v) :
    Bal (writeAttr env.ops cfg env.dict a v) := by
  cases h with
  | null hopt hder hred =>
    have : writeAttr env.ops cfg env.dict a (nullOf a : MVal F) = [36] := by
      unfold nullOf; rw [hder]; simp only [Bool.false_eq_true, if_false]
      cases hty : a.ty <;> simp [writeAttr, writeElemAttr, hty]
    rw [this]; exact bal_of_balc _ (by decide)
  | derived hder hred =>
    have : writeAttr env.ops cfg env.dict a (.derived : MVal F) = [42] := rfl
    rw [this]; exact bal_of_balc _ (by decide)
  | int hty hder hred i hlo hhi =>
    have : writeAttr env.ops cfg env.dict a (.one (.atom (.int i)) : MVal F) = showInt i := by
      simp [writeAttr, hty, writeElemAttr, writeAtomCore]
    rw [this]
    exact bal_of_balc _ (isInteger_balc _ (showInt_spec i).1)
  | str hty hder hred b hb =>
    have : writeAttr env.ops cfg env.dict a (.one (.atom (.str (39 :: (b ++ [39])))) : MVal F) = 39 :: (b ++ [39]) := by
      simp [writeAttr, hty, writeElemAttr, writeAtomCore]
    rw [this]
    exact Bal.str b [] hb Bal.nil (by simp)
  | bin hty hder hred hex hne hhex =>
    have he : hex.isEmpty = false := by cases hex <;> simp_all
    have : writeAttr env.ops cfg env.dict a (.one (.atom (.bin hex)) : MVal F) = 34 :: (hex ++ [34]) := by
      simp [writeAttr, hty, writeElemAttr, writeAtomCore, writeBinary, he]
    rw [this]
    refine bal_of_balc _ ?_
    simp only [List.all_cons, List.all_append, List.all_nil, Bool.and_true, Bool.and_eq_true]
    exact ⟨by decide, all_imp (fun c => xdigit_balc) _ hhex, by decide⟩
  | real hty hder hred v hst hnn hbuf =>
    obtain ⟨hreal, _⟩ := writeReal_token env.ops v hst
    have : writeAttr env.ops cfg env.dict a (.one (.atom (.real v)) : MVal F) = writeReal env.ops v := by
      rcases hty with hty | hty <;> simp [writeAttr, hty, writeElemAttr, writeAtomCore]
    rw [this]
    exact bal_of_balc _ (isReal_balc _ hreal)
  | enum ty hty het hder hred i name hget hne hname hfind hset =>
    have htab : enumTable ty = (enumKindOf ty).table := by
      rcases het with rfl | rfl | ⟨items, rfl⟩ <;> rfl
    have : writeAttr env.ops cfg env.dict a (.one (.atom (.enum i)) : MVal F) = 46 :: (name ++ [46]) := by
      simp [writeAttr, hty, writeElemAttr, writeAtomCore, htab, List.getD, hget]
    rw [this]
    refine bal_of_balc _ ?_
    simp only [List.all_cons, List.all_append, List.all_nil, Bool.and_true, Bool.and_eq_true]
    exact ⟨by decide, all_imp (fun c => pw_balc) _ hname, by decide⟩
  | aggr ety hty hder hred es hes => exact absurd hp (by simp [PlainVal])
  | selTyped n hty hder hred sd hsd m hmem hne hfind hkw av tok hleaf => exact absurd hp (by simp [PlainVal])
  | selRef n hty hder hred sd hsd m hmem tg hent id h0 hhi hasg => exact absurd hp (by simp [PlainVal])
  | ref tg hty hder hred id h0 hhi hfound =>
    obtain ⟨ds, hds, _, hdig, _⟩ := showInt_nonneg id h0
    have : writeAttr env.ops cfg env.dict a (.one (.atom (.ref id)) : MVal F) = 35 :: ds := by
      simp [writeAttr, hty, writeElemAttr, writeAtomCore, hds]
    rw [this]
    refine bal_of_balc _ ?_
    simp only [List.all_cons, Bool.and_eq_true]
    exact ⟨by decide, all_imp (fun c => digit_balc) _ hdig⟩

/-! #### … and for select values and aggregates: the `Bal` side condition holds for everything the writer emits -/

theorem kwname_balc {c : Byte} (h : (isUpper c || isDigit c || c == 95) = true) : balc c = true := by
  simp only [balc, plainc, Bool.and_eq_true, bne_iff_ne, ne_eq]
  repeat' constructor
  all_goals (intro hc; subst hc; revert h; decide)

theorem Bal.prefix_balc : ∀ (t : List Byte), t.all balc = true → ∀ {b : List Byte}, Bal b → Bal (t ++ b) := by
  intro t
  induction t with
  | nil => intro _ b hb; exact hb
  | cons c t ih =>
    intro h b hb
    simp only [List.all_cons, Bool.and_eq_true, balc, bne_iff_ne, ne_eq] at h
    exact Bal.plain c _ h.1.1.2 h.1.2 h.1.1.1 (ih (by simpa [balc] using h.2) hb)

/-- the text written for the value of a typed select is balanced -/
theorem leaf_bal {F} (env : Env F) (m : SelMember) (a : Atom F) (tok : List Byte) (h : StorableLeaf env m a tok) : Bal tok := by
  cases h with
  | int hm i hlo hhi => exact bal_of_balc _ (isInteger_balc _ (showInt_spec i).1)
  | real hm v hst hnn hbuf => exact bal_of_balc _ (isReal_balc _ (writeReal_token env.ops v hst).1)
  | str hm b hb => exact Bal.str b [] hb Bal.nil (by simp)
  | bin hm hex hne hhex =>
    refine bal_of_balc _ ?_
    simp only [List.all_cons, List.all_append, List.all_nil, Bool.and_true, Bool.and_eq_true]
    exact ⟨by decide, all_imp (fun c => xdigit_balc) _ hhex, by decide⟩
  | enum het i name hget hne hname hfind hset =>
    refine bal_of_balc _ ?_
    simp only [List.all_cons, List.all_append, List.all_nil, Bool.and_true, Bool.and_eq_true]
    exact ⟨by decide, all_imp (fun c => pw_balc) _ hname, by decide⟩

/-- the text the node writer emits for an aggregate element is balanced -/
theorem elem_bal {F} (env : Env F) (cfg : RWCfg) (d : Dict) (ety : ElemTy) (e : Elem F) (h : StorableElem env ety e) :
    Bal (nodeText env.ops cfg d ety e) := by
  cases h with
  | int i hlo hhi =>
    have ht : nodeText env.ops cfg d .integer (.atom (.int i) : Elem F) = showInt i := by simp [nodeText, nodeWrite, writeAtomCore]
    rw [ht]; exact bal_of_balc _ (isInteger_balc _ (showInt_spec i).1)
  | real v hst hnn hbuf =>
    have ht : nodeText env.ops cfg d .real (.atom (.real v) : Elem F) = writeReal env.ops v := by simp [nodeText, nodeWrite, writeAtomCore]
    rw [ht]; exact bal_of_balc _ (isReal_balc _ (writeReal_token env.ops v hst).1)
  | str b hb =>
    have ht : nodeText env.ops cfg d .string (.atom (.str (39 :: (b ++ [39]))) : Elem F) = 39 :: (b ++ [39]) := by simp [nodeText, nodeWrite]
    rw [ht]; exact Bal.str b [] hb Bal.nil (by simp)
  | bin hex hne hhex =>
    have he : hex.isEmpty = false := by cases hex <;> simp_all
    have ht : nodeText env.ops cfg d .binary (.atom (.bin hex) : Elem F) = 34 :: (hex ++ [34]) := by
      simp [nodeText, nodeWrite, writeAtomCore, writeBinary, he]
    rw [ht]
    refine bal_of_balc _ ?_
    simp only [List.all_cons, List.all_append, List.all_nil, Bool.and_true, Bool.and_eq_true]
    exact ⟨by decide, all_imp (fun c => xdigit_balc) _ hhex, by decide⟩
  | enum ty het i name hget hne hname hfind hset =>
    have ht : nodeText env.ops cfg d ety (.atom (.enum i) : Elem F) = 46 :: (name ++ [46]) := by
      rcases het with rfl | rfl | ⟨items, rfl⟩ <;> simp only [enumKindOf, EnumKind.table] at hget <;>
        simp [nodeText, nodeWrite, writeAtomCore, enumTable, EnumKind.table, List.getD, hget]
    rw [ht]
    refine bal_of_balc _ ?_
    simp only [List.all_cons, List.all_append, List.all_nil, Bool.and_true, Bool.and_eq_true]
    exact ⟨by decide, all_imp (fun c => pw_balc) _ hname, by decide⟩
  | ref tg id h0 hhi hfound =>
    obtain ⟨ds, hds, _, hdig, _⟩ := showInt_nonneg' id h0
    have ht : nodeText env.ops cfg d (.entity tg) (.atom (.ref id) : Elem F) = 35 :: ds := by
      simp [nodeText, nodeWrite, writeAtomCore, hds]
    rw [ht]
    refine bal_of_balc _ ?_
    simp only [List.all_cons, Bool.and_eq_true]
    exact ⟨by decide, all_imp (fun c => digit_balc) _ hdig⟩

/-- elements without layout, separated by commas, closed by `)`: balanced up to the `)` -/
theorem renderElemsG_bal {F} : ∀ (es : List (ElemG F)), es ≠ [] → (∀ e ∈ es, e.before = [] ∧ e.after = [] ∧ Bal e.tok) →
    ∃ inner, renderElemsG es = inner ++ [41] ∧ Bal inner := by
  intro es
  induction es with
  | nil => intro h; exact absurd rfl h
  | cons e t ih =>
    intro _ hall
    obtain ⟨hb, ha, htok⟩ := hall e (by simp)
    cases t with
    | nil => exact ⟨e.tok, by simp [renderElemsG, hb, ha], htok⟩
    | cons f t' =>
      obtain ⟨inner', he, hbal⟩ := ih (List.cons_ne_nil _ _) (fun x hx => hall x (by simp [hx]))
      exact ⟨e.tok ++ 44 :: inner', by simp [renderElemsG, hb, ha, he] , Bal.append_comma htok hbal⟩

/-- **every text `STEPattribute::STEPwrite` emits for a stored value is balanced** -/
theorem storable_bal_all {F} (env : Env F) (cfg : RWCfg) (hsa : cfg.stringNodeAppends = false) (a : AttrD) (v : MVal F)
    (h : Storable env a v) : Bal (writeAttr env.ops cfg env.dict a v) := by
  cases h with
  | aggr ety hty hder hred es hes =>
    have : writeAttr env.ops cfg env.dict a (.aggr es : MVal F) = aggrTextG (es.map (elemOf env.ops cfg env.dict ety)) [] := by
      simp only [writeAttr, hty]
      rw [C01_aggregate_written_elementwise env.ops cfg env.dict ety es (Or.inl hsa), aggrTextG_plain]
    rw [this]
    cases es with
    | nil => exact Bal.nest [] [] Bal.nil Bal.nil
    | cons e0 et =>
      obtain ⟨inner, he, hb⟩ := renderElemsG_bal ((e0 :: et).map (elemOf env.ops cfg env.dict ety)) (by simp)
        (by
          intro x hx
          obtain ⟨y, hy, rfl⟩ := List.mem_map.mp hx
          exact ⟨rfl, rfl, elem_bal env cfg env.dict ety y (hes y hy)⟩)
      show Bal (40 :: renderElemsG ((e0 :: et).map (elemOf env.ops cfg env.dict ety)))
      rw [he]
      exact Bal.nest inner [] hb Bal.nil
  | selTyped n hty hder hred sd hsd m hmem hne hfind hkw av tok hleaf =>
    obtain ⟨n0, ns, hnb, hu0, hus, hback⟩ := hkw
    obtain ⟨hw, _⟩ := storableLeaf_spec env m av tok hleaf
    have hmt : memberTy env.dict (.select n) m.name = m.ty := by simp [memberTy, hsd, hmem]
    have : writeAttr env.ops cfg env.dict a (.one (.sel m.name av) : MVal F) = selText n0 ns [] [] tok [] := by
      simp only [writeAttr, hty, writeElemAttr, writeSelect, hmt]
      cases hmty : m.ty <;> simp_all [ElemTy.isEntity, selText]
    rw [this]
    have hkb : (n0 :: ns).all balc = true := by
      simp only [List.all_cons, Bool.and_eq_true]
      exact ⟨kwname_balc (by simp [hu0]), all_imp (fun c hc => kwname_balc hc) _ hus⟩
    have : selText n0 ns [] [] tok [] = (n0 :: ns) ++ (40 :: (tok ++ 41 :: [])) := by simp [selText]
    rw [this]
    exact Bal.prefix_balc _ hkb (Bal.nest tok [] (leaf_bal env m av tok hleaf) Bal.nil)
  | selRef n hty hder hred sd hsd m hmem tg hent id h0 hhi hasg =>
    obtain ⟨ds, hds, _, hdig, _⟩ := showInt_nonneg id h0
    have hmt : memberTy env.dict (.select n) m.name = m.ty := by simp [memberTy, hsd, hmem]
    have : writeAttr env.ops cfg env.dict a (.one (.sel m.name (.ref id)) : MVal F) = 35 :: ds := by
      simp [writeAttr, hty, writeElemAttr, writeSelect, hmt, hent, writeAtomCore, hds]
    rw [this]
    refine bal_of_balc _ ?_
    simp only [List.all_cons, Bool.and_eq_true]
    exact ⟨by decide, all_imp (fun c => digit_balc) _ hdig⟩
  | null hopt hder hred => exact storable_bal env cfg a _ (Storable.null a hopt hder hred) (by
      unfold nullOf; split <;> (try split) <;> simp [PlainVal])
  | derived hder hred => exact storable_bal env cfg a _ (Storable.derived a hder hred) trivial
  | int hty hder hred i hlo hhi => exact storable_bal env cfg a _ (Storable.int a hty hder hred i hlo hhi) trivial
  | str hty hder hred b hb => exact storable_bal env cfg a _ (Storable.str a hty hder hred b hb) trivial
  | bin hty hder hred hex hne hhex => exact storable_bal env cfg a _ (Storable.bin a hty hder hred hex hne hhex) trivial
  | real hty hder hred v hst hnn hbuf => exact storable_bal env cfg a _ (Storable.real a hty hder hred v hst hnn hbuf) trivial
  | enum ty hty het hder hred i name hget hne hname hfind hset =>
    exact storable_bal env cfg a _ (Storable.enum a ty hty het hder hred i name hget hne hname hfind hset) trivial
  | ref tg hty hder hred id h0 hhi hfound => exact storable_bal env cfg a _ (Storable.ref a tg hty hder hred id h0 hhi hfound) trivial

/-- … and so is the parameter list written for a part whose values are of plain kinds: the `Bal` side condition of
    `StorablePart` holds -/
theorem storableRec_bal {F} (env : Env F) (cfg : RWCfg) (as : List AttrD) (vs : List (MVal F)) (h : StorableRec env as vs)
    (hp : ∀ v ∈ vs, PlainVal v) :
    ∃ inner, renderParams (paramsOf env.ops cfg env.dict as vs) = inner ++ [41] ∧ Bal inner := by
  induction h with
  | one a v h =>
    exact ⟨writeAttr env.ops cfg env.dict a v, by simp [paramsOf, renderParams, paramOf], storable_bal env cfg a v h (hp v (by simp))⟩
  | cons a v as vs h ht ih =>
    obtain ⟨inner', he, hb⟩ := ih (fun x hx => hp x (by simp [hx]))
    have hne : ∃ q qs, paramsOf env.ops cfg env.dict as vs = q :: qs := by
      cases ht with
      | one a' v' h' => exact ⟨_, _, rfl⟩
      | cons a' v' as' vs' h' ht' => exact ⟨_, _, rfl⟩
    obtain ⟨q, qs, hq⟩ := hne
    refine ⟨writeAttr env.ops cfg env.dict a v ++ 44 :: inner', ?_, Bal.append_comma (storable_bal env cfg a v h (hp v (by simp))) hb⟩
    rw [hq] at he
    simp only [paramsOf, hq, renderParams, paramOf, List.nil_append, he]
    simp

/-- **the parameter text the writer emits for a part is balanced** (`C01_`-export of the side condition of `StorablePart`): for
    every attribute / value list of the kinds of `Storable` - selects and aggregates included - what
    `STEPcomplex::WriteExtMapEntities` writes between the part's parentheses is balanced text (`Bal`: strings closed,
    parentheses matched, no `;`, `/` or NUL outside strings), i.e. what `SkipSimpleRecord` in pass 1 steps over.  With
    this the `Bal` hypothesis of `StorablePart` is no assumption: `storablePart_of_rec`. -/
theorem C01_written_part_text_is_balanced {F} (env : Env F) (cfg : RWCfg) (hsa : cfg.stringNodeAppends = false)
    (as : List AttrD) (vs : List (MVal F)) (h : StorableRec env as vs) :
    ∃ inner, renderParams (paramsOf env.ops cfg env.dict as vs) = inner ++ [41] ∧ Bal inner := by
  induction h with
  | one a v h =>
    exact ⟨writeAttr env.ops cfg env.dict a v, by simp [paramsOf, renderParams, paramOf], storable_bal_all env cfg hsa a v h⟩
  | cons a v as vs h ht ih =>
    obtain ⟨inner', he, hb⟩ := ih
    have hne : ∃ q qs, paramsOf env.ops cfg env.dict as vs = q :: qs := by
      cases ht with
      | one a' v' h' => exact ⟨_, _, rfl⟩
      | cons a' v' as' vs' h' ht' => exact ⟨_, _, rfl⟩
    obtain ⟨q, qs, hq⟩ := hne
    refine ⟨writeAttr env.ops cfg env.dict a v ++ 44 :: inner', ?_, Bal.append_comma (storable_bal_all env cfg hsa a v h) hb⟩
    rw [hq] at he
    simp only [paramsOf, hq, renderParams, paramOf, List.nil_append, he]
    simp

/-- every part without own attributes, or with values of the kinds of `Storable`, is a `StorablePart` -/
theorem storablePart_of_rec {F} (env : Env F) (cfg : RWCfg) (hsa : cfg.stringNodeAppends = false) (p : MPart F)
    (hkw : KeywordName p.name) (ed : EntityD) (hent : env.dict.entity? p.name = some ed)
    (hcase : (ed.ownAttrs = [] ∧ p.vals = []) ∨ StorableRec env ed.ownAttrs p.vals) : StorablePart env cfg p := by
  rcases hcase with h | h
  · exact ⟨hkw, ed, hent, Or.inl h⟩
  · exact ⟨hkw, ed, hent, Or.inr ⟨h, C01_written_part_text_is_balanced env cfg hsa ed.ownAttrs p.vals h⟩⟩

/-- a part whose values are of plain kinds is a `StorablePart` -/
theorem storablePart_of_plain {F} (env : Env F) (cfg : RWCfg) (p : MPart F) (hkw : KeywordName p.name) (ed : EntityD)
    (hent : env.dict.entity? p.name = some ed) (hrec : StorableRec env ed.ownAttrs p.vals) (hp : ∀ v ∈ p.vals, PlainVal v) :
    StorablePart env cfg p :=
  ⟨hkw, ed, hent, Or.inr ⟨hrec, storableRec_bal env cfg ed.ownAttrs p.vals hrec hp⟩⟩

/-- **read ∘ write for externally mapped instances, without the side condition** (`_partial`): when the parts' values are
    of the plain kinds (`PlainVal`: `$`, `*`, INTEGER, REAL / NUMBER, STRING, BINARY, ENUMERATION / BOOLEAN / LOGICAL, references -
    everything of `Storable` that is written without parentheses; not selects and aggregates), the written parameter text is balanced (`storableRec_bal`) and
    `C01_complex_instance_write_read_partial` holds unconditionally. -/
theorem C01_complex_instance_plain_write_read_partial {F} (ops : FloatOps F) (lex : LexCfg) (cfg : RWCfg) (d : Dict) (strict : Bool)
    (hskip : cfg.skipInstanceSkipsComments = true) (hcri : lex.criSkipsComments = true) (hagg : cfg.aggrSkipsComments = true)
    (hmc : cfg.missingCheckEverySecond = false) (hrep : cfg.complexReportsError = true)
    (hsa : cfg.stringNodeAppends = false) (lk : Lookup) (i : MInst F)
    (h0 : 0 ≤ i.id) (hhi : i.id ≤ IStream.intMax) (hcx : i.complex = true) (hne : i.parts ≠ [])
    (hparts : ∀ p ∈ i.parts, KeywordName p.name ∧ ∃ ed, d.entity? p.name = some ed ∧
      ((ed.ownAttrs = [] ∧ p.vals = []) ∨
       (StorableRec { ops := ops, lex := lex, cfg := cfg, dict := d, lookup := lk } ed.ownAttrs p.vals ∧ ∀ v ∈ p.vals, PlainVal v)))
    (hnd : (i.parts.map (·.name)).Nodup) (hsorted : sortNames (i.parts.map (·.name)) = i.parts.map (·.name))
    (hlegal : d.complexSets.contains (i.parts.map (·.name)) = true) :
    (cxItemS d (crecOf ops cfg d i) [10] [10]).id = i.id ∧
    (cxItemS d (crecOf ops cfg d i) [10] [10]).out = { i with state := .complete } ∧
    (∀ K, 35 :: ((cxItemS d (crecOf ops cfg d i) [10] [10]).body ++ ((cxItemS d (crecOf ops cfg d i) [10] [10]).g ++ K)) =
      writeInst ops cfg d i ++ K) ∧
    Item1OK cfg d (cxItemS d (crecOf ops cfg d i) [10] [10]) ∧
    Item2OK ops lex cfg d strict lk (cxItemS d (crecOf ops cfg d i) [10] [10]) := by
  refine C01_complex_instance_write_read_partial ops lex cfg d strict hskip hcri hagg hmc hrep hsa lk i
    ⟨h0, hhi, hcx, hne, ?_, hnd, hsorted, hlegal⟩
  intro p hp
  obtain ⟨hkw, ed, hent, hcase⟩ := hparts p hp
  rcases hcase with hemp | ⟨hrec, hpl⟩
  · exact ⟨hkw, ed, hent, Or.inl hemp⟩
  · exact storablePart_of_plain _ cfg p hkw ed hent hrec hpl

/-! #### read ∘ write for managers that mix all three kinds of instances -/

open Classical in
/-- the record `writeInst` emits for an instance, by the kind of the instance -/
noncomputable def itOf {F} (ops : FloatOps F) (lex : LexCfg) (cfg : RWCfg) (d : Dict) (lk : Lookup) (i : MInst F) : Item F :=
  if StorableInst { ops := ops, lex := lex, cfg := cfg, dict := d, lookup := lk } i then (AnyRec.simple (recOf ops cfg d i)).item d
  else if EmptyInst d i then (AnyRecE.empty (F := F) (brecOf i) [10]).item d
  else cxItemS d (crecOf ops cfg d i) [10] [10]

/-- **read ∘ write and write ∘ read ∘ write at file level, all three kinds of instances** (`_partial`): for every manager
    whose instances - pairwise different ids, references only to instances it holds - are each an internally mapped instance
    of the fragment of `C01_file_write_read_partial` (`StorableInst`), an instance of an entity without attributes
    (`EmptyInst`) or an externally mapped instance with storable parts (`StorableCInst`; the `Bal` side condition is
    discharged by `storablePart_of_plain` for all value kinds but selects and aggregates): the data section
    `STEPfile::WriteData` emits is read back by the two passes with severity NULL to exactly the instances that were written
    - every value identical, every part of every externally mapped instance, every instance complete - and writing what
    was read gives the same bytes again. -/
theorem C01_file_write_read_all_partial {F} (ops : FloatOps F) (lex : LexCfg) (cfg : RWCfg) (d : Dict) (strict : Bool)
    (hskip : cfg.skipInstanceSkipsComments = true) (hcri : lex.criSkipsComments = true) (hagg : cfg.aggrSkipsComments = true)
    (hmc : cfg.missingCheckEverySecond = false) (hrep : cfg.complexReportsError = true)
    (hsa : cfg.stringNodeAppends = false) (m : Mgr F) (hnd : (m.insts.map (·.id)).Nodup)
    (hst : ∀ i ∈ m.insts,
      StorableInst { ops := ops, lex := lex, cfg := cfg, dict := d, lookup := Mgr.lookup d m } i ∨ EmptyInst d i ∨
      StorableCInst { ops := ops, lex := lex, cfg := cfg, dict := d, lookup := Mgr.lookup d m } cfg i) :
    ∃ res, readDataSection ops lex cfg d strict false
        (10 :: (m.insts.flatMap (writeInst ops cfg d) ++ (stringToBytes "ENDSEC;\n" ++ (endIso ++ [59, 10])))) = .ok res ∧
      res.sev = .null ∧ exitStatus res.sev = 0 ∧
      res.mgr.insts = m.insts.map (fun i => { i with state := .complete }) ∧
      res.mgr.insts.flatMap (writeInst ops cfg d) = m.insts.flatMap (writeInst ops cfg d) := by
  have key : ∀ i ∈ m.insts,
      (itOf ops lex cfg d (Mgr.lookup d m) i).id = i.id ∧ keyOf (itOf ops lex cfg d (Mgr.lookup d m) i).mkI = keyOf i ∧
      (itOf ops lex cfg d (Mgr.lookup d m) i).sev = .null ∧
      (itOf ops lex cfg d (Mgr.lookup d m) i).out = { i with state := .complete } ∧
      (∀ K, 35 :: ((itOf ops lex cfg d (Mgr.lookup d m) i).body ++ ((itOf ops lex cfg d (Mgr.lookup d m) i).g ++ K)) =
        writeInst ops cfg d i ++ K) ∧
      Item1OK cfg d (itOf ops lex cfg d (Mgr.lookup d m) i) ∧
      Item2OK ops lex cfg d strict (Mgr.lookup d m) (itOf ops lex cfg d (Mgr.lookup d m) i) := by
    intro i hi
    unfold itOf
    by_cases hS : StorableInst { ops := ops, lex := lex, cfg := cfg, dict := d, lookup := Mgr.lookup d m } i
    · rw [if_pos hS]
      exact storableInst_item ops lex cfg d strict hskip hcri hagg hmc hrep hsa _ i hS
    · rw [if_neg hS]
      by_cases hE : EmptyInst d i
      · rw [if_pos hE]
        exact emptyInst_item ops lex cfg d strict hskip _ i hE
      · rw [if_neg hE]
        have hC : StorableCInst { ops := ops, lex := lex, cfg := cfg, dict := d, lookup := Mgr.lookup d m } cfg i := by
          rcases hst i hi with h | h | h
          · exact absurd h hS
          · exact absurd h hE
          · exact h
        exact complexInst_item ops lex cfg d strict hskip hcri hagg hmc hrep hsa _ i hC
  exact C01_file_write_read_items_partial ops lex cfg d strict hskip m hnd (itOf ops lex cfg d (Mgr.lookup d m))
    (fun i hi => (key i hi).1) (fun i hi => (key i hi).2.1) (fun i hi => (key i hi).2.2.1) (fun i hi => (key i hi).2.2.2.1)
    (fun i hi => (key i hi).2.2.2.2.1) (fun i hi => (key i hi).2.2.2.2.2.1) (fun i hi => (key i hi).2.2.2.2.2.2)

/-! ### the two halves composed, and their hypotheses on a concrete file -/

/-- **the token the writer emits for a stored value denotes that value** (`storable_covered`, exported): for every stored
    attribute/value pair of the kinds of `Storable`, what `STEPattribute::STEPwrite` writes is a parameter of the kinds of
    `Covered` whose denotation - by the functions of `Covered`, which are not the reader - is the stored value. -/
theorem C01_written_token_denotes_value {F} (env : Env F) (cfg : RWCfg) (hsa : cfg.stringNodeAppends = false)
    (a : AttrD) (v : MVal F) (h : Storable env a v) : Covered env (paramOf env.ops cfg env.dict a v) :=
  storable_covered env cfg hsa env.dict rfl a v h

/-- **the property, composed** (`_partial`): `read (write (read f)) = read f` and `write (read (write (read f))) =
    write (read f)` for a data section `f` of covered records (`C01_read_file_partial`: read = denote) whose denoted
    instances are storable (`StorableInst`: the intersection of the two halves - every kind of `Covered` but REAL / NUMBER
    values at which `%.15G` does not read back (`RealStable`), aggregates of aggregates and of selects; records with
    ids below 0 are excluded by the grammar).  Redeclared attributes are in neither half (`redefining = false` in every
    constructor of `Covered` and `Storable`). -/
theorem C01_read_write_read_partial {F} (ops : FloatOps F) (lex : LexCfg) (cfg : RWCfg) (d : Dict) (strict : Bool)
    (hskip : cfg.skipInstanceSkipsComments = true) (hcri : lex.criSkipsComments = true) (hagg : cfg.aggrSkipsComments = true)
    (hsa : cfg.stringNodeAppends = false)
    (rs : List (Rec F × List Byte)) (g0 sp gE after : List Byte) (hg0 : Seps g0) (hsp : sp.all isSpace = true) (hgE : Seps gE)
    (hnd : (rs.map (·.1.id)).Nodup)
    (hrec : ∀ rg ∈ rs, RecCovered { ops := ops, lex := lex, cfg := cfg, dict := d,
                                    lookup := Mgr.lookup d ({ insts := rs.map (mkInst d) } : Mgr F) } rg)
    (hst : ∀ rg ∈ rs, StorableInst { ops := ops, lex := lex, cfg := cfg, dict := d,
                                     lookup := Mgr.lookup d ({ insts := rs.map finInst } : Mgr F) } (finInst rg)) :
    ∃ res res2, readDataSection ops lex cfg d strict false
        (g0 ++ renderRecs rs (endsec sp (gE ++ (endIso ++ 59 :: after)))) = .ok res ∧
      res.mgr.insts = rs.map finInst ∧ res.sev = .null ∧
      readDataSection ops lex cfg d strict false
        (10 :: (res.mgr.insts.flatMap (writeInst ops cfg d) ++ (stringToBytes "ENDSEC;\n" ++ (endIso ++ [59, 10])))) = .ok res2 ∧
      res2.sev = .null ∧ res2.mgr.insts = res.mgr.insts ∧
      res2.mgr.insts.flatMap (writeInst ops cfg d) = res.mgr.insts.flatMap (writeInst ops cfg d) := by
  obtain ⟨res, hr, hinsts, hsev, _⟩ := C01_read_file_partial ops lex cfg d strict hskip hcri hagg rs g0 sp gE after hg0 hsp hgE hnd hrec
  have hm : res.mgr = ({ insts := rs.map finInst } : Mgr F) := by
    cases hmg : res.mgr with
    | mk insts => rw [hmg] at hinsts; simp only at hinsts; rw [hinsts]
  have hnd2 : (res.mgr.insts.map (·.id)).Nodup := by
    rw [hinsts, List.map_map]
    exact hnd
  obtain ⟨res2, hr2, hsev2, _, hin2, hw2⟩ := C01_file_write_read_partial ops lex cfg d strict hskip hcri hagg hsa res.mgr hnd2
    (by
      intro i hi
      rw [hinsts] at hi
      obtain ⟨rg, hrg, rfl⟩ := List.mem_map.mp hi
      rw [hm]
      exact hst rg hrg)
  refine ⟨res, res2, hr, hinsts, hsev, hr2, hsev2, ?_, hw2⟩
  rw [hin2, hinsts, List.map_map]
  apply List.map_congr_left
  intro rg _
  rfl


/-! #### the hypotheses of the file-level theorems are satisfiable: `#2=B(#1,$);` `#1=A(5);` (a forward reference) -/
def wAttrI : AttrD := { name := "i", ty := .one .integer, optional := false }
def wAttrR : AttrD := { name := "r", ty := .one (.entity "A"), optional := false }
def wAttrS : AttrD := { name := "s", ty := .one .string, optional := true }
def wDict : Dict :=
  { entities := [{ name := "A", attrs := [wAttrI], ancestors := ["A"] }, { name := "B", attrs := [wAttrR, wAttrS], ancestors := ["B"] }],
    selects := [], complexSets := [] }
def wRecB : Rec Nat × List Byte :=
  ({ ds := [50], s1 := [], s2 := [], n0 := 66, ns := [], s3 := [],
     ps := [{ a := wAttrR, v := .one (.atom (.ref ((digitsVal [49] 0 : Nat) : Int))), tok := 35 :: [49], before := [], after := [] },
            { a := wAttrS, v := nullOf wAttrS, tok := [36], before := [], after := [] }], s4 := [] }, [10])
def wRecA : Rec Nat × List Byte :=
  ({ ds := [49], s1 := [], s2 := [], n0 := 65, ns := [], s3 := [],
     ps := [{ a := wAttrI, v := .one (.atom (.int (denoteInteger [53]))), tok := [53], before := [], after := [] }], s4 := [] }, [10])
def wRecs : List (Rec Nat × List Byte) := [wRecB, wRecA]
def wEnv (m : Mgr Nat) : Env Nat :=
  { ops := dblOps, lex := Generated.rwLexCfg, cfg := Generated.rwCfg, dict := wDict, lookup := Mgr.lookup wDict m }

/-- the records of the witness file are `RecCovered` (with the lookup pass 1 builds from all of them) and their denoted
    instances are `StorableInst`: `C01_read_file_partial`, `C01_file_write_read_partial` and `C01_read_write_read_partial`
    all apply to `#2=B(#1,$);⏎#1=A(5);⏎` -/
theorem C01_file_hypotheses_witness :
    (wRecs.map (·.1.id)).Nodup ∧
    (∀ rg ∈ wRecs, RecCovered (wEnv { insts := wRecs.map (mkInst wDict) }) rg) ∧
    (∀ rg ∈ wRecs, StorableInst (wEnv { insts := wRecs.map finInst }) (finInst rg)) := by
  have sepsNil : Seps ([] : List Byte) := Seps.blanks [] (by decide)
  have sepsNl : Seps ([10] : List Byte) := Seps.blanks [10] (by decide)
  refine ⟨by decide, ?_, ?_⟩
  · intro rg hrg
    simp only [wRecs, List.mem_cons, List.mem_singleton, List.not_mem_nil, or_false] at hrg
    rcases hrg with rfl | rfl
    · refine ⟨⟨by decide, by decide, by decide, sepsNil, sepsNil, sepsNil, sepsNil, by decide, by decide, by decide⟩, sepsNl,
        { name := "B", attrs := [wAttrR, wAttrS], ancestors := ["B"] }, by decide, rfl, rfl, ?_⟩
      intro q hq
      simp only [wRecB, List.mem_cons, List.mem_singleton, List.not_mem_nil, or_false] at hq
      rcases hq with rfl | rfl
      · exact Covered.ref wAttrR "A" rfl rfl rfl [49] (by decide) (by decide) (by decide) (by decide) [] [] sepsNil sepsNil
      · exact Covered.dollar wAttrS rfl rfl rfl [] [] sepsNil sepsNil
    · refine ⟨⟨by decide, by decide, by decide, sepsNil, sepsNil, sepsNil, sepsNil, by decide, by decide, by decide⟩, sepsNl,
        { name := "A", attrs := [wAttrI], ancestors := ["A"] }, by decide, rfl, rfl, ?_⟩
      intro q hq
      simp only [wRecA, List.mem_cons, List.mem_singleton, List.not_mem_nil, or_false] at hq
      subst hq
      exact Covered.integer wAttrI rfl rfl rfl [53] (by decide) (by decide) (by decide) [] [] sepsNil sepsNil
  · intro rg hrg
    simp only [wRecs, List.mem_cons, List.mem_singleton, List.not_mem_nil, or_false] at hrg
    rcases hrg with rfl | rfl
    · refine ⟨by decide, by decide, rfl, { name := "B", vals := wRecB.1.ps.map (·.v) },
        { name := "B", attrs := [wAttrR, wAttrS], ancestors := ["B"] }, rfl, by decide, rfl, ⟨66, [], by decide, by decide, by decide, by decide⟩, ?_⟩
      exact StorableRec.cons wAttrR _ [wAttrS] [nullOf wAttrS]
        (Storable.ref wAttrR "A" rfl rfl rfl _ (by decide) (by decide) (by decide))
        (StorableRec.one wAttrS _ (Storable.null wAttrS rfl rfl rfl))
    · refine ⟨by decide, by decide, rfl, { name := "A", vals := wRecA.1.ps.map (·.v) },
        { name := "A", attrs := [wAttrI], ancestors := ["A"] }, rfl, by decide, rfl, ⟨65, [], by decide, by decide, by decide, by decide⟩, ?_⟩
      exact StorableRec.one wAttrI _ (Storable.int wAttrI rfl rfl rfl _ (by decide) (by decide))

/-- the hypotheses of `C01_read_file_redeclared_partial` are satisfiable: `#1=C(5,$);` for an entity whose attribute list is
    (i INTEGER, a redefining attribute, s OPTIONAL STRING) -/
def wAttrRed : AttrD := { name := "i2", ty := .one .integer, optional := false, redefining := true }
def wDictR : Dict :=
  { entities := [{ name := "C", attrs := [wAttrI, wAttrRed, wAttrS], ancestors := ["C"] }], selects := [], complexSets := [] }
def wRecC : Rec Nat × List Byte :=
  ({ ds := [49], s1 := [], s2 := [], n0 := 67, ns := [], s3 := [],
     ps := [{ a := wAttrI, v := .one (.atom (.int (denoteInteger [53]))), tok := [53], before := [], after := [] },
            { a := wAttrS, v := nullOf wAttrS, tok := [36], before := [], after := [] }], s4 := [] }, [10])

theorem C01_redeclared_hypotheses_witness (lk : Lookup) :
    RecCoveredR ({ ops := dblOps, lex := Generated.rwLexCfg, cfg := Generated.rwCfg, dict := wDictR, lookup := lk } : Env Nat) wRecC := by
  have sepsNil : Seps ([] : List Byte) := Seps.blanks [] (by decide)
  refine ⟨⟨by decide, by decide, by decide, sepsNil, sepsNil, sepsNil, sepsNil, by decide, by decide, by decide⟩,
    Seps.blanks [10] (by decide), { name := "C", attrs := [wAttrI, wAttrRed, wAttrS], ancestors := ["C"] },
    (by show wDictR.entity? wRecC.1.name = _; decide), rfl, ?_, ?_⟩
  · exact AlignedA.keep wAttrI _ _ rfl (AlignedA.red wAttrRed _ _ rfl (AlignedA.keep wAttrS _ _ rfl AlignedA.nil))
  · intro q hq
    simp only [wRecC, List.mem_cons, List.not_mem_nil, or_false] at hq
    rcases hq with rfl | rfl
    · exact Covered.integer wAttrI rfl rfl rfl [53] (by decide) (by decide) (by decide) [] [] sepsNil sepsNil
    · exact Covered.dollar wAttrS rfl rfl rfl [] [] sepsNil sepsNil

/-- … and the composed theorem instantiated on it: the file is read, written, read again to the same two instances -/
theorem C01_read_write_read_witness :
    ∃ res res2, readDataSection dblOps Generated.rwLexCfg Generated.rwCfg wDict false false
        ([10] ++ renderRecs wRecs (endsec [] ([10] ++ (endIso ++ 59 :: [10])))) = .ok res ∧
      res.mgr.insts = wRecs.map finInst ∧ res.sev = .null ∧
      readDataSection dblOps Generated.rwLexCfg Generated.rwCfg wDict false false
        (10 :: (res.mgr.insts.flatMap (writeInst dblOps Generated.rwCfg wDict) ++ (stringToBytes "ENDSEC;\n" ++ (endIso ++ [59, 10])))) = .ok res2 ∧
      res2.sev = .null ∧ res2.mgr.insts = res.mgr.insts ∧
      res2.mgr.insts.flatMap (writeInst dblOps Generated.rwCfg wDict) = res.mgr.insts.flatMap (writeInst dblOps Generated.rwCfg wDict) := by
  obtain ⟨hnd, hrec, hst⟩ := C01_file_hypotheses_witness
  exact C01_read_write_read_partial dblOps Generated.rwLexCfg Generated.rwCfg wDict false (by decide) (by decide) (by decide)
    (by decide) wRecs [10] [] [10] [10] (Seps.blanks _ (by decide)) (by decide) (Seps.blanks _ (by decide)) hnd hrec hst


/-! #### the hypotheses of the mixed file-level theorem are satisfiable: `#1=A(5);` `#2=(A(7)C(#1));` -/
def mDict : Dict :=
  { entities := [{ name := "A", attrs := [wAttrI], ancestors := ["A"] }, { name := "C", attrs := [wAttrR], ancestors := ["C"] }],
    selects := [], complexSets := [["A", "C"]] }
def mPsA : List (Param Nat) :=
  [{ a := wAttrI, v := .one (.atom (.int (denoteInteger [55]))), tok := [55], before := [], after := [] }]
def mPsC : List (Param Nat) :=
  [{ a := wAttrR, v := .one (.atom (.ref ((digitsVal [49] 0 : Nat) : Int))), tok := 35 :: [49], before := [], after := [] }]
def mPartA : CPart Nat := { n0 := 65, ns := [], sA := [], body := renderParams mPsA, sB := [], vals := mPsA.map (·.v) }
def mPartC : CPart Nat := { n0 := 67, ns := [], sA := [], body := renderParams mPsC, sB := [], vals := mPsC.map (·.v) }
def mCRec : CRec Nat := { ds := [50], s1 := [], s2 := [], parts := [mPartA, mPartC], s4 := [] }
def mRecs : List (AnyRec Nat) := [.simple wRecA, .complex mCRec [10]]
def mEnv : Env Nat :=
  { ops := dblOps, lex := Generated.rwLexCfg, cfg := Generated.rwCfg, dict := mDict,
    lookup := Mgr.lookup mDict ({ insts := mRecs.map (fun r => (r.item mDict).mkI) } : Mgr Nat) }

/-- the records of `#1=A(5);⏎#2=(A(7)C(#1));⏎` - an internally mapped record and an externally mapped one whose part `C`
    refers back to the first - satisfy the hypotheses of `C01_read_file_mixed_partial` -/
theorem C01_mixed_hypotheses_witness :
    (mRecs.map (fun r => (r.item mDict).id)).Nodup ∧ ∀ r ∈ mRecs, AnyRecCovered mEnv r := by
  have sepsNil : Seps ([] : List Byte) := Seps.blanks [] (by decide)
  have sepsNl : Seps ([10] : List Byte) := Seps.blanks [10] (by decide)
  refine ⟨by decide, ?_⟩
  intro r hr
  simp only [mRecs, List.mem_cons, List.not_mem_nil, or_false] at hr
  rcases hr with rfl | rfl
  · refine ⟨⟨by decide, by decide, by decide, sepsNil, sepsNil, sepsNil, sepsNil, by decide, by decide, by decide⟩, sepsNl,
      { name := "A", attrs := [wAttrI], ancestors := ["A"] }, by decide, rfl,
      AlignedA.keep wAttrI _ _ rfl AlignedA.nil, ?_⟩
    intro q hq
    simp only [wRecA, List.mem_cons, List.not_mem_nil, or_false] at hq
    subst hq
    exact Covered.integer wAttrI rfl rfl rfl [53] (by decide) (by decide) (by decide) [] [] sepsNil sepsNil
  · refine ⟨⟨by decide, by decide, by decide, sepsNil, sepsNil, sepsNil, List.cons_ne_nil _ _, ?_⟩, sepsNl, by decide, ?_, ?_⟩
    · intro c hc
      simp only [mCRec, List.mem_cons, List.not_mem_nil, or_false] at hc
      rcases hc with rfl | rfl
      · exact ⟨by decide, by decide, by decide, by decide, [55], rfl,
          Bal.plain 55 [] (by decide) (by decide) (by decide) Bal.nil⟩
      · exact ⟨by decide, by decide, by decide, by decide, [35, 49], rfl,
          Bal.plain 35 _ (by decide) (by decide) (by decide) (Bal.plain 49 [] (by decide) (by decide) (by decide) Bal.nil)⟩
    · intro c hc
      simp only [mCRec, List.mem_cons, List.not_mem_nil, or_false] at hc
      rcases hc with rfl | rfl <;> decide
    · intro c hc
      simp only [mCRec, List.mem_cons, List.not_mem_nil, or_false] at hc
      rcases hc with rfl | rfl
      · refine CPartCovered.params 65 [] [] [] (by decide) (by decide) (by decide) (by decide)
          { name := "A", attrs := [wAttrI], ancestors := ["A"] } (by decide) mPsA (List.cons_ne_nil _ _) rfl ?_
        intro q hq
        simp only [mPsA, List.mem_cons, List.not_mem_nil, or_false] at hq
        subst hq
        exact Covered.integer wAttrI rfl rfl rfl [55] (by decide) (by decide) (by decide) [] [] sepsNil sepsNil
      · refine CPartCovered.params 67 [] [] [] (by decide) (by decide) (by decide) (by decide)
          { name := "C", attrs := [wAttrR], ancestors := ["C"] } (by decide) mPsC (List.cons_ne_nil _ _) rfl ?_
        intro q hq
        simp only [mPsC, List.mem_cons, List.not_mem_nil, or_false] at hq
        subst hq
        exact Covered.ref wAttrR "A" rfl rfl rfl [49] (by decide) (by decide) (by decide) (by decide) [] [] sepsNil sepsNil

/-- … and the theorem instantiated on it: both records are created and read, the externally mapped one with both parts -/
theorem C01_read_file_mixed_witness :
    ∃ res, readDataSection dblOps Generated.rwLexCfg Generated.rwCfg mDict false false
        ([10] ++ renderItems (mRecs.map (AnyRec.item mDict)) (endsec [] ([10] ++ (endIso ++ 59 :: [10])))) = .ok res ∧
      res.mgr.insts = mRecs.map (fun r => (r.item mDict).out) ∧ res.sev = .null ∧ res.created = 2 ∧ res.valid = 2 := by
  obtain ⟨hnd, hrec⟩ := C01_mixed_hypotheses_witness
  obtain ⟨res, h, hi, hs, _, hc, _, hv, _⟩ := C01_read_file_mixed_partial dblOps Generated.rwLexCfg Generated.rwCfg mDict false
    (by decide) (by decide) (by decide) (by decide) (by decide) mRecs [10] [] [10] [10]
    (Seps.blanks _ (by decide)) (by decide) (Seps.blanks _ (by decide)) hnd hrec
  exact ⟨res, h, hi, hs, hc, hv⟩

/-! #### … and of the theorem over all record shapes: `#1=E( );` `#2=A(5);` (an entity without attributes) -/
def eDict : Dict :=
  { entities := [{ name := "A", attrs := [wAttrI], ancestors := ["A"] }, { name := "E", attrs := [], ancestors := ["E"] }],
    selects := [], complexSets := [] }
def eRec : BRec := { ds := [49], s1 := [], s2 := [], n0 := 69, ns := [], s3 := [], body := [32, 41], s4 := [] }
def eRecA : Rec Nat × List Byte :=
  ({ ds := [50], s1 := [], s2 := [], n0 := 65, ns := [], s3 := [],
     ps := [{ a := wAttrI, v := .one (.atom (.int (denoteInteger [53]))), tok := [53], before := [], after := [] }], s4 := [] }, [10])
def eFile : List (AnyRecE Nat) := [.empty eRec [10], .base (.simple eRecA)]

/-- `#1=E( );⏎#2=A(5);⏎` - a record of an entity without attributes before an ordinary one - satisfies the hypotheses of
    `C01_read_file_all_shapes_partial`, and the theorem applied to it: two instances, the first without values -/
theorem C01_read_file_all_shapes_witness :
    ∃ res, readDataSection dblOps Generated.rwLexCfg Generated.rwCfg eDict false false
        ([10] ++ renderItems (eFile.map (AnyRecE.item eDict)) (endsec [] ([10] ++ (endIso ++ 59 :: [10])))) = .ok res ∧
      res.mgr.insts = eFile.map (fun r => (r.item eDict).out) ∧ res.sev = .null ∧ res.created = 2 ∧ res.valid = 2 := by
  have sepsNil : Seps ([] : List Byte) := Seps.blanks [] (by decide)
  have sepsNl : Seps ([10] : List Byte) := Seps.blanks [10] (by decide)
  obtain ⟨res, h, hi, hs, _, hc, _, hv, _⟩ := C01_read_file_all_shapes_partial dblOps Generated.rwLexCfg Generated.rwCfg eDict false
    (by decide) (by decide) (by decide) (by decide) (by decide) eFile [10] [] [10] [10] sepsNl (by decide) sepsNl (by decide)
    (by
      intro r hr
      simp only [eFile, List.mem_cons, List.not_mem_nil, or_false] at hr
      rcases hr with rfl | rfl
      · exact ⟨⟨by decide, by decide, by decide, sepsNil, sepsNil, sepsNil, sepsNil, by decide, by decide⟩, sepsNl,
          ⟨{ name := "E", attrs := [], ancestors := ["E"] }, by decide, rfl, rfl⟩, [32], rfl, Seps.blanks [32] (by decide)⟩
      · refine ⟨⟨by decide, by decide, by decide, sepsNil, sepsNil, sepsNil, sepsNil, by decide, by decide, by decide⟩, sepsNl,
          { name := "A", attrs := [wAttrI], ancestors := ["A"] }, by decide, rfl,
          AlignedA.keep wAttrI _ _ rfl AlignedA.nil, ?_⟩
        intro q hq
        simp only [eRecA, List.mem_cons, List.not_mem_nil, or_false] at hq
        subst hq
        exact Covered.integer wAttrI rfl rfl rfl [53] (by decide) (by decide) (by decide) [] [] sepsNil sepsNil)
  exact ⟨res, h, hi, hs, hc, hv⟩

/-! #### … and of the composition principle with a record laid out as the writer does: `#1=A(5);⏎#2=(⏎A(7)⏎C(#1)⏎);⏎` -/
def mwPartA : CPart Nat := { n0 := 65, ns := [], sA := [], body := renderParams mPsA, sB := [10], vals := mPsA.map (·.v) }
def mwPartC : CPart Nat := { n0 := 67, ns := [], sA := [], body := renderParams mPsC, sB := [10], vals := mPsC.map (·.v) }
def mwCRec : CRec Nat := { ds := [50], s1 := [], s2 := [], parts := [mwPartA, mwPartC], s4 := [] }
def mwItems : List (Item Nat) := [(AnyRec.simple wRecA).item mDict, cxItemS mDict mwCRec [10] [10]]
def mwEnv : Env Nat :=
  { ops := dblOps, lex := Generated.rwLexCfg, cfg := Generated.rwCfg, dict := mDict,
    lookup := Mgr.lookup mDict ({ insts := mwItems.map (·.mkI) } : Mgr Nat) }

theorem C01_read_items_witness :
    ∃ res, readDataSection dblOps Generated.rwLexCfg Generated.rwCfg mDict false false
        ([10] ++ renderItems mwItems (endsec [] ([10] ++ (endIso ++ 59 :: [10])))) = .ok res ∧
      res.mgr.insts = mwItems.map (·.out) ∧ res.sev = .null ∧ res.created = 2 ∧ res.valid = 2 := by
  have sepsNil : Seps ([] : List Byte) := Seps.blanks [] (by decide)
  have sepsNl : Seps ([10] : List Byte) := Seps.blanks [10] (by decide)
  have hA : AnyRecCovered mwEnv (.simple wRecA) := by
    refine ⟨⟨by decide, by decide, by decide, sepsNil, sepsNil, sepsNil, sepsNil, by decide, by decide, by decide⟩, sepsNl,
      { name := "A", attrs := [wAttrI], ancestors := ["A"] }, by decide, rfl,
      AlignedA.keep wAttrI _ _ rfl AlignedA.nil, ?_⟩
    intro q hq
    simp only [wRecA, List.mem_cons, List.not_mem_nil, or_false] at hq
    subst hq
    exact Covered.integer wAttrI rfl rfl rfl [53] (by decide) (by decide) (by decide) [] [] sepsNil sepsNil
  have hC := C01_complex_record_blanks_item dblOps Generated.rwLexCfg Generated.rwCfg mDict false (by decide) (by decide) (by decide)
    (by decide) (by decide) mwEnv.lookup mwCRec [10] [10]
    (by
      refine ⟨by decide, by decide, by decide, sepsNil, sepsNil, sepsNil, List.cons_ne_nil _ _, ?_⟩
      intro c hc
      simp only [mwCRec, List.mem_cons, List.not_mem_nil, or_false] at hc
      rcases hc with rfl | rfl
      · exact ⟨by decide, by decide, by decide, by decide, [55], rfl,
          Bal.plain 55 [] (by decide) (by decide) (by decide) Bal.nil⟩
      · exact ⟨by decide, by decide, by decide, by decide, [35, 49], rfl,
          Bal.plain 35 _ (by decide) (by decide) (by decide) (Bal.plain 49 [] (by decide) (by decide) (by decide) Bal.nil)⟩)
    (by decide) sepsNl (by decide)
    (by
      intro c hc
      simp only [mwCRec, List.mem_cons, List.not_mem_nil, or_false] at hc
      rcases hc with rfl | rfl <;> decide)
    (by
      intro c hc
      simp only [mwCRec, List.mem_cons, List.not_mem_nil, or_false] at hc
      rcases hc with rfl | rfl
      · refine CPartCovered.params 65 [] [] [10] (by decide) (by decide) (by decide) (by decide)
          { name := "A", attrs := [wAttrI], ancestors := ["A"] } (by decide) mPsA (List.cons_ne_nil _ _) rfl ?_
        intro q hq
        simp only [mPsA, List.mem_cons, List.not_mem_nil, or_false] at hq
        subst hq
        exact Covered.integer wAttrI rfl rfl rfl [55] (by decide) (by decide) (by decide) [] [] sepsNil sepsNil
      · refine CPartCovered.params 67 [] [] [10] (by decide) (by decide) (by decide) (by decide)
          { name := "C", attrs := [wAttrR], ancestors := ["C"] } (by decide) mPsC (List.cons_ne_nil _ _) rfl ?_
        intro q hq
        simp only [mPsC, List.mem_cons, List.not_mem_nil, or_false] at hq
        subst hq
        exact Covered.ref (env := mwEnv) wAttrR "A" rfl rfl rfl [49] (by decide) (by decide) (by decide) (by decide) [] [] sepsNil sepsNil)
  obtain ⟨res, h, hi, hs, _, hc, _, hv, _⟩ := C01_read_items_partial dblOps Generated.rwLexCfg Generated.rwCfg mDict false
    (by decide) mwItems [10] [] [10] [10] sepsNl (by decide) sepsNl (by decide)
    (by
      intro x hx
      simp only [mwItems, List.mem_cons, List.not_mem_nil, or_false] at hx
      rcases hx with rfl | rfl <;> rfl)
    (by
      intro x hx
      simp only [mwItems, List.mem_cons, List.not_mem_nil, or_false] at hx
      rcases hx with rfl | rfl
      · exact anyRec_item1 dblOps Generated.rwLexCfg Generated.rwCfg mDict (by decide) _ _ hA
      · exact hC.1)
    (by
      intro x hx
      simp only [mwItems, List.mem_cons, List.not_mem_nil, or_false] at hx
      rcases hx with rfl | rfl
      · exact anyRec_item2 dblOps Generated.rwLexCfg Generated.rwCfg mDict false (by decide) (by decide) (by decide) (by decide)
          (by decide) _ _ hA
      · exact hC.2)
  exact ⟨res, h, hi, hs, hc, hv⟩

/-! #### … and of the read ∘ write principle with an instance without values: the manager `{#1 : E, #2 : A(5)}` -/
def weInstE : MInst Nat := { id := 1, parts := [{ name := "E", vals := [] }] }
def weInstA : MInst Nat := { id := 2, parts := [{ name := "A", vals := [.one (.atom (.int 5))] }] }
def weMgr : Mgr Nat := { insts := [weInstE, weInstA] }
def weIt (i : MInst Nat) : Item Nat :=
  if i.id == 1 then (AnyRecE.empty (F := Nat) (brecOf i) [10]).item eDict
  else (AnyRec.simple (recOf dblOps Generated.rwCfg eDict i)).item eDict

/-- what `STEPfile::WriteData` emits for it, `#1=E();⏎#2=A(5);⏎`, is read back to the same two instances, and written again
    to the same bytes -/
theorem C01_file_write_read_items_witness :
    ∃ res, readDataSection dblOps Generated.rwLexCfg Generated.rwCfg eDict false false
        (10 :: (weMgr.insts.flatMap (writeInst dblOps Generated.rwCfg eDict) ++ (stringToBytes "ENDSEC;\n" ++ (endIso ++ [59, 10])))) = .ok res ∧
      res.sev = .null ∧ res.mgr.insts = weMgr.insts.map (fun i => { i with state := .complete }) ∧
      res.mgr.insts.flatMap (writeInst dblOps Generated.rwCfg eDict) = weMgr.insts.flatMap (writeInst dblOps Generated.rwCfg eDict) := by
  have hE := emptyInst_item dblOps Generated.rwLexCfg Generated.rwCfg eDict false (by decide) (Mgr.lookup eDict weMgr) weInstE
    ⟨by decide, by decide, rfl, { name := "E", vals := [] }, { name := "E", attrs := [], ancestors := ["E"] }, rfl, rfl, by decide, rfl, rfl,
      ⟨69, [], by decide, by decide, by decide, by decide⟩⟩
  have hA := storableInst_item dblOps Generated.rwLexCfg Generated.rwCfg eDict false (by decide) (by decide) (by decide) (by decide)
    (by decide) (by decide) (Mgr.lookup eDict weMgr) weInstA
    ⟨by decide, by decide, rfl, { name := "A", vals := [.one (.atom (.int 5))] }, { name := "A", attrs := [wAttrI], ancestors := ["A"] },
      rfl, by decide, rfl, ⟨65, [], by decide, by decide, by decide, by decide⟩,
      StorableRec.one wAttrI _ (Storable.int wAttrI rfl rfl rfl 5 (by decide) (by decide))⟩
  obtain ⟨res, hr, hs, _, hi, hw⟩ := C01_file_write_read_items_partial dblOps Generated.rwLexCfg Generated.rwCfg eDict false (by decide)
    weMgr (by decide) weIt
    (by intro i hi; simp only [weMgr, List.mem_cons, List.not_mem_nil, or_false] at hi; rcases hi with rfl | rfl; exact hE.1; exact hA.1)
    (by intro i hi; simp only [weMgr, List.mem_cons, List.not_mem_nil, or_false] at hi; rcases hi with rfl | rfl; exact hE.2.1; exact hA.2.1)
    (by intro i hi; simp only [weMgr, List.mem_cons, List.not_mem_nil, or_false] at hi; rcases hi with rfl | rfl; exact hE.2.2.1; exact hA.2.2.1)
    (by intro i hi; simp only [weMgr, List.mem_cons, List.not_mem_nil, or_false] at hi; rcases hi with rfl | rfl; exact hE.2.2.2.1; exact hA.2.2.2.1)
    (by intro i hi; simp only [weMgr, List.mem_cons, List.not_mem_nil, or_false] at hi; rcases hi with rfl | rfl; exact hE.2.2.2.2.1; exact hA.2.2.2.2.1)
    (by intro i hi; simp only [weMgr, List.mem_cons, List.not_mem_nil, or_false] at hi; rcases hi with rfl | rfl; exact hE.2.2.2.2.2.1; exact hA.2.2.2.2.2.1)
    (by intro i hi; simp only [weMgr, List.mem_cons, List.not_mem_nil, or_false] at hi; rcases hi with rfl | rfl; exact hE.2.2.2.2.2.2; exact hA.2.2.2.2.2.2)
  exact ⟨res, hr, hs, hi, hw⟩

/-- … and the composed principle on `#1=E();⏎#2=A(5);⏎`: read, written, read again to the same two instances -/
def weItems : List (Item Nat) := weMgr.insts.map weIt

theorem C01_read_write_read_items_witness :
    ∃ res res2, readDataSection dblOps Generated.rwLexCfg Generated.rwCfg eDict false false
        ([10] ++ renderItems weItems (endsec [] ([10] ++ (endIso ++ 59 :: [10])))) = .ok res ∧
      res.mgr.insts = weItems.map (·.out) ∧ res.sev = .null ∧
      readDataSection dblOps Generated.rwLexCfg Generated.rwCfg eDict false false
        (10 :: (res.mgr.insts.flatMap (writeInst dblOps Generated.rwCfg eDict) ++ (stringToBytes "ENDSEC;\n" ++ (endIso ++ [59, 10])))) = .ok res2 ∧
      res2.sev = .null ∧ res2.mgr.insts = res.mgr.insts := by
  have kwE : KeywordName "E" := ⟨69, [], by decide, by decide, by decide, by decide⟩
  have kwA : KeywordName "A" := ⟨65, [], by decide, by decide, by decide, by decide⟩
  have hE : ∀ (lk : Lookup) (st : NState), _ := fun lk st =>
    emptyInst_item dblOps Generated.rwLexCfg Generated.rwCfg eDict false (by decide) lk { weInstE with state := st }
      ⟨(by show (0 : Int) ≤ 1; decide), (by show (1 : Int) ≤ IStream.intMax; decide), rfl, { name := "E", vals := [] },
        { name := "E", attrs := [], ancestors := ["E"] }, rfl, rfl, by decide, rfl, rfl, kwE⟩
  have hA : ∀ (lk : Lookup) (st : NState), _ := fun lk st =>
    storableInst_item dblOps Generated.rwLexCfg Generated.rwCfg eDict false (by decide) (by decide) (by decide) (by decide)
      (by decide) (by decide) lk { weInstA with state := st }
      ⟨(by show (0 : Int) ≤ 2; decide), (by show (2 : Int) ≤ IStream.intMax; decide), rfl,
        { name := "A", vals := [.one (.atom (.int 5))] }, { name := "A", attrs := [wAttrI], ancestors := ["A"] },
        rfl, (by show eDict.entity? "A" = _; decide), rfl, kwA, StorableRec.one wAttrI _ (Storable.int wAttrI rfl rfl rfl 5 (by decide) (by decide))⟩
  obtain ⟨res, res2, h1, h2, h3, h4, h5, h6, _⟩ := C01_read_write_read_items_partial dblOps Generated.rwLexCfg Generated.rwCfg eDict false
    (by decide) weItems [10] [] [10] [10] (Seps.blanks _ (by decide)) (by decide) (Seps.blanks _ (by decide)) (by decide)
    (by intro x hx; simp only [weItems, weMgr, List.map_cons, List.map_nil, List.mem_cons, List.not_mem_nil, or_false] at hx
        rcases hx with rfl | rfl; exact (hE (fun _ => none) .new).2.2.1; exact (hA (fun _ => none) .new).2.2.1)
    (by intro x hx; simp only [weItems, weMgr, List.map_cons, List.map_nil, List.mem_cons, List.not_mem_nil, or_false] at hx
        rcases hx with rfl | rfl; exact (hE (fun _ => none) .new).2.2.2.2.2.1; exact (hA (fun _ => none) .new).2.2.2.2.2.1)
    (by intro x hx; simp only [weItems, weMgr, List.map_cons, List.map_nil, List.mem_cons, List.not_mem_nil, or_false] at hx
        rcases hx with rfl | rfl; exact (hE _ .new).2.2.2.2.2.2; exact (hA _ .new).2.2.2.2.2.2)
    (by intro x hx; simp only [weItems, weMgr, List.map_cons, List.map_nil, List.mem_cons, List.not_mem_nil, or_false] at hx
        rcases hx with rfl | rfl <;> rfl)
    weIt
    (by intro x hx; simp only [weItems, weMgr, List.map_cons, List.map_nil, List.mem_cons, List.not_mem_nil, or_false] at hx
        rcases hx with rfl | rfl; exact (hE (fun _ => none) .complete).1; exact (hA (fun _ => none) .complete).1)
    (by intro x hx; simp only [weItems, weMgr, List.map_cons, List.map_nil, List.mem_cons, List.not_mem_nil, or_false] at hx
        rcases hx with rfl | rfl; exact (hE (fun _ => none) .complete).2.1; exact (hA (fun _ => none) .complete).2.1)
    (by intro x hx; simp only [weItems, weMgr, List.map_cons, List.map_nil, List.mem_cons, List.not_mem_nil, or_false] at hx
        rcases hx with rfl | rfl; exact (hE (fun _ => none) .complete).2.2.1; exact (hA (fun _ => none) .complete).2.2.1)
    (by intro x hx; simp only [weItems, weMgr, List.map_cons, List.map_nil, List.mem_cons, List.not_mem_nil, or_false] at hx
        rcases hx with rfl | rfl; exact (hE (fun _ => none) .complete).2.2.2.1; exact (hA (fun _ => none) .complete).2.2.2.1)
    (by intro x hx; simp only [weItems, weMgr, List.map_cons, List.map_nil, List.mem_cons, List.not_mem_nil, or_false] at hx
        rcases hx with rfl | rfl; exact (hE (fun _ => none) .complete).2.2.2.2.1; exact (hA (fun _ => none) .complete).2.2.2.2.1)
    (by intro x hx; simp only [weItems, weMgr, List.map_cons, List.map_nil, List.mem_cons, List.not_mem_nil, or_false] at hx
        rcases hx with rfl | rfl; exact (hE (fun _ => none) .complete).2.2.2.2.2.1; exact (hA (fun _ => none) .complete).2.2.2.2.2.1)
    (by intro x hx; simp only [weItems, weMgr, List.map_cons, List.map_nil, List.mem_cons, List.not_mem_nil, or_false] at hx
        rcases hx with rfl | rfl; exact (hE _ .complete).2.2.2.2.2.2; exact (hA _ .complete).2.2.2.2.2.2)
  exact ⟨res, res2, h1, h2, h3, h4, h5, h6⟩

/-! #### … and with an externally mapped instance: the manager `{#1 : A(5), #2 : (A(7) C(#1))}` -/
def wcInstA : MInst Nat := { id := 1, parts := [{ name := "A", vals := [.one (.atom (.int 5))] }] }
def wcInstC : MInst Nat :=
  { id := 2, parts := [{ name := "A", vals := [.one (.atom (.int 7))] }, { name := "C", vals := [.one (.atom (.ref 1))] }], complex := true }
def wcMgr : Mgr Nat := { insts := [wcInstA, wcInstC] }
def wcIt (i : MInst Nat) : Item Nat :=
  if i.id == 1 then (AnyRec.simple (recOf dblOps Generated.rwCfg mDict i)).item mDict
  else cxItemS mDict (crecOf dblOps Generated.rwCfg mDict i) [10] [10]
def wcEnv : Env Nat :=
  { ops := dblOps, lex := Generated.rwLexCfg, cfg := Generated.rwCfg, dict := mDict, lookup := Mgr.lookup mDict wcMgr }

/-- what `STEPfile::WriteData` emits for it, `#1=A(5);⏎#2=(⏎A(7)⏎C(#1)⏎);⏎`, is read back to the same two instances - the
    externally mapped one with both parts and the reference into the first - and written again to the same bytes -/
theorem C01_complex_instance_write_read_witness :
    ∃ res, readDataSection dblOps Generated.rwLexCfg Generated.rwCfg mDict false false
        (10 :: (wcMgr.insts.flatMap (writeInst dblOps Generated.rwCfg mDict) ++ (stringToBytes "ENDSEC;\n" ++ (endIso ++ [59, 10])))) = .ok res ∧
      res.sev = .null ∧ res.mgr.insts = wcMgr.insts.map (fun i => { i with state := .complete }) ∧
      res.mgr.insts.flatMap (writeInst dblOps Generated.rwCfg mDict) = wcMgr.insts.flatMap (writeInst dblOps Generated.rwCfg mDict) := by
  have kwA : KeywordName "A" := ⟨65, [], by decide, by decide, by decide, by decide⟩
  have kwC : KeywordName "C" := ⟨67, [], by decide, by decide, by decide, by decide⟩
  have hA := storableInst_item dblOps Generated.rwLexCfg Generated.rwCfg mDict false (by decide) (by decide) (by decide) (by decide)
    (by decide) (by decide) (Mgr.lookup mDict wcMgr) wcInstA
    ⟨by decide, by decide, rfl, { name := "A", vals := [.one (.atom (.int 5))] }, { name := "A", attrs := [wAttrI], ancestors := ["A"] },
      rfl, by decide, rfl, kwA, StorableRec.one wAttrI _ (Storable.int wAttrI rfl rfl rfl 5 (by decide) (by decide))⟩
  have hC := complexInst_item dblOps Generated.rwLexCfg Generated.rwCfg mDict false (by decide) (by decide) (by decide) (by decide)
    (by decide) (by decide) (Mgr.lookup mDict wcMgr) wcInstC
    ⟨by decide, by decide, rfl, List.cons_ne_nil _ _, (by
        intro p hp
        simp only [wcInstC, List.mem_cons, List.not_mem_nil, or_false] at hp
        rcases hp with rfl | rfl
        · exact ⟨kwA, { name := "A", attrs := [wAttrI], ancestors := ["A"] }, by decide, Or.inr
            ⟨StorableRec.one wAttrI _ (Storable.int wAttrI rfl rfl rfl 7 (by decide) (by decide)),
             [55], by decide, Bal.plain 55 [] (by decide) (by decide) (by decide) Bal.nil⟩⟩
        · exact ⟨kwC, { name := "C", attrs := [wAttrR], ancestors := ["C"] }, by decide, Or.inr
            ⟨StorableRec.one wAttrR _ (Storable.ref (env := wcEnv) wAttrR "A" rfl rfl rfl 1 (by decide) (by decide) (by decide)),
             [35, 49], by decide,
             Bal.plain 35 _ (by decide) (by decide) (by decide) (Bal.plain 49 [] (by decide) (by decide) (by decide) Bal.nil)⟩⟩),
      by decide, by decide, by decide⟩
  obtain ⟨res, hr, hs, _, hi, hw⟩ := C01_file_write_read_items_partial dblOps Generated.rwLexCfg Generated.rwCfg mDict false (by decide)
    wcMgr (by decide) wcIt
    (by intro i hi; simp only [wcMgr, List.mem_cons, List.not_mem_nil, or_false] at hi; rcases hi with rfl | rfl; exact hA.1; exact hC.1)
    (by intro i hi; simp only [wcMgr, List.mem_cons, List.not_mem_nil, or_false] at hi; rcases hi with rfl | rfl; exact hA.2.1; exact hC.2.1)
    (by intro i hi; simp only [wcMgr, List.mem_cons, List.not_mem_nil, or_false] at hi; rcases hi with rfl | rfl; exact hA.2.2.1; exact hC.2.2.1)
    (by intro i hi; simp only [wcMgr, List.mem_cons, List.not_mem_nil, or_false] at hi; rcases hi with rfl | rfl; exact hA.2.2.2.1; exact hC.2.2.2.1)
    (by intro i hi; simp only [wcMgr, List.mem_cons, List.not_mem_nil, or_false] at hi; rcases hi with rfl | rfl; exact hA.2.2.2.2.1; exact hC.2.2.2.2.1)
    (by intro i hi; simp only [wcMgr, List.mem_cons, List.not_mem_nil, or_false] at hi; rcases hi with rfl | rfl; exact hA.2.2.2.2.2.1; exact hC.2.2.2.2.2.1)
    (by intro i hi; simp only [wcMgr, List.mem_cons, List.not_mem_nil, or_false] at hi; rcases hi with rfl | rfl; exact hA.2.2.2.2.2.2; exact hC.2.2.2.2.2.2)
  exact ⟨res, hr, hs, hi, hw⟩

def exDict : Dict :=
  { entities := [{ name := "A", attrs := [{ name := "i", ty := .one .integer, optional := false },
                                           { name := "l", ty := .aggr .integer, optional := false }], ancestors := ["A"] }],
    selects := [], complexSets := [] }

/-- what the model reads and writes back for one data section: (file severity, text written) -/
def roundTrip (lex : LexCfg) (cfg : RWCfg) (data : String) : Option (Sev × List Byte) :=
  match readDataSection dblOps lex cfg exDict false false (q data) with
  | .ok r => some (r.sev, r.mgr.insts.flatMap (writeInst dblOps cfg exDict))
  | .error _ => none

def lexOld : LexCfg := { Generated.rwLexCfg with criSkipsComments := false }
def lexNew : LexCfg := { Generated.rwLexCfg with criSkipsComments := true }
def cfgOld : RWCfg := { Generated.rwCfg with aggrSkipsComments := false }
def cfgNew : RWCfg := { Generated.rwCfg with aggrSkipsComments := true }

/-- unrepaired: a comment between a value and its delimiter flags the file -/
theorem C01_comment_after_value_witness :
    roundTrip lexOld cfgOld "#1=A(5 /*f*/,(1));ENDSEC;END-ISO-10303-21;" = some (.warning, q "#1=A(5,(1));\n") := by decide
/-- repaired `CheckRemainingInput`: the same file is read cleanly -/
theorem C01_comment_after_value_repaired :
    roundTrip lexNew cfgNew "#1=A(5 /*f*/,(1));ENDSEC;END-ISO-10303-21;" = some (.null, q "#1=A(5,(1));\n") := by decide
/-- unrepaired: a comment inside an aggregate loses the element after it -/
theorem C01_comment_in_aggregate_witness :
    roundTrip lexOld cfgOld "#1=A(5,(1, /*g*/ 2));ENDSEC;END-ISO-10303-21;" = some (.warning, q "#1=A(5,(1,));\n") := by decide
/-- repaired element loop: both elements are read -/
theorem C01_comment_in_aggregate_repaired :
    roundTrip lexNew cfgNew "#1=A(5,(1, /*g*/ 2));ENDSEC;END-ISO-10303-21;" = some (.null, q "#1=A(5,(1,2));\n") := by decide

end StepModel.P21.C01

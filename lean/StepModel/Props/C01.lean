import StepModel.P21.Writer
import StepModel.Generated.P21RWGen
/-! # C01 — exchange files survive read-then-write: property theorems (see notes/C01.md) -/
namespace StepModel.P21.C01
open StepModel StepModel.P21

/-- the text one aggregate element stands for, independent of any scratch string -/
def nodeText {F} (ops : FloatOps F) (cfg : RWCfg) (d : Dict) (ty : ElemTy) (e : Elem F) : List Byte :=
  nodeWrite ops { cfg with stringNodeAppends := false } d ty [] e

/-- elements separated by commas -/
def commaSep : List (List Byte) → List Byte
  | [] => []
  | [t] => t
  | t :: ts => t ++ [44] ++ commaSep ts

theorem nodeWrite_assign {F} (ops : FloatOps F) (cfg : RWCfg) (d : Dict) (ty : ElemTy) (sc : List Byte) (e : Elem F)
    (h : cfg.stringNodeAppends = false ∨ ty ≠ .string) :
    nodeWrite ops cfg d ty sc e = nodeText ops cfg d ty e := by
  unfold nodeText
  cases e with
  | sel m a => simp [nodeWrite]
  | atom a =>
    cases ty <;> simp_all [nodeWrite]

/-- **aggregate writer**: for every element type and every list of elements the writer emits the elements' own texts
    separated by commas — provided the string node writer assigns (the repaired source) or the aggregate is not an
    aggregate of strings.  No bound on the length. -/
theorem C01_aggregate_written_elementwise {F} (ops : FloatOps F) (cfg : RWCfg) (d : Dict) (ty : ElemTy)
    (es : List (Elem F)) (h : cfg.stringNodeAppends = false ∨ ty ≠ .string) :
    writeAggr ops cfg d ty es = [40] ++ commaSep (es.map (nodeText ops cfg d ty)) ++ [41] := by
  unfold writeAggr
  congr 2
  suffices ∀ sc, writeNodes ops cfg d ty sc es = commaSep (es.map (nodeText ops cfg d ty)) from this []
  induction es with
  | nil => intro sc; simp [writeNodes, commaSep]
  | cons e rest ih =>
    intro sc
    cases rest with
    | nil => simp [writeNodes, commaSep, nodeWrite_assign ops cfg d ty sc e h]
    | cons e2 rest2 =>
      simp only [writeNodes, List.map_cons, commaSep]
      rw [nodeWrite_assign ops cfg d ty sc e h]
      congr 1
      exact ih _

end StepModel.P21.C01

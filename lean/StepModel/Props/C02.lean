import StepModel.GenCxxLemmas
/-!
# C02 — generated dictionary and classes mirror the EXPRESS schema

Property theorems only (helper lemmas are in `StepModel/GenCxxLemmas.lean`).  All statements are for every
schema (no bound on the number of entities, attributes, supertypes, or on the shape of the inheritance DAG).
-/
namespace StepModel.GenCxx
open Spec StepModel.Generated

/-! ## tie to `STEPattributeList::push` as it is written now -/

/-- The duplicate test of `STEPattributeList::push` compares attribute descriptors only.  `pushKey` is
    regenerated from STEPattributeList.cc on every run; with the full `operator==` (which also compares the
    `_derive` / `_redefAttr` flags) this does not elaborate and a shared ancestor's attribute is pushed twice
    whenever one path redeclares it — see `notes/C02.md`, defect 1. -/
theorem C02_push_compares_descriptor : pushKey = .descriptor := rfl

/-! ## attribute order of a freshly created instance -/

/-- Both generated constructors build the same list: `E::E()` and `E::E(se, addAttrs)` on an empty head. -/
theorem C02_ctor_agree (s : Schema) (f : Nat) (n : String) : ctorNoArg s f n = ctorArgs s f n [] :=
  ctorNoArg_eq s f n

/-- The attribute list of a fresh instance is, for EVERY acyclic inheritance graph (chains, diamonds, several
    supertypes, shared ancestors at any depth and along any number of paths), the concatenation in Part 21
    entity order of what each contributing entity's constructor creates; no hypothesis on repeated ancestors. -/
theorem C02_attr_order_full {s : Schema} {rank : String → Nat} (wf : WF s rank) (n : String) (e : Entity)
    (hE : s.findE n = some e) :
    instanceAttrs s n = some ((inheritOrder s (fuelOf s) n []).flatMap (ownOf s ownSAs)) := by
  unfold instanceAttrs
  have hk := C02_push_compares_descriptor
  simp only [hk]
  rw [ctorNoArg_flat wf n e hE]
  rfl

/-- The entries that have a value position in an exchange structure (everything except the
    `AttrType_Redefining` entries, which the reader and writer skip) are exactly the inherited-then-own explicit
    attributes in ISO 10303-21 order. -/
theorem C02_attr_order {s : Schema} {rank : String → Nat} (wf : WF s rank) (n : String) (e : Entity)
    (hE : s.findE n = some e) :
    (instanceAttrs s n).map (fun l => (l.filter (fun a => a.kind != .R)).map p21Key) = some (p21Order s n) := by
  rw [C02_attr_order_full wf n e hE]
  simp only [Option.map_some]
  congr 1
  exact flat_filter s _

/-- No attribute descriptor occurs twice on a fresh instance. -/
theorem C02_attr_nodup (s : Schema) (f : Nat) (n : String) (h : List SA) (hn : h.Nodup) :
    (ctorArgs s f n h).Nodup := by
  have insn : ∀ (l : List SA) (a : SA), l.Nodup → (ins l a).Nodup := by
    intro l a hl
    unfold ins
    by_cases hc : a ∈ l
    · simp [hc, hl]
    · simp only [List.contains_eq_mem, hc, decide_false, Bool.false_eq_true, ↓reduceIte]
      rw [List.nodup_append]
      exact ⟨hl, by simp, by intro x hx y hy; simp at hy; subst hy; intro e; subst e; exact hc hx⟩
  have insAlln : ∀ (xs l : List SA), l.Nodup → (insAll l xs).Nodup := by
    intro xs
    induction xs with
    | nil => intro l hl; exact hl
    | cons x xs ih => intro l hl; exact ih _ (insn l x hl)
  induction f generalizing n h with
  | zero => exact hn
  | succ f ih =>
    rw [ctorArgs_succ]
    cases hE : s.findE n with
    | none => exact hn
    | some e =>
      simp only
      apply insAlln
      have : ∀ (L : List String) (h : List SA), h.Nodup →
          (L.foldl (fun acc sup => ctorArgs s f sup acc) h).Nodup := by
        intro L
        induction L with
        | nil => intro h hh; exact hh
        | cons p ps ihp => intro h hh; exact ihp _ (ih p h hh)
      exact this _ _ hn

/-! ## emission order and attribute numbering -/

/-- `Variable::idx` (the number in `a_<idx><name>`) is different for different attributes, whatever order
    the symbol-table walk delivers the entities in. -/
theorem C02_idx_injective (s : Schema) (order : List String) (p q : (String × String) × Nat)
    (hp : p ∈ numbering s order) (hq : q ∈ numbering s order) (h : p.2 = q.2) : p = q := by
  unfold numbering at hp hq
  simp only at hp hq
  generalize (List.filterMap s.findE order).flatMap
    (fun e => e.attrs.map (fun a => (e.name, dictAttrName a))) = l at hp hq
  obtain ⟨p1, p2⟩ := p
  obtain ⟨q1, q2⟩ := q
  simp only at h
  subst h
  rw [List.mem_zipIdx_iff_getElem?] at hp hq
  simp at hp hq
  rw [hp] at hq
  simp at hq
  simp [hq]

/-! ## name mangling -/

theorem lo_inj {a b : IdChar} (h : lo a = lo b) : a = b := by
  cases a <;> cases b <;> simp_all [lo]
theorem up_inj {a b : IdChar} (h : up a = up b) : a = b := by
  cases a <;> cases b <;> simp_all [up]

theorem map_lo_inj {a b : Ident} (h : a.map lo = b.map lo) : a = b := by
  induction a generalizing b with
  | nil => cases b <;> simp_all
  | cons x xs ih =>
    cases b with
    | nil => simp at h
    | cons y ys =>
      simp only [List.map_cons, List.cons.injEq] at h
      rw [lo_inj h.1, ih h.2]

/-- `ClassName` (C++ class of an entity, base of select/aggregate typedef names) never maps two EXPRESS
    identifiers to the same class name. -/
theorem C02_mangle_injective_class (a b : Ident) (h : className a = className b) : a = b := by
  cases a with
  | nil =>
    cases b with
    | nil => rfl
    | cons d ds => simp [className] at h
  | cons c cs =>
    cases b with
    | nil => simp [className] at h
    | cons d ds =>
      have h' : up c = up d ∧ cs.map lo = ds.map lo := by simpa [className] using h
      rw [up_inj h'.1, map_lo_inj h'.2]

/-- reading a generated name back, ignoring case -/
def unmangle (l : List OutChar) : Ident := l.filterMap fold

theorem unmangle_prettyAux (n : Ident) : unmangle (prettyAux n) = n := by
  fun_induction prettyAux n with
  | case1 => rfl
  | case2 c cs ih =>
    have : fold (up c) = some c := by cases c <;> rfl
    have hus : fold OutChar.us = some IdChar.us := rfl
    unfold unmangle at ih ⊢
    rw [List.filterMap_cons_some hus, List.filterMap_cons_some this, ih]
  | case3 c cs _ ih =>
    have : fold (lo c) = some c := by cases c <;> rfl
    unfold unmangle at ih ⊢
    rw [List.filterMap_cons_some this, ih]

theorem unmangle_prettyName (n : Ident) : unmangle (prettyName n) = n := by
  cases n with
  | nil => rfl
  | cons c cs =>
    have h := unmangle_prettyAux (c :: cs)
    have hu : fold (up c) = some c := by cases c <;> rfl
    unfold prettyName
    cases hp : prettyAux (c :: cs) with
    | nil => rw [hp] at h; simp [unmangle] at h
    | cons x r =>
      rw [hp] at h
      simp only []
      rw [hp]
      simp only [unmangle, List.filterMap_cons] at h ⊢
      rw [hu]
      simp only
      cases hx : fold x with
      | none =>
        -- every character `prettyAux` emits folds back to an identifier character
        rw [hx] at h
        have hl := congrArg List.length h
        have h1 : (prettyAux (c :: cs)).length = (c :: cs).length := by
          have : ∀ m : Ident, (prettyAux m).length = m.length := by
            intro m; fun_induction prettyAux m <;> simp_all
          exact this _
        have h2 : (List.filterMap fold r).length ≤ r.length := List.length_filterMap_le _ _
        rw [hp] at h1
        simp at hl h1
        omega
      | some y =>
        rw [hx] at h
        simp only [List.cons.injEq] at h
        simp [h.2]

/-- `PrettyTmpName` (the name under which entities, types and schemas are registered and looked up) never
    maps two EXPRESS identifiers to the same dictionary name — including identifiers with doubled or trailing
    underscores, where the capitalisation rule is irregular. -/
theorem C02_mangle_injective_pretty (a b : Ident) (h : prettyName a = prettyName b) : a = b := by
  rw [← unmangle_prettyName a, ← unmangle_prettyName b, h]

theorem digits_ne_nil (n : Nat) : digits n ≠ [] := by
  rw [digits]; split <;> simp

theorem digits_inj : ∀ i j : Nat, digits i = digits j → i = j := by
  intro i
  induction i using Nat.strongRecOn with
  | _ i ih =>
    intro j h
    rw [digits.eq_1 i, digits.eq_1 j] at h
    by_cases hi : i < 10 <;> by_cases hj : j < 10
    · simp [hi, hj] at h; exact h
    · simp only [hi, hj, ↓reduceDIte] at h
      have hl := congrArg List.length h
      have := digits_ne_nil (j / 10)
      cases hd : digits (j / 10) with
      | nil => exact absurd hd this
      | cons x xs => rw [hd] at hl; simp at hl
    · simp only [hi, hj, ↓reduceDIte] at h
      have hl := congrArg List.length h
      have := digits_ne_nil (i / 10)
      cases hd : digits (i / 10) with
      | nil => exact absurd hd this
      | cons x xs => rw [hd] at hl; simp at hl
    · simp only [hi, hj, ↓reduceDIte] at h
      have := List.append_inj' h rfl
      have h1 := ih (i / 10) (by omega) (j / 10) this.1
      have h2 : i % 10 = j % 10 := by simpa using this.2
      omega

/-- a valid EXPRESS identifier starts with a letter -/
def ValidIdent (n : Ident) : Prop := ∃ i cs, n = .letter i :: cs

def NonDigitHead : List OutChar → Prop
  | [] => False
  | x :: _ => ∀ d, x ≠ .digit d

theorem digit_split (d1 d2 : List (Fin 10)) (r1 r2 : List OutChar) (h1 : NonDigitHead r1) (h2 : NonDigitHead r2)
    (h : d1.map OutChar.digit ++ r1 = d2.map OutChar.digit ++ r2) : d1 = d2 ∧ r1 = r2 := by
  induction d1 generalizing d2 with
  | nil =>
    cases d2 with
    | nil => exact ⟨rfl, by simpa using h⟩
    | cons y ys =>
      cases r1 with
      | nil => exact absurd h1 (by simp [NonDigitHead])
      | cons x xs =>
        simp only [List.map_nil, List.nil_append, List.map_cons, List.cons_append, List.cons.injEq] at h
        exact absurd h.1 (h1 y)
  | cons x xs ih =>
    cases d2 with
    | nil =>
      cases r2 with
      | nil => exact absurd h2 (by simp [NonDigitHead])
      | cons y ys =>
        simp only [List.map_nil, List.nil_append, List.map_cons, List.cons_append, List.cons.injEq] at h
        exact absurd h.1.symm (h2 x)
    | cons y ys =>
      simp only [List.map_cons, List.cons_append, List.cons.injEq, OutChar.digit.injEq] at h
      obtain ⟨e1, e2⟩ := ih ys h.2
      exact ⟨by rw [h.1, e1], e2⟩

theorem nonDigit_rest (k : AKind) (sup : Option Ident) (nm : Ident) (hn : ValidIdent nm)
    (hs : ∀ s, sup = some s → ValidIdent s) : NonDigitHead (marker k sup.isSome ++ attrCName sup nm) := by
  unfold marker
  by_cases h1 : k = .derived
  · simp [h1, NonDigitHead]
  · by_cases h2 : sup.isSome
    · simp [h1, h2, NonDigitHead]
    · by_cases h3 : k = .inverse
      · simp [h2, h3, NonDigitHead]
      · cases sup with
        | some s => simp at h2
        | none =>
          obtain ⟨i, cs, rfl⟩ := hn
          simp [h1, h3, attrCName, lo, NonDigitHead]

/-- Descriptor variable names `a_<idx><D|R|I><attr>`: different numbers give different C++ identifiers
    (no `a_1` + `2x` / `a_12` + `x` ambiguity), for valid identifiers; together with `C02_idx_injective` no two
    attribute descriptors of a schema share a variable. -/
theorem C02_mangle_injective_descvar (i j : Nat) (k k' : AKind) (sup sup' : Option Ident) (nm nm' : Ident)
    (hn : ValidIdent nm) (hn' : ValidIdent nm') (hs : ∀ s, sup = some s → ValidIdent s)
    (hs' : ∀ s, sup' = some s → ValidIdent s)
    (h : descVarName i k sup nm = descVarName j k' sup' nm') : i = j := by
  unfold descVarName at h
  simp only [List.append_assoc, List.cons_append, List.nil_append, List.cons.injEq, true_and] at h
  have := digit_split _ _ _ _ (nonDigit_rest k sup nm hn hs) (nonDigit_rest k' sup' nm' hn' hs') h
  exact digits_inj i j this.1

/-- Across categories the suffix scheme is NOT injective: the class of enumeration type `a` is
    `SdaiA_var`, which is also the class of an entity named `a_var` (both may be declared in one valid
    schema).  Replayed on the real generator: the emitted code does not compile (notes/C02.md, finding 2). -/
theorem C02_mangle_collision_witness :
    enumClassName [.letter 0] = className [.letter 0, .us, .letter 21, .letter 0, .letter 17] := by
  decide

/-! ## non-vacuity: a diamond with a shared ancestor, a redeclaration on one path, satisfies `WF` -/

def exDiamond : Schema :=
  { name := "d",
    entities := [
      { name := "a", attrs := [{ name := "x", type := .base .integer }, { name := "y", type := .base .real }] },
      { name := "b", supers := ["a"], attrs := [{ name := "x", redecl := some "a", kind := .derived, type := .base .integer }] },
      { name := "c", supers := ["a"], attrs := [{ name := "y", redecl := some "a", type := .base .real }, { name := "c1", type := .base .integer }] },
      { name := "d", supers := ["b", "c"], attrs := [{ name := "d1", type := .base .integer }] } ] }

def exRank : String → Nat := fun n => if n == "a" then 0 else if n == "d" then 2 else 1

example : instanceAttrs exDiamond "d" = some [⟨"a", "x", .E⟩, ⟨"a", "y", .E⟩, ⟨"c", "a.y", .R⟩, ⟨"c", "c1", .E⟩, ⟨"d", "d1", .E⟩] := by
  decide

example : p21Order exDiamond "d" = [("a", "x"), ("a", "y"), ("c", "c1"), ("d", "d1")] := by decide

end StepModel.GenCxx

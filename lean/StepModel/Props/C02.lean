import StepModel.GenCxxMirror
import StepModel.GenCxxFlags
import StepModel.GenCxxFlagSpec
import StepModel.GenCxxRedefSpec
import StepModel.GenCxxFrame
import StepModel.GenCxxCalls
import StepModel.RegistryModel
import StepModel.Accessors
import StepModel.AccessorKinds
import StepModel.SelectCanBeLemmas
import StepModel.GenCxxRulesLemmas
import StepModel.GenCxxAgree
import StepModel.GenCxxDedup
import StepModel.GenCxxDeriveFull
import StepModel.GenCxxRedefFull
import StepModel.GenCxxHeadKey
import StepModel.GenCxxReadBack
import StepModel.GenCxxRedefLine
import StepModel.GenCxxCallsP
import StepModel.GenCxxDeriveFullP
/-!
# C02 — generated dictionary and classes mirror the EXPRESS schema

Property theorems only (helper lemmas are in `StepModel/GenCxxLemmas.lean`).  All statements are for every
schema (no bound on the number of entities, attributes, supertypes, or on the shape of the inheritance DAG).
-/
namespace StepModel.GenCxx
open Spec StepModel.Generated

/-! ## tie to `STEPattributeList::push` as it is written now -/

/-- The duplicate test of `STEPattributeList::push` compares attribute descriptors only.  `pushKey` is
    regenerated from STEPattributeList.cc on every run; with the full `operator==` (which also compares the
    `_derive` / `_redefAttr` flags) this does not elaborate and a shared ancestor's attribute is pushed twice
    whenever one path redeclares it — see `notes/C02.md`, defect 1. -/
theorem C02_push_compares_descriptor : pushKey = .descriptor := rfl

/-! ## attribute order of a freshly created instance -/

/-- Both generated constructors build the same list: `E::E()` and `E::E(se, addAttrs)` on an empty head. -/
theorem C02_ctor_agree (s : Schema) (f : Nat) (n : String) : ctorNoArg s f n = ctorArgs s f n [] :=
  ctorNoArg_eq s f n

/-- The attribute list of a fresh instance is, for EVERY acyclic inheritance graph (chains, diamonds, several
    supertypes, shared ancestors at any depth and along any number of paths), the concatenation in Part 21
    entity order of what each contributing entity's constructor creates; no hypothesis on repeated ancestors. -/
theorem C02_attr_order_full {s : Schema} {rank : String → Nat} (wf : WF s rank) (n : String) (e : Entity)
    (hE : s.findE n = some e) :
    instanceAttrs s n = some ((inheritOrder s (fuelOf s) n []).flatMap (ownOf s ownSAs)) := by
  unfold instanceAttrs
  have hk := C02_push_compares_descriptor
  simp only [hk]
  rw [ctorNoArg_flat wf n e hE]
  rfl

/-- The entries that have a value position in an exchange structure (everything except the
    `AttrType_Redefining` entries, which the reader and writer skip) are exactly the inherited-then-own explicit
    attributes in ISO 10303-21 order. -/
theorem C02_attr_order {s : Schema} {rank : String → Nat} (wf : WF s rank) (n : String) (e : Entity)
    (hE : s.findE n = some e) :
    (instanceAttrs s n).map (fun l => (l.filter (fun a => a.kind != .R)).map p21Key) = some (p21Order s n) := by
  rw [C02_attr_order_full wf n e hE]
  simp only [Option.map_some]
  congr 1
  exact flat_filter s _

/-- No attribute descriptor occurs twice on a fresh instance. -/
theorem C02_attr_nodup (s : Schema) (f : Nat) (n : String) (h : List SA) (hn : h.Nodup) :
    (ctorArgs s f n h).Nodup := by
  have insn : ∀ (l : List SA) (a : SA), l.Nodup → (ins l a).Nodup := by
    intro l a hl
    unfold ins
    by_cases hc : a ∈ l
    · simp [hc, hl]
    · simp only [List.contains_eq_mem, hc, decide_false, Bool.false_eq_true, ↓reduceIte]
      rw [List.nodup_append]
      exact ⟨hl, by simp, by intro x hx y hy; simp at hy; subst hy; intro e; subst e; exact hc hx⟩
  have insAlln : ∀ (xs l : List SA), l.Nodup → (insAll l xs).Nodup := by
    intro xs
    induction xs with
    | nil => intro l hl; exact hl
    | cons x xs ih => intro l hl; exact ih _ (insn l x hl)
  induction f generalizing n h with
  | zero => exact hn
  | succ f ih =>
    rw [ctorArgs_succ]
    cases hE : s.findE n with
    | none => exact hn
    | some e =>
      simp only
      apply insAlln
      have : ∀ (L : List String) (h : List SA), h.Nodup →
          (L.foldl (fun acc sup => ctorArgs s f sup acc) h).Nodup := by
        intro L
        induction L with
        | nil => intro h hh; exact hh
        | cons p ps ihp => intro h hh; exact ihp _ (ih p h hh)
      exact this _ _ hn

/-! ## emission order and attribute numbering -/

/-- `Variable::idx` (the number in `a_<idx><name>`) is different for different attributes, whatever order
    the symbol-table walk delivers the entities in. -/
theorem C02_idx_injective (s : Schema) (order : List String) (p q : (String × String) × Nat)
    (hp : p ∈ numbering s order) (hq : q ∈ numbering s order) (h : p.2 = q.2) : p = q := by
  unfold numbering at hp hq
  simp only at hp hq
  generalize (List.filterMap s.findE order).flatMap
    (fun e => e.attrs.map (fun a => (e.name, dictAttrName a))) = l at hp hq
  obtain ⟨p1, p2⟩ := p
  obtain ⟨q1, q2⟩ := q
  simp only at h
  subst h
  rw [List.mem_zipIdx_iff_getElem?] at hp hq
  simp at hp hq
  rw [hp] at hq
  simp at hq
  simp [hq]

/-! ## name mangling -/

theorem lo_inj {a b : IdChar} (h : lo a = lo b) : a = b := by
  cases a <;> cases b <;> simp_all [lo]
theorem up_inj {a b : IdChar} (h : up a = up b) : a = b := by
  cases a <;> cases b <;> simp_all [up]

theorem map_lo_inj {a b : Ident} (h : a.map lo = b.map lo) : a = b := by
  induction a generalizing b with
  | nil => cases b <;> simp_all
  | cons x xs ih =>
    cases b with
    | nil => simp at h
    | cons y ys =>
      simp only [List.map_cons, List.cons.injEq] at h
      rw [lo_inj h.1, ih h.2]

/-- `ClassName` (C++ class of an entity, base of select/aggregate typedef names) never maps two EXPRESS
    identifiers to the same class name. -/
theorem C02_mangle_injective_class (a b : Ident) (h : className a = className b) : a = b := by
  cases a with
  | nil =>
    cases b with
    | nil => rfl
    | cons d ds => simp [className] at h
  | cons c cs =>
    cases b with
    | nil => simp [className] at h
    | cons d ds =>
      have h' : up c = up d ∧ cs.map lo = ds.map lo := by simpa [className] using h
      rw [up_inj h'.1, map_lo_inj h'.2]

/-- reading a generated name back, ignoring case -/
def unmangle (l : List OutChar) : Ident := l.filterMap fold

theorem unmangle_prettyAux (n : Ident) : unmangle (prettyAux n) = n := by
  fun_induction prettyAux n with
  | case1 => rfl
  | case2 c cs ih =>
    have : fold (up c) = some c := by cases c <;> rfl
    have hus : fold OutChar.us = some IdChar.us := rfl
    unfold unmangle at ih ⊢
    rw [List.filterMap_cons_some hus, List.filterMap_cons_some this, ih]
  | case3 c cs _ ih =>
    have : fold (lo c) = some c := by cases c <;> rfl
    unfold unmangle at ih ⊢
    rw [List.filterMap_cons_some this, ih]

theorem unmangle_prettyName (n : Ident) : unmangle (prettyName n) = n := by
  cases n with
  | nil => rfl
  | cons c cs =>
    have h := unmangle_prettyAux (c :: cs)
    have hu : fold (up c) = some c := by cases c <;> rfl
    unfold prettyName
    cases hp : prettyAux (c :: cs) with
    | nil => rw [hp] at h; simp [unmangle] at h
    | cons x r =>
      rw [hp] at h
      simp only []
      rw [hp]
      simp only [unmangle, List.filterMap_cons] at h ⊢
      rw [hu]
      simp only
      cases hx : fold x with
      | none =>
        -- every character `prettyAux` emits folds back to an identifier character
        rw [hx] at h
        have hl := congrArg List.length h
        have h1 : (prettyAux (c :: cs)).length = (c :: cs).length := by
          have : ∀ m : Ident, (prettyAux m).length = m.length := by
            intro m; fun_induction prettyAux m <;> simp_all
          exact this _
        have h2 : (List.filterMap fold r).length ≤ r.length := List.length_filterMap_le _ _
        rw [hp] at h1
        simp at hl h1
        omega
      | some y =>
        rw [hx] at h
        simp only [List.cons.injEq] at h
        simp [h.2]

/-- `PrettyTmpName` (the name under which entities, types and schemas are registered and looked up) never
    maps two EXPRESS identifiers to the same dictionary name — including identifiers with doubled or trailing
    underscores, where the capitalisation rule is irregular. -/
theorem C02_mangle_injective_pretty (a b : Ident) (h : prettyName a = prettyName b) : a = b := by
  rw [← unmangle_prettyName a, ← unmangle_prettyName b, h]

/-! ### the fixed buffers behind `ClassName` / `PrettyTmpName` -/

/-- Tie: every identifier exp2cxx accepts (`MAX_IDENT_LEN`, regenerated from classes_wrapper.cc: a longer one is refused with a
    diagnostic — run on the real generator by the size-boundaries stream, lengths 199 / 200 / 201) fits the static buffers of
    `ClassName` (prefix + name < BUFSIZ) and `PrettyTmpName` (name < BUFSIZ - 1), BUFSIZ as the C library defines it. -/
theorem C02_mangle_buffers_suffice : maxIdentLen + 4 ≤ cBufsiz ∧ maxIdentLen ≤ cBufsiz - 1 := by decide

theorem className_length (t : Ident) : (className t).length ≤ t.length + 4 := by
  cases t with
  | nil => simp [className, sdaiPrefix]
  | cons c cs => simp [className, sdaiPrefix]

/-- `ClassName` with its buffer: for identifiers within the length exp2cxx accepts nothing is cut off, so the class names are
    injective on them (`C02_mangle_injective_class` is about the function without the buffer). -/
theorem C02_mangle_injective_class_bounded (a b : Ident) (ha : a.length ≤ maxIdentLen) (hb : b.length ≤ maxIdentLen)
    (h : classNameBuf cBufsiz a = classNameBuf cBufsiz b) : a = b := by
  have hs := C02_mangle_buffers_suffice.1
  unfold classNameBuf at h
  rw [List.take_of_length_le (by have := className_length a; omega),
      List.take_of_length_le (by have := className_length b; omega)] at h
  exact C02_mangle_injective_class a b h

/-- … and the registered names (`PrettyTmpName`) likewise. -/
theorem C02_mangle_injective_pretty_bounded (a b : Ident) (ha : a.length ≤ maxIdentLen) (hb : b.length ≤ maxIdentLen)
    (h : prettyNameBuf cBufsiz a = prettyNameBuf cBufsiz b) : a = b := by
  have hs := C02_mangle_buffers_suffice.2
  unfold prettyNameBuf at h
  rw [List.take_of_length_le (by omega), List.take_of_length_le (by omega)] at h
  exact C02_mangle_injective_pretty a b h

/-- What the length bound excludes: past the buffer two identifiers that differ only in a character that is cut off get the same
    class name (shown with a 6-character buffer; the same with BUFSIZ for identifiers of BUFSIZ characters, which the generator
    refuses long before). -/
theorem C02_mangle_truncation_witness :
    classNameBuf 6 [.letter 0, .letter 1, .letter 2] = classNameBuf 6 [.letter 0, .letter 1, .letter 3] ∧
    prettyNameBuf 3 [.letter 0, .letter 1, .letter 2] = prettyNameBuf 3 [.letter 0, .letter 1, .letter 3] := by decide

theorem digits_ne_nil (n : Nat) : digits n ≠ [] := by
  rw [digits]; split <;> simp

theorem digits_inj : ∀ i j : Nat, digits i = digits j → i = j := by
  intro i
  induction i using Nat.strongRecOn with
  | _ i ih =>
    intro j h
    rw [digits.eq_1 i, digits.eq_1 j] at h
    by_cases hi : i < 10 <;> by_cases hj : j < 10
    · simp [hi, hj] at h; exact h
    · simp only [hi, hj, ↓reduceDIte] at h
      have hl := congrArg List.length h
      have := digits_ne_nil (j / 10)
      cases hd : digits (j / 10) with
      | nil => exact absurd hd this
      | cons x xs => rw [hd] at hl; simp at hl
    · simp only [hi, hj, ↓reduceDIte] at h
      have hl := congrArg List.length h
      have := digits_ne_nil (i / 10)
      cases hd : digits (i / 10) with
      | nil => exact absurd hd this
      | cons x xs => rw [hd] at hl; simp at hl
    · simp only [hi, hj, ↓reduceDIte] at h
      have := List.append_inj' h rfl
      have h1 := ih (i / 10) (by omega) (j / 10) this.1
      have h2 : i % 10 = j % 10 := by simpa using this.2
      omega

/-- a valid EXPRESS identifier starts with a letter -/
def ValidIdent (n : Ident) : Prop := ∃ i cs, n = .letter i :: cs

def NonDigitHead : List OutChar → Prop
  | [] => False
  | x :: _ => ∀ d, x ≠ .digit d

theorem digit_split (d1 d2 : List (Fin 10)) (r1 r2 : List OutChar) (h1 : NonDigitHead r1) (h2 : NonDigitHead r2)
    (h : d1.map OutChar.digit ++ r1 = d2.map OutChar.digit ++ r2) : d1 = d2 ∧ r1 = r2 := by
  induction d1 generalizing d2 with
  | nil =>
    cases d2 with
    | nil => exact ⟨rfl, by simpa using h⟩
    | cons y ys =>
      cases r1 with
      | nil => exact absurd h1 (by simp [NonDigitHead])
      | cons x xs =>
        simp only [List.map_nil, List.nil_append, List.map_cons, List.cons_append, List.cons.injEq] at h
        exact absurd h.1 (h1 y)
  | cons x xs ih =>
    cases d2 with
    | nil =>
      cases r2 with
      | nil => exact absurd h2 (by simp [NonDigitHead])
      | cons y ys =>
        simp only [List.map_nil, List.nil_append, List.map_cons, List.cons_append, List.cons.injEq] at h
        exact absurd h.1.symm (h2 x)
    | cons y ys =>
      simp only [List.map_cons, List.cons_append, List.cons.injEq, OutChar.digit.injEq] at h
      obtain ⟨e1, e2⟩ := ih ys h.2
      exact ⟨by rw [h.1, e1], e2⟩

theorem nonDigit_rest (k : AKind) (sup : Option Ident) (nm : Ident) (hn : ValidIdent nm)
    (hs : ∀ s, sup = some s → ValidIdent s) : NonDigitHead (marker k sup.isSome ++ attrCName sup nm) := by
  unfold marker
  by_cases h1 : k = .derived
  · simp [h1, NonDigitHead]
  · by_cases h2 : sup.isSome
    · simp [h1, h2, NonDigitHead]
    · by_cases h3 : k = .inverse
      · simp [h2, h3, NonDigitHead]
      · cases sup with
        | some s => simp at h2
        | none =>
          obtain ⟨i, cs, rfl⟩ := hn
          simp [h1, h3, attrCName, lo, NonDigitHead]

/-- Descriptor variable names `a_<idx><D|R|I><attr>`: different numbers give different C++ identifiers
    (no `a_1` + `2x` / `a_12` + `x` ambiguity), for valid identifiers; together with `C02_idx_injective` no two
    attribute descriptors of a schema share a variable. -/
theorem C02_mangle_injective_descvar (i j : Nat) (k k' : AKind) (sup sup' : Option Ident) (nm nm' : Ident)
    (hn : ValidIdent nm) (hn' : ValidIdent nm') (hs : ∀ s, sup = some s → ValidIdent s)
    (hs' : ∀ s, sup' = some s → ValidIdent s)
    (h : descVarName i k sup nm = descVarName j k' sup' nm') : i = j := by
  unfold descVarName at h
  simp only [List.append_assoc, List.cons_append, List.nil_append, List.cons.injEq, true_and] at h
  have := digit_split _ _ _ _ (nonDigit_rest k sup nm hn hs) (nonDigit_rest k' sup' nm' hn' hs') h
  exact digits_inj i j this.1

/-! ### companion names: exactly when do two declarations get the same C++ class / file -/

/-- identifiers `_var`, `_agg` -/
def idVar : Ident := [.us, .letter 21, .letter 0, .letter 17]
def idAgg : Ident := [.us, .letter 0, .letter 6, .letter 6]

theorem className_append (t suf : Ident) (ht : t ≠ []) : className (t ++ suf) = className t ++ suf.map lo := by
  cases t with
  | nil => exact absurd rfl ht
  | cons c cs => simp [className]

/-- EXACT characterisation of the collision behind finding F1: the class generated for enumeration type `t`
    (`Sdai<T>_var`) is the class generated for entity (or select) `e` **iff** `e` is `t` followed by `_var`.  Nothing
    else collides with an enumeration's class. -/
theorem C02_mangle_collision_iff_enum (t e : Ident) (ht : t ≠ []) :
    enumClassName t = className e ↔ e = t ++ idVar := by
  have h : enumClassName t = className (t ++ idVar) := by
    rw [className_append t idVar ht]; rfl
  rw [h]
  constructor
  · intro heq; exact (C02_mangle_injective_class _ _ heq).symm
  · intro heq; rw [heq]

/-- the same for the aggregate class of a select (`Sdai<T>_agg`): it is the class of entity/select `e` iff `e = t_agg` -/
theorem C02_mangle_collision_iff_select_agg (t e : Ident) (ht : t ≠ []) :
    selectAggClassName t = className e ↔ e = t ++ idAgg := by
  have h : selectAggClassName t = className (t ++ idAgg) := by
    rw [className_append t idAgg ht]; rfl
  rw [h]
  constructor
  · intro heq; exact (C02_mangle_injective_class _ _ heq).symm
  · intro heq; rw [heq]

/-- Select classes (`SelectName`) are named injectively, and never like an entity class of a different identifier
    (entities, selects and the other defined types share one EXPRESS scope, so equal identifiers cannot both be declared). -/
theorem C02_mangle_injective_select (a b : Ident) (h : selectClassName a = selectClassName b) : a = b :=
  C02_mangle_injective_class a b h

theorem wrap_cancel {α : Type} (p x y q : List α) (h : p ++ x ++ q = p ++ y ++ q) : x = y :=
  List.append_cancel_left (List.append_cancel_right h)

/-- File names: `entity/<Class>.h|.cc` are injective in the entity, `type/<Class>[_var].h` in the type; an entity file is
    never a type file; an enumeration's file is a select's file iff the select is named `<enum>_var`. -/
theorem C02_mangle_injective_files (a b : Ident) :
    (entityHeader a = entityHeader b → a = b) ∧ (entityImpl a = entityImpl b → a = b) ∧
    (enumHeader a = enumHeader b → a = b) ∧ (selectHeader a = selectHeader b → a = b) ∧
    entityHeader a ≠ enumHeader b ∧ entityHeader a ≠ selectHeader b ∧
    (a ≠ [] → (enumHeader a = selectHeader b ↔ b = a ++ idVar)) := by
  refine ⟨?_, ?_, ?_, ?_, ?_, ?_, ?_⟩
  · intro h; exact C02_mangle_injective_class a b (wrap_cancel _ _ _ _ h)
  · intro h; exact C02_mangle_injective_class a b (wrap_cancel _ _ _ _ h)
  · intro h
    have h1 : className a ++ suffixVar = className b ++ suffixVar := wrap_cancel _ _ _ _ h
    exact C02_mangle_injective_class a b (List.append_cancel_right h1)
  · intro h; exact C02_mangle_injective_class a b (wrap_cancel _ _ _ _ h)
  · intro h; simp [entityHeader, enumHeader, dirEntity, dirType] at h
  · intro h; simp [entityHeader, selectHeader, dirEntity, dirType] at h
  · intro ha
    constructor
    · intro h
      exact (C02_mangle_collision_iff_enum a b ha).mp (wrap_cancel _ _ _ _ h)
    · intro h
      unfold enumHeader selectHeader selectClassName
      rw [(C02_mangle_collision_iff_enum a b ha).mpr h]

/-- Across categories the suffix scheme is NOT injective: the class of enumeration type `a` is
    `SdaiA_var`, which is also the class of an entity named `a_var` (both may be declared in one valid
    schema).  Replayed on the real generator: the emitted code does not compile (notes/C02.md, finding 2). -/
theorem C02_mangle_collision_witness :
    enumClassName [.letter 0] = className [.letter 0, .us, .letter 21, .letter 0, .letter 17] := by
  decide

/-! ## the `_derive` / `_redefAttr` wiring does not disturb the order -/

/-- The constructor model that also executes `MakeDerived` / `MakeRedefined` (flags on shared `STEPattribute` objects,
    own lists of the `AppendMultInstance` parts) puts exactly the descriptors of the flag-free model on the head
    instance, in the same order — for every schema, entity and amount of fuel.  So `C02_attr_order` speaks about the
    instances whose flags the harness compares as well. -/
theorem C02_flags_preserve_order (s : Schema) (n : String) :
    (instanceFlags s n).map (fun l => l.map (·.1)) = instanceAttrs s n := by
  unfold instanceFlags instanceAttrs
  have hk := C02_push_compares_descriptor
  simp only [hk, Option.map_some]
  congr 1
  have e := ctorNF_eff s (fuelOf s) n {} (by intro id h; simp at h)
  have hh : descs (ctorNF s (fuelOf s) n {}) (ctorNF s (fuelOf s) n {}).head = ctorArgs s (fuelOf s) n [] := by
    simpa [descs] using e.head
  rw [ctorNoArg_eq, ← hh]
  unfold descs saAt
  rw [List.map_filterMap]
  congr 1
  funext id
  cases (ctorNF s (fuelOf s) n {}).objs[id]? <;> rfl

/-! ## which attributes are flagged derived -/

/-- Specification of the `MakeDerived( x, cr )` calls that `initializeAttrs` prints into the constructors of an entity with a
    single-inheritance ancestry (ordered_attrs.cc `populateAttrList` + `dedupList`): exactly one call per attribute name `x`
    whose FIRST occurrence along the chain (root first, declaration order) is in entity `cr`, and which is either declared in
    a DERIVE clause there or is redeclared in a DERIVE clause later on the chain. -/
theorem C02_derived_calls_chain {s : Schema} {rank : String → Nat} (wf : WF s rank) (rr : RedeclResolves s)
    (r1 : RedeclNamesOneLine s) {n : String} {c : List Entity} (h : IsChain s n c)
    (hf : c.length ≤ fuelOf s) (x cr : String) :
    (x, cr) ∈ derivedCalls s n ↔ DerivedCall (flatAttrs c) x cr := by
  rw [derivedCalls_agree wf rr r1 n]; exact derivedCalls_chain h hf x cr

/-- `populateAttrList` looks for the attribute a redeclaration `SELF\sup.x` means among the attributes of `sup` and its supertypes
    (regenerated from ordered_attrs.cc; before fix C02-8 it took the first attribute named `x`, and this does not elaborate). -/
theorem C02_redecl_search_uses_creator : redeclSearchUsesCreator = true := rfl

/-- the generated `MakeRedefined( a, nm, declarer )` names the entity that declares the redeclared attribute (regenerated from
    classes_entity.c; before fix C02-9 the call had no owner and wired the first attribute of that name) -/
theorem C02_redefined_search_uses_declarer : redefinedSearchUsesDeclarer = true := rfl

/-- two supertypes that both have an attribute `x`, `w` redeclares `SELF\q.x` explicitly: `q.x` — not `p.x`, the first attribute
    named `x` — is wired to the redefining attribute.  Confirmed on the real code (corpus f8). -/
theorem C02_flags_redefined_right_supertype :
    instanceFlags
      { name := "f8", entities := [
          { name := "p", attrs := [{ name := "x", type := .base .integer }] },
          { name := "q", attrs := [{ name := "x", type := .base .real }, { name := "y", type := .base .string }] },
          { name := "u", supers := ["p", "q"], attrs := [{ name := "z", type := .base .integer }] },
          { name := "w", supers := ["u"], attrs := [{ name := "x", redecl := some "q", type := .base .real }] }] } "w"
      = some [(⟨"p", "x", .E⟩, false, false), (⟨"q", "x", .E⟩, false, true), (⟨"q", "y", .E⟩, false, false),
              (⟨"u", "z", .E⟩, false, false), (⟨"w", "q.x", .R⟩, false, false)] := by
  decide

/-- Tie: a redeclaration `SELF\sup.x` whose `sup` itself only redeclares `x` is resolved to the end of that chain, by
    `populateAttrList` (MakeDerived) and by `ATTRdeclarer` (MakeRedefined) alike (regenerated; false before fix C02-14). -/
theorem C02_redecl_chain_followed : redeclFollowsChain = true := rfl

/-- The shape the thorough tier found (defect 14): `gz SUBTYPE OF (vg, exh)`, both with an attribute `eo`; `gz` narrows `SELF\exh.eo`;
    `gix` derives and `gex` redeclares `SELF\gz.eo`.  The attribute meant is `exh.eo`: it is flagged derived in `gix` and it alone is
    wired in `gex` — `vg.eo` (the first attribute named `eo` among `gz`'s supertypes, which the code before the fix took) is not. -/
theorem C02_flags_redecl_chain_two_lines :
    let s : Schema :=
      { name := "twochain", entities := [
          { name := "vg", attrs := [{ name := "eo", type := .base .logical }] },
          { name := "exh", attrs := [{ name := "eo", type := .base .number }] },
          { name := "gz", supers := ["vg", "exh"], attrs := [{ name := "eo", redecl := some "exh", type := .base .number }] },
          { name := "gix", supers := ["gz"], attrs := [{ name := "eo", redecl := some "gz", kind := .derived, type := .base .number }] },
          { name := "gex", supers := ["gz"], attrs := [{ name := "eo", redecl := some "gz", type := .base .number }] }] }
    instanceFlags s "gix" = some [(⟨"vg", "eo", .E⟩, false, false), (⟨"exh", "eo", .E⟩, true, true), (⟨"gz", "exh.eo", .R⟩, false, false)] ∧
    instanceFlags s "gex" = some [(⟨"vg", "eo", .E⟩, false, false), (⟨"exh", "eo", .E⟩, false, true), (⟨"gz", "exh.eo", .R⟩, false, false),
                                   (⟨"gex", "gz.eo", .R⟩, false, false)] := by
  decide

/-- Tie: `dedupList` carries the "derived by" mark of a repeated (attribute, creator) entry over to the entry it keeps
    (regenerated from ordered_attrs.cc; before fix C02-11 the mark was dropped with the entry, and this does not elaborate). -/
theorem C02_dedup_keeps_derivation : dedupMergesDeriver = true := rfl

/-- **Closed form of the `MakeDerived` call list for ANY supertype graph** (several supertypes, shared ancestors, any depth), with
    no hypothesis on attribute names: `populateAttrList` with its search offsets and `dedupList` come down to a recursion over
    the supertype lists, `derivedIn`: `MakeDerived( x, cr )` is emitted for `n` iff a supertype's list already has `(x, cr)`
    marked, or the first entry named `x` in `n`'s own list — `callInfo`: the FIRST supertype in SUBTYPE OF order that knows the
    name says who created it, the own attributes of that name add their mark or create it — was created by `cr` and ends up
    marked.  Hypotheses: resolved schema (`WF`) and the two decidable conditions under which the creator-aware search of fix
    C02-8 finds what the search by name finds (`RedeclResolves`: what check-express demands; `RedeclNamesOneLine`: fails on the
    shape of `C02_derived_calls_two_creators_witness`). -/
theorem C02_derived_calls_closed_form {s : Schema} {rank : String → Nat} (wf : WF s rank) (rr : RedeclResolves s)
    (r1 : RedeclNamesOneLine s) (n x cr : String) :
    (x, cr) ∈ derivedCalls s n ↔ derivedIn s (fuelOf s) n x cr = true := by
  rw [derivedCalls_agree wf rr r1 n]; exact derivedCallsN_closed C02_dedup_keeps_derivation s n x cr

/-- The closed form with hypotheses on the schema only, all decidable but `WF`: no attribute name is declared twice
    (`DeclaredOnce`; redeclarations `SELF\sup.x` are not declarations) and every redeclaration resolves. -/
theorem C02_derived_calls_closed_form_declared_once {s : Schema} {rank : String → Nat} (wf : WF s rank) (rr : RedeclResolves s)
    (d1 : DeclaredOnce s) (n x cr : String) :
    (x, cr) ∈ derivedCalls s n ↔ derivedIn s (fuelOf s) n x cr = true :=
  C02_derived_calls_closed_form wf rr (oneLine_of_declaredOnce rr d1) n x cr

/-- **Closed form of the `MakeDerived` call list for the search the generator really does** — by name AND creator, the
    redeclaration chain followed (`populate`, fixes C02-8 and C02-14) — for EVERY schema: no `WF`, no hypothesis on attribute names
    or redeclarations.  `MakeDerived( x, cr )` is emitted for `n` iff `derivedInP` says so: a supertype's list has `(x, cr)` marked,
    or an own attribute of `n` named `x` in the DERIVE clause finds `cr` as the FIRST creator, among the creators of the entries named
    `x` (the supertypes' in SUBTYPE OF order, then those `n` created), that its `SELF\sup.x` may mean — or creates the attribute
    itself.  (`C02_derived_calls_closed_form` is the same for the name-only search and needs `RedeclNamesOneLine`; this one covers
    the shapes of defects 8 and 14 as well.) -/
theorem C02_derived_calls_closed_form_any_schema (s : Schema) (n x cr : String) :
    (x, cr) ∈ derivedCalls s n ↔ derivedInP s (fuelOf s) n x cr = true :=
  derivedCalls_closedP C02_dedup_keeps_derivation s n x cr

/-- the closed form on the shapes the name-only form excludes: one attribute name from two supertypes (`w` derives `SELF\q.x`:
    `q.x`, not `p.x`), and a redeclaration chain with the name in two lines (`gix` derives `SELF\gz.eo`: `exh.eo`, not `vg.eo`) -/
example :
    let two : Schema :=
      { name := "two", entities := [
          { name := "p", attrs := [{ name := "x", type := .base .integer }] },
          { name := "q", attrs := [{ name := "x", type := .base .real }] },
          { name := "u", supers := ["p", "q"] },
          { name := "w", supers := ["u"], attrs := [{ name := "x", redecl := some "q", kind := .derived, type := .base .real }] }] }
    let ch : Schema :=
      { name := "twochain", entities := [
          { name := "vg", attrs := [{ name := "eo", type := .base .logical }] },
          { name := "exh", attrs := [{ name := "eo", type := .base .number }] },
          { name := "gz", supers := ["vg", "exh"], attrs := [{ name := "eo", redecl := some "exh", type := .base .number }] },
          { name := "gix", supers := ["gz"], attrs := [{ name := "eo", redecl := some "gz", kind := .derived, type := .base .number }] }] }
    derivedInP two (fuelOf two) "w" "x" "q" = true ∧ derivedInP two (fuelOf two) "w" "x" "p" = false ∧
    derivedInP ch (fuelOf ch) "gix" "eo" "exh" = true ∧ derivedInP ch (fuelOf ch) "gix" "eo" "vg" = false := by
  decide

/-- A derivation on ANY supertype path counts, whatever the order of the SUBTYPE OF list (fix C02-11): `b` redeclares `SELF\a.x`
    in its DERIVE clause, `c` does not; both `u SUBTYPE OF (c, b)` and `u SUBTYPE OF (b, c)` get `MakeDerived( "x", "a" )`.
    With the mark dropped by `dedupList` (the code before the fix) the first supertype decided: `(c, b)` got no call — the
    instance then refused the conforming record `U(*)` (corpus `ok-redeclaration-on-either-supertype-of-a-diamond`). -/
theorem C02_derived_calls_any_supertype_path :
    let sch (sups : List String) : Schema :=
      { name := "w2", entities := [
          { name := "a", attrs := [{ name := "x", type := .base .integer }] },
          { name := "b", supers := ["a"], attrs := [{ name := "x", redecl := some "a", kind := .derived, type := .base .integer }] },
          { name := "c", supers := ["a"] },
          { name := "u", supers := sups }] }
    derivedCalls (sch ["c", "b"]) "u" = [("x", "a")] ∧ derivedCalls (sch ["b", "c"]) "u" = [("x", "a")] ∧
    ((dedupOAM false [] (populate (sch ["c", "b"]) 5 "u" [])).filter (·.deriver)).map (fun o => (o.name, o.creator)) = [] := by
  decide

/-- two supertypes that both have an attribute `x` (the shape `RedeclNamesOneLine` excludes), `w` derives `SELF\q.x`: the search by name
    (the code before fix C02-8) calls `MakeDerived( "x", "p" )` — the wrong attribute; the creator-aware search calls
    `MakeDerived( "x", "q" )`.  Confirmed on the real code (corpus d9). -/
theorem C02_derived_calls_two_creators_witness :
    let sch : Schema :=
      { name := "two", entities := [
          { name := "p", attrs := [{ name := "x", type := .base .integer }] },
          { name := "q", attrs := [{ name := "x", type := .base .real }, { name := "y", type := .base .string }] },
          { name := "u", supers := ["p", "q"], attrs := [{ name := "z", type := .base .integer }] },
          { name := "w", supers := ["u"], attrs := [{ name := "x", redecl := some "q", kind := .derived, type := .base .real }] }] }
    derivedCallsN sch "w" = [("x", "p")] ∧ derivedCalls sch "w" = [("x", "q")] := by
  decide

/-- Which attributes of a fresh instance are flagged `_derive` (written `*`), for every entity with a single-inheritance ancestry
    of any length: exactly those that are redeclared in a DERIVE clause further down the chain — the set Part 21 11.2.6 intends
    (`DerivedCall` with `marksDerived`; an explicit redeclaration does not count since fix C02-7).
    Partial: excluded are instances with an entity of several supertypes in their ancestry, where a derivation on a non-principal
    path is marked by the entity's own constructor (`C02_flags_second_supertype_derivation`) — the chain invariant does not cover it; `KeysNodup`: (owner, registered name) tells the attributes apart;
    `WF`, `RedeclResolves`, `RedeclNamesOneLine`: resolved schema, redeclarations resolve, a redeclared name is declared in one line
    (decidable; under them the creator-aware search of `populateAttrList` finds what the search by name finds). -/
theorem C02_flags_derive_chain_partial {s : Schema} {n : String} {c : List Entity} (h : IsChain s n c)
    (hf : c.length ≤ fuelOf s) (hk : KeysNodup c)
    {rank : String → Nat} (wf : WF s rank) (rr : RedeclResolves s) (r1 : RedeclNamesOneLine s)
    (l : List (SA × Bool × Bool)) (hl : instanceFlags s n = some l) :
    (∀ a ∈ c.flatMap ownSAs, ∃ d r, (a, d, r) ∈ l) ∧
    ∀ a d r, (a, d, r) ∈ l → (d = true ↔ DerivedCall (flatAttrs c) a.name a.owner) := by
  have cs := chain_state h (fuelOf s) hf hf hk (fun e _ => derivedCalls_agree wf rr r1 e.name)
  unfold instanceFlags at hl
  have hkey := C02_push_compares_descriptor
  simp only [hkey, Option.some.injEq] at hl
  subst hl
  generalize ctorNF s (fuelOf s) n {} = st at cs
  constructor
  · intro a ha
    rw [← cs.sas] at ha
    obtain ⟨o, ho, rfl⟩ := List.mem_map.mp ha
    obtain ⟨j, hj, hget⟩ := List.getElem_of_mem ho
    refine ⟨o.derive, o.redef, ?_⟩
    simp only [List.mem_filterMap]
    exact ⟨j, (cs.hall j).mpr hj, by rw [List.getElem?_eq_getElem hj, hget]; rfl⟩
  · intro a d r hmem
    simp only [List.mem_filterMap] at hmem
    obtain ⟨id, hid, ho⟩ := hmem
    cases hobj : st.objs[id]? with
    | none => rw [hobj] at ho; simp at ho
    | some o =>
      rw [hobj] at ho
      simp only [Option.map_some, Option.some.injEq, Prod.mk.injEq] at ho
      obtain ⟨rfl, rfl, rfl⟩ := ho
      have hsa : saAt st id = some o.sa := by simp [saAt, hobj]
      have := cs.der id o.sa hsa
      simpa [dAt, hobj] using this

/-- Which attributes of a fresh instance have `_redefAttr` set, for every entity with a single-inheritance ancestry of any
    length: the flags are exactly `redefSpec` — walking the explicit attributes of the chain root first, every explicit
    redeclaration `SELF\sup.nm` marks the FIRST attribute (creation order) that is registered under the name `nm` at that moment
    (no owner filter, as `MakeRedefined` searches); the attribute list itself is the chain's attributes in that order.
    Partial: single-inheritance ancestries (with several supertypes a part's `MakeRedefined` marks the part's own copy). -/
theorem C02_flags_redef_chain_partial {s : Schema} {n : String} {c : List Entity} (h : IsChain s n c)
    (hf : c.length ≤ fuelOf s) (hk : KeysNodup c) :
    (instanceFlags s n).map (fun l => l.map (fun t => (t.1, t.2.2))) = some (redefSpec (redefOwner s) c) := by
  obtain ⟨h1, h2, _⟩ := chain_redef h (fuelOf s) hf hk
  unfold instanceFlags
  have hkey := C02_push_compares_descriptor
  simp only [hkey, Option.map_some]
  congr 1
  generalize ctorNF s (fuelOf s) n {} = st at h1 h2
  rw [h1, ← h2]
  have := filterMap_range st.objs (fun o => (o.sa, o.derive, o.redef))
  rw [this, List.map_map]
  rfl

/-- A `_redefAttr` flag never appears out of nothing: every flagged attribute is registered under the name that some explicit
    redeclaration on the chain redeclares. -/
theorem C02_flags_redef_sound (ro : Attr → Option String) (c : List Entity) (q : SA × Bool) (hq : q ∈ redefSpec ro c)
    (ht : q.2 = true) : ∃ p ∈ flatExplicit c, p.2.redecl.isSome = true ∧ p.2.name = q.1.name :=
  redefSpec_sound ro (flatExplicit c) [] (by intro q hq; simp at hq) (flatExplicit c) (fun _ hp => hp) q hq ht

/-- first match, not every match: two entities of one chain redeclare `SELF\a.x`; both marks land on `a.x` (the first attribute
    registered as `x`), the redefining entries `a.x` of `b` and of `c` are never marked -/
example :
    redefSpec (fun _ => none)
              [{ name := "a", attrs := [{ name := "x", type := .base .integer }] },
               { name := "b", supers := ["a"], attrs := [{ name := "x", redecl := some "a", type := .base .integer }] },
               { name := "c", supers := ["b"], attrs := [{ name := "x", redecl := some "a", type := .base .integer }] }]
      = [(⟨"a", "x", .E⟩, true), (⟨"b", "a.x", .R⟩, false), (⟨"c", "a.x", .R⟩, false)] := by decide

/-- non-vacuity of `C02_flags_derive_chain_partial`: a three-entity chain with a derived and an explicit redeclaration -/
def exChain : Schema :=
  { name := "ch", entities := [
      { name := "a", attrs := [{ name := "x", type := .base .integer }, { name := "y", type := .base .real }] },
      { name := "b", supers := ["a"], attrs := [{ name := "b1", type := .base .integer },
                                                { name := "x", redecl := some "a", kind := .derived, type := .base .integer }] },
      { name := "r", supers := ["b"], attrs := [{ name := "y", redecl := some "a", type := .base .real }] }] }

example : IsChain exChain "r" ([exChain.entities[0]!] ++ [exChain.entities[1]!] ++ [exChain.entities[2]!]) :=
  IsChain.step "r" "b" _ _ (by decide) rfl
    (IsChain.step "b" "a" _ _ (by decide) rfl (IsChain.root "a" _ (by decide) rfl))

example : KeysNodup exChain.entities := by unfold KeysNodup; decide

example : instanceFlags exChain "r" =
    some [(⟨"a", "x", .E⟩, true, false), (⟨"a", "y", .E⟩, false, true), (⟨"b", "b1", .E⟩, false, false),
          (⟨"r", "a.y", .R⟩, false, false)] := by decide

/-- `populateAttrList` marks an inherited attribute derived only for a redeclaration in the DERIVE clause (regenerated from
    ordered_attrs.cc; before fix C02-7 every redeclaration did, and this does not elaborate). -/
theorem C02_explicit_redeclaration_not_derived : explicitRedeclMarksDerived = false := rfl

/-- An EXPLICIT (type-narrowing) redeclaration `SELF\a.y : REAL` leaves `a.y` an ordinary value position (ISO 10303-21 11.2.6
    prescribes `*` only for a redeclaration as DERIVED): the attribute is wired to the redefining attribute (`_redefAttr`) but not
    flagged derived. -/
theorem C02_flags_explicit_redeclaration :
    instanceFlags
      { name := "w1", entities := [
          { name := "a", attrs := [{ name := "y", type := .base .real }] },
          { name := "r", supers := ["a"], attrs := [{ name := "y", redecl := some "a", type := .base .real }] }] } "r"
      = some [(⟨"a", "y", .E⟩, false, true), (⟨"r", "a.y", .R⟩, false, false)] := by
  decide

/-- The rule before fix C02-7 (every own attribute that repeats an inherited name marks it derived): the `orderedAttr` of
    `a.y` becomes "derived by r" for the explicit redeclaration above, `MakeDerived( "y", "a" )` is emitted and the value at the
    supertype's position is written `*` — on the real code `#1=SUB(5.0,'t',7)` was written back as `#1=SUB(*,'t',7)`. -/
theorem C02_flags_explicit_redeclaration_witness :
    let xs : List (String × Attr) := [("a", { name := "y", type := .base .real }),
                                      ("r", { name := "y", redecl := some "a", type := .base .real })]
    (xs.foldl (popStepM true) []).map (·.deriver) = [true] ∧ (xs.foldl (popStepM false) []).map (·.deriver) = [false] := by
  decide

/-! ### several supertypes: what decides the flags -/

/-- **Frame property.**  Constructing an `AppendMultInstance` part (a non-principal supertype, with everything it constructs in
    turn) changes neither `_derive` nor `_redefAttr` of any `STEPattribute` that existed before: the part's `MakeDerived` /
    `MakeRedefined` search the part's own attribute list, which holds only objects the part created.  For every schema. -/
theorem C02_flags_part_frame (s : Schema) (f : Nat) (q : String) (st : IState) :
    ∀ j, j < st.objs.length → flagsAt (ctorWF s f q st []).1 j = flagsAt st j :=
  (ctorWF_frame s st.objs.length f q st [] (Nat.le_refl _) (by intro id h; simp at h)).1.2

/-- **The rule along the principal line**, for every schema and every entity `n` with supertypes `p :: ps`: an attribute that
    the principal supertype's constructor put on the instance is flagged derived after `n`'s constructor iff it was after
    `p`'s constructor, or `n`'s own `MakeDerived` calls name it.  The part constructors of the other supertypes `ps` contribute
    nothing: a derivation on their paths reaches the instance through `n`'s own calls only (`derivedCalls`, whose closed form
    `derivedIn` takes every supertype's list into account since fix C02-11 — `C02_flags_second_supertype_derivation`).
    `HeadKeyInj`: the head's attributes are told apart by (owner, registered name). -/
theorem C02_flags_derive_principal_rule (s : Schema) (f : Nat) (n p : String) (ps : List String) (e : Entity)
    (hE : s.findE n = some e) (hs : e.supers = p :: ps)
    (hk : HeadKeyInj (ctorNF s (f + 1) n {}))
    (j : Nat) (a : SA) (hj : saAt (ctorNF s f p {}) j = some a) (hjh : j ∈ (ctorNF s (f + 1) n {}).head) :
    dAt (ctorNF s (f + 1) n {}) j = true ↔ dAt (ctorNF s f p {}) j = true ∨ (a.name, a.owner) ∈ derivedCalls s n := by
  have hlt := saAt_lt hj
  have hunf : ctorNF s (f + 1) n {} =
      applyDerived (ownLoop (redefOwner s) e (ps.foldl (fun st q => (ctorWF s f q st []).1) (ctorNF s f p {})) none).1
        (ownLoop (redefOwner s) e (ps.foldl (fun st q => (ctorWF s f q st []).1) (ctorNF s f p {})) none).1.head (derivedCalls s n) := by
    rw [ctorNF_succ, hE]; simp only [hs, List.tail_cons]
  generalize hst1 : ctorNF s f p {} = st1 at hj hlt hunf ⊢
  -- the parts
  have hok1 : HeadOK st1 := by rw [← hst1]; exact (ctorNF_eff s f p {} (by intro id h; simp at h)).ok
  have hparts : ∀ (L : List String) (st : IState), HeadOK st → st1.objs.length ≤ st.objs.length →
      (∀ i, i < st1.objs.length → flagsAt (L.foldl (fun st q => (ctorWF s f q st []).1) st) i = flagsAt st i) := by
    intro L
    induction L with
    | nil => intro st _ _ i _; rfl
    | cons q qs ih =>
      intro st hok hle i hi
      simp only [List.foldl_cons]
      have fr := ctorWF_frame s st1.objs.length f q st [] hle (by intro id h; simp at h)
      have e1 := ctorWF_eff s f q st [] hok
      rw [ih _ e1.ok (Nat.le_trans hle fr.1.1) i hi]
      exact fr.1.2 i hi
  have hext := (fold_parts_eff s f (ctorWF_eff s f) ps st1 hok1).ext
  generalize hst2 : ps.foldl (fun st q => (ctorWF s f q st []).1) st1 = st2 at hunf hext
  have hfl2 : flagsAt st2 j = flagsAt st1 j := by rw [← hst2]; exact hparts ps st1 hok1 (Nat.le_refl _) j hlt
  have hsa2 : saAt st2 j = some a := by rw [hext.2 j hlt]; exact hj
  -- n's own attributes
  obtain ⟨hle3, h3⟩ := ownLoop_none_dAt (redefOwner s) e st2
  have hj2 : j < st2.objs.length := Nat.lt_of_lt_of_le hlt hext.1
  generalize hmid : (ownLoop (redefOwner s) e st2 none).1 = mid at hunf h3
  have hdm : dAt mid j = dAt st1 j := (h3 j hj2).1.trans (dAt_of_flagsAt hfl2)
  have hsm : saAt mid j = some a := (h3 j hj2).2.trans hsa2
  -- n's MakeDerived calls, on the head
  obtain ⟨q1, q2, q3⟩ := applyDerived_projR (derivedCalls s n) mid mid.head
  have hsaeq : ∀ i, saAt (applyDerived mid mid.head (derivedCalls s n)) i = saAt mid i := by
    intro i
    simp only [saAt]
    have := congrArg (fun l => l[i]?) q3
    simpa using this
  rw [hunf] at hk hjh ⊢
  have hkm : HeadKeyInj mid := by
    intro i1 h1 j1 h2 x y hx hy hxy
    exact hk i1 (by rw [q1]; exact h1) j1 (by rw [q1]; exact h2) x y (by rw [hsaeq]; exact hx) (by rw [hsaeq]; exact hy) hxy
  have := (applyDerived_on_head (derivedCalls s n) mid hkm).2.2 j (by rw [← q1]; exact hjh) a hsm
  rw [this, hdm]

/-- **Which attributes of a fresh instance are flagged `_derive` (written `*`), for EVERY supertype graph** — several supertypes,
    shared ancestors, parts of parts, any depth: exactly those the closed form `derivedIn` of the instance's entity names, i.e.
    those some entity of the ancestry redeclares in a DERIVE clause (found through `populateAttrList`'s search).  Soundness is an
    invariant of all constructors (`ctorWF_dinv`, `ctorNF_dinv`: no step but `MakeDerived` sets the flag, and every call of every
    constructor that runs is in the closed form of the instance's entity); completeness is the entity's own calls on the head.
    Hypotheses: resolved schema, the two decidable conditions on redeclarations (`C02_derived_calls_closed_form`), and
    `HeadKeyInj`: the head's attributes are told apart by (owner, registered name). -/
theorem C02_flags_derive_full {s : Schema} {rank : String → Nat} (wf : WF s rank) (rr : RedeclResolves s)
    (r1 : RedeclNamesOneLine s) (n : String) (e : Entity) (hE : s.findE n = some e)
    (hk : HeadKeyInj (ctorNF s (fuelOf s) n {}))
    (l : List (SA × Bool × Bool)) (hl : instanceFlags s n = some l) :
    ∀ a d r, (a, d, r) ∈ l → (d = true ↔ derivedIn s (fuelOf s) n a.name a.owner = true) := by
  intro a d r hmem
  unfold instanceFlags at hl
  have hkey := C02_push_compares_descriptor
  simp only [hkey, Option.some.injEq] at hl
  subst hl
  have hF : fuelOf s = (fuelOf s - 1) + 1 := by unfold fuelOf; omega
  simp only [List.mem_filterMap] at hmem
  obtain ⟨id, hid, ho⟩ := hmem
  cases hobj : (ctorNF s (fuelOf s) n {}).objs[id]? with
  | none => simp [hobj] at ho
  | some o =>
    simp only [hobj, Option.map_some, Option.some.injEq, Prod.mk.injEq] at ho
    obtain ⟨h1, h2, _⟩ := ho
    have hsa : saAt (ctorNF s (fuelOf s) n {}) id = some a := by simp [saAt, hobj, h1]
    have hda : dAt (ctorNF s (fuelOf s) n {}) id = d := by simp [dAt, hobj, h2]
    rw [← hda]
    rw [hF] at hk hid hsa ⊢
    exact flags_derive_full wf rr r1 C02_dedup_keeps_derivation (fuelOf s - 1) n e hE hk id hid a hsa

/-- The attributes on a fresh instance's list are told apart by (owner, registered name) — `HeadKeyInj`, the hypothesis of the
    flag theorems — for every schema with distinct entity names and, within each entity, distinct registered attribute names
    (`AttrKeysDistinct`, decidable), for every supertype graph: the list has no descriptor twice (`C02_attr_nodup`) and every
    descriptor on it is an own attribute of an entity of the schema. -/
theorem C02_head_keys_distinct {s : Schema} (hn : (s.entities.map (·.name)).Nodup) (hk : AttrKeysDistinct s) (f : Nat) (n : String) :
    HeadKeyInj (ctorNF s f n {}) :=
  headKeyInj_of_schema hn hk (fun f n => C02_attr_nodup s f n [] List.nodup_nil) f n

/-- `C02_flags_derive_full` with hypotheses on the schema only (all decidable but `WF`). -/
theorem C02_flags_derive_full_schema {s : Schema} {rank : String → Nat} (wf : WF s rank) (rr : RedeclResolves s)
    (r1 : RedeclNamesOneLine s) (hn : (s.entities.map (·.name)).Nodup) (hk : AttrKeysDistinct s)
    (n : String) (e : Entity) (hE : s.findE n = some e) (l : List (SA × Bool × Bool)) (hl : instanceFlags s n = some l) :
    ∀ a d r, (a, d, r) ∈ l → (d = true ↔ derivedIn s (fuelOf s) n a.name a.owner = true) :=
  C02_flags_derive_full wf rr r1 n e hE (C02_head_keys_distinct hn hk (fuelOf s) n) l hl

/-- **Which attributes of a fresh instance are flagged `_derive`, for every resolved schema with distinct names** — no hypothesis
    on redeclarations (`RedeclResolves` / `RedeclNamesOneLine` of `C02_flags_derive_full` are gone): exactly those the closed form
    `derivedInP` of the instance's entity names, i.e. the creator-aware, chain-following search of `populateAttrList` as it is
    since fixes C02-8, C02-11 and C02-14.  Every supertype graph; soundness is the invariant of all constructors, completeness the
    entity's own calls on the head (`GenCxxDeriveFullP.lean`). -/
theorem C02_flags_derive_full_any_schema {s : Schema} {rank : String → Nat} (wf : WF s rank)
    (hn : (s.entities.map (·.name)).Nodup) (hk : AttrKeysDistinct s)
    (n : String) (e : Entity) (hE : s.findE n = some e) (l : List (SA × Bool × Bool)) (hl : instanceFlags s n = some l) :
    ∀ a d r, (a, d, r) ∈ l → (d = true ↔ derivedInP s (fuelOf s) n a.name a.owner = true) := by
  intro a d r hmem
  unfold instanceFlags at hl
  have hkey := C02_push_compares_descriptor
  simp only [hkey, Option.some.injEq] at hl
  subst hl
  have hF : fuelOf s = (fuelOf s - 1) + 1 := by unfold fuelOf; omega
  have hki := C02_head_keys_distinct hn hk (fuelOf s) n
  simp only [List.mem_filterMap] at hmem
  obtain ⟨id, hid, ho⟩ := hmem
  cases hobj : (ctorNF s (fuelOf s) n {}).objs[id]? with
  | none => simp [hobj] at ho
  | some o =>
    simp only [hobj, Option.map_some, Option.some.injEq, Prod.mk.injEq] at ho
    obtain ⟨h1, h2, _⟩ := ho
    have hsa : saAt (ctorNF s (fuelOf s) n {}) id = some a := by simp [saAt, hobj, h1]
    have hda : dAt (ctorNF s (fuelOf s) n {}) id = d := by simp [dAt, hobj, h2]
    rw [← hda]
    rw [hF] at hki hid hsa ⊢
    exact flags_derive_fullP wf C02_dedup_keeps_derivation (fuelOf s - 1) n e hE hki id hid a hsa

/-- A derivation on a NON-principal path reaches the instance (since fix C02-11): `u SUBTYPE OF (c, b)`, `b` redeclares `SELF\a.x`
    as derived.  The part constructor of `b` marks its own copy of `a.x`, which the head rejected as a duplicate — but the
    constructor of `u` itself is given `MakeDerived( "x", "a" )` (`C02_derived_calls_any_supertype_path`) and marks the head's.
    Both orders of the SUBTYPE OF list flag `a.x`; run on the real code (corpus `ok-redeclaration-on-either-supertype-of-a-diamond`:
    `#1=V1(*,3)` is read and written back as it is for both). -/
theorem C02_flags_second_supertype_derivation :
    let sch (sups : List String) : Schema :=
      { name := "w2", entities := [
          { name := "a", attrs := [{ name := "x", type := .base .integer }] },
          { name := "b", supers := ["a"], attrs := [{ name := "x", redecl := some "a", kind := .derived, type := .base .integer }] },
          { name := "c", supers := ["a"] },
          { name := "u", supers := sups }] }
    instanceFlags (sch ["c", "b"]) "u" = some [(⟨"a", "x", .E⟩, true, false)] ∧
    instanceFlags (sch ["b", "c"]) "u" = some [(⟨"a", "x", .E⟩, true, false)] := by
  decide

/-- **`_redefAttr` never appears out of nothing, for EVERY schema and supertype graph** (no hypothesis at all): an attribute of a
    fresh instance of `n` that is wired to a redefining attribute is meant by an explicit redeclaration `SELF\sup.x` of `n` or one of
    its supertypes — it is registered as `x` and, since fix C02-9, owned by the entity that declares `sup`'s `x` (`redefOwner`).
    This is the property the check's oracle key `flags:redefined-wired-to-wrong-supertype` evaluates on the real instance. -/
theorem C02_flags_redef_sound_full (s : Schema) (n : String) (l : List (SA × Bool × Bool)) (hl : instanceFlags s n = some l) :
    ∀ a d r, (a, d, r) ∈ l → r = true → RedefBy s n a := by
  intro a d r hmem hr
  unfold instanceFlags at hl
  have hkey := C02_push_compares_descriptor
  simp only [hkey, Option.some.injEq] at hl
  subst hl
  simp only [List.mem_filterMap] at hmem
  obtain ⟨id, _, ho⟩ := hmem
  cases hobj : (ctorNF s (fuelOf s) n {}).objs[id]? with
  | none => simp [hobj] at ho
  | some o =>
    simp only [hobj, Option.map_some, Option.some.injEq, Prod.mk.injEq] at ho
    obtain ⟨h1, _, h3⟩ := ho
    exact flags_redef_sound_full s n (fuelOf s) id a (by simp [saAt, hobj, h1]) (by simp [rAt, hobj, h3, hr])

/-- **The order-dependent `_redefAttr` rule, the positive half**: an explicit redeclaration `SELF\sup.x` in an entity `m` on the
    PRINCIPAL line of the instance's entity `n` (`n` itself, its first supertype, that one's first supertype … `k` steps up: the C++
    base-class chain, whose constructors search the instance's own attribute list) always takes effect — the attribute it means
    (registered as `x`, owned by the entity that declares `sup`'s `x`), wherever on `m`'s list it came from (principal line or a
    part), is on the list of the instance of `n`, same descriptor, and wired.  For every schema with distinct entity names and
    distinct attribute names per entity, any supertype graph.  Together with `C02_flags_redef_sound_full` (a wiring is always meant
    by a redeclaration in the ancestry) and `C02_flags_part_frame` (a part constructor changes no flag of an attribute that was
    there) this is the rule: redeclarations on the principal line wire the instance's attribute; a redeclaration in another line
    (a part) searches the part's own list, so it reaches the instance's attribute only when the part created it
    (`C02_flags_redef_second_supertype_witness`: `(c, b)` not wired, `(b, c)` wired). -/
theorem C02_flags_redef_principal_line {s : Schema} (hn : (s.entities.map (·.name)).Nodup) (hk : AttrKeysDistinct s)
    (f k : Nat) (n m : String) (hpl : principalAnc s k n = some m) (e : Entity) (hE : s.findE m = some e)
    (a : Attr) (ha : a ∈ e.attrs) (hka : a.kind = .explicit) (hr : a.redecl.isSome = true) (o : String)
    (ho : redefOwner s a = some o) (hom : o ≠ e.name)
    (j : Nat) (hj : j ∈ (ctorNF s (f + 1) m {}).head) (sa : SA) (hs : saAt (ctorNF s (f + 1) m {}) j = some sa)
    (hnm : sa.name = a.name) (hso : sa.owner = o) :
    j ∈ (ctorNF s (f + 1 + k) n {}).head ∧ saAt (ctorNF s (f + 1 + k) n {}) j = some sa ∧
      rAt (ctorNF s (f + 1 + k) n {}) j = true := by
  have hw := ctorNF_top_wires s f m e hE a ha hka hr o ho hom (C02_head_keys_distinct hn hk (f + 1) m) j hj sa hs hnm hso
  have kk := principal_rkeep s f k n m hpl
  exact ⟨kk.2.2.2 j hj, by rw [kk.2.1 j (saAt_lt hs)]; exact hs, kk.2.2.1 j hw⟩

/-- What remains order dependent is `_redefAttr`: `b` redeclares `SELF\a.x : INTEGER` explicitly.  In an instance of `u SUBTYPE OF (c, b)`
    the attribute `a.x` is not wired to the redefining attribute (the part constructor of `b` wires its own copy of `a.x`, which
    the head rejected as a duplicate), for `u SUBTYPE OF (b, c)` it is.  The implementation agrees with the model on both
    (corpus `d1-diamond-explicit-redeclaration`, and the generated diamonds). -/
theorem C02_flags_redef_second_supertype_witness :
    let sch (sups : List String) : Schema :=
      { name := "w3", entities := [
          { name := "a", attrs := [{ name := "x", type := .base .number }] },
          { name := "b", supers := ["a"], attrs := [{ name := "x", redecl := some "a", type := .base .integer }] },
          { name := "c", supers := ["a"] },
          { name := "u", supers := sups }] }
    instanceFlags (sch ["c", "b"]) "u" = some [(⟨"a", "x", .E⟩, false, false), (⟨"b", "a.x", .R⟩, false, false)] ∧
    instanceFlags (sch ["b", "c"]) "u" = some [(⟨"a", "x", .E⟩, false, true), (⟨"b", "a.x", .R⟩, false, false)] := by
  decide

/-! ## emission order -/

/-- The order in which exp2cxx emits the entities (`SCOPEget_entities_superclass_order`, which also fixes the
    attribute numbering and the order of `AddSubtype` calls) is, for ANY symbol-table iteration order `roots` that
    delivers exactly the declared entities, a permutation of the declarations in which every entity comes after
    all of its supertypes. -/
theorem C02_emission_order {s : Schema} {rank : String → Nat} (wf : WF s rank)
    (hn : (s.entities.map (·.name)).Nodup) (roots : List String)
    (hr : ∀ n, n ∈ roots ↔ n ∈ s.entities.map (·.name)) :
    (emissionOrder s roots).Perm (s.entities.map (·.name)) ∧
    ∀ pre n post, emissionOrder s roots = pre ++ n :: post →
      ∀ e, s.findE n = some e → ∀ sup ∈ e.supers, sup ∈ pre := by
  have hroots : ∀ n ∈ roots, (s.findE n).isSome := by
    intro n hn'
    obtain ⟨e, he, rfl⟩ := List.mem_map.mp ((hr n).mp hn')
    simp [findE_self hn he]
  obtain ⟨hc, hin, hnd, hpw⟩ := emissionOrder_facts wf roots hroots
  refine ⟨?_, ?_⟩
  · rw [List.perm_ext_iff_of_nodup hnd hn]
    intro m
    constructor
    · intro hm
      obtain ⟨e, hE, _⟩ := hc m hm
      exact List.mem_map.mpr ⟨e, findE_mem hE, findE_name hE⟩
    · intro hm
      exact hin m ((hr m).mpr hm)
  · intro pre n post heq e hE sup hs
    have hnmem : n ∈ emissionOrder s roots := by rw [heq]; simp
    obtain ⟨e', hE', hsups⟩ := hc n hnmem
    have : e' = e := by rw [hE] at hE'; exact (Option.some.inj hE').symm
    subst this
    have hsm := hsups sup hs
    rw [heq] at hsm hpw
    rcases List.mem_append.mp hsm with h | h
    · exact h
    · rcases List.mem_cons.mp h with h | h
      · have := (wf.supers n e' hE sup hs).2
        rw [h] at this; omega
      · have hp := (List.pairwise_append.mp hpw).2.1
        have := (List.pairwise_cons.mp hp).1 sup h
        exact absurd hs (this e' hE)

/-! ## the dictionary mirrors the schema -/

theorem filterMap_names {s : Schema} (order : List String) (h : ∀ n ∈ order, (s.findE n).isSome) :
    (order.filterMap s.findE).map (·.name) = order := by
  induction order with
  | nil => rfl
  | cons x xs ih =>
    obtain ⟨e, hE⟩ := Option.isSome_iff_exists.mp (h x (by simp))
    rw [List.filterMap_cons, hE]
    simp only [List.map_cons, findE_name hE]
    rw [ih (fun n hn => h n (by simp [hn]))]

/-- `Spec.Mirror` for every well-formed schema whose defined types avoid the one shape on which the generator as it
    is written may deviate: when enumeration/select descriptors are created in their own init function
    (`Generated.descCreation = .ownInit`), a named aggregate of a select gets a null referent
    (`C02_mirror_witness`).  Excluded inputs: schemas containing `TYPE t = <ARRAY|LIST|SET|BAG> … OF sel`, `sel` (another
    name for) a SELECT — only in that mode. -/
theorem C02_mirror_partial {s : Schema} {rank trank : String → Nat} (wf : WF s rank) (wft : WFT s trank)
    (hn : (s.entities.map (·.name)).Nodup) (roots : List String)
    (hr : ∀ n, n ∈ roots ↔ n ∈ s.entities.map (·.name))
    (hx : descCreation = .beforeInits ∨ ∀ td ∈ s.types, ¬ AggrOfSelect s td) :
    Mirror s (dictOf s roots) := by
  obtain ⟨hperm, _⟩ := C02_emission_order wf hn roots hr
  have hroots : ∀ n ∈ roots, (s.findE n).isSome := by
    intro n hn'
    obtain ⟨e, he, rfl⟩ := List.mem_map.mp ((hr n).mp hn')
    simp [findE_self hn he]
  obtain ⟨hc, _, hnd, _⟩ := emissionOrder_facts wf roots hroots
  generalize hord : emissionOrder s roots = order at hperm hc hnd
  have hfound : ∀ n ∈ order, (s.findE n).isSome := by
    intro n hn'; obtain ⟨e, hE, _⟩ := hc n hn'; simp [hE]
  have hes : (order.filterMap s.findE).map (·.name) = order := filterMap_names order hfound
  have hesnd : ((order.filterMap s.findE).map (·.name)).Nodup := by rw [hes]; exact hnd
  have hmem : ∀ e, e ∈ order.filterMap s.findE ↔ e ∈ s.entities := by
    intro e
    constructor
    · intro h
      obtain ⟨n, _, hE⟩ := List.mem_filterMap.mp h
      exact findE_mem hE
    · intro h
      refine List.mem_filterMap.mpr ⟨e.name, ?_, findE_self hn h⟩
      exact hperm.mem_iff.mpr (List.mem_map_of_mem h)
  have hents : (dictOf s roots).entities =
      (order.filterMap s.findE).map (finalOf (order.filterMap s.findE)) := by
    unfold dictOf; simp only [hord]; exact entities_eq s order
  refine ⟨rfl, ?_, ?_, ?_⟩
  · rw [hents, List.map_map]
    have : ((fun d : DEntity => d.name) ∘ finalOf (order.filterMap s.findE)) = (fun e : Entity => e.name) := by
      funext e; simp [finalOf, applyAll_name, blank]
    rw [this, hes]; exact hperm
  · intro e he
    have hee := (hmem e).mpr he
    refine ⟨finalOf (order.filterMap s.findE) e, by rw [hents]; exact List.mem_map_of_mem hee, ?_⟩
    refine ⟨by simp [finalOf, applyAll_name, blank], by simp [finalOf, applyAll_abstract, blank],
      final_supers _ hesnd e hee, ?_, ?_, ?_⟩
    · rw [final_attrs _ hesnd e hee]
      exact forall2_map _ _ (fun a _ => mirrorAttr_dattrOf e.name a)
    · rw [final_invs _ hesnd e hee]
      exact forall2_map _ _ (fun a _ => mirrorInv_dinvOf e.name a)
    · intro x
      rw [final_subs]
      simp only [List.mem_flatMap, List.mem_filterMap]
      constructor
      · rintro ⟨e', he', sup, hs, hsel⟩
        by_cases h : e.name = sup
        · simp [h] at hsel
          exact ⟨e', (hmem e').mp (List.mem_filterMap.mpr he'), hsel, by rw [h]; exact hs⟩
        · simp [h] at hsel
      · rintro ⟨e', he', rfl, hs⟩
        exact ⟨e', List.mem_filterMap.mp ((hmem e').mpr he'), e.name, hs, by simp⟩
  · show Forall2 (MirrorType s) s.types (s.types.map (typeOf s))
    apply forall2_map
    intro td htd
    unfold typeOf
    apply mirrorType_typeOfM wft descCreation td htd
    rcases hx with h | h
    · exact Or.inl h
    · exact Or.inr (h td htd)

/-- **The declaration can be read back from the dictionary** — an independent statement of the attribute part of the mirror
    (audit B, 3), about ANY dictionary that mirrors the schema: for every entity and every attribute outside the INVERSE clause,
    decoding the descriptor of the attribute's domain (`declOf`: kind, bounds, UNIQUE, OPTIONAL, element type, recursively) gives the
    declared type, up to exactly two things the dictionary cannot tell apart (`normDecl`): OPTIONAL on a non-ARRAY aggregate, and
    a literal upper bound equal to the generator's "unbounded" constant versus `?`.  So no two attribute types that differ
    otherwise get the same descriptor (`refOf_faithful`). -/
theorem C02_mirror_type_readback {s : Schema} {d : Dict} (hm : Mirror s d) :
    ∀ e ∈ s.entities, ∃ de ∈ d.entities, de.name = e.name ∧
      Forall2 (fun (a : Attr) (da : DAttr) => da.name = registeredName a ∧ da.opt = a.optional ∧ da.owner = e.name ∧
                 declOf da.type = some (normDecl a.type))
        (e.attrs.filter (fun a => !isInverse a)) de.attrs := by
  intro e he
  obtain ⟨de, hde, me⟩ := hm.entities e he
  exact ⟨de, hde, me.name, forall2_imp (fun a da h => ⟨h.name, h.opt, h.owner, mirrorRef_readback h.type⟩) me.attrs⟩

/-- the two things that are lost, on concrete declarations: `LIST [0:?]` and `LIST [0:2147483647]` get the same descriptor, and
    so do `LIST OF OPTIONAL …` written with and without OPTIONAL; a different lower bound does not -/
example : refOf (.aggr .list (some (0, .inf)) false false (.base .integer)) =
          refOf (.aggr .list (some (0, .lit literalInfinity)) false false (.base .integer)) ∧
    refOf (.aggr .list none false true (.base .real)) = refOf (.aggr .list none false false (.base .real)) ∧
    refOf (.aggr .list (some (1, .inf)) false false (.base .integer)) ≠
          refOf (.aggr .list (some (0, .inf)) false false (.base .integer)) := by decide

/-- The subtype list of an entity descriptor, exactly (order and multiplicity, which `Spec.MirrorEntity.subs` leaves open): the
    entities in emission order, each as often as it names the entity in its SUBTYPE OF list — once, for a schema that lists no
    supertype twice. -/
theorem C02_mirror_subtypes_exact {s : Schema} {rank : String → Nat} (wf : WF s rank)
    (hn : (s.entities.map (·.name)).Nodup) (roots : List String)
    (hr : ∀ n, n ∈ roots ↔ n ∈ s.entities.map (·.name)) :
    ∀ e ∈ s.entities, ∃ d ∈ (dictOf s roots).entities, d.name = e.name ∧
      d.subs = ((emissionOrder s roots).filterMap s.findE).flatMap
        (fun e' => e'.supers.filterMap (fun sup => if e.name == sup then some e'.name else none)) := by
  obtain ⟨hperm, _⟩ := C02_emission_order wf hn roots hr
  have hroots : ∀ n ∈ roots, (s.findE n).isSome := by
    intro n hn'
    obtain ⟨e, he, rfl⟩ := List.mem_map.mp ((hr n).mp hn')
    simp [findE_self hn he]
  obtain ⟨hc, _, hnd, _⟩ := emissionOrder_facts wf roots hroots
  generalize hord : emissionOrder s roots = order at hperm hc hnd
  have hents : (dictOf s roots).entities =
      (order.filterMap s.findE).map (finalOf (order.filterMap s.findE)) := by
    unfold dictOf; simp only [hord]; exact entities_eq s order
  intro e he
  have hee : e ∈ order.filterMap s.findE :=
    List.mem_filterMap.mpr ⟨e.name, hperm.mem_iff.mpr (List.mem_map_of_mem he), findE_self hn he⟩
  exact ⟨finalOf (order.filterMap s.findE) e, by rw [hents]; exact List.mem_map_of_mem hee,
    by simp [finalOf, applyAll_name, blank], final_subs _ e⟩

/-- `TypeDescriptor::NonRefTypeDescriptor()` follows REFERENCE_TYPE links without an iteration bound (regenerated from
    typeDescriptor.cc; with a bound — seeded change C02-d2: 8 links — this does not elaborate). -/
theorem C02_nonref_loop_unbounded : nonRefLinkBound = none := rfl

/-- The dictionary getter `NonRefTypeDescriptor()` (and with it `NonRefType()`, `IsAggrType()`, `AggrElemType…()`) follows a rename
    chain of ANY length to the declaration that carries the body: for every well-formed schema, every defined type `n` and the
    root `r` of its rename chain (`RootOf`, no bound on the number of `TYPE a = b;` links), the getter applied to the registered
    dictionary answers `r`'s descriptor. -/
theorem C02_nonref_follows_chain {s : Schema} {trank : String → Nat} (wft : WFT s trank) (roots : List String)
    {n : String} {r : TypeDecl} (h : RootOf s n r) (hent : ∀ e, r.body ≠ .alias (.entity e)) :
    nonRefOf (dictOf s roots).types (.named n) = .named r.name := by
  unfold nonRefOf nonRefFuel
  rw [C02_nonref_loop_unbounded]
  show nonRefTD (s.types.map (typeOf s)) ((s.types.map (typeOf s)).length + 1) (.named n) = _
  apply nonRefTD_chain wft h hent
  -- the chain is shorter than the number of declarations
  have hex : ∃ td, s.findT n = some td := by
    cases h <;> exact ⟨_, by assumption⟩
  obtain ⟨td, hT⟩ := hex
  have htm : td ∈ s.types := by unfold Schema.findT at hT; exact List.mem_of_find?_eq_some hT
  have htn : td.name = n := by
    unfold Schema.findT at hT
    have := List.find?_some hT
    simpa using this
  have := wft.bound td htm
  rw [htn] at this
  simp only [List.length_map]
  omega

/-- with an iteration bound of 8 (seeded change C02-d2) the getter stops on a reference descriptor for a chain of 10 renames -/
theorem C02_nonref_bounded_witness :
    let ts : List DType := (List.range 11).map (fun i =>
      if i = 0 then ({ name := "m0", ft := .real, ref := .base .real } : DType)
      else { name := s!"m{i}", ft := .ref, ref := .named s!"m{i-1}" })
    nonRefTD ts 8 (.named "m10") = .named "m2" ∧ nonRefTD ts (ts.length + 1) (.named "m10") = .named "m0" := by
  decide

/-- Enumeration and select descriptors are created before any init function runs (regenerated from
    `TYPEPrint`/`TYPEPrint_cc`); does not elaborate on a tree where they are created in their own init function. -/
theorem C02_descriptors_created_before_inits : descCreation = .beforeInits := rfl

/-- `Spec.Mirror s (dictOf s)`: for every well-formed schema and every symbol-table iteration order, the registered
    dictionary contains exactly the schema's entities (supertypes in order, subtypes, abstractness, explicit /
    derived / redeclared attributes and inverse attributes in declaration order with name, optionality, type, kind)
    and defined types (underlying type, enumeration items in order, select members, aggregate kind / bounds /
    UNIQUE / OPTIONAL, renames resolved through any chain). -/
theorem C02_mirror {s : Schema} {rank trank : String → Nat} (wf : WF s rank) (wft : WFT s trank)
    (hn : (s.entities.map (·.name)).Nodup) (roots : List String)
    (hr : ∀ n, n ∈ roots ↔ n ∈ s.entities.map (·.name)) :
    Mirror s (dictOf s roots) :=
  C02_mirror_partial wf wft hn roots hr (Or.inl C02_descriptors_created_before_inits)

/-- `BaseTypeDescriptor()` / `BaseType()`: for every type expression whose chain of referent links ends (`BaseEnd`: through
    renames of any length, named and unnamed aggregates of any nesting), the getter applied to the registered dictionary answers
    that end, given as many loop iterations as there are links (the C++ loop is unbounded; the model's budget is
    `(number of types + 1) * 64`). -/
theorem C02_base_follows_links {s : Schema} (roots : List String) {t : TRef} {d : DRef} {c : Nat}
    (h : BaseEnd s t d c) (hc : c < ((dictOf s roots).types.length + 1) * 64) :
    baseOf (dictOf s roots).types (refOf t) = d :=
  baseTD_end C02_descriptors_created_before_inits h _ hc

/-- `IsAggrType()` and `AggrElemTypeDescriptor()` of a type any number of renames above a named aggregate: the type is reported
    as an aggregate, and its element descriptor is the element's own descriptor when the element is written in place, and the
    root of the element's rename chain when the element is a type name. -/
theorem C02_aggr_elem_follows_chain {s : Schema} {trank : String → Nat} (wft : WFT s trank) (roots : List String)
    {n : String} {r : TypeDecl} (h : RootOf s n r) {k : AggKind} {bn : Option (Int × Upper)} {u o : Bool} {el : TRef}
    (hb : r.body = .alias (.aggr k bn u o el)) :
    isAggrOf (dictOf s roots).types (.named n) = true ∧
    ((∀ m, el ≠ .named m) → elemOf (dictOf s roots).types (.named n) = refOf el) ∧
    (∀ m rm, el = .named m → RootOf s m rm → (∀ e, rm.body ≠ .alias (.entity e)) →
      elemOf (dictOf s roots).types (.named n) = .named rm.name) := by
  have hnr := C02_nonref_follows_chain wft roots h (by intro e; rw [hb]; simp)
  have hview : viewOf (dictOf s roots).types (.named r.name) = some (aggFT k, refOf el) := by
    show viewOf (s.types.map (typeOf s)) (.named r.name) = _
    rw [viewOf_named s r.name r (rootOf_find h)]
    unfold typeOf typeOfM
    rw [hb, C02_descriptors_created_before_inits]; rfl
  have hne : (refOf el == DRef.null) = false := by cases el <;> rfl
  refine ⟨?_, ?_, ?_⟩
  · unfold isAggrOf ftOf
    rw [hnr, hview]
    cases k <;> rfl
  · intro hnn
    unfold elemOf
    rw [hnr, hview]
    simp only [hne, Bool.false_eq_true, ↓reduceIte]
    unfold nonRefOf nonRefFuel
    rw [C02_nonref_loop_unbounded]
    exact nonRefTD_inplace _ _ el hnn
  · intro m rm hel hrm hent
    unfold elemOf
    rw [hnr, hview]
    simp only [hne, Bool.false_eq_true, ↓reduceIte]
    subst hel
    exact C02_nonref_follows_chain wft roots hrm hent

/-- the excluded shape of `C02_mirror_partial`: with descriptors created in the select's own init function the
    registered referent of `TYPE sl = SET [1:?] OF sel` is null, which mirrors nothing (corpus d5) -/
def exAggrOfSelect : Schema :=
  { name := "d5",
    types := [{ name := "sel", body := .select [.entity "a", .named "len"] },
              { name := "len", body := .alias (.base .real) },
              { name := "sl", body := .alias (.aggr .set (some (1, .inf)) false false (.named "sel")) }],
    entities := [{ name := "a", attrs := [{ name := "x", type := .base .integer }] }] }

theorem C02_mirror_witness :
    (typeOfM .ownInit exAggrOfSelect { name := "sl", body := .alias (.aggr .set (some (1, .inf)) false false (.named "sel")) }).ref = .null
    ∧ ¬ MirrorRef (.named "sel") .null := by
  refine ⟨by decide, ?_⟩
  intro h; cases h

/-! ## non-vacuity: a diamond with a shared ancestor, a redeclaration on one path, satisfies `WF` -/

def exDiamond : Schema :=
  { name := "d",
    entities := [
      { name := "a", attrs := [{ name := "x", type := .base .integer }, { name := "y", type := .base .real }] },
      { name := "b", supers := ["a"], attrs := [{ name := "x", redecl := some "a", kind := .derived, type := .base .integer }] },
      { name := "c", supers := ["a"], attrs := [{ name := "y", redecl := some "a", type := .base .real }, { name := "c1", type := .base .integer }] },
      { name := "d", supers := ["b", "c"], attrs := [{ name := "d1", type := .base .integer }] } ] }

def exRank : String → Nat := fun n => if n == "a" then 0 else if n == "d" then 2 else 1

example : instanceAttrs exDiamond "d" = some [⟨"a", "x", .E⟩, ⟨"a", "y", .E⟩, ⟨"c", "a.y", .R⟩, ⟨"c", "c1", .E⟩, ⟨"d", "d1", .E⟩] := by
  decide

/-- flags on the same diamond: `b` derives `a.x` (first path, marks the head's object), `c` redeclares `a.y`
    (second path: the redefinition is recorded on the part's own copy only) -/
example : instanceFlags exDiamond "d" =
    some [(⟨"a", "x", .E⟩, true, false), (⟨"a", "y", .E⟩, false, false), (⟨"c", "a.y", .R⟩, false, false),
          (⟨"c", "c1", .E⟩, false, false), (⟨"d", "d1", .E⟩, false, false)] := by
  decide

example : p21Order exDiamond "d" = [("a", "x"), ("a", "y"), ("c", "c1"), ("d", "d1")] := by decide

/-- the hypotheses of `C02_attr_order` / `C02_mirror` are satisfiable: the diamond above is well-formed -/
example : WF exDiamond exRank := by
  refine ⟨?_, ?_, ?_⟩
  · intro n e h sup hs
    have hm := findE_mem h
    have hnm := findE_name h
    simp only [exDiamond, List.mem_cons, List.not_mem_nil, or_false] at hm
    rcases hm with rfl | rfl | rfl | rfl <;> subst hnm <;> simp at hs
    · subst hs; exact ⟨by decide, by decide⟩
    · subst hs; exact ⟨by decide, by decide⟩
    · rcases hs with rfl | rfl <;> exact ⟨by decide, by decide⟩
  · intro n e h
    have hm := findE_mem h
    have hnm := findE_name h
    simp only [exDiamond, List.mem_cons, List.not_mem_nil, or_false] at hm
    rcases hm with rfl | rfl | rfl | rfl <;> subst hnm <;> decide
  · intro n e h
    have hm := findE_mem h
    simp only [exDiamond, List.mem_cons, List.not_mem_nil, or_false] at hm
    rcases hm with rfl | rfl | rfl | rfl <;> decide

example : (exDiamond.entities.map (·.name)).Nodup := by decide

/-- the rule on the diamond: `c` (second supertype of `d`) redeclares `a.y` explicitly — as the instance's own class line (`c`
    instantiated, or `e2 SUBTYPE OF (c)`) it wires `a.y`; `principalAnc` finds `c` one step up from `e2` -/
example : principalAnc exDiamond 0 "c" = some "c" ∧ redefOwner exDiamond { name := "y", redecl := some "a", type := .base .real } = some "a" ∧
    instanceFlags exDiamond "c" = some [(⟨"a", "x", .E⟩, false, false), (⟨"a", "y", .E⟩, false, true), (⟨"c", "a.y", .R⟩, false, false),
                                         (⟨"c", "c1", .E⟩, false, false)] := by decide


/-- the hypotheses of `C02_flags_derive_full` / `C02_derived_calls_closed_form` hold on the diamond, and the closed form says what
    the instance shows: `a.x` (derived by `b`) is named, `a.y` (explicitly redeclared by `c`) is not -/
example : RedeclResolves exDiamond ∧ RedeclNamesOneLine exDiamond ∧ AttrKeysDistinct exDiamond ∧
    derivedIn exDiamond (fuelOf exDiamond) "d" "x" "a" = true ∧ derivedIn exDiamond (fuelOf exDiamond) "d" "y" "a" = false := by
  decide

/-- the TYPE half of `C02_mirror` is not vacuous: an enumeration, a rename chain of length two over it, a named aggregate of the
    renamed enumeration and a select over an entity and a defined type; `trank` = how far a type is from the end of its chain -/
def exTypes : Schema :=
  { name := "t",
    types := [
      { name := "colour", body := .enum ["red", "green"] },
      { name := "tint", body := .alias (.named "colour") },
      { name := "shade", body := .alias (.named "tint") },
      { name := "palette", body := .alias (.aggr .list (some (1, .inf)) true false (.named "shade")) },
      { name := "len", body := .alias (.base .real) },
      { name := "pick", body := .select [.entity "thing", .named "len"] } ],
    entities := [
      { name := "thing", attrs := [{ name := "c", type := .named "shade" }, { name := "p", type := .named "palette", optional := true },
                                   { name := "s", type := .named "pick" }] } ] }

def exTRank : String → Nat := fun n => if n == "tint" then 1 else if n == "shade" then 2 else 0

example : Spec.WFT exTypes exTRank := by
  refine ⟨?_, ?_⟩
  · intro td hm m hb
    simp only [exTypes, List.mem_cons, List.not_mem_nil, or_false] at hm
    rcases hm with rfl | rfl | rfl | rfl | rfl | rfl <;> simp at hb
    · subst hb; exact ⟨by decide, by decide⟩
    · subst hb; exact ⟨by decide, by decide⟩
  · intro td hm
    simp only [exTypes, List.mem_cons, List.not_mem_nil, or_false] at hm
    rcases hm with rfl | rfl | rfl | rfl | rfl | rfl <;> decide

example : WF exTypes (fun _ => 0) := by
  refine ⟨?_, ?_, ?_⟩
  · intro n e h sup hs
    have hm := findE_mem h
    simp only [exTypes, List.mem_cons, List.not_mem_nil, or_false] at hm
    subst hm; simp at hs
  · intro n e h; decide
  · intro n e h
    have hm := findE_mem h
    simp only [exTypes, List.mem_cons, List.not_mem_nil, or_false] at hm
    subst hm; decide

/-- what the model registers for that schema: the rename chain link by link, the aggregate's facts, the getters at the end -/
example : (dictOf exTypes ["thing"]).types.map (fun t => (t.name, t.ft, t.ref)) =
    [("colour", .enumeration, .null), ("tint", .ref, .named "colour"), ("shade", .ref, .named "tint"),
     ("palette", .list, .named "shade"), ("len", .real, .base .real), ("pick", .select, .null)] := by decide

end StepModel.GenCxx

/-! ## the registry can be walked however its public API is used

The dictionary a client sees through `ResetEntities/NextEntity`, `ResetTypes/NextType`, `ResetSchemas/NextSchema` does not
depend on which read-only queries (`GetEntityCnt`, `GetFullEntCnt`, `FindEntity/FindType/FindSchema`, `ObjCreate`) or which
walks of the *other* tables are interleaved with a walk. -/
namespace StepModel.Registry

/-- Tie: none of the six query functions of `Registry` writes a walk cursor, directly or through a member function it calls
    (regenerated from Registry.cc / Registry.h; a `GetEntityCnt` that walks the table — seeded change C02-c2 — makes this false). -/
theorem query_functions_write_no_cursor :
    moves "GetEntityCnt" = [] ∧ moves "GetFullEntCnt" = [] ∧ moves "ObjCreate" = [] ∧ ∀ k, moves (findFn k) = [] := by
  refine ⟨by decide, by decide, by decide, fun k => ?_⟩
  cases k <;> decide

/-- Read-only queries leave the registry (all three cursors included) exactly as it was — because of the tie above: in the
    model a query moves the cursors its function writes. -/
theorem queries_pure (st : State) (o : Op) (h : o.walkKind = none) : (step st o).1 = st := by
  obtain ⟨h1, h2, h3, h4⟩ := query_functions_write_no_cursor
  cases o with
  | reset k => simp [Op.walkKind] at h
  | next k => simp [Op.walkKind] at h
  | nextAll k => simp [Op.walkKind] at h
  | entityCnt => show walkAll st (moves "GetEntityCnt") = st; rw [h1]; rfl
  | fullEntCnt => show walkAll st (moves "GetFullEntCnt") = st; rw [h2]; rfl
  | find k n => show walkAll st (moves (findFn k)) = st; rw [h4 k]; rfl
  | objCreate n => show walkAll st (moves "ObjCreate") = st; rw [h3]; rfl

def Agree (k : Kind) (a b : State) : Prop := a.list k = b.list k ∧ a.cur k = b.cur k

theorem setCur_list (st : State) (k k' : Kind) (n : Nat) : (st.setCur k' n).list k = st.list k := by
  cases k <;> cases k' <;> rfl

theorem setCur_cur_ne (st : State) (k k' : Kind) (n : Nat) (h : k' ≠ k) : (st.setCur k' n).cur k = st.cur k := by
  cases k <;> cases k' <;> first | rfl | exact absurd rfl h

theorem setCur_cur_eq (st : State) (k : Kind) (n : Nat) : (st.setCur k n).cur k = n := by
  cases k <;> rfl

theorem step_next (st : State) (k : Kind) : step st (.next k) =
    match (st.list k)[st.cur k]? with
    | some n => (st.setCur k (st.cur k + 1), .name n)
    | none => (st, .null) := rfl

theorem step_nextAll (st : State) (k : Kind) : step st (.nextAll k) =
    (st.setCur k (max (st.cur k) (st.list k).length), .names ((st.list k).drop (st.cur k))) := rfl

theorem step_other (k : Kind) (st : State) (o : Op) (h : o.walkKind ≠ some k) : Agree k (step st o).1 st := by
  cases o with
  | reset k' =>
    have : k' ≠ k := fun e => h (by rw [e]; rfl)
    exact ⟨setCur_list _ _ _ _, setCur_cur_ne _ _ _ _ this⟩
  | next k' =>
    have : k' ≠ k := fun e => h (by rw [e]; rfl)
    rw [step_next]
    cases (st.list k')[st.cur k']? with
    | some n => exact ⟨setCur_list _ _ _ _, setCur_cur_ne _ _ _ _ this⟩
    | none => exact ⟨rfl, rfl⟩
  | nextAll k' =>
    have : k' ≠ k := fun e => h (by rw [e]; rfl)
    exact ⟨setCur_list _ _ _ _, setCur_cur_ne _ _ _ _ this⟩
  | entityCnt => rw [queries_pure st _ rfl]; exact ⟨rfl, rfl⟩
  | fullEntCnt => rw [queries_pure st _ rfl]; exact ⟨rfl, rfl⟩
  | find _ _ => rw [queries_pure st _ rfl]; exact ⟨rfl, rfl⟩
  | objCreate _ => rw [queries_pure st _ rfl]; exact ⟨rfl, rfl⟩

theorem step_agree (k : Kind) (a b : State) (o : Op) (h : o.walkKind = some k) (hab : Agree k a b) :
    (step a o).2 = (step b o).2 ∧ Agree k (step a o).1 (step b o).1 := by
  obtain ⟨hl, hc⟩ := hab
  cases o with
  | reset k' =>
    have : k' = k := by simpa [Op.walkKind] using h
    subst this
    refine ⟨rfl, ?_⟩
    show Agree k' (a.setCur k' 0) (b.setCur k' 0)
    rw [Agree, setCur_list, setCur_list]; exact ⟨hl, by simp [setCur_cur_eq]⟩
  | next k' =>
    have : k' = k := by simpa [Op.walkKind] using h
    subst this
    rw [step_next, step_next, hl, hc]
    cases (b.list k')[b.cur k']? with
    | none => exact ⟨rfl, hl, hc⟩
    | some n => exact ⟨rfl, by rw [Agree, setCur_list, setCur_list]; exact ⟨hl, by simp [setCur_cur_eq]⟩⟩
  | nextAll k' =>
    have : k' = k := by simpa [Op.walkKind] using h
    subst this
    rw [step_nextAll, step_nextAll, hl, hc]
    exact ⟨rfl, by rw [Agree, setCur_list, setCur_list]; exact ⟨hl, by simp [setCur_cur_eq]⟩⟩
  | entityCnt => simp [Op.walkKind] at h
  | fullEntCnt => simp [Op.walkKind] at h
  | find _ _ => simp [Op.walkKind] at h
  | objCreate _ => simp [Op.walkKind] at h

theorem runK_agree (k : Kind) (ops : List Op) (a b : State) (h : Agree k a b) : runK k ops a = runK k ops b := by
  induction ops generalizing a b with
  | nil => rfl
  | cons o os ih =>
    unfold runK
    by_cases hk : o.walkKind = some k
    · obtain ⟨h1, h2⟩ := step_agree k a b o hk h
      simp only [hk, ↓reduceIte, h1, ih _ _ h2]
    · simp only [hk, ↓reduceIte]
      have ha := step_other k a o hk
      have hb := step_other k b o hk
      exact ih _ _ ⟨ha.1.trans (h.1.trans hb.1.symm), ha.2.trans (h.2.trans hb.2.symm)⟩

/-- Non-interference: the answers a walk of one table gets are the same whether or not queries and walks of the other
    tables are interleaved with it, at any point and in any number — for every operation sequence. -/
theorem walk_noninterference (k : Kind) (ops : List Op) (st : State) :
    runK k ops st = runK k (ops.filter (fun o => o.walkKind = some k)) st := by
  induction ops generalizing st with
  | nil => rfl
  | cons o os ih =>
    by_cases hk : o.walkKind = some k
    · rw [List.filter_cons_of_pos (by simpa using hk)]
      unfold runK
      simp only [hk, ↓reduceIte, ih]
    · rw [List.filter_cons_of_neg (by simpa using hk)]
      have : runK k (o :: os) st = runK k os (step st o).1 := by
        rw [runK]; simp only [hk, ↓reduceIte]
      rw [this, runK_agree k os _ st (step_other k st o hk), ih]

/-- A reset followed — after ANY operations that are not walk steps of the same table — by a walk to the end enumerates
    exactly the table, whatever state the registry was in. -/
theorem walk_complete (k : Kind) (mid : List Op) (st : State)
    (hm : ∀ o ∈ mid, o.walkKind ≠ some k) :
    runK k (Op.reset k :: mid ++ [Op.nextAll k]) st = [Res.unit, Res.names (st.list k)] := by
  rw [walk_noninterference]
  have hf : (Op.reset k :: mid ++ [Op.nextAll k]).filter (fun o => o.walkKind = some k) = [Op.reset k, Op.nextAll k] := by
    rw [List.filter_append, List.filter_cons_of_pos (by simp [Op.walkKind])]
    have : mid.filter (fun o => decide (o.walkKind = some k)) = [] := by
      rw [List.filter_eq_nil_iff]
      intro o ho; simpa using hm o ho
    rw [this]
    simp [Op.walkKind]
  rw [hf]
  simp [runK, Op.walkKind, step, setCur_list, setCur_cur_eq]

end StepModel.Registry

namespace StepModel.GenCxx

/-- Tie: the query functions of `Registry` write no walk cursor (regenerated from their bodies and the bodies of the member
    functions they call). -/
theorem C02_registry_query_functions_write_no_cursor :
    Registry.moves "GetEntityCnt" = [] ∧ Registry.moves "GetFullEntCnt" = [] ∧ Registry.moves "ObjCreate" = [] ∧
    ∀ k, Registry.moves (Registry.findFn k) = [] :=
  Registry.query_functions_write_no_cursor

/-- Read-only queries (`GetEntityCnt`, `GetFullEntCnt`, `FindEntity/FindType/FindSchema`, `ObjCreate`) leave the registry —
    all three walk cursors included — exactly as it was: a model lemma on top of the tie above (in the model a query moves the
    cursors the regenerated table says its function writes). -/
theorem C02_registry_queries_pure (st : Registry.State) (o : Registry.Op) (h : o.walkKind = none) : (Registry.step st o).1 = st :=
  Registry.queries_pure st o h

/-- Non-interference: the answers a walk of one table gets are the same whether or not queries and walks of the other
    tables are interleaved with it, at any point and in any number — for every operation sequence and start state. -/
theorem C02_registry_walk_noninterference (k : Registry.Kind) (ops : List Registry.Op) (st : Registry.State) :
    Registry.runK k ops st = Registry.runK k (ops.filter (fun o => o.walkKind = some k)) st :=
  Registry.walk_noninterference k ops st

/-- A reset followed — after ANY operations that are not walk steps of the same table — by a walk to the end enumerates
    exactly the table, whatever state the registry was in. -/
theorem C02_registry_walk_complete (k : Registry.Kind) (mid : List Registry.Op) (st : Registry.State)
    (hm : ∀ o ∈ mid, o.walkKind ≠ some k) :
    Registry.runK k (Registry.Op.reset k :: mid ++ [Registry.Op.nextAll k]) st = [Registry.Res.unit, Registry.Res.names (st.list k)] :=
  Registry.walk_complete k mid st hm

end StepModel.GenCxx

/-! ## generated accessors read back what the mutator stored

Over the emission templates regenerated from classes_attribute.c (`Generated.accGetter/accConstGetter/accSetter`). -/
namespace StepModel.GenCxx
open StepModel.Generated StepModel.Accessors

/-- For EVERY attribute kind (integer, real/number, string/binary, logical/boolean, enumeration, select, entity reference,
    aggregate, inverse aggregate, inverse entity), every prior content of the member (including a null pointer) and every
    non-null value: the generated mutator stores without a null dereference, and both generated accessors then return
    exactly that value. -/
theorem C02_accessor_roundtrip {V : Type} (fresh : V) (k : AccKind) (c : Option V) (v : V) :
    ∃ c', setter fresh k c (some v) = .done c' none ∧
      (∃ c'', getter fresh k c' = .done c'' (some (some v))) ∧
      constGetter fresh k c' = .done c' (some (some v)) := by
  cases k <;> cases c <;> exact ⟨some v, rfl, ⟨_, rfl⟩, rfl⟩

/-- **Per schema and attribute**: for every attribute of every entity of a schema, the accessor template that
    `ATTRprint_access_methods` / `INVprint_access_methods` picks for it (`accKindOf`: inverse? aggregate? else the class of its type,
    a defined type followed through its rename chain — modelled from the C function's case analysis and checked against the real
    classes by per-kind generated tests) stores through the mutator and reads back through both accessors.  What `put`,
    `operator=` and `ShallowCopy` of the LIBRARY classes do (store / copy their argument) is modelled in `Accessors.lean`, not
    verified: the theorem is about the shape of the emitted bodies (regenerated), not about clstepcore's value classes.
    It does not say that the member is the one on the instance's attribute list — it is not for attributes inherited through a
    non-first supertype (finding `accessor:non-principal-supertype-attribute-disconnected`). -/
theorem C02_accessor_roundtrip_schema (s : Schema) (e : Entity) (_he : e ∈ s.entities) (a : Attr) (_ha : a ∈ e.attrs)
    (k : AccKind) (_hk : accKindOf s a = some k) {V : Type} (fresh : V) (c : Option V) (v : V) :
    ∃ c', setter fresh k c (some v) = .done c' none ∧
      (∃ c'', getter fresh k c' = .done c'' (some (some v))) ∧
      constGetter fresh k c' = .done c' (some (some v)) :=
  C02_accessor_roundtrip fresh k c v

/-- … and every attribute outside the DERIVE clause gets a template, whenever the defined types it mentions are declared and
    renames are acyclic (`WFT`): the case analysis is total. -/
theorem C02_accessor_kind_total {s : Schema} {trank : String → Nat} (wft : Spec.WFT s trank) (a : Attr) (hk : a.kind ≠ .derived)
    (hdecl : ∀ n, a.type = .named n → (s.findT n).isSome = true) : (accKindOf s a).isSome = true := by
  unfold accKindOf
  cases hkind : a.kind with
  | derived => exact absurd hkind hk
  | inverse => simp only; split <;> rfl
  | explicit =>
    simp only
    cases ht : a.type with
    | base b => cases b <;> rfl
    | entity n => rfl
    | aggr k b u o el => rfl
    | named n =>
      have hex := hdecl n ht
      have hlt : trank n < s.types.length + 1 := by
        obtain ⟨td, htd⟩ := Option.isSome_iff_exists.1 hex
        have hm : td ∈ s.types := List.mem_of_find?_eq_some htd
        have hn : td.name = n := by
          have := List.find?_some htd
          simpa using this
        have := wft.bound td hm
        rw [hn] at this
        omega
      obtain ⟨r, hroot, hres⟩ := resolve_root wft (s.types.length + 1) n hlt hex
      unfold kindOfTRef
      simp only [hres]
      have hb : ∀ m, r.body ≠ .alias (.named m) := by
        clear hres hlt hex ht
        induction hroot with
        | here _ _ _ h => exact h
        | step _ _ _ _ _ _ _ ih => exact ih
      cases hbody : r.body with
      | enum _ => rfl
      | select _ => rfl
      | alias t =>
        simp only
        cases t with
        | named m => exact absurd hbody (hb m)
        | base b => cases b <;> rfl
        | entity _ => rfl
        | aggr _ _ _ _ _ => rfl

/-- The accessors do not change what is stored: reading (with either accessor) after a store leaves the stored value. -/
theorem C02_accessor_read_is_pure {V : Type} (fresh : V) (k : AccKind) (c : Option V) (v : V) :
    ∃ c', setter fresh k c (some v) = .done c' none ∧ getter fresh k c' = .done c' (some (some v)) := by
  cases k <;> cases c <;> exact ⟨some v, rfl, rfl⟩

/-- The one place where an accessor does NOT read back what the mutator stored: after storing a NULL entity reference the
    non-const accessor allocates a new instance and returns (and keeps) it; the const accessor returns null.  Asked of the
    real code: see notes/C02.md, finding `accessor:entity-null-materialised`. -/
theorem C02_accessor_null_entity_witness {V : Type} (fresh : V) (c : Option V) :
    setter fresh .entity c none = .done none none ∧
    constGetter fresh .entity none = .done none (some none) ∧
    getter fresh .entity none = .done (some fresh) (some (some fresh)) :=
  ⟨by cases c <;> rfl, rfl, rfl⟩

/-- A null aggregate argument is dereferenced by the aggregate mutator (`ShallowCopy( *x )`): precondition of the
    generated code, made explicit. -/
theorem C02_accessor_null_aggregate_witness {V : Type} (fresh : V) (c : Option V) :
    setter fresh .aggregate c none = .crash := by
  cases c <;> rfl

/-! ## which entities a SELECT type can hold -/

/-- Tie: `SelectTypeDescriptor::CanBe( const TypeDescriptor * )` asks every element whether it can be the argument — an element
    that is itself a select like any other (regenerated from selectTypeDescriptor.cc; with member selects only compared for
    identity — seeded change C02-e2 — this does not elaborate). -/
theorem C02_select_canbe_asks_every_element : selectCanBeRecurses = true := rfl

/-- **`CanBe` is the reflexive-transitive closure of select membership**: for every schema whose selects are not nested in
    themselves (`SelRank`), every select type `t` — plain or renamed — and every entity `e`: the dictionary query
    `t->CanBe( e's descriptor )` answers yes iff `e` is, or is a subtype of, a member entity of `t` or of a member select of `t` at
    ANY nesting depth (`Spec.CanHold`, induction on the nesting depth).  The generated `AssignEntity()` of a select class asks this
    query of its member selects, so an attribute of the outermost type accepts exactly these entities (checked on the real classes:
    `CANBE` lines of the dump for every (select, entity) pair, `SELENT` round trips). -/
theorem C02_select_canbe_is_closure {s : Schema} {srank : String → Nat} (sr : Spec.SelRank s srank) (t e : String) :
    canBeTd s (selectFuel s) t e = true ↔ Spec.CanHold s t e := by
  constructor
  · exact canBeTd_sound s (selectFuel s) t e
  · intro h
    exact canBeTd_complete sr C02_select_canbe_asks_every_element h (selectFuel s) (sr.bound t (canHold_isSome h))

/-- three selects deep, with a subtype and a renamed select on the way: the outermost can hold the innermost member's subtype;
    by name only the member entities themselves; `CanBeSet` does not look into the renamed select -/
example :
    let s : Schema :=
      { name := "n",
        types := [{ name := "inner", body := .select [.entity "b", .entity "c"] },
                  { name := "mid", body := .select [.named "inner", .entity "a"] },
                  { name := "mid2", body := .alias (.named "mid") },
                  { name := "outer", body := .select [.named "mid2", .entity "g"] }],
        entities := [{ name := "a" }, { name := "b" }, { name := "c" }, { name := "g" }, { name := "bsub", supers := ["b"] }] }
    canBeTd s (selectFuel s) "outer" "bsub" = true ∧ canBeName s (selectFuel s) "outer" "bsub" = false ∧
    canBeName s (selectFuel s) "outer" "c" = true ∧ canBeSet s (selectFuel s) "outer" "c" = false ∧
    canBeSet s (selectFuel s) "mid" "c" = true := by
  decide

/-! ## WHERE / UNIQUE rules and EXPRESS text in emitted string literals -/

/-- Every entity descriptor and every named type descriptor carries the rules of its declaration: one text per WHERE / UNIQUE
    clause, in clause order, made of the clause's label and expression(s).  The pieces the generator puts around them (`: (`,
    `);`, ` : `, `, `, the upper-cased UNIQUE label, the parser's `<unnamed>`) are regenerated from rules.c / expparse.y
    (`Generated/RuleGen.lean`); the specification states them literally, so a change there stops this from elaborating.
    The expression text itself is an input (C07 is about the printer). -/
theorem C02_mirror_rules (s : Schema) : Spec.MirrorRules s (ruleDict s) where
  entities := forall2_map _ _ (fun _ _ =>
    ⟨rfl, forall2_map _ _ (fun w _ => mirrorWhere_whereText w), forall2_map _ _ (fun u _ => mirrorUnique_uniqueText u)⟩)
  types := forall2_map _ _ (fun _ _ => ⟨rfl, forall2_map _ _ (fun w _ => mirrorWhere_whereText w), rfl⟩)

/-- The supertype statement an entity descriptor carries (`Supertype_Stmt()`) is the declaration's `[ABSTRACT] SUPERTYPE [OF ( … )]`,
    with the constraint as printed; the literal pieces are regenerated from classes_entity.c, the specification states them. -/
theorem C02_mirror_supertype_stmt (s : Schema) : ∀ e ∈ s.entities, Spec.MirrorSuperStmt e (supertypeStmt e) :=
  fun e _ => mirrorSuperStmt e

/-- Tie: both functions that copy EXPRESS text into C++ string literals write a backslash in front of exactly the backslash and
    the double quote (regenerated from classes.c).  Before fix C02-10 the double quote was missing — see the witness below. -/
theorem C02_literal_escapes :
    EscapesQuoteAndBackslash stdLiteralEscapes ∧ EscapesQuoteAndBackslash initLiteralEscapes := by
  constructor <;> intro c <;> simp only [stdLiteralEscapes, initLiteralEscapes, bsl, dq, List.contains, List.elem] <;>
    cases (c == Char.ofNat 92) <;> cases (c == Char.ofNat 34) <;> rfl

/-- The text of a rule (function, global rule, supertype expression), whatever characters it contains: every
    `str.append( "…" )` statement `format_for_std_stringout` writes is a well-formed string literal (no literal ends early, no
    stray backslash), and together they denote the text up to line breaks. -/
theorem C02_rule_text_compiles (t : List Char) :
    ∃ d, stdDenotes stdLiteralEscapes t = some d ∧ noNl d = noNl t :=
  fmtStd_denotes C02_literal_escapes.1 t

/-- The initializer of a derived attribute: the one literal `format_for_stringout` writes is well formed and denotes exactly
    the text. -/
theorem C02_initializer_text_compiles (t : List Char) : cLit (fmtInit initLiteralEscapes t) = some t :=
  fmtInit_denotes C02_literal_escapes.2 t

/-- What the proofs above needed and the code did not provide: with only the backslash escaped (the code before fix C02-10),
    the EXPRESS text `'a"b'` leaves its string literal.  Run on the real code: the generated library does not compile
    (corpus d10, d11). -/
theorem C02_unescaped_quote_witness :
    stdDenotes [bsl] ['\'', 'a', dq, 'b', '\''] = none ∧ cLit (fmtInit [bsl] ['\'', 'a', dq, 'b', '\'']) = none := by
  constructor <;> decide

end StepModel.GenCxx


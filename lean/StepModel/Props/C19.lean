import StepModel.PyAgg
import StepModel.PyAggSpec
namespace StepModel.PyAgg

theorem C19_stub : (Agg.new ⟨.bag, 0, none, 0, false, false⟩).isOk = true := rfl

end StepModel.PyAgg

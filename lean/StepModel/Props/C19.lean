import StepModel.PyAggRefine
import StepModel.PyAggLegacy
/-!
# C19 — the Python aggregates enforce EXPRESS aggregate semantics

Model: `StepModel.PyAgg` (ARRAY/LIST/BAG/SET of src/exp2python/python/stepcode/AggregationDataTypes.py, with the
bound arithmetic regenerated from the source into `Generated/PyAggGen.lean`).
Specification: `StepModel.Spec.Aggregate` (`PyAggSpec.lean`): EXPRESS values as function / sequence / sorted multiset /
sorted set, and the acceptance rule of each operation.

All statements quantify over every declaration `d` (every bound pair including the indeterminate upper bound, both
flags, every base type tag), every element value and every history `ops`; nothing is bounded.
-/
namespace StepModel.PyAgg
open StepModel.Spec.Aggregate
open StepModel.Generated

/-- states reachable from the constructor by any history -/
def Reachable (d : Decl) (s : Agg) : Prop := ∃ s0 ops, Agg.new d = .ok s0 ∧ s = s0.after ops

theorem reachable_inv {d : Decl} {s : Agg} (h : Reachable d s) : Inv d s := by
  rcases h with ⟨s0, ops, hnew, rfl⟩
  exact inv_after d s0 ((agg_new d).1 s0 hnew).2.2 ops

/-! ## construction -/

/-- The constructor accepts a declaration exactly when EXPRESS does (ARRAY: determinate `lo ≤ hi`; LIST/BAG/SET:
`0 ≤ lo`, and `lo ≤ hi` unless `hi` is indeterminate). -/
theorem C19_construction_accepted_iff_legal (d : Decl) : (∃ s, Agg.new d = .ok s) ↔ legal d = true := by
  have h := agg_new d
  constructor
  · rintro ⟨s, hs⟩; exact (h.1 s hs).1
  · intro hl
    cases hn : Agg.new d with
    | ok s => exact ⟨s, rfl⟩
    | error e => have := h.2 e hn; rw [hl] at this; cases this

/-- A freshly constructed object stands for the initial EXPRESS value (all ARRAY elements indeterminate; empty
LIST/BAG/SET). -/
theorem C19_construction_initial (d : Decl) (s : Agg) (h : Agg.new d = .ok s) : abs s = initial d :=
  ((agg_new d).1 s h).2.1

/-! ## one operation -/

/-- Refinement, one step: on every reachable state, every operation is answered exactly as EXPRESS answers it on the
value the object stands for (accepted or refused, value read, size, bounds, indices, uniqueness), and the object then
stands for EXPRESS's resulting value. -/
theorem C19_step_refines (d : Decl) (s : Agg) (h : Reachable d s) (op : Op) :
    step d (abs s) op = (abs (s.step op).1, (s.step op).2.obs) :=
  (agg_sim d s (reachable_inv h) op).1

/-- An operation is refused by the code exactly when EXPRESS refuses it. -/
theorem C19_refused_iff (d : Decl) (s : Agg) (h : Reachable d s) (op : Op) :
    (s.step op).2.obs = .refused ↔ (step d (abs s) op).2 = .refused := by
  rw [C19_step_refines d s h op]

/-! ## all histories -/

/-- Refinement, all histories: construction followed by any sequence of operations yields, answer by answer, what
EXPRESS yields for the same declaration and operations; a declaration is refused by both or by neither. -/
theorem C19_refines_all_histories (d : Decl) (ops : List Op) :
    (match Agg.new d with
      | .ok s => some (s.run ops)
      | .error _ => none) = runDecl d ops := by
  have h := agg_new d
  unfold runDecl
  cases hn : Agg.new d with
  | ok s =>
    have hs := h.1 s hn
    simp only [hs.1, if_true]
    rw [← hs.2.1, run_eq d s hs.2.2 ops]
  | error e =>
    have := h.2 e hn
    simp [this]

/-! ## the acceptance rules spelled out (corollaries of `C19_step_refines`) -/

/-- ARRAY item assignment is accepted iff the index is within the declared bounds, the element is of the base type,
and for UNIQUE no *other* index holds the same value. -/
theorem C19_array_set_accepted_iff (d : Decl) (a : Arr) (h : Reachable d (.arr a)) (i : Int) (x : Val) :
    (a.set i x).2 = .ok ↔
      (d.lo ≤ i ∧ i ≤ a.hi ∧ conforms x.ty d.base = true ∧
        (d.unique = true → ∀ j ∈ indices d.lo a.hi, j ≠ i → (absArr a j).map Val.key ≠ some x.key)) := by
  have hi : ArrInv d a := reachable_inv h
  have hs := (arr_set_sim d a hi i x).1
  simp only [step, hi.hi] at hs
  change _ ↔ arraySetAllowed d a.hi (absArr a) i x
  by_cases hal : arraySetAllowed d a.hi (absArr a) i x
  · rw [if_pos hal] at hs
    have : (a.set i x).2.obs = .ok := (congrArg Prod.snd hs).symm
    constructor
    · intro _; exact hal
    · intro _; cases hr : (a.set i x).2 <;> simp [hr, R.obs] at this ⊢
  · rw [if_neg hal] at hs
    have : (a.set i x).2.obs = .refused := (congrArg Prod.snd hs).symm
    constructor
    · intro hok; rw [hok] at this; simp [R.obs] at this
    · intro hh; exact absurd hh hal

/-- ARRAY item read: refused outside the bounds; an element that was never assigned is readable only when the ARRAY
is OPTIONAL (and then reads as indeterminate); otherwise the last value assigned to that index is returned. -/
theorem C19_array_get_answer (d : Decl) (a : Arr) (h : Reachable d (.arr a)) (i : Int) :
    (a.get i).obs =
      if d.lo ≤ i ∧ i ≤ a.hi ∧ (d.optional = true ∨ absArr a i ≠ none) then
        (match absArr a i with | some x => .val x | none => .unset)
      else .refused := by
  have hi : ArrInv d a := reachable_inv h
  have hs := arr_get_sim d a hi i
  simp only [step, hi.hi] at hs
  by_cases hal : arrayGetAllowed d a.hi (absArr a) i
  · rw [if_pos hal] at hs
    have hal' : d.lo ≤ i ∧ i ≤ a.hi ∧ (d.optional = true ∨ absArr a i ≠ none) := hal
    rw [if_pos hal']; exact (congrArg Prod.snd hs).symm
  · rw [if_neg hal] at hs
    have hal' : ¬ (d.lo ≤ i ∧ i ≤ a.hi ∧ (d.optional = true ∨ absArr a i ≠ none)) := hal
    rw [if_neg hal']; exact (congrArg Prod.snd hs).symm

/-- An unset ARRAY element is readable only when the ARRAY is OPTIONAL. -/
theorem C19_array_unset_only_optional (d : Decl) (a : Arr) (h : Reachable d (.arr a)) (i : Int)
    (hu : (a.get i).obs = .unset) : d.optional = true := by
  rw [C19_array_get_answer d a h i] at hu
  split at hu
  · rename_i hc
    rcases hc.2.2 with ho | hne
    · exact ho
    · cases hv : absArr a i with
      | none => exact absurd hv hne
      | some x => rw [hv] at hu; cases hu
  · cases hu

/-- LIST item assignment is accepted iff `1 ≤ i ≤ SIZEOF+1`, growing the list (`i = SIZEOF+1`) keeps it within the
upper bound, the element is of the base type, and for UNIQUE no *other* position holds the same value. -/
theorem C19_list_set_accepted_iff (d : Decl) (l : Lst) (h : Reachable d (.lst l)) (i : Int) (x : Val) :
    (l.set i x).2 = .ok ↔ listSetAllowed d l.cells i x := by
  have hi : LstInv d l := reachable_inv h
  have hs := (lst_set_sim d l hi i x).1
  simp only [step] at hs
  by_cases hal : listSetAllowed d l.cells i x
  · rw [if_pos hal] at hs
    have : (l.set i x).2.obs = .ok := (congrArg Prod.snd hs).symm
    constructor
    · intro _; exact hal
    · intro _; cases hr : (l.set i x).2 <;> simp [hr, R.obs] at this ⊢
  · rw [if_neg hal] at hs
    have : (l.set i x).2.obs = .refused := (congrArg Prod.snd hs).symm
    constructor
    · intro hok; rw [hok] at this; simp [R.obs] at this
    · intro hh; exact absurd hh hal

/-- BAG `add` is accepted iff the element is of the base type and the bag stays within its upper bound. -/
theorem C19_bag_add_accepted_iff (d : Decl) (b : Bag) (h : Reachable d (.bag b)) (x : Val) :
    (b.add x).2 = .ok ↔ (conforms x.ty d.base = true ∧ withinUpper d (b.cells.length + 1)) := by
  have hi : BagInv d b := reachable_inv h
  have hs := (bag_add_sim d b hi x).1
  simp only [step] at hs
  have hiff : bagAddAllowed d (sortL b.cells) x ↔ (conforms x.ty d.base = true ∧ withinUpper d (b.cells.length + 1)) := by
    unfold bagAddAllowed; rw [length_sortL]
  rw [← hiff]
  by_cases hal : bagAddAllowed d (sortL b.cells) x
  · rw [if_pos hal] at hs
    have : (b.add x).2.obs = .ok := (congrArg Prod.snd hs).symm
    constructor
    · intro _; exact hal
    · intro _; cases hr : (b.add x).2 <;> simp [hr, R.obs] at this ⊢
  · rw [if_neg hal] at hs
    have : (b.add x).2.obs = .refused := (congrArg Prod.snd hs).symm
    constructor
    · intro hok; rw [hok] at this; simp [R.obs] at this
    · intro hh; exact absurd hh hal

/-- SET `add` is accepted iff the element is of the base type and is either already a member (the set is then left
as it is) or fits within the upper bound. -/
theorem C19_set_add_accepted_iff (d : Decl) (s : PSet) (h : Reachable d (.set s)) (x : Val) :
    (s.add x).2 = .ok ↔
      (conforms x.ty d.base = true ∧ (x.key ∈ s.cells.map Val.key ∨ withinUpper d (s.cells.length + 1))) := by
  have hi : SetInv d s := reachable_inv h
  have hs := (set_add_sim d s hi x).1
  simp only [step] at hs
  have hiff : setAddAllowed d (sortL s.cells) x ↔
      (conforms x.ty d.base = true ∧ (x.key ∈ s.cells.map Val.key ∨ withinUpper d (s.cells.length + 1))) := by
    unfold setAddAllowed; rw [length_sortL, keyMem_sortL]
  rw [← hiff]
  by_cases hal : setAddAllowed d (sortL s.cells) x
  · rw [if_pos hal] at hs
    have : (s.add x).2.obs = .ok := (congrArg Prod.snd hs).symm
    constructor
    · intro _; exact hal
    · intro _; cases hr : (s.add x).2 <;> simp [hr, R.obs] at this ⊢
  · rw [if_neg hal] at hs
    have : (s.add x).2.obs = .refused := (congrArg Prod.snd hs).symm
    constructor
    · intro hok; rw [hok] at this; simp [R.obs] at this
    · intro hh; exact absurd hh hal

/-! ## invariants of every reachable state -/

/-- No more elements than the upper bound: after any history the size a LIST/BAG/SET reports is within the declared
upper bound. -/
theorem C19_size_within_upper (d : Decl) (s : Agg) (h : Reachable d s) (hk : d.kind ≠ .array) (n : Int)
    (hn : (s.step .size).2 = .int n) : ∀ b, d.hi = some b → n ≤ b := by
  have hi := reachable_inv h
  intro b hb
  cases s with
  | arr a => exact absurd (show ArrInv d a from hi).kind hk
  | lst l =>
    have := (show LstInv d l from hi).upper b hb
    simp only [Agg.step, Lst.step, R.int.injEq] at hn; omega
  | bag bg =>
    have := (show BagInv d bg from hi).upper b hb
    simp only [Agg.step, Bag.step, R.int.injEq] at hn; omega
  | set st =>
    have := (show SetInv d st from hi).upper b hb
    simp only [Agg.step, PSet.step, R.int.injEq] at hn; omega

/-- The reported size is the number of elements of the EXPRESS value (ARRAY: `hi - lo + 1`). -/
theorem C19_size_is_sizeof (d : Decl) (s : Agg) (h : Reachable d s) :
    (s.step .size).2.obs = (step d (abs s) .size).2 := by
  rw [C19_step_refines d s h .size]

/-- A SET never holds a duplicate, after any history. -/
theorem C19_set_never_duplicates (d : Decl) (s : PSet) (h : Reachable d (.set s)) : (s.cells.map Val.key).Nodup :=
  (show SetInv d s from reachable_inv h).nodup

/-- Every element stored in a SET is of the declared base type, after any history. -/
theorem C19_set_elements_typed (d : Decl) (s : PSet) (h : Reachable d (.set s)) :
    ∀ x ∈ s.cells, conforms x.ty d.base = true :=
  (show SetInv d s from reachable_inv h).typed

/-- No duplicate in a SET or in a UNIQUE ARRAY/LIST: after any history, the EXPRESS value the object stands for
has no two equal elements at different positions (`UniqueOK`, `PyAggRefine.lean`). -/
theorem C19_unique_never_duplicates (d : Decl) (s : Agg) (h : Reachable d s) : UniqueOK d (abs s) := by
  rcases h with ⟨s0, ops, hnew, rfl⟩
  have h0 := (agg_new d).1 s0 hnew
  apply uniqueOK_after d s0 h0.2.2 _ ops
  rw [h0.2.1]
  exact uniqueOK_initial d

/-- … spelled out for a UNIQUE LIST: its elements are pairwise different after any history. -/
theorem C19_unique_list_nodup (d : Decl) (l : Lst) (h : Reachable d (.lst l)) (hu : d.unique = true) :
    (l.cells.map Val.key).Nodup :=
  (C19_unique_never_duplicates d (.lst l) h) hu

/-- … and for a UNIQUE ARRAY: two different indices never hold the same value after any history. -/
theorem C19_unique_array_distinct (d : Decl) (a : Arr) (h : Reachable d (.arr a)) (hu : d.unique = true)
    (j k : Int) (hj : j ∈ indices d.lo a.hi) (hk : k ∈ indices d.lo a.hi) (hjk : j ≠ k) (x : Key)
    (hx : (absArr a j).map Val.key = some x) : (absArr a k).map Val.key ≠ some x :=
  (C19_unique_never_duplicates d (.arr a) h) hu a.hi (show ArrInv d a from reachable_inv h).hi j hj k hk hjk x hx

/-- A refused operation leaves the aggregate's value as it was. -/
theorem C19_refused_keeps_value (d : Decl) (s : Agg) (h : Reachable d s) (op : Op)
    (hr : (s.step op).2.obs = .refused) : abs (s.step op).1 = abs s := by
  have hs := C19_step_refines d s h op
  have h2 : (step d (abs s) op).2 = .refused := by rw [hs]; exact hr
  have h1 : (step d (abs s) op).1 = abs (s.step op).1 := by rw [hs]
  rw [← h1]
  generalize abs s = v at h2 ⊢
  cases v with
  | array a =>
    simp only [step] at h2 ⊢
    cases hh : d.hi with
    | none => rfl
    | some b =>
      simp only [hh] at h2 ⊢
      cases op <;> simp only at h2 ⊢ <;> first | rfl | (split <;> first | rfl | (rename_i hc; simp [hc] at h2))
  | list l =>
    simp only [step] at h2 ⊢
    cases op <;> simp only at h2 ⊢ <;> first | rfl | (split <;> first | rfl | (rename_i hc; simp [hc] at h2))
  | bag b =>
    simp only [step] at h2 ⊢
    cases op <;> simp only at h2 ⊢ <;> first | rfl | (split <;> first | rfl | (rename_i hc; simp [hc] at h2))
  | set s =>
    simp only [step] at h2 ⊢
    cases op <;> simp only at h2 ⊢ <;> first | rfl | (split <;> first | rfl | (rename_i hc; simp [hc] at h2))

/-! ## value equality -/

/-- Python's `==` on the value universe (`veq`: INTEGER, whole REAL and BOOLEAN values compare by number, everything else
only with itself) is an equivalence relation; the container specifications and theorems above are stated modulo it
(`Val.key`): "duplicate", "member" and VALUE_UNIQUE mean equal *values*, as in EXPRESS (`1 = 1.0`). -/
theorem C19_value_equality_is_an_equivalence :
    (∀ x : Val, veq x x = true) ∧ (∀ x y : Val, veq x y = true → veq y x = true) ∧
    (∀ x y z : Val, veq x y = true → veq y z = true → veq x z = true) :=
  ⟨veq_refl, fun _ _ => veq_symm, fun _ _ _ => veq_trans⟩

/-- NUMBER as a base type: INTEGER and REAL values conform (and only they), and equal numbers of the two types are one
element: a `SET OF NUMBER` holding `INTEGER(1)` takes `REAL(1.0)` as already present, a UNIQUE LIST refuses it. -/
example : runDecl ⟨.set, 0, some 2, 5, false, false⟩ [.add ⟨0, 1⟩, .add ⟨2, 1⟩, .size, .add ⟨3, 1⟩, .add ⟨2, 4⟩, .size]
    = some [.ok, .ok, .int 1, .refused, .ok, .int 2] := by decide
example : runDecl ⟨.list, 0, none, 5, true, false⟩ [.set 1 ⟨0, 1⟩, .set 2 ⟨2, 1⟩, .set 2 ⟨2, 2⟩, .unique]
    = some [.ok, .refused, .ok, .logical .t] := by decide

/-! ## specialization among the simple types -/

/-- Every value the runtime's type check accepts is assignable in EXPRESS: nothing ill-typed gets in.  `_partial`: the
converse fails for exactly two shapes, an INTEGER value for a REAL base type and a BOOLEAN value for a LOGICAL base type
(`C19_specialization_refused_witness`; finding `simple-specialization-refused`, probed on the real code). -/
theorem C19_accepted_values_are_assignable_partial (x : Val) (base : Ty) (h : checkType x base = true) :
    assignable x.ty base = true := by
  unfold assignable
  rw [(checkType_iff x base).mp h]
  rfl

theorem C19_assignable_iff_accepted_or_specialization (t base : Ty) :
    assignable t base = true ↔
      (conforms t base = true ∨ (t = .simple 0 ∧ base = .simple 2) ∨ (t = .simple 3 ∧ base = .simple 4)) := by
  unfold assignable
  simp only [Bool.or_eq_true]
  constructor
  · rintro (h | h)
    · exact Or.inl h
    · split at h <;> simp_all
  · rintro (h | ⟨rfl, rfl⟩ | ⟨rfl, rfl⟩)
    · exact Or.inl h
    · exact Or.inr rfl
    · exact Or.inr rfl

/-- EXPRESS lets `INTEGER(1)` into a `LIST OF REAL` and `TRUE` into a `SET OF LOGICAL`; the runtime's `isinstance` check
refuses both. -/
theorem C19_specialization_refused_witness :
    assignable (.simple 0) (.simple 2) = true ∧ checkType ⟨.simple 0, 1⟩ (.simple 2) = false ∧
    assignable (.simple 3) (.simple 4) = true ∧ checkType ⟨.simple 3, 1⟩ (.simple 4) = false := by decide

/-! ## the type check comes first -/

/-- Statement order of the four mutators (regenerated from AggregationDataTypes.py): on every path
`check_type(value, …)` runs before `value` is tested for membership or stored. -/
theorem C19_type_check_precedes_membership_and_store :
    arraySetChecksTypeFirst = true ∧ listSetChecksTypeFirst = true ∧ bagAddChecksTypeFirst = true ∧
    setAddChecksTypeFirst = true := by decide

/-- A wrong-typed value offered to any mutator (item assignment or `add`) of any aggregate in any reachable state is
refused and leaves the value as it was — whatever the aggregate holds, in particular also when it holds a member that
python considers equal to the offer (`INTEGER(1) == REAL(1.0) == True`). -/
theorem C19_wrong_typed_offer_refused (d : Decl) (s : Agg) (h : Reachable d s) (op : Op) (x : Val)
    (hop : (∃ i, op = .set i x) ∨ op = .add x) (hx : ¬ (conforms x.ty d.base = true)) :
    (s.step op).2.obs = .refused ∧ abs (s.step op).1 = abs s := by
  have hspec : (step d (abs s) op).2 = .refused := by
    generalize abs s = v
    cases v with
    | array a =>
      simp only [step]
      cases hh : d.hi with
      | none => rfl
      | some b =>
        rcases hop with ⟨i, rfl⟩ | rfl
        · have hn : ¬ arraySetAllowed d b a i x := fun hh' => hx hh'.2.2.1
          simp [hn]
        · rfl
    | list l =>
      rcases hop with ⟨i, rfl⟩ | rfl
      · have hn : ¬ listSetAllowed d l i x := fun hh' => hx hh'.2.2.2.1
        simp [step, hn]
      · rfl
    | bag b =>
      rcases hop with ⟨i, rfl⟩ | rfl
      · rfl
      · have hn : ¬ bagAddAllowed d b x := fun hh' => hx hh'.1
        simp [step, hn]
    | set st =>
      rcases hop with ⟨i, rfl⟩ | rfl
      · rfl
      · have hn : ¬ setAddAllowed d st x := fun hh' => hx hh'.1
        simp [step, hn]
  have hr : (s.step op).2.obs = .refused := (C19_refused_iff d s h op).mpr hspec
  exact ⟨hr, C19_refused_keeps_value d s h op hr⟩

/-- Before fixes/C19-6 a *full* SET took the membership shortcut before the type check: `SET [0:1] OF INTEGER` holding
`INTEGER(1)` silently accepted `REAL(1.0)` (python-equal), which EXPRESS refuses. -/
theorem C19_legacy_set_cross_type_witness :
    (Legacy.setAddPy ⟨0, some 1, 0, [⟨0, 1⟩]⟩ 1 ⟨2, 1⟩).2 = .ok ∧
    runDecl ⟨.set, 0, some 1, 0, false, false⟩ [.add ⟨0, 1⟩, .add ⟨2, 1⟩] = some [.ok, .refused] := by decide

/-! ## element aggregates with their own bounds -/

/-- Everything EXPRESS lets stand for a declared element type has that type's shape — the kind at every level and the
simple type at the bottom — which is exactly what `check_type` compares (`C19_check_type_structural`): no element EXPRESS
allows is refused for its shape.  `_partial`: the converse needs the bounds, which `check_type` does not look at
(`@TODO: check aggregate bounds` in TypeChecker.py) — see the witness. -/
theorem C19_element_specialization_shape_partial (x e : BTy) (h : specializes x e = true) :
    eraseBounds x = eraseBounds e := by
  induction x generalizing e with
  | simple t =>
    cases e with
    | simple t' => simp [specializes] at h; simp [eraseBounds, h]
    | agg _ _ _ _ => simp [specializes] at h
  | agg k lo hi b ih =>
    cases e with
    | simple _ => simp [specializes] at h
    | agg k' lo' hi' b' =>
      simp only [specializes, Bool.and_eq_true, decide_eq_true_eq] at h
      simp [eraseBounds, h.1.1, ih b' h.2]

/-- The runtime accepts an `ARRAY [1:5] OF REAL` where `ARRAY [1:2] OF REAL` is declared (same shape), EXPRESS does not;
likewise a `LIST [0:?]` for a `LIST [0:3]` (finding `element-bounds-ignored`, probed on the real code by the check). -/
theorem C19_element_bounds_ignored_witness :
    eraseBounds (.agg .array 1 (some 5) (.simple 2)) = eraseBounds (.agg .array 1 (some 2) (.simple 2)) ∧
    specializes (.agg .array 1 (some 5) (.simple 2)) (.agg .array 1 (some 2) (.simple 2)) = false ∧
    eraseBounds (.agg .list 0 none (.simple 2)) = eraseBounds (.agg .list 0 (some 3) (.simple 2)) ∧
    specializes (.agg .list 0 none (.simple 2)) (.agg .list 0 (some 3) (.simple 2)) = false := by decide

theorem specializes_eq (x e : BTy) :
    specializes x e = (decide (eraseBounds x = eraseBounds e) && boundsFit x e) := by
  induction x generalizing e with
  | simple t =>
    cases e with
    | simple t' => by_cases h : t = t' <;> simp [specializes, eraseBounds, boundsFit, h]
    | agg _ _ _ _ => simp [specializes, eraseBounds, boundsFit]
  | agg k lo hi b ih =>
    cases e with
    | simple _ => simp [specializes, eraseBounds, boundsFit]
    | agg k' lo' hi' b' =>
      simp only [specializes, eraseBounds, boundsFit, ih b']
      by_cases hk : k = k' <;> by_cases hb : eraseBounds b = eraseBounds b' <;> simp [hk, hb]

/-- Once `check_type` compares the bounds (fixes/C19-7; `elementBoundsChecked`, a regenerated fact established by executing
the helper on a table of kinds and bounds), an element aggregate is accepted for a declared aggregate element type
**exactly** when EXPRESS lets it stand for that type: same kind and base type at every level and conforming bounds at
every level.  On a tree without the bounds comparison the hypothesis is false and `C19_element_bounds_ignored_witness`
describes the gap. -/
theorem C19_element_accepted_iff_specializes_when_bounds_checked (hchk : elementBoundsChecked = true)
    (x : BTy) (k : Kind) (lo : Int) (hi : Option Int) (b : BTy) :
    elementAccepted x (.agg k lo hi b) = specializes x (.agg k lo hi b) := by
  rw [specializes_eq]
  unfold elementAccepted
  rw [hchk]
  simp only [if_true]
  congr 1
  have h := checkType_iff ⟨eraseBounds x, 1⟩ (eraseBounds (.agg k lo hi b))
  have hc : conforms (eraseBounds x) (eraseBounds (.agg k lo hi b)) = true ↔
      eraseBounds x = eraseBounds (.agg k lo hi b) := by simp [eraseBounds, conforms]
  rw [Bool.eq_iff_iff, h, hc]
  simp

/-- regenerated tie: `check_type` compares the bounds of an element aggregate (fixes/C19-7; established by executing
`bounds_conform` on a table).  Does not build on a tree without the comparison. -/
theorem C19_tie_element_bounds_checked : elementBoundsChecked = true := rfl

/-- regenerated tie: among the classes of the simple types only INTEGER and REAL have another simple type's class above
them (NUMBER); in particular BINARY is not a STRING and BOOLEAN is python's `bool`.  Does not build on a tree whose
SimpleDataTypes.py relates the classes differently (seeded C19-e1: `class BINARY(STRING)`). -/
theorem C19_tie_simple_type_hierarchy : simpleSubclassPairs = [(0, 5), (2, 5)] := rfl

/-- **The model's conformance rule for simple base types is the runtime's `isinstance` on that class hierarchy**: for every
value type (INTEGER, STRING, REAL, BOOLEAN, LOGICAL, the two ENUMERATIONs, BINARY) and every simple base type (those and
NUMBER), `conforms` holds exactly when the value's class is the base type's class or a (regenerated) subclass of it — the
full type × type matrix. -/
theorem C19_conforms_is_the_class_hierarchy :
    ∀ t ∈ [0, 1, 2, 3, 4, 6, 7, 8], ∀ b ∈ [0, 1, 2, 3, 4, 5, 6, 7, 8],
      conforms (.simple t) (.simple b) = (t == b || (simpleSubclassPairs.contains (t, b))) := by decide

/-- regenerated tie: ARRAY, LIST, BAG and SET define `__contains__` in the modelled form (fixes/C19-8), so
`C19_membership_refines` speaks about the runtime.  Does not build on a tree without it. -/
theorem C19_tie_membership_defined : membershipDefined = true := rfl

/-- An element aggregate is accepted for a declared aggregate element type **exactly** when EXPRESS lets it stand for that
type (same kind and base type at every level, conforming bounds at every level) — on the tree as it is. -/
theorem C19_element_accepted_iff_specializes (x : BTy) (k : Kind) (lo : Int) (hi : Option Int) (b : BTy) :
    elementAccepted x (.agg k lo hi b) = specializes x (.agg k lo hi b) :=
  C19_element_accepted_iff_specializes_when_bounds_checked C19_tie_element_bounds_checked x k lo hi b

/-! ## the EXPRESS built-in functions (Builtin.py) -/

def specFn : BFn → BuiltinFn
  | .sizeof => .sizeof | .hiindex => .hiindex | .loindex => .loindex
  | .hibound => .hibound | .lobound => .lobound | .valueUnique => .valueUnique

/-- `SIZEOF`, `HIINDEX`, `LOINDEX`, `HIBOUND`, `LOBOUND` and `VALUE_UNIQUE` of Builtin.py, applied to a container in any
reachable state, return what ISO 10303-11 15.x defines for the EXPRESS value the container stands for (in particular
VALUE_UNIQUE is three-valued: UNKNOWN as soon as one ARRAY element is unset).  Depends on the regenerated
`builtinMethod` (which container method each function returns). -/
theorem C19_builtins_refine (d : Decl) (s : Agg) (h : Reachable d s) (f : BFn) :
    (Builtin.call f (.container s)).obs = builtin d (abs s) (specFn f) := by
  cases f <;> simp only [Builtin.call, builtinMethod, queryOp, builtin, specFn] <;>
    first
    | exact (congrArg Prod.snd (C19_step_refines d s h .size)).symm
    | exact (congrArg Prod.snd (C19_step_refines d s h .hiindex)).symm
    | exact (congrArg Prod.snd (C19_step_refines d s h .loindex)).symm
    | exact (congrArg Prod.snd (C19_step_refines d s h .hibound)).symm
    | exact (congrArg Prod.snd (C19_step_refines d s h .lobound)).symm
    | exact (congrArg Prod.snd (C19_step_refines d s h .unique)).symm

/-- Applied to something that is not an aggregate the built-in functions refuse (`TypeError`). -/
theorem C19_builtins_refuse_non_aggregates (f : BFn) (x : Val) : (Builtin.call f (.other x)).obs = .refused := rfl

/-- VALUE_UNIQUE / `get_value_unique` on an ARRAY is three-valued: UNKNOWN iff some element in the index range is unset,
otherwise TRUE iff all elements differ. -/
theorem C19_value_unique_three_valued (d : Decl) (a : Arr) (h : Reachable d (.arr a)) :
    a.valueUnique = (if ∃ j ∈ indices d.lo a.hi, absArr a j = none then Logical.u
                     else if (((indices d.lo a.hi).map (absArr a)).map (Option.map Val.key)).Nodup then Logical.t else Logical.f) :=
  (arr_valueUnique d a (reachable_inv h)).symm

/-! ## non-interference between containers -/

/-- What one container answers does not depend on what was done to any other container, before or in between: in any
interleaved history over any number of containers, the answers given for container `i` are the answers `i` gives to its
own operations alone.  (The implementation must therefore behave the same in a fresh interpreter and after any other
histories — the check replays a disagreeing history in a fresh process to tell the two apart.) -/
theorem C19_noninterference (w : List Agg) (i : Nat) (a : Agg) (hw : w[i]? = some a) (h : List (Nat × Op)) :
    ((World.run w h).filter (fun p => p.1 = i)).map (fun p => p.2) =
      (a.run ((h.filter (fun p => p.1 = i)).map (fun p => p.2))).map some := by
  induction h generalizing w a with
  | nil => rfl
  | cons x rest ih =>
    obtain ⟨j, op⟩ := x
    by_cases hj : j = i
    · subst hj
      have hlt : j < w.length := (List.getElem?_eq_some_iff.mp hw).1
      have hw' : (w.set j (a.step op).1)[j]? = some (a.step op).1 := by
        simp [List.getElem?_set_self hlt]
      simp only [World.run, World.step, hw, List.filter_cons, decide_true, if_true, List.map_cons, Agg.run,
        Option.map_some]
      rw [ih _ _ hw']
    · have hne : ¬ (j = i) := hj
      cases hwj : w[j]? with
      | none =>
        simp only [World.run, World.step, hwj, List.filter_cons, hne, decide_false, Bool.false_eq_true, if_false]
        exact ih w a hw
      | some b =>
        have hw' : (w.set j (b.step op).1)[i]? = some a := by
          rw [List.getElem?_set_ne hj]; exact hw
        simp only [World.run, World.step, hwj, List.filter_cons, hne, decide_false, Bool.false_eq_true, if_false]
        exact ih _ a hw'

/-- `check_type` against an aggregate base type: an inner aggregate is accepted iff it is the same kind of aggregate
with the same base type — whatever was accepted before (seeded regression C19-a2). -/
example : runDecl ⟨.array, 1, some 3, .agg .array 2, false, true⟩
    [.set 1 ⟨.agg .array 2, 7⟩, .set 2 ⟨.agg .array 0, 8⟩, .set 2 ⟨.agg .list 2, 9⟩, .set 2 ⟨2, 1⟩, .get 2]
    = some [.ok, .refused, .refused, .refused, .unset] := by decide

/-- Element type check at every nesting depth: `check_type` accepts an element exactly when its type tree equals the
declared base type — the aggregate kind at *every* level and the simple type at the bottom (bounds and flags of element
aggregates are not compared, as in the code).  Depends on the regenerated comparison mode (`elementBaseCmp = structural`). -/
theorem C19_check_type_structural (x : Val) (e : Ty) :
    (checkType x e = true ↔ conforms x.ty e = true) ∧ (plainBase e = true → (checkType x e = true ↔ x.ty = e)) :=
  ⟨checkType_iff x e, fun hb => (checkType_iff x e).trans (conforms_eq_iff x.ty e hb)⟩

/-- Before fixes/C19-5 (`instance.get_type() == expected_type.get_type()`, identity on aggregate objects): with three
levels of nesting a structurally equal element was accepted only when built over the declaration's own base-type object. -/
theorem C19_legacy_identity_comparison_witness :
    checkTypeWith .identity ⟨.agg .list (.agg .set 2), 1⟩ (.agg .list (.agg .set 2)) = false ∧
    checkTypeWith .identity ⟨.agg .list (.agg .set 2), 0⟩ (.agg .list (.agg .set 2)) = true := by decide

/-- A comparison that recurses through `get_type()` without comparing the aggregate class (seeded C19-b2) takes a
`LIST OF ARRAY OF REAL` for a `LIST OF SET OF REAL`. -/
theorem C19_kindless_comparison_witness :
    checkTypeWith .structuralNoKind ⟨.agg .list (.agg .array 2), 1⟩ (.agg .list (.agg .set 2)) = true := by decide

example : runDecl ⟨.array, 1, some 2, .agg .list (.agg .set 2), false, true⟩
    [.set 1 ⟨.agg .list (.agg .set 2), 1⟩, .set 2 ⟨.agg .list (.agg .array 2), 3⟩, .set 2 ⟨.agg .array (.agg .set 2), 5⟩]
    = some [.ok, .refused, .refused] := by decide

/-! ## the hypotheses are satisfiable, the specification discriminates -/

example : Reachable ⟨.bag, 0, some 2, 0, false, false⟩
    ((Agg.bag ⟨0, some 2, 0, []⟩).after [.add ⟨0, 1⟩, .add ⟨0, 1⟩]) :=
  ⟨.bag ⟨0, some 2, 0, []⟩, [.add ⟨0, 1⟩, .add ⟨0, 1⟩], rfl, rfl⟩

/-- EXPRESS refuses the third element of a `BAG [0:2]`, the second equal element of a UNIQUE LIST, index 0 of a LIST,
and accepts an idempotent overwrite in a UNIQUE ARRAY (the four shapes of DESIGN §6 row 18). -/
example : runDecl ⟨.bag, 0, some 2, 0, false, false⟩ [.add ⟨0, 0⟩, .add ⟨0, 1⟩, .add ⟨0, 2⟩, .size]
    = some [.ok, .ok, .refused, .int 2] := by decide
example : runDecl ⟨.list, 1, some 3, 0, true, false⟩ [.set 1 ⟨0, 0⟩, .set 1 ⟨0, 0⟩, .set 2 ⟨0, 0⟩, .set 0 ⟨0, 1⟩, .set 3 ⟨0, 1⟩]
    = some [.ok, .ok, .refused, .refused, .refused] := by decide
example : runDecl ⟨.array, 1, some 3, 0, true, false⟩ [.set 1 ⟨0, 0⟩, .set 1 ⟨0, 0⟩, .set 2 ⟨0, 0⟩, .get 3]
    = some [.ok, .ok, .refused, .refused] := by decide

/-! ## the defects this check found, as they were before the fixes (negation of the property on concrete histories;
the same histories are corpus/C19/*.json and are replayed on the real code on every run) -/

def bag02 : Decl := ⟨.bag, 0, some 2, 0, false, false⟩
/-- Before C19-1: `BAG [0:2]` accepted a third element, which EXPRESS refuses. -/
theorem C19_legacy_bag_capacity_witness :
    let b0 : Bag := ⟨0, some 2, 0, []⟩
    let b3 := (Legacy.bagAdd (Legacy.bagAdd (Legacy.bagAdd b0 ⟨0, 0⟩).1 ⟨0, 1⟩).1 ⟨0, 2⟩)
    b3.2 = .ok ∧ b3.1.cells.length = 3 ∧
    runDecl bag02 [.add ⟨0, 0⟩, .add ⟨0, 1⟩, .add ⟨0, 2⟩] = some [.ok, .ok, .refused] := by decide

/-- Before C19-1: `SET [2:3]` refused its third element, which EXPRESS accepts. -/
theorem C19_legacy_set_capacity_witness :
    let s0 : PSet := ⟨2, some 3, 0, []⟩
    (Legacy.setAdd (Legacy.setAdd (Legacy.setAdd s0 ⟨0, 0⟩).1 ⟨0, 1⟩).1 ⟨0, 2⟩).2 = .raised .assertion ∧
    runDecl ⟨.set, 2, some 3, 0, false, false⟩ [.add ⟨0, 0⟩, .add ⟨0, 1⟩, .add ⟨0, 2⟩] = some [.ok, .ok, .ok] := by decide

/-- Before C19-3: a UNIQUE ARRAY refused to overwrite a slot with the value it already held. -/
theorem C19_legacy_unique_overwrite_witness :
    let a0 : Arr := ⟨1, 3, true, false, 0, [none, none, none]⟩
    (Legacy.arrSet (Legacy.arrSet a0 1 ⟨0, 0⟩).1 1 ⟨0, 0⟩).2 = .raised .assertion ∧
    runDecl ⟨.array, 1, some 3, 0, true, false⟩ [.set 1 ⟨0, 0⟩, .set 1 ⟨0, 0⟩] = some [.ok, .ok] := by decide

/-- Before C19-2: the first write to an unbounded LIST raised `TypeError`. -/
theorem C19_legacy_unbounded_list_typeerror_witness :
    ((Legacy.LLst.new 1 none 0 false).set 1 ⟨0, 0⟩).2 = .raised .type ∧
    runDecl ⟨.list, 1, none, 0, false, false⟩ [.set 1 ⟨0, 0⟩] = some [.ok] := by decide

/-- Before C19-4: `LIST [1:3]` accepted `l[3]` on an empty list (size 1, yet `l[1]` unreadable), and `LIST [0:2]`
accepted index 0 and a third element beyond its upper bound 2. -/
theorem C19_legacy_list_indexing_witness :
    let l := ((Legacy.LLst.new 1 (some 3) 0 false).set 3 ⟨0, 0⟩)
    l.2 = .ok ∧ l.1.size = 1 ∧ l.1.get 1 = .raised .assertion ∧
    runDecl ⟨.list, 1, some 3, 0, false, false⟩ [.set 3 ⟨0, 0⟩] = some [.refused] ∧
    (let m := (((Legacy.LLst.new 0 (some 2) 0 false).set 0 ⟨0, 0⟩).1.set 1 ⟨0, 1⟩).1.set 2 ⟨0, 2⟩
     m.2 = .ok ∧ m.1.size = 3) := by decide

/-- Before C19-4: on an unbounded `LIST [1:?]` holding two elements, `l[0]` wrapped around to the last element. -/
theorem C19_legacy_list_negative_index_witness :
    let l := (((Legacy.LLst.new 1 none 0 false).set 2 ⟨0, 7⟩).1.set 3 ⟨0, 8⟩).1
    l.get 0 = .val ⟨0, 8⟩ := by decide

/-! ## membership (`IN`) -/

/-- **`x IN aggregate` refines**: in every reachable state the containers' membership test (`__contains__`, present when
the regenerated `membershipDefined` holds) answers what ISO 10303-11 12.2.3 defines for the EXPRESS value the container
stands for — some element has the value of `x`, by value equality; unset ARRAY elements match nothing — for every
declaration, history and value. -/
theorem C19_membership_refines (d : Decl) (s : Agg) (h : Reachable d s) (x : Val) :
    s.contains x = member d (abs s) x := by
  have hi := reachable_inv h
  cases s with
  | arr a =>
    have hv : ArrInv d a := hi
    simp only [Agg.contains, abs, member]
    rw [← hv.lo, hv.hi]
    simp only [Option.getD_some]
    exact decide_eq_decide.mpr (by rw [map_indices_absArr a hv.len])
  | lst l => rfl
  | bag b =>
    simp only [Agg.contains, abs, member]
    exact decide_eq_decide.mpr (keyMem_sortL x.key b.cells).symm
  | set s =>
    simp only [Agg.contains, abs, member]
    exact decide_eq_decide.mpr (keyMem_sortL x.key s.cells).symm


/-! ## the bounds rule joined with the container step -/

theorem eraseBounds_canon : ∀ t : Ty, eraseBounds (canon t) = t
  | .simple _ => rfl
  | .agg k b => by simp [canon, eraseBounds, eraseBounds_canon b]

theorem boundsFit_canon_self : ∀ t : Ty, boundsFit (canon t) (canon t) = true
  | .simple _ => rfl
  | .agg k b => by
    simp only [canon, boundsFit, boundsFit_canon_self b, Bool.and_true]
    cases k <;> simp [harnessBounds, boundsConform, upperWithin]

/-- **The container step and the bounds rule, joined**: in the value universe of the refinement every element aggregate and
every declared element type carries the harness's bounds (`canon`); there the bounds-comparing `check_type`
(`elementAccepted`, what the code runs since fixes/C19-7) accepts exactly what the bounds-less `checkType` of the container
step accepts.  So `C19_step_refines` speaks about the code that compares bounds; for elements with *other* bounds
`C19_element_accepted_iff_specializes` says when they are accepted. -/
theorem C19_bounds_rule_joins_container_step (t : Ty) (k : Kind) (b : Ty) :
    elementAccepted (canon t) (canon (.agg k b)) = checkType ⟨t, 1⟩ (.agg k b) := by
  unfold elementAccepted
  rw [eraseBounds_canon, eraseBounds_canon, C19_tie_element_bounds_checked]
  simp only [if_true]
  cases hc : checkType ⟨t, 1⟩ (.agg k b) with
  | false => simp
  | true =>
    have hconf := (checkType_iff ⟨t, 1⟩ (.agg k b)).mp hc
    have ht : t = .agg k b := by simpa [conforms] using hconf
    subst ht
    simp [boundsFit_canon_self]


/-! ## what was accepted is a member -/

theorem member_after_add_bag (d : Decl) (b : List Val) (x : Val) : member d (.bag (insertSorted x b)) x = true := by
  simp only [member]
  exact decide_eq_true (((insertSorted_perm x b).map Val.key).mem_iff.mpr (by simp))

theorem member_after_add_set (d : Decl) (s : List Val) (x : Val) : member d (.set (setAdd s x)) x = true := by
  unfold setAdd
  split
  · rename_i h; simp only [member]; exact decide_eq_true h
  · simp only [member]
    exact decide_eq_true (((insertSorted_perm x s).map Val.key).mem_iff.mpr (by simp))

theorem member_after_set_list (d : Decl) (l : List Val) (i : Int) (x : Val) (h1 : 1 ≤ i) (h2 : i ≤ (l.length : Int) + 1) :
    member d (.list (listSet l i x)) x = true := by
  unfold listSet
  split
  · simp only [member]; exact decide_eq_true (by simp)
  · rename_i hne
    have hlt : (i - 1).toNat < l.length := by omega
    simp only [member]
    refine decide_eq_true (List.mem_map.mpr ⟨x, ?_, rfl⟩)
    exact List.mem_iff_getElem.mpr ⟨(i - 1).toNat, by rw [List.length_set]; exact hlt, List.getElem_set_self _⟩

theorem member_after_set_array (d : Decl) (hi : Int) (hd : d.hi = some hi) (a : Int → Option Val) (i : Int) (x : Val)
    (h1 : d.lo ≤ i) (h2 : i ≤ hi) : member d (.array (arraySet a i x)) x = true := by
  simp only [member, hd, Option.getD_some, List.map_map]
  exact decide_eq_true (List.mem_map.mpr ⟨i, mem_indices.mpr ⟨h1, h2⟩, by simp [arraySet]⟩)

/-- **What was accepted is a member**: after an accepted `a[i] := x` or `add(x)` the value `x` is IN the aggregate value
(12.2.3) — for every declaration and every value of the aggregate, on the specification … -/
theorem spec_accepted_is_member (d : Decl) (v : Value) (op : Op) (x : Val)
    (hop : op = .add x ∨ ∃ i, op = .set i x) (hok : (step d v op).2 = .ok) : member d (step d v op).1 x = true := by
  cases v with
  | array a =>
    cases hd : d.hi with
    | none => simp [step, hd] at hok
    | some hi =>
      rcases hop with rfl | ⟨i, rfl⟩
      · simp [step, hd] at hok
      · simp only [step, hd] at hok ⊢
        by_cases hall : arraySetAllowed d hi a i x
        · simp only [hall, if_true]; exact member_after_set_array d hi hd a i x hall.1 hall.2.1
        · simp [hall] at hok
  | list l =>
    rcases hop with rfl | ⟨i, rfl⟩
    · simp [step] at hok
    · simp only [step] at hok ⊢
      by_cases hall : listSetAllowed d l i x
      · simp only [hall, if_true]; exact member_after_set_list d l i x hall.1 hall.2.1
      · simp [hall] at hok
  | bag b =>
    rcases hop with rfl | ⟨i, rfl⟩
    · simp only [step] at hok ⊢
      by_cases hall : bagAddAllowed d b x
      · simp only [hall, if_true]; exact member_after_add_bag d b x
      · simp [hall] at hok
    · simp [step] at hok
  | set s =>
    rcases hop with rfl | ⟨i, rfl⟩
    · simp only [step] at hok ⊢
      by_cases hall : setAddAllowed d s x
      · simp only [hall, if_true]; exact member_after_add_set d s x
      · simp [hall] at hok
    · simp [step] at hok

theorem after_snoc (s : Agg) (ops : List Op) (op : Op) : s.after (ops ++ [op]) = ((s.after ops).step op).1 := by
  induction ops generalizing s with
  | nil => rfl
  | cons o os ih => simp only [List.cons_append, Agg.after]; exact ih _

/-- … and on the code: in every reachable state, after an accepted `container[i] = x` or `container.add(x)`,
`x in container` is True (once `__contains__` is defined, `C19_tie_membership_defined`). -/
theorem C19_accepted_value_is_a_member (d : Decl) (s : Agg) (h : Reachable d s) (op : Op) (x : Val)
    (hop : op = .add x ∨ ∃ i, op = .set i x) (hok : (s.step op).2.obs = .ok) : (s.step op).1.contains x = true := by
  have hsim := C19_step_refines d s h op
  have hreach : Reachable d (s.step op).1 := by
    obtain ⟨s0, ops, hnew, rfl⟩ := h
    exact ⟨s0, ops ++ [op], hnew, (after_snoc s0 ops op).symm⟩
  rw [C19_membership_refines d _ hreach x]
  have h1 : (step d (abs s) op).1 = abs (s.step op).1 := by rw [hsim]
  have h2 : (step d (abs s) op).2 = .ok := by rw [hsim]; exact hok
  rw [← h1]
  exact spec_accepted_is_member d (abs s) op x hop h2


theorem spec_add_keeps_members (d : Decl) (v : Value) (x y : Val) (hy : member d v y = true) :
    member d (step d v (.add x)).1 y = true := by
  cases v with
  | array a => cases hd : d.hi <;> simpa [step, hd] using hy
  | list l => simpa [step] using hy
  | bag b =>
    simp only [step]
    split
    · simp only [member, decide_eq_true_eq] at hy ⊢
      exact ((insertSorted_perm x b).map Val.key).mem_iff.mpr (List.mem_cons_of_mem _ hy)
    · exact hy
  | set s =>
    simp only [step]
    split
    · simp only [member, decide_eq_true_eq] at hy
      unfold setAdd
      split
      · simp only [member]; exact decide_eq_true hy
      · simp only [member]
        exact decide_eq_true (((insertSorted_perm x s).map Val.key).mem_iff.mpr (List.mem_cons_of_mem _ hy))
    · exact hy

/-- **`add` never removes a member**: whatever is IN a container stays IN it after any `add`, accepted or refused — in
every reachable state, for BAG and SET (and trivially for ARRAY and LIST, which refuse `add`). -/
theorem C19_add_keeps_members (d : Decl) (s : Agg) (h : Reachable d s) (x y : Val) (hy : s.contains y = true) :
    (s.step (.add x)).1.contains y = true := by
  have hreach : Reachable d (s.step (.add x)).1 := by
    obtain ⟨s0, ops, hnew, rfl⟩ := h
    exact ⟨s0, ops ++ [.add x], hnew, (after_snoc s0 ops _).symm⟩
  rw [C19_membership_refines d _ hreach y]
  have h1 : (step d (abs s) (.add x)).1 = abs (s.step (.add x)).1 := by rw [C19_step_refines d s h (.add x)]
  rw [← h1]
  exact spec_add_keeps_members d (abs s) x y (by rw [← C19_membership_refines d s h y]; exact hy)


end StepModel.PyAgg
